// Package c05: typed numbers <-> strings (pkg/eval/vals ParseNum / ToString and
// the num, to-string, exact-num, inexact-num builtins).
package c05

import (
	"fmt"
	"math"
	"math/big"
	"strconv"
	"strings"

	"src.elv.sh/pkg/eval"
	"src.elv.sh/pkg/eval/vals"
	"src.elv.sh/pkg/eval/vars"
	"src.elv.sh/pkg/parse"
	. "verifharness/coqfmt"
	"verifharness/reg"
)

func init() {
	reg.Register(&reg.Spec{ID: "C05",
		Imports: "From verif Require Import lib.Base model.C05.",
		Judge:   "C05.judge", Shard: 400, Run: run})
}

type desc struct {
	Kind string `json:"kind"` // num | lit | str
	Via  string `json:"via"`  // api | builtin
	In   string `json:"in"`   // the typed number (repr) or the string
	Str  string `json:"str,omitempty"`
	Obs  string `json:"obs"`
}

// ---------------------------------------------------------------- Coq printing

// hN / hZ print numbers as big-endian byte strings: (beN (hx "3ff0...")), (hZ true (hx "..")).
// Coq parses string literals much faster than numerals.
func hN(u uint64) string {
	return App("beN", Bytes(new(big.Int).SetUint64(u).Bytes()))
}
func hZ(z *big.Int) string {
	return App("hZ", Bool(z.Sign() < 0), Bytes(new(big.Int).Abs(z).Bytes()))
}

func numCoq(v any) string {
	switch v := v.(type) {
	case int:
		return App("NInt", hZ(big.NewInt(int64(v))))
	case *big.Int:
		return App("NBig", hZ(v))
	case *big.Rat:
		return App("NRat", hZ(v.Num()), hZ(v.Denom()))
	case float64:
		return App("NFloat", hN(math.Float64bits(v)))
	}
	return "(NInt 0%Z)" // unreachable for numbers; callers check isNum first
}

func isNum(v any) bool {
	switch v.(type) {
	case int, *big.Int, *big.Rat, float64:
		return true
	}
	return false
}

func presCoq(v any) string {
	if v == nil || !isNum(v) {
		return "PNil"
	}
	return App("PNum", numCoq(v))
}

func showNum(v any) string {
	switch v := v.(type) {
	case nil:
		return "nil"
	case float64:
		return fmt.Sprintf("float64 %#016x", math.Float64bits(v))
	case int:
		return fmt.Sprintf("int %d", v)
	case *big.Int:
		return "big.Int " + v.String()
	case *big.Rat:
		return "big.Rat " + v.String()
	}
	return fmt.Sprintf("%T %v", v, v)
}

// bs prints a byte string, with runs of 12 or more equal bytes run-length
// encoded (the zeros of a %f text): (cat [hx "31"; rep 48%N 300%N; hx "2e30"]).
func bs(s string) string {
	var parts []string
	start := 0
	flush := func(end int) {
		if end > start {
			parts = append(parts, Str(s[start:end]))
		}
	}
	i := 0
	for i < len(s) {
		j := i
		for j < len(s) && s[j] == s[i] {
			j++
		}
		if j-i >= 12 {
			flush(i)
			parts = append(parts, App("rep", N(uint64(s[i])), N(uint64(j-i))))
			start = j
		}
		i = j
	}
	if len(parts) == 0 {
		return Str(s)
	}
	flush(len(s))
	return App("cat", List(parts))
}

// pfTab is Go's ParseFloat on the given strings: the Section function pf of the
// model, tabulated on the arguments the model can ask about in this case.
func pfTab(ss ...string) string {
	seen := map[string]bool{}
	var items []string
	for _, s := range ss {
		if seen[s] {
			continue
		}
		seen[s] = true
		f, err := strconv.ParseFloat(s, 64)
		v := None()
		if err == nil {
			v = Some(hN(math.Float64bits(f)))
		}
		items = append(items, Pair(bs(s), v))
	}
	return List(items)
}

// ---------------------------------------------------------------- routes

type route struct {
	name string
	// toStringParse: string form of a typed number, and that string parsed back
	roundtrip func(x any) (string, any, string)
	// parse: a string through num
	parse func(s string) (any, string)
}

func apiRoute() route {
	return route{"api",
		func(x any) (string, any, string) {
			s := vals.ToString(x)
			return s, vals.ParseNum(s), ""
		},
		func(s string) (any, string) { return vals.ParseNum(s), "" }}
}

type evalRoute struct{ ev *eval.Evaler }

func (r evalRoute) eval(code string, bind map[string]any) ([]any, error) {
	nb := eval.BuildNs()
	for k, v := range bind {
		nb = nb.AddVar(k, vars.FromInit(v))
	}
	r.ev.ExtendGlobal(nb)
	port, collect, err := eval.ValueCapturePort()
	if err != nil {
		return nil, err
	}
	err = r.ev.Eval(parse.Source{Name: "c05", Code: code},
		eval.EvalCfg{Ports: []*eval.Port{eval.DummyInputPort, port, eval.DummyOutputPort}})
	return collect(), err
}

func builtinRoute(ev *eval.Evaler) route {
	r := evalRoute{ev}
	return route{"builtin",
		func(x any) (string, any, string) {
			out, err := r.eval("put (to-string $c05x)", map[string]any{"c05x": x})
			if err != nil || len(out) != 1 {
				return "", nil, fmt.Sprintf("to-string failed: %v %v", err, out)
			}
			s, ok := out[0].(string)
			if !ok {
				return "", nil, fmt.Sprintf("to-string gave %T", out[0])
			}
			out, err = r.eval("put (num (to-string $c05x))", nil)
			if err != nil || len(out) != 1 {
				return s, nil, ""
			}
			return s, out[0], ""
		},
		func(s string) (any, string) {
			out, err := r.eval("put (num $c05s)", map[string]any{"c05s": s})
			if err != nil || len(out) != 1 {
				return nil, ""
			}
			return out[0], ""
		}}
}

// ---------------------------------------------------------------- emitters

type runner struct {
	c      *reg.Ctx
	routes []route
}

func floatClass(f float64) string {
	b := math.Float64bits(f)
	e := (b >> 52) & 0x7ff
	switch {
	case math.IsNaN(f):
		return "float-nan"
	case math.IsInf(f, 0):
		return "float-inf"
	case f == 0:
		return "float-zero"
	case e == 0:
		return "float-subnormal"
	}
	a := math.Abs(f)
	switch {
	case a >= 1e21:
		return "float-huge"
	case a >= 1e14 && a == math.Trunc(a):
		return "float-int-15digits+"
	case a == math.Trunc(a):
		return "float-integral"
	case a < 1e-4:
		return "float-tiny"
	}
	return "float-fraction"
}

func numClass(x any) string {
	switch x := x.(type) {
	case int:
		return "int"
	case *big.Int:
		return "bigint"
	case *big.Rat:
		return "rat"
	case float64:
		return floatClass(x)
	}
	return "other"
}

func (r *runner) emitNum(x any, src string) {
	ff, fe := "", ""
	if f, ok := x.(float64); ok {
		ff = strconv.FormatFloat(f, 'f', -1, 64)
		fe = strconv.FormatFloat(f, 'e', -1, 64)
	}
	class := numClass(x)
	nontrivial := true
	if i, ok := x.(int); ok && i > -10 && i < 10 {
		nontrivial = false
	}
	for _, rt := range r.routes {
		s, y, direct := rt.roundtrip(x)
		r.c.Count("num/" + rt.name + "/" + src + "/" + class)
		r.c.Emit(reg.Case{
			Coq:        App("CNum", numCoq(x), bs(ff), bs(fe), pfTab(ff, fe, ff+".0", s), bs(s), presCoq(y)),
			Desc:       desc{"num", rt.name, showNum(x), s, showNum(y)},
			Key:        "num/" + rt.name + "/" + showNum(x),
			Nontrivial: nontrivial,
			Class:      class,
			Direct:     direct,
		})
	}
}

func (r *runner) emitLit(l lit) {
	s := l.render()
	class := l.class()
	for _, rt := range r.routes {
		y, direct := rt.parse(s)
		r.c.Count("lit/" + rt.name + "/" + class)
		r.c.Emit(reg.Case{
			Coq:        App("CLit", l.coq(), bs(s), pfTab(s), presCoq(y)),
			Desc:       desc{"lit", rt.name, s, "", showNum(y)},
			Key:        "lit/" + rt.name + "/" + s,
			Nontrivial: len(s) > 2,
			Class:      class,
			Direct:     direct,
		})
	}
}

func (r *runner) emitStr(s, class string) {
	for _, rt := range r.routes {
		y, direct := rt.parse(s)
		r.c.Count("str/" + rt.name + "/" + class)
		r.c.Emit(reg.Case{
			Coq:        App("CStr", bs(s), pfTab(s), presCoq(y)),
			Desc:       desc{"str", rt.name, s, "", showNum(y)},
			Key:        "str/" + rt.name + "/" + s,
			Nontrivial: len(s) > 0,
			Class:      class,
			Direct:     direct,
		})
	}
}

// ---------------------------------------------------------------- literals as data

type dig struct {
	v       int
	up, sep bool
}

type natlit struct {
	base int
	up   bool
	ds   []dig
}

type lit struct {
	kind string // int rat float special
	neg  bool
	n, d natlit
	// float
	ip, fp, ed   []dig
	hasFp, hasEx bool
	eUp          bool
	eSign        int // 0 none 1 + 2 -
	// special
	sp  int // 0 +Inf 1 -Inf 2 NaN
	ups []bool
}

func digChar(d dig) byte {
	if d.v < 10 {
		return byte('0' + d.v)
	}
	if d.up {
		return byte('A' + d.v - 10)
	}
	return byte('a' + d.v - 10)
}

func renderDigits(ds []dig) string {
	var sb strings.Builder
	for i, d := range ds {
		if i > 0 && d.sep {
			sb.WriteByte('_')
		}
		sb.WriteByte(digChar(d))
	}
	return sb.String()
}

func (n natlit) render() string {
	p := ""
	switch n.base {
	case 16:
		p = "0x"
	case 8:
		p = "0o"
	case 2:
		p = "0b"
	}
	if n.up {
		p = strings.ToUpper(p)
	}
	return p + renderDigits(n.ds)
}

func caseWord(w string, ups []bool) string {
	b := []byte(w)
	for i := range b {
		if i < len(ups) && ups[i] {
			b[i] -= 32
		}
	}
	return string(b)
}

func (l lit) render() string {
	sign := ""
	if l.neg {
		sign = "-"
	}
	switch l.kind {
	case "int":
		return sign + l.n.render()
	case "rat":
		return sign + l.n.render() + "/" + l.d.render()
	case "float":
		s := sign + renderDigits(l.ip)
		if l.hasFp {
			s += "." + renderDigits(l.fp)
		}
		if l.hasEx {
			if l.eUp {
				s += "E"
			} else {
				s += "e"
			}
			s += []string{"", "+", "-"}[l.eSign] + renderDigits(l.ed)
		}
		return s
	default:
		switch l.sp {
		case 0:
			return "+" + caseWord("inf", l.ups)
		case 1:
			return "-" + caseWord("inf", l.ups)
		}
		return caseWord("nan", l.ups)
	}
}

func digsCoq(ds []dig) string {
	b := make([]byte, len(ds))
	for i, d := range ds {
		b[i] = byte(d.v)
		if d.up {
			b[i] |= 16
		}
		if d.sep {
			b[i] |= 32
		}
	}
	return App("digs", Bytes(b))
}

func (n natlit) coq() string {
	return App("mkNat", N(uint64(n.base)), Bool(n.up), digsCoq(n.ds))
}

func (l lit) coq() string {
	switch l.kind {
	case "int":
		return App("LInt", Bool(l.neg), l.n.coq())
	case "rat":
		return App("LRat", Bool(l.neg), l.n.coq(), l.d.coq())
	case "float":
		fp, ex := None(), None()
		if l.hasFp {
			fp = Some(digsCoq(l.fp))
		}
		if l.hasEx {
			ex = Some("(" + Bool(l.eUp) + ", " + N(uint64(l.eSign)) + ", " + digsCoq(l.ed) + ")")
		}
		return App("LFloat", App("mkFloat", Bool(l.neg), digsCoq(l.ip), fp, ex))
	default:
		ups := make([]string, len(l.ups))
		for i, u := range l.ups {
			ups[i] = Bool(u)
		}
		return App("LSpecial", []string{"SPInf", "SNInf", "SNaN"}[l.sp], List(ups))
	}
}

func digitsValue(base int, ds []dig) *big.Int {
	v := new(big.Int)
	for _, d := range ds {
		v.Mul(v, big.NewInt(int64(base)))
		v.Add(v, big.NewInt(int64(d.v)))
	}
	return v
}

// outOfRange: |value| >= (2^53 - 1/2) * 2^971, the point from which binary64
// round-to-nearest-even gives an infinity.  Computed from the input alone.
func (l lit) outOfRange() bool {
	m := digitsValue(10, append(append([]dig{}, l.ip...), l.fp...))
	e := new(big.Int)
	if l.hasEx {
		e = digitsValue(10, l.ed)
		if l.eSign == 2 {
			e.Neg(e)
		}
	}
	e.Sub(e, big.NewInt(int64(len(l.fp))))
	if m.Sign() == 0 {
		return false
	}
	if !e.IsInt64() || e.Int64() > 400 {
		return e.Sign() > 0
	}
	if e.Int64() < -100000 {
		return false
	}
	v := new(big.Rat).SetInt(m)
	p := new(big.Int).Exp(big.NewInt(10), new(big.Int).Abs(e), nil)
	if e.Sign() >= 0 {
		v.Mul(v, new(big.Rat).SetInt(p))
	} else {
		v.Quo(v, new(big.Rat).SetInt(p))
	}
	lim := new(big.Int).Lsh(big.NewInt(1), 54)
	lim.Sub(lim, big.NewInt(1)) // 2^54 - 1 = 2 * (2^53 - 1/2)
	lim.Lsh(lim, 970)
	return v.Cmp(new(big.Rat).SetInt(lim)) >= 0
}

func (l lit) class() string {
	switch l.kind {
	case "int":
		return fmt.Sprintf("lit-int-base%d", l.n.base)
	case "rat":
		return "lit-rat"
	case "float":
		if l.outOfRange() {
			return "lit-float-out-of-range"
		}
		return "lit-float"
	}
	return "lit-special"
}

// ---------------------------------------------------------------- generators

func (r *runner) genDigits(base, n int, leadingZeroOK bool) []dig {
	rnd := r.c.Rand
	ds := make([]dig, n)
	sepP := []int{0, 0, 3, 8}[rnd.Intn(4)] // out of 10
	for i := range ds {
		ds[i] = dig{rnd.Intn(base), rnd.Intn(2) == 0, rnd.Intn(10) < sepP}
	}
	if !leadingZeroOK && n > 1 && ds[0].v == 0 {
		ds[0].v = 1 + rnd.Intn(base-1)
	}
	return ds
}

func (r *runner) genLen() int {
	rnd := r.c.Rand
	switch rnd.Intn(10) {
	case 0:
		return 1
	case 1:
		return 18 + rnd.Intn(6) // around the int64 boundary in decimal
	case 2:
		return 20 + rnd.Intn(30)
	}
	return 1 + rnd.Intn(12)
}

func (r *runner) genNat() natlit {
	rnd := r.c.Rand
	base := []int{10, 10, 16, 8, 2}[rnd.Intn(5)]
	n := r.genLen()
	if base == 2 && rnd.Intn(3) == 0 {
		n = 60 + rnd.Intn(10)
	}
	return natlit{base, rnd.Intn(2) == 0, r.genDigits(base, n, base != 10)}
}

func (r *runner) genLit() lit {
	rnd := r.c.Rand
	switch k := rnd.Intn(20); {
	case k < 7:
		return lit{kind: "int", neg: rnd.Intn(3) == 0, n: r.genNat()}
	case k < 11:
		d := r.genNat()
		if digitsValue(d.base, d.ds).Sign() == 0 {
			d.ds[len(d.ds)-1].v = 1
		}
		return lit{kind: "rat", neg: rnd.Intn(3) == 0, n: r.genNat(), d: d}
	case k < 19:
		l := lit{kind: "float", neg: rnd.Intn(3) == 0}
		nip := 1 + rnd.Intn(6)
		if rnd.Intn(8) == 0 {
			nip = 15 + rnd.Intn(10)
		}
		l.ip = r.genDigits(10, nip, false)
		form := rnd.Intn(3) // 0: point only, 1: exponent only, 2: both
		if form != 1 {
			l.hasFp = true
			nfp := 1 + rnd.Intn(8)
			if rnd.Intn(6) == 0 {
				nfp = 15 + rnd.Intn(25)
			}
			l.fp = r.genDigits(10, nfp, true)
		}
		if form != 0 {
			l.hasEx = true
			l.eUp = rnd.Intn(2) == 0
			l.eSign = rnd.Intn(3)
			ned := 1 + rnd.Intn(2)
			if rnd.Intn(4) == 0 {
				ned = 3 // up to 999: crosses the overflow and underflow edges
			}
			l.ed = r.genDigits(10, ned, true)
			if ned == 3 {
				l.ed[0].v = rnd.Intn(4)
			}
		}
		return l
	default:
		ups := []bool{rnd.Intn(2) == 0, rnd.Intn(2) == 0, rnd.Intn(2) == 0}
		return lit{kind: "special", sp: rnd.Intn(3), ups: ups}
	}
}

func (r *runner) genFloat() float64 {
	rnd := r.c.Rand
	switch rnd.Intn(12) {
	case 0, 1, 2: // uniform bit pattern
		return math.Float64frombits(rnd.Uint64())
	case 3: // exponent field uniform, mantissa at an edge
		e := uint64(rnd.Intn(2048))
		m := []uint64{0, 1, 1<<52 - 1, 1 << 51, rnd.Uint64() & (1<<52 - 1)}[rnd.Intn(5)]
		return math.Float64frombits(uint64(rnd.Intn(2))<<63 | e<<52 | m)
	case 4: // integral values of every length up to 24 digits
		n := 1 + rnd.Intn(24)
		f := math.Floor(rnd.Float64() * math.Pow(10, float64(n)))
		if rnd.Intn(2) == 0 {
			f = math.Round(f/math.Pow(10, float64(rnd.Intn(n+1)))) * math.Pow(10, float64(rnd.Intn(n+1)))
		}
		return sign(rnd.Intn(2)) * f
	case 5: // powers of ten and their neighbours
		f := math.Pow(10, float64(rnd.Intn(60)-30))
		switch rnd.Intn(3) {
		case 0:
			f = math.Nextafter(f, 0)
		case 1:
			f = math.Nextafter(f, math.Inf(1))
		}
		return sign(rnd.Intn(2)) * f
	case 6: // small magnitudes around the 0.0001 notation switch
		return sign(rnd.Intn(2)) * float64(1+rnd.Intn(9999)) * math.Pow(10, float64(-rnd.Intn(12)))
	case 7: // short decimals
		f, _ := strconv.ParseFloat(fmt.Sprintf("%d.%d", rnd.Intn(100000), rnd.Intn(1000)), 64)
		return sign(rnd.Intn(2)) * f
	case 8: // subnormals
		return math.Float64frombits(uint64(rnd.Intn(2))<<63 | rnd.Uint64()&(1<<52-1)>>uint(rnd.Intn(52)))
	case 9: // around 1e14..1e16 where the 14-character rule bites
		return sign(rnd.Intn(2)) * math.Floor((1+9*rnd.Float64())*math.Pow(10, float64(12+rnd.Intn(5))))
	case 10: // NaN payloads and infinities
		if rnd.Intn(3) == 0 {
			return math.Inf(1 - 2*rnd.Intn(2))
		}
		return math.Float64frombits(uint64(rnd.Intn(2))<<63 | 0x7ff<<52 | (rnd.Uint64()&(1<<52-1) | 1))
	}
	return rnd.NormFloat64() * math.Pow(10, float64(rnd.Intn(40)-20))
}

func sign(i int) float64 {
	if i == 0 {
		return 1
	}
	return -1
}

func (r *runner) genBig(bits int) *big.Int {
	rnd := r.c.Rand
	z := new(big.Int)
	for i := 0; i < bits; i += 32 {
		z.Lsh(z, 32)
		z.Or(z, big.NewInt(int64(rnd.Uint32())))
	}
	if rnd.Intn(2) == 0 {
		z.Neg(z)
	}
	return z
}

func (r *runner) genExact() any {
	rnd := r.c.Rand
	switch rnd.Intn(10) {
	case 0, 1:
		return int(int64(rnd.Uint64()))
	case 2:
		return rnd.Intn(2001) - 1000
	case 3: // around the int / big.Int boundary
		z := new(big.Int).Lsh(big.NewInt(1), 63)
		z.Add(z, big.NewInt(int64(rnd.Intn(7)-3)))
		if rnd.Intn(2) == 0 {
			z.Neg(z)
		}
		return vals.NormalizeBigInt(z)
	case 4:
		return vals.NormalizeBigInt(r.genBig(64 + rnd.Intn(400)))
	case 5: // powers of ten (trailing zeros in the decimal text)
		z := new(big.Int).Exp(big.NewInt(10), big.NewInt(int64(rnd.Intn(60))), nil)
		if rnd.Intn(2) == 0 {
			z.Neg(z)
		}
		return vals.NormalizeBigInt(z)
	case 6: // small rationals
		d := int64(1 + rnd.Intn(1000))
		return vals.NormalizeBigRat(big.NewRat(int64(rnd.Intn(20001)-10000), d))
	default: // big rationals
		n, d := r.genBig(32+rnd.Intn(300)), r.genBig(32+rnd.Intn(300))
		if d.Sign() == 0 {
			d.SetInt64(3)
		}
		return vals.NormalizeBigRat(new(big.Rat).SetFrac(n, d))
	}
}

var fixedFloats = []uint64{
	0, 1 << 63, 1, 1<<63 | 1, 1<<52 - 1, 1 << 52, 0x7fefffffffffffff, 0xffefffffffffffff,
	0x7ff0000000000000, 0xfff0000000000000, 0x7ff8000000000001, 0x7ff0000000000001, 0xfff8000000000000,
	0x4340000000000000, 0x433fffffffffffff, 0x4340000000000001, // 2^53 and neighbours
	0x3ff0000000000000, 0xbff0000000000000, 0x3fb999999999999a,
}

var fixedFloatTexts = []string{"1e14", "1e13", "99999999999999", "100000000000000", "123456789012345", "1234567890123450",
	"1e15", "1e20", "1e21", "1e22", "0.0001", "0.00001", "-0.00001", "0.00009999", "-0.0001", "1e-7", "123456789012340",
	"10000000000000", "12345678901234", "-1234567890123", "-12345678901230", "1e23", "5e-324", "2.5", "100", "-100"}

// strings outside every number syntax (the oracle decides which of them fall in
// the stated non-number grammar) and strings Go accepts outside the documented ones
var fixedStrings = []string{"", " ", "1 ", " 1", "a", "x", "_", "+", "-", ".", "/", "1/", "/1", "1//2", "1/2/3", "1/-2", "1/+2",
	"1/2.5", "1.5/2", "1e2/3", "--1", "+-1", "1-", "1+1", "0x", "0b", "0o", "0xg", "0b2", "0o8", "1_", "_1", "1__0", "0x_",
	"1e", "e5", "1e+", "1.2.3", "1..2", "0x1.8", "infx", "nanx", "+nan", "-nan", "in", "na", "infinit", "1,5", "१२३", "1\x00",
	"\xff", "0x1p", "12a", "abc", "true", "$x", "1/0", "0/0", "1/0x0", "１", "1e5_", "1_e5", "1._5", "1_.5", "Inf/1", "1/Inf", "NaN/NaN",
	// accepted by Go though not documented: only model correspondence is demanded
	"0755", "08", "09.5", "0_1", "00", "+7", "+0x10", ".5", "5.", "-.5", "Inf", "inf", "infinity", "+Infinity", "-INFINITY", "nan", "NAN",
	"0x1p-2", "0X1P4", "0x1.8p1", "0x_1", "0b_1", "0o_7", "1_0.5", "1_0e1_0", "1e400", "-1e400", "1e-400", "1e309", "1.8e308",
	"179769313486231580793728971405303415079934132710037826936173778980444968292764750946649017977587207096330286416692887910946555547851940402630657488671505820681908902000708383676273854845817711531764475730270069855571366959622842914819860834936475292719074168444365510704342711559699508093042880177904174497792",
	"0/5", "-0/5", "-0", "+0", "0x0", "-0x0", "0b0/0b1", "4/2", "-6/3", "10/4", "0x10/100", "9223372036854775807", "9223372036854775808",
	"-9223372036854775808", "-9223372036854775809", "18446744073709551616", "9223372036854775808/1", "0x7fffffffffffffff", "0x8000000000000000",
	"-0x8000000000000000", "0o777777777777777777777", "0o1000000000000000000000", "1e5", "1E5", "1.0e1", "10.0", "1.234_56e3", "1_2_3", "1_000_000"}

func (r *runner) mutate(s string) string {
	rnd := r.c.Rand
	b := []byte(s)
	pos := rnd.Intn(len(b) + 1)
	ins := func(x string) string { return string(b[:pos]) + x + string(b[pos:]) }
	switch rnd.Intn(9) {
	case 0:
		return ins("_")
	case 1:
		return ins("__")
	case 2:
		return ins([]string{" ", ",", "$", "'", "#", "\t", "é", "*", ":"}[rnd.Intn(9)])
	case 3:
		return ins([]string{"g", "z", "p", "x", "e", "i", "n"}[rnd.Intn(7)])
	case 4:
		return ins([]string{"+", "-", ".", "/"}[rnd.Intn(4)])
	case 5:
		if len(b) > 0 {
			p := rnd.Intn(len(b))
			return string(b[:p]) + string(b[p+1:])
		}
		return "_"
	case 6:
		return s + []string{"_", "e", "/", ".", "x", "/0"}[rnd.Intn(6)]
	case 7:
		return []string{"_", "+", "-", "0", "00", "."}[rnd.Intn(6)] + s
	}
	if len(b) > 0 {
		b[rnd.Intn(len(b))] = byte(33 + rnd.Intn(94))
	}
	return string(b)
}

func (r *runner) randomString() string {
	rnd := r.c.Rand
	al := []string{"0123456789abcdefxXoObBeE_+-./", "01_", "infatyINFATY+-", "0123456789._eE+-", "09/_x"}[rnd.Intn(5)]
	n := rnd.Intn(8)
	b := make([]byte, n)
	for i := range b {
		b[i] = al[rnd.Intn(len(al))]
	}
	return string(b)
}

// ---------------------------------------------------------------- run

func run(c *reg.Ctx) {
	ev := eval.NewEvaler()
	r := &runner{c: c, routes: []route{apiRoute(), builtinRoute(ev)}}
	br := evalRoute{ev}

	// fixed boundary numbers
	for _, b := range fixedFloats {
		r.emitNum(math.Float64frombits(b), "fixed")
	}
	for _, t := range fixedFloatTexts {
		f, _ := strconv.ParseFloat(t, 64)
		r.emitNum(f, "fixed")
	}
	for _, z := range []int{0, 1, -1, 9, 10, -10, math.MaxInt64, math.MinInt64, 1 << 53, 755, 100000000000000} {
		r.emitNum(z, "fixed")
	}
	for _, t := range []string{"9223372036854775808", "-9223372036854775809", "18446744073709551616",
		"100000000000000000000000000000000000000", "-340282366920938463463374607431768211456"} {
		z, _ := new(big.Int).SetString(t, 10)
		r.emitNum(vals.NormalizeBigInt(z), "fixed")
	}
	for _, t := range []string{"1/2", "-1/3", "22/7", "9223372036854775808/3", "-1/9223372036854775808", "10/1000000000000000000000001"} {
		q, _ := new(big.Rat).SetString(t)
		r.emitNum(vals.NormalizeBigRat(q), "fixed")
	}
	// fixed strings: documented examples, undocumented-but-accepted, non-numbers
	for _, s := range fixedStrings {
		r.emitStr(s, "str-fixed")
	}
	// exhaustive: every string of length <= 3 over a small number alphabet
	small := "01_x/.e-"
	var all []string
	var rec func(p string, k int)
	rec = func(p string, k int) {
		all = append(all, p)
		if k == 0 {
			return
		}
		for i := 0; i < len(small); i++ {
			rec(p+string(small[i]), k-1)
		}
	}
	rec("", 3)
	apiOnly := &runner{c: c, routes: r.routes[:1]}
	for _, s := range all {
		apiOnly.emitStr(s, "str-exhaustive3")
	}

	// random part: about c.N cases in all (each emit produces one per route)
	budget := c.N / 2
	for i := 0; i < budget; i++ {
		switch k := c.Rand.Intn(20); {
		case k < 6:
			r.emitNum(r.genFloat(), "gen")
		case k < 9:
			r.emitNum(r.genExact(), "gen")
		case k < 10:
			// typed numbers produced by the conversion builtins
			var src any
			code := "put (exact-num $c05a)"
			if c.Rand.Intn(2) == 0 {
				src = r.genFloat()
			} else {
				src = r.genExact()
				code = "put (inexact-num $c05a)"
			}
			out, err := br.eval(code, map[string]any{"c05a": src})
			if err == nil && len(out) == 1 && isNum(out[0]) {
				r.emitNum(out[0], "conv")
			} else {
				r.emitNum(src, "gen")
			}
		case k < 15:
			r.emitLit(r.genLit())
		case k < 18:
			var base string
			if c.Rand.Intn(3) == 0 {
				base = vals.ToString(r.genExact())
			} else {
				base = r.genLit().render()
			}
			r.emitStr(r.mutate(base), "str-mutated")
		default:
			r.emitStr(r.randomString(), "str-random")
		}
	}
}
