// Package c19: interrupting an evaluation (pkg/eval/interrupts.go,
// compile_effect.go, builtin_fn_flow.go:peach, builtin_fn_time.go:sleep).
//
// Three kinds of runs:
//  1. sync: a generated program of the mini-language of coq/model/C19.v (ticks, a
//     verif:cancel that cancels the evaluation's context synchronously, fail,
//     lambda calls, try/catch/finally, each, defer) runs in a fresh Evaler; the
//     recorded tick/cancel trace and the result kind are compared with the model
//     and judged by the oracle inside Coq.  Hand-written programs (loops,
//     pipelines, sleep, nested calls) are judged by the oracle only.
//  2. peach: bounded peach with Go callbacks cancelled from inside callback
//     number k; the number of callbacks running at once is recorded.
//  3. async: programs interrupted from a timer at swept and random delays,
//     looking for crashes, hangs, goroutine leaks and wrong result kinds.
//
// 2 and 3 run in a child process (re-exec of this binary with
// VERIF_C19_CHILD=1) because a panic in a goroutine of the interpreter kills the
// whole process.
package c19

import (
	"bufio"
	"context"
	"encoding/json"
	"errors"
	"fmt"
	"os"
	"os/exec"
	"reflect"
	"runtime"
	"strconv"
	"strings"
	"sync"
	"time"

	"src.elv.sh/pkg/eval"
	"src.elv.sh/pkg/eval/vars"
	"src.elv.sh/pkg/parse"
	. "verifharness/coqfmt"
	"verifharness/reg"
)

func init() {
	if os.Getenv("VERIF_C19_CHILD") == "1" {
		childMain()
		os.Exit(0)
	}
	reg.Register(&reg.Spec{ID: "C19",
		Imports: "From verif Require Import lib.Base model.C19.",
		Judge:   "C19.judge", Shard: 100, Run: run})
}

// ------------------------------------------------------------------ recorder

type recorder struct {
	mu       sync.Mutex
	events   []string // "t<id>" | "c"
	cancel   context.CancelFunc
	running  int
	maxrun   int
	cancelAt int
	loopK    [64]int // while loops of the mini-language: iterations per execution
	loopN    [64]int
	hold     time.Duration
	onEnter  func(running int)
	onGo     func()
}

func (r *recorder) add(e string) {
	r.mu.Lock()
	r.events = append(r.events, e)
	r.mu.Unlock()
}

func newEvaler(r *recorder) *eval.Evaler {
	ev := eval.NewEvaler()
	ns := eval.BuildNsNamed("verif").AddGoFns(map[string]any{
		"tick":   func(id int) { r.add("t" + strconv.Itoa(id)) },
		"cancel": func() { r.add("c"); r.cancel() },
		// a Go callback for peach: enter, maybe cancel, stay a while, leave
		"cb": func(x int) {
			r.mu.Lock()
			r.running++
			if r.running > r.maxrun {
				r.maxrun = r.running
			}
			run := r.running
			r.mu.Unlock()
			if r.onEnter != nil {
				r.onEnter(run)
			}
			if x == r.cancelAt {
				r.add("c")
				r.cancel()
			}
			time.Sleep(r.hold)
			r.mu.Lock()
			r.running--
			r.mu.Unlock()
		},
		"work": func(us int) { time.Sleep(time.Duration(us) * time.Microsecond) },
		// marks the point from which an asynchronous interrupt's delay is counted
		"go": func() {
			if r.onGo != nil {
				r.onGo()
			}
		},
	})
	// $verif:w<i>: the condition of while loop i of a generated program -- a pure
	// value expression (no pipeline): true loopK[i] times, then false (and reset)
	for i := range r.loopK {
		i := i
		ns = ns.AddVar("w"+strconv.Itoa(i), vars.FromGet(func() any {
			r.mu.Lock()
			defer r.mu.Unlock()
			if r.loopN[i] >= r.loopK[i] {
				r.loopN[i] = 0
				return false
			}
			r.loopN[i]++
			return true
		}))
	}
	ev.ExtendBuiltin(eval.BuildNs().AddNs("verif", ns))
	return ev
}

func resKind(err error) string {
	if err == nil {
		return "ok"
	}
	var reason error = err
	if exc, ok := err.(eval.Exception); ok {
		reason = exc.Reason()
	}
	if errors.Is(reason, eval.ErrInterrupted) {
		return "int"
	}
	switch e := reason.(type) {
	case eval.FailError:
		if s, ok := e.Content.(string); ok && strings.HasPrefix(s, "f") {
			if _, perr := strconv.Atoi(s[1:]); perr == nil {
				return s
			}
		}
	case eval.PipelineError:
		// interrupted if every failed part was interrupted
		all := true
		for _, x := range e.Errors {
			if x != nil && x.Reason() != nil && !errors.Is(x.Reason(), eval.ErrInterrupted) {
				all = false
			}
		}
		if all {
			return "int"
		}
	}
	// errutil.multiError (peach) is an unexported []error: interrupted if all parts are
	if v := reflect.ValueOf(reason); v.Kind() == reflect.Slice && v.Len() > 0 {
		all := true
		for i := 0; i < v.Len(); i++ {
			x, ok := v.Index(i).Interface().(error)
			if !ok || resKind(x) != "int" {
				all = false
			}
		}
		if all {
			return "int"
		}
	}
	if _, bad := err.(*parse.Error); bad || strings.Contains(err.Error(), "compilation error") {
		panic("c19: program does not compile: " + err.Error())
	}
	msg := reason.Error()
	if len(msg) > 120 {
		msg = msg[:120] + "..."
	}
	return "other:" + msg
}

func resCoq(k string) string {
	switch {
	case k == "ok":
		return "ROk"
	case k == "int":
		return "RInt"
	case strings.HasPrefix(k, "f"):
		i, _ := strconv.Atoi(k[1:])
		return App("RFail", N(uint64(i)))
	}
	return "ROther"
}

func traceCoq(evs []string) string {
	items := make([]string, len(evs))
	for i, e := range evs {
		if e == "c" {
			items[i] = "ECancel"
		} else {
			id, _ := strconv.Atoi(e[1:])
			items[i] = App("ETick", N(uint64(id)))
		}
	}
	return List(items)
}

// runSync evaluates code with a cancellable context; verif:cancel cancels it.
func runSync(code string, loops []form, watchdog time.Duration) (evs []string, kind string, elapsed time.Duration, hung bool) {
	ctx, cancel := context.WithCancel(context.Background())
	defer cancel()
	r := &recorder{cancel: cancel, cancelAt: -1}
	collectLoops(loops, &r.loopK)
	ev := newEvaler(r)
	done := make(chan error, 1)
	t0 := time.Now()
	go func() {
		done <- ev.Eval(parse.Source{Name: "[c19]", Code: code}, eval.EvalCfg{Interrupts: ctx})
	}()
	select {
	case err := <-done:
		elapsed = time.Since(t0)
		kind = resKind(err)
	case <-time.After(watchdog):
		return nil, "hang", watchdog, true
	}
	r.mu.Lock()
	evs = append([]string{}, r.events...)
	r.mu.Unlock()
	return
}

// ------------------------------------------------------------------ mini-language

func collectLoops(c []form, k *[64]int) {
	for _, f := range c {
		if f.Op == "while" && f.ID >= 0 && f.ID < len(k) {
			k[f.ID] = f.K
		}
		collectLoops(f.A, k)
		collectLoops(f.B, k)
		collectLoops(f.C, k)
	}
}

type form struct {
	Op      string // tick cancel fail call try each defer
	ID      int
	K       int
	A, B, C []form // call: A; try: A body, B catch, C finally; each: A; defer: A deferred, B rest
	HasB    bool   // try: has catch
	HasC    bool   // try: has finally
}

func chunkCoq(c []form) string {
	s := "CNil"
	for i := len(c) - 1; i >= 0; i-- {
		s = App("CCons", c[i].coq(), s)
	}
	return s
}

func (f form) coq() string {
	switch f.Op {
	case "tick":
		return App("FTick", N(uint64(f.ID)))
	case "cancel":
		return "FCancel"
	case "fail":
		return App("FFail", N(uint64(f.ID)))
	case "call":
		return App("FCall", chunkCoq(f.A))
	case "try":
		return App("FTry", chunkCoq(f.A), Bool(f.HasB), chunkCoq(f.B), Bool(f.HasC), chunkCoq(f.C))
	case "each":
		return App("FEach", Nat(f.K), chunkCoq(f.A))
	case "defer":
		return App("FDefer", chunkCoq(f.A), chunkCoq(f.B))
	case "while":
		return App("FWhile", Nat(f.K), chunkCoq(f.A))
	}
	panic("bad form")
}

func chunkElv(c []form) string {
	parts := make([]string, len(c))
	for i, f := range c {
		parts[i] = f.elv()
	}
	return strings.Join(parts, "; ")
}

func (f form) elv() string {
	switch f.Op {
	case "tick":
		return fmt.Sprintf("verif:tick %d", f.ID)
	case "cancel":
		return "verif:cancel"
	case "fail":
		return fmt.Sprintf("fail f%d", f.ID)
	case "call":
		return "{ " + chunkElv(f.A) + " }"
	case "try":
		s := "try { " + chunkElv(f.A) + " }"
		if f.HasB {
			s += " catch { " + chunkElv(f.B) + " }"
		}
		if f.HasC {
			s += " finally { " + chunkElv(f.C) + " }"
		}
		return s
	case "each":
		return fmt.Sprintf("each {|_| %s } [(range %d)]", chunkElv(f.A), f.K)
	case "while":
		// the condition is a pure value expression; the body may be empty
		return fmt.Sprintf("while $verif:w%d { %s }", f.ID, chunkElv(f.A))
	case "defer":
		rest := chunkElv(f.B)
		if rest != "" {
			rest = "; " + rest
		}
		return "{ defer { " + chunkElv(f.A) + " }" + rest + " }"
	}
	panic("bad form")
}

type gen struct {
	c        *reg.Ctx
	nextID   int
	cancels  int
	nextLoop int
	noFail   int // > 0 inside a while body: a failing body would leave the loop counter half used
}

func (g *gen) chunk(depth, maxLen int) []form {
	n := g.c.Rand.Intn(maxLen + 1)
	out := make([]form, 0, n)
	for i := 0; i < n; i++ {
		out = append(out, g.form(depth))
	}
	return out
}

func (g *gen) form(depth int) form {
	r := g.c.Rand.Intn(23)
	if depth <= 0 && r >= 9 {
		r = g.c.Rand.Intn(9)
	}
	if r == 8 && g.noFail > 0 {
		r = 0
	}
	if r >= 20 && g.nextLoop >= 64 {
		r = 16
	}
	switch {
	case r >= 20:
		// while with a pure value condition; the body is often the empty chunk
		f := form{Op: "while", ID: g.nextLoop, K: g.c.Rand.Intn(4)}
		g.nextLoop++
		g.noFail++
		if g.c.Rand.Intn(3) != 0 {
			f.A = g.chunk(depth-1, 2)
		}
		g.noFail--
		return f
	case r < 6:
		g.nextID++
		return form{Op: "tick", ID: g.nextID}
	case r < 8:
		g.cancels++
		return form{Op: "cancel"}
	case r < 9:
		g.nextID++
		return form{Op: "fail", ID: g.nextID}
	case r < 12:
		return form{Op: "call", A: g.chunk(depth-1, 3)}
	case r < 16:
		f := form{Op: "try", A: g.chunk(depth-1, 3)}
		f.HasB = g.c.Rand.Intn(2) == 0
		f.HasC = !f.HasB || g.c.Rand.Intn(2) == 0
		if f.HasB {
			f.B = g.chunk(depth-1, 2)
		}
		if f.HasC {
			f.C = g.chunk(depth-1, 2)
		}
		return f
	case r < 18:
		return form{Op: "each", K: g.c.Rand.Intn(4), A: g.chunk(depth-1, 3)}
	default:
		return form{Op: "defer", A: g.chunk(depth-1, 2), B: g.chunk(depth-1, 3)}
	}
}

// failing-then-cancel-in-defer: Closure.Call keeps the body's exception and
// drops the deferred call's, so the interrupt is not reported.
func cancelInDeferAfterFail(c []form, failing bool) bool {
	for _, f := range c {
		switch f.Op {
		case "defer":
			if bodyCanFail(f.B) && hasCancel(f.A) {
				return true
			}
			if cancelInDeferAfterFail(f.A, false) || cancelInDeferAfterFail(f.B, false) {
				return true
			}
		default:
			if cancelInDeferAfterFail(f.A, false) || cancelInDeferAfterFail(f.B, false) || cancelInDeferAfterFail(f.C, false) {
				return true
			}
		}
	}
	return false
}

func hasCancel(c []form) bool {
	for _, f := range c {
		if f.Op == "cancel" || hasCancel(f.A) || hasCancel(f.B) || hasCancel(f.C) {
			return true
		}
	}
	return false
}

func bodyCanFail(c []form) bool {
	for _, f := range c {
		if f.Op == "fail" || bodyCanFail(f.A) || bodyCanFail(f.B) || bodyCanFail(f.C) {
			return true
		}
	}
	return false
}

type syncDesc struct {
	Prog   string   `json:"prog"`
	Trace  []string `json:"trace"`
	Result string   `json:"result"`
	Ms     float64  `json:"ms"`
}

func emitSync(c *reg.Ctx, prog []form, class string) {
	code := chunkElv(prog)
	evs, kind, el, hung := runSync(code, prog, 20*time.Second)
	d := syncDesc{Prog: code, Trace: evs, Result: kind, Ms: float64(el.Microseconds()) / 1000}
	if hung {
		c.Emit(reg.Case{Direct: "evaluation did not return within 20s", Desc: d, Key: code, Class: class, Nontrivial: true})
		return
	}
	c.Count(class)
	c.Count("result=" + strings.SplitN(kind, ":", 2)[0])
	c.Emit(reg.Case{
		Coq:        App("CSync", chunkCoq(prog), traceCoq(evs), resCoq(kind)),
		Desc:       d,
		Key:        code,
		Nontrivial: hasCancel(prog) && len(evs) >= 2,
		Class:      class,
	})
}

// hand-written programs with a synchronous cancel; {C} marks where.
var freeProgs = []struct{ name, code string }{
	{"for-loop", `for x [(range 50)] { verif:tick $x; if (== $x 7) { verif:cancel } }`},
	{"while-loop", `var i = 0; while (< $i 50) { verif:tick $i; if (== $i 3) { verif:cancel }; set i = (+ $i 1) }`},
	{"pipeline-each", `range 40 | each {|x| if (== $x 5) { verif:cancel }; verif:tick $x }`},
	{"pipeline-3", `range 40 | each {|x| put $x } | each {|x| if (== $x 9) { verif:cancel }; verif:tick $x }`},
	{"nested-fn", `fn f {|n| if (> $n 0) { f (- $n 1) } else { verif:cancel }; verif:tick $n }; f 6; verif:tick 99`},
	{"try-finally", `try { verif:tick 1; verif:cancel; verif:tick 2 } finally { verif:tick 3 }; verif:tick 4`},
	{"try-catch", `try { fail x } catch e { verif:cancel; verif:tick 1 }; verif:tick 2`},
	{"capture", `var r = ?(verif:cancel); verif:tick 1`},
	{"output-capture", `var r = [(verif:cancel; verif:tick 1)]; verif:tick 2`},
	{"cancel-last", `verif:tick 1; verif:cancel`},
	{"cancel-last-in-fn", `fn g { verif:tick 1; verif:cancel }; g`},
	{"each-break", `each {|x| verif:cancel; break } [a b]; verif:tick 1`},
	{"peach-inf", `peach {|x| verif:tick $x; if (== $x 0) { verif:cancel } } [0]; verif:tick 9`},
	{"sleep-after", `verif:cancel; sleep 30`},
	{"sleep-concurrent", `sleep 30 | verif:cancel`},
	{"if-else", `if (verif:cancel; put $true) { verif:tick 1 } else { verif:tick 2 }`},
	{"and-or", `and ?(verif:cancel) ?(verif:tick 1)`},
	{"defer", `fn h { defer { verif:tick 1 }; verif:cancel }; h; verif:tick 2`},
}

func emitFree(c *reg.Ctx, name, code string) {
	evs, kind, el, hung := runSync(code, nil, 8*time.Second)
	d := syncDesc{Prog: code, Trace: evs, Result: kind, Ms: float64(el.Microseconds()) / 1000}
	class := "free-" + name
	if hung || el > 5*time.Second {
		c.Emit(reg.Case{Direct: fmt.Sprintf("evaluation did not stop after the cancel (%.0f ms)", float64(el.Milliseconds())),
			Desc: d, Key: code, Class: class, Nontrivial: true})
		return
	}
	c.Count("free")
	c.Emit(reg.Case{Coq: App("CFree", traceCoq(evs), resCoq(kind)), Desc: d, Key: code, Nontrivial: true, Class: class})
}

// ------------------------------------------------------------------ child process

type job struct {
	ID       int    `json:"id"`
	Name     string `json:"name"`
	ArmOnGo  bool   `json:"arm_on_go"` // the delay counts from the program's verif:go, not from Eval's start
	Kind     string `json:"kind"` // peach | async
	Code     string `json:"code"`
	CancelAt int    `json:"cancel_at"`
	HoldUs   int    `json:"hold_us"`
	DelayUs  int    `json:"delay_us"`
	Procs    int    `json:"procs"`
}

type jobRes struct {
	ID      int     `json:"id"`
	Result  string  `json:"result"`
	MaxRun  int     `json:"maxrun"`
	Ms      float64 `json:"ms"`
	AfterMs float64 `json:"after_ms"` // time from the cancel to the return
	Leak    int     `json:"leak"`
	Hang    bool    `json:"hang"`
	Fired   bool    `json:"fired"` // the cancel happened before the evaluation returned
}

func childMain() {
	in := bufio.NewScanner(os.Stdin)
	in.Buffer(make([]byte, 1<<20), 1<<20)
	out := bufio.NewWriter(os.Stdout)
	var omu sync.Mutex
	say := func(s string) {
		omu.Lock()
		out.WriteString(s + "\n")
		out.Flush()
		omu.Unlock()
	}
	for in.Scan() {
		var j job
		if json.Unmarshal(in.Bytes(), &j) != nil {
			continue
		}
		say(fmt.Sprintf("S %d", j.ID))
		if j.Procs > 0 {
			runtime.GOMAXPROCS(j.Procs)
		}
		base := runtime.NumGoroutine()
		ctx, cancel := context.WithCancel(context.Background())
		r := &recorder{cancel: cancel, cancelAt: -1, hold: time.Duration(j.HoldUs) * time.Microsecond}
		var fired time.Time
		var fmu sync.Mutex
		doCancel := func() {
			fmu.Lock()
			if fired.IsZero() {
				fired = time.Now()
			}
			fmu.Unlock()
			cancel()
		}
		r.cancel = doCancel
		if j.Kind == "peach" {
			r.cancelAt = j.CancelAt
			r.onEnter = func(run int) { say(fmt.Sprintf("E %d %d", j.ID, run)) }
		}
		ev := newEvaler(r)
		done := make(chan error, 1)
		t0 := time.Now()
		var timer *time.Timer
		var tmu sync.Mutex
		if j.Kind == "async" && j.ArmOnGo {
			r.onGo = func() {
				tmu.Lock()
				if timer == nil {
					timer = time.AfterFunc(time.Duration(j.DelayUs)*time.Microsecond, doCancel)
				}
				tmu.Unlock()
			}
		} else if j.Kind == "async" {
			timer = time.AfterFunc(time.Duration(j.DelayUs)*time.Microsecond, doCancel)
		}
		go func() {
			done <- ev.Eval(parse.Source{Name: "[c19]", Code: j.Code}, eval.EvalCfg{Interrupts: ctx})
		}()
		res := jobRes{ID: j.ID}
		select {
		case err := <-done:
			ret := time.Now()
			res.Ms = float64(ret.Sub(t0).Microseconds()) / 1000
			res.Result = resKind(err)
			fmu.Lock()
			if !fired.IsZero() && fired.Before(ret) {
				res.Fired = true
				res.AfterMs = float64(ret.Sub(fired).Microseconds()) / 1000
			}
			fmu.Unlock()
		case <-time.After(15 * time.Second):
			res.Hang = true
			res.Result = "hang"
		}
		tmu.Lock()
		if timer != nil {
			timer.Stop()
		}
		tmu.Unlock()
		cancel()
		// every goroutine the evaluation started must be gone
		if !res.Hang {
			deadline := time.Now().Add(3 * time.Second)
			for runtime.NumGoroutine() > base && time.Now().Before(deadline) {
				time.Sleep(2 * time.Millisecond)
			}
			if n := runtime.NumGoroutine(); n > base {
				res.Leak = n - base
			}
		}
		r.mu.Lock()
		res.MaxRun = r.maxrun
		r.mu.Unlock()
		b, _ := json.Marshal(res)
		say("R " + string(b))
		if res.Hang {
			return // the stuck evaluation would disturb the following jobs
		}
	}
}

type childOut struct {
	res     map[int]jobRes
	maxrun  map[int]int // from E lines, survives a crash
	crashed map[int]string
}

// runJobs runs the jobs in child processes; a crash is attributed to the job
// that was running, and the remaining jobs go to a fresh child.
func runJobs(jobs []job) childOut {
	o := childOut{res: map[int]jobRes{}, maxrun: map[int]int{}, crashed: map[int]string{}}
	exe, err := os.Executable()
	if err != nil {
		panic(err)
	}
	for len(jobs) > 0 {
		cmd := exec.Command(exe)
		cmd.Env = append(os.Environ(), "VERIF_C19_CHILD=1")
		var stderr strings.Builder
		cmd.Stderr = &stderr
		stdin, _ := cmd.StdinPipe()
		stdout, _ := cmd.StdoutPipe()
		if err := cmd.Start(); err != nil {
			panic(err)
		}
		go func(js []job) {
			w := bufio.NewWriter(stdin)
			for _, j := range js {
				b, _ := json.Marshal(j)
				w.Write(b)
				w.WriteByte('\n')
			}
			w.Flush()
			stdin.Close()
		}(jobs)
		sc := bufio.NewScanner(stdout)
		sc.Buffer(make([]byte, 1<<20), 1<<20)
		current, finished := -1, map[int]bool{}
		for sc.Scan() {
			line := sc.Text()
			switch {
			case strings.HasPrefix(line, "S "):
				current, _ = strconv.Atoi(line[2:])
			case strings.HasPrefix(line, "E "):
				var id, run int
				fmt.Sscanf(line, "E %d %d", &id, &run)
				if run > o.maxrun[id] {
					o.maxrun[id] = run
				}
			case strings.HasPrefix(line, "R "):
				var r jobRes
				if json.Unmarshal([]byte(line[2:]), &r) == nil {
					o.res[r.ID] = r
					finished[r.ID] = true
				}
			}
		}
		werr := cmd.Wait()
		var rest []job
		seenCurrent := false
		for _, j := range jobs {
			if finished[j.ID] {
				continue
			}
			if j.ID == current && !seenCurrent {
				seenCurrent = true
				msg := firstPanicLine(stderr.String())
				if werr == nil && msg == "" {
					msg = "child ended without a result"
				}
				o.crashed[j.ID] = msg
				continue
			}
			rest = append(rest, j)
		}
		if !seenCurrent && len(rest) == len(jobs) {
			// the child did not even start a job: give up on these
			for _, j := range rest {
				o.crashed[j.ID] = "child failed to start: " + firstPanicLine(stderr.String())
			}
			return o
		}
		hungNames := map[string]bool{}
		for _, j := range jobs {
			if r, ok := o.res[j.ID]; ok && r.Hang && j.Name != "" {
				hungNames[j.Name] = true
			}
		}
		hangs := 0
		for _, r := range o.res {
			if r.Hang {
				hangs++
			}
		}
		if len(hungNames) > 0 {
			var keep []job
			for _, j := range rest {
				// after 6 hung programs the remaining spin programs add nothing
				// but watchdog periods
				if !hungNames[j.Name] && !(hangs >= 6 && strings.HasPrefix(j.Name, "spin-")) {
					keep = append(keep, j)
				}
			}
			rest = keep
		}
		jobs = rest
	}
	return o
}

func firstPanicLine(s string) string {
	for _, l := range strings.Split(s, "\n") {
		if strings.HasPrefix(l, "panic:") || strings.HasPrefix(l, "fatal error:") {
			return l
		}
	}
	if len(s) > 200 {
		s = s[:200]
	}
	return strings.TrimSpace(s)
}

// programs interrupted asynchronously; none fails on its own, so the result must
// be "interrupted", or "ok" when the program finished before the interrupt.
var asyncProgs = []struct{ name, code string }{
	{"loop", `for x [(range 3000)] { nop $x }`},
	{"while", `var i = 0; while (< $i 2000) { set i = (+ $i 1) }`},
	{"pipeline", `range 3000 | each {|x| put $x } | each {|x| nop $x }`},
	{"each", `each {|x| verif:work 100 } [(range 200)]`},
	{"nested-fn", `fn f {|n| if (> $n 0) { f (- $n 1); f (- $n 1) } }; f 9`},
	{"try-finally", `for x [(range 500)] { try { nop $x } finally { nop } }`},
	{"sleep", `sleep 20`},
	{"sleep-pipeline", `sleep 20 | sleep 20`},
	{"peach-inf", `peach {|x| verif:work 300 } [(range 200)]`},
	{"peach-inf-elv", `peach {|x| for y [(range 20)] { nop $y } } [(range 100)]`},
	{"run-parallel", `run-parallel { sleep 20 } { for x [(range 2000)] { nop } } { verif:work 20000 }`},
	{"peach-bounded", `peach &num-workers=3 {|x| verif:work 400 } [(range 100)]`},
	{"peach-bounded-elv", `peach &num-workers=2 {|x| for y [(range 30)] { nop $y } } [(range 60)]`},
}

// Programs that spin or wait WITHOUT starting a pipeline in their inner loop:
// the only cancellation point left is the check after the (empty) chunk.  They
// never end on their own (or run for minutes), so an ignored interrupt shows as
// "Eval did not return".
var spinProgs = []struct{ name, code string }{
	{"while-empty", `while $true { }`},
	{"while-comments", "while $true {\n  # nothing here\n\n  # still nothing\n}"},
	{"while-newlines", "while $true {\n\n\n}"},
	{"while-pure-cond", `var a = [x]; while $a[0] { }`},
	{"while-not-done", `var done = $false; while (not $done) { }`},
	{"while-in-fn", `fn spin { while $true { } }; spin`},
	{"while-in-try", `try { while $true { } } finally { nop }`},
	{"while-in-lambda", `{ { while $true { } } }`},
	{"while-try-empty", `while $true { try { } finally { } }`},
	{"while-empty-fns", `fn g { }; fn f { g }; while $true { f }`},
	{"while-empty-lambda", `while $true { { } }`},
	{"recursion-empty", `fn r {|n| if (> $n 0) { r (- $n 1) } else { } }; while $true { r 40 }`},
	{"for-long-empty", `for x [(range 100000)] { }; while $true { }`},
	// long value producers consumed by empty-body each / peach.  Finite on purpose:
	// after an interrupt each and peach DRAIN their remaining input (they only stop
	// calling the callback), and range / repeat do not look at the context, so the
	// evaluation returns when the producer is done (~0.5 us per value; observation,
	// see checks/C19.md) -- with 10^9 values that is minutes, not a missing check.
	{"each-range-empty", `range 1000000 | each {|x| }; while $true { }`},
	{"each-repeat-empty", `repeat 1000000 x | each {|x| }; while $true { }`},
	{"peach-range-empty", `range 300000 | peach &num-workers=8 {|x| }; while $true { }`},
	{"each-list-empty", `while $true { each {|x| } [(range 1000)] }`},
	{"nested-while-empty", `while $true { while $false { } }`},
	{"if-pure-empty", `while $true { if $false { } else { } }`},
}

type asyncDesc struct {
	Prog    string  `json:"prog"`
	DelayUs int     `json:"delay_us"`
	Procs   int     `json:"gomaxprocs"`
	Res     *jobRes `json:"res,omitempty"`
	Crash   string  `json:"crash,omitempty"`
}

func asyncClass(name string) string {
	if strings.HasPrefix(name, "peach-bounded") {
		// the ignored Acquire error lets workers start without a token
		return "peach-bounded-cancel"
	}
	return "async-" + name
}

func run(c *reg.Ctx) {
	// ---- 1. sync: planted, hand-written, generated ----
	t := func(id int) form { return form{Op: "tick", ID: id} }
	cn := form{Op: "cancel"}
	planted := [][]form{
		{t(1), cn, t(2)},
		{cn},
		{t(1), cn},
		{{Op: "try", A: []form{cn, t(1)}, HasC: true, C: []form{t(2)}}, t(3)},
		{{Op: "try", A: []form{{Op: "fail", ID: 1}}, HasB: true, B: []form{cn, t(1)}}, t(2)},
		{{Op: "try", A: []form{cn}, HasB: true, B: []form{}}},
		{{Op: "each", K: 3, A: []form{t(1), cn}}, t(2)},
		{{Op: "call", A: []form{{Op: "call", A: []form{cn}}, t(1)}}, t(2)},
		{{Op: "defer", A: []form{t(1)}, B: []form{cn, t(2)}}, t(3)},
		{{Op: "defer", A: []form{cn}, B: []form{t(1)}}},
		{{Op: "defer", A: []form{cn}, B: []form{t(1)}}, t(2)},
		{},
		{t(1), t(2)},
		// loops with empty bodies around a cancel
		{{Op: "while", ID: 0, K: 3, A: nil}, t(1), cn, {Op: "while", ID: 1, K: 2, A: nil}, t(2)},
		{{Op: "while", ID: 0, K: 3, A: []form{t(1), cn, {Op: "while", ID: 1, K: 2}}}, t(2)},
		{{Op: "each", K: 3, A: nil}, cn, {Op: "each", K: 2, A: nil}},
		{{Op: "while", ID: 0, K: 2, A: []form{{Op: "try", A: nil, HasC: true}}}, t(1)},
	}
	for _, p := range planted {
		emitSync(c, p, "sync")
	}
	// the body fails, the deferred call cancels: the interrupt is dropped
	emitSync(c, []form{{Op: "defer", A: []form{cn}, B: []form{{Op: "fail", ID: 7}}}}, "sync-cancel-in-defer-of-failing-closure")
	for _, fp := range freeProgs {
		emitFree(c, fp.name, fp.code)
	}
	nsync := c.N
	for i := 0; i < nsync; i++ {
		g := &gen{c: c}
		prog := g.chunk(3, 4)
		if g.cancels == 0 && c.Rand.Intn(4) != 0 && len(prog) > 0 {
			// most programs should cancel somewhere
			prog = append(prog[:len(prog)/2+0], append([]form{{Op: "cancel"}}, prog[len(prog)/2:]...)...)
		}
		class := "sync"
		if cancelInDeferAfterFail(prog, false) {
			class = "sync-cancel-in-defer-of-failing-closure"
		}
		emitSync(c, prog, class)
	}

	// ---- 2. bounded peach cancelled from inside a Go callback (child process) ----
	var jobs []job
	type peachIn struct{ b, n, at, procs int }
	peach := map[int]peachIn{}
	id := 0
	npeach := 6 + c.N/40
	if c.Tier == "thorough" {
		npeach = 6 + c.N/20
	}
	for i := 0; i < npeach; i++ {
		pi := peachIn{b: 1 + c.Rand.Intn(3), n: 2 + c.Rand.Intn(10), procs: []int{1, 2, 4, 8}[c.Rand.Intn(4)]}
		pi.at = c.Rand.Intn(pi.n)
		switch i {
		case 0:
			pi = peachIn{1, 4, 0, 4} // the reproduced defect
		case 1:
			pi = peachIn{2, 3, 2, 2} // cancel in the last callback: nothing left to dispatch
		case 2:
			pi = peachIn{3, 3, 0, 4} // bound >= inputs
		}
		id++
		peach[id] = pi
		jobs = append(jobs, job{ID: id, Kind: "peach", CancelAt: pi.at, HoldUs: 2000, Procs: pi.procs,
			Code: fmt.Sprintf("peach &num-workers=%d $verif:cb~ [(range %d)]", pi.b, pi.n)})
	}
	// ---- 3. asynchronous interrupts at swept and random delays (child process) ----
	type asyncIn struct {
		name, code string
		delay, procs int
	}
	async := map[int]asyncIn{}
	nasync := 3
	if c.Tier == "thorough" {
		nasync = 40
	}
	for _, ap := range asyncProgs {
		for k := 0; k < nasync; k++ {
			// swept: 0, then growing; plus random
			delay := []int{0, 300, 3000}[k%3] * (1 + k/3)
			if k >= 3 || c.Rand.Intn(3) == 0 {
				delay = c.Rand.Intn(15000)
			}
			id++
			a := asyncIn{ap.name, ap.code, delay, []int{1, 2, 4, 8}[c.Rand.Intn(4)]}
			async[id] = a
			jobs = append(jobs, job{ID: id, Name: a.name, Kind: "async", Code: ap.code, DelayUs: delay, Procs: a.procs})
		}
	}
	// loops and waits without pipelines: swept and random delays, all classes every run
	nspin := 2
	if c.Tier == "thorough" {
		nspin = 12
	}
	for _, sp := range spinProgs {
		for k := 0; k < nspin; k++ {
			// the delay counts from verif:go, so the interrupt arrives while the
			// program is inside its loop (not during parsing / compilation)
			delay := []int{1000, 3000, 300, 10000}[k%4]
			if k >= 4 || (k == 1 && c.Rand.Intn(2) == 0) {
				delay = 500 + c.Rand.Intn(12000)
			}
			id++
			code := "verif:go; " + sp.code
			a := asyncIn{"spin-" + sp.name, code, delay, []int{1, 2, 4, 8}[c.Rand.Intn(4)]}
			async[id] = a
			jobs = append(jobs, job{ID: id, Name: a.name, ArmOnGo: true, Kind: "async", Code: code, DelayUs: delay, Procs: a.procs})
		}
	}
	o := runJobs(jobs)
	for jid := 1; jid <= id; jid++ {
		if pi, ok := peach[jid]; ok {
			crash, crashed := o.crashed[jid]
			maxrun := o.maxrun[jid]
			var rp *jobRes
			if r, ok := o.res[jid]; ok {
				rp = &r
				if r.MaxRun > maxrun {
					maxrun = r.MaxRun
				}
			}
			class := "peach-bounded-cancel"
			if pi.at == pi.n-1 {
				class = "peach-bounded-cancel-in-last" // nothing is dispatched after the cancel
			}
			code := fmt.Sprintf("peach &num-workers=%d $verif:cb~ [(range %d)]  # verif:cb cancels in callback %d", pi.b, pi.n, pi.at)
			d := asyncDesc{Prog: code, Procs: pi.procs, Res: rp, Crash: crash}
			key := fmt.Sprintf("peach/%d/%d/%d/%d", pi.b, pi.n, pi.at, pi.procs)
			c.Count(class)
			if rp != nil && (rp.Hang || rp.Leak > 0) {
				c.Emit(reg.Case{Direct: fmt.Sprintf("cancelled peach: hang=%v leaked goroutines=%d", rp.Hang, rp.Leak),
					Desc: d, Key: key, Class: class, Nontrivial: true})
				continue
			}
			c.Emit(reg.Case{
				Coq:  App("CPeachCancel", Nat(pi.b), Nat(pi.n), Nat(pi.at), Nat(maxrun), Bool(crashed)),
				Desc: d, Key: key, Nontrivial: true, Class: class})
			continue
		}
		a := async[jid]
		class := asyncClass(a.name)
		d := asyncDesc{Prog: a.code, DelayUs: a.delay, Procs: a.procs}
		key := fmt.Sprintf("async/%s/%d/%d", a.name, a.delay, a.procs)
		c.Count("async")
		if crash, ok := o.crashed[jid]; ok {
			d.Crash = crash
			c.Emit(reg.Case{Direct: "interpreter crashed while being interrupted: " + crash, Desc: d, Key: key, Class: class, Nontrivial: true})
			continue
		}
		r, ok := o.res[jid]
		if !ok {
			continue
		}
		d.Res = &r
		var bad string
		switch {
		case r.Hang:
			bad = "Eval did not return within 15s after the interrupt (a cancellation point is missing): " + a.code
		case r.Fired && r.AfterMs > 10000:
			bad = fmt.Sprintf("evaluation returned %.0f ms after the interrupt", r.AfterMs)
		case r.Leak > 0:
			bad = fmt.Sprintf("%d goroutines still alive 3s after the evaluation returned", r.Leak)
		case r.Result == "ok" && r.Fired && r.AfterMs <= 20:
			// the interrupt arrived while the evaluation was returning
		case r.Result != "int" && !(r.Result == "ok" && !r.Fired):
			bad = "interrupted evaluation returned " + r.Result + " instead of the interrupted exception"
		}
		c.Emit(reg.Case{Direct: bad, Desc: d, Key: key, Class: class, Nontrivial: r.Fired})
	}
}
