// Package c10: `order` outputs a stable sorted permutation of its input
// (pkg/eval/builtin_fn_stream.go: order, slice.Less; pkg/eval/vals/cmp.go).
//
// Every case runs the real builtin through eval with Elvish callbacks that
// count their calls and fail on demand, and records what order wrote to its
// value output, the kind of exception, the call counts and whether a callback
// failed.  The Coq side (model/C10.v) judges the observation against the
// oracle check_C10 and against the model order_go.
package c10

import (
	"fmt"
	"math/big"
	"strconv"
	"strings"

	"src.elv.sh/pkg/eval"
	"src.elv.sh/pkg/eval/errs"
	"src.elv.sh/pkg/eval/vals"
	"src.elv.sh/pkg/eval/vars"
	"src.elv.sh/pkg/parse"
	. "verifharness/coqfmt"
	"verifharness/reg"
)

func init() {
	reg.Register(&reg.Spec{ID: "C10",
		Imports: "From verif Require Import lib.Base model.C10.",
		Judge:   "C10.judge", Shard: 35, Run: run})
}

// ---------------------------------------------------------------- values

// val is an Elvish value together with its Coq term.
type val struct {
	g   any
	coq string
}

// zs prints an integer for an argument position of scope Z.
func zs(i int64) string {
	if i < 0 {
		return fmt.Sprintf("(%d)", i)
	}
	return fmt.Sprintf("%d", i)
}
func bigzs(b *big.Int) string {
	if b.Sign() < 0 {
		return "(" + b.String() + ")"
	}
	return b.String()
}

func vNum(i int64) val { return val{int(i), App("VNum", zs(i))} }
func vBig(b *big.Int) val {
	return val{vals.NormalizeBigInt(b), App("VNum", bigzs(b))}
}

// vFlt h = the float64 h/2
func vFlt(h int64) val   { return val{float64(h) / 2, App("VFlt", zs(h))} }
func vStr(s string) val  { return val{s, App("VStr", Str(s))} }
func vBool(b bool) val   { return val{b, App("VBool", Bool(b))} }
func vMap(id uint64) val { return val{vals.MakeMap("k", int(id)), App("VMap", N(id))} }
func vList(es ...val) val {
	gs := make([]any, len(es))
	cs := make([]string, len(es))
	for i, e := range es {
		gs[i], cs[i] = e.g, e.coq
	}
	return val{vals.MakeList(gs...), listCoq(gs, cs)}
}

// listCoq prints a list value; two-element lists with an int use the compact
// forms PK (key, tag) and TK (tag, key) of model/C10.v.
func listCoq(gs []any, cs []string) string {
	if len(gs) == 2 {
		if t, ok := gs[1].(int); ok {
			return App("PK", cs[0], zs(int64(t)))
		}
		if t, ok := gs[0].(int); ok {
			return App("TK", zs(int64(t)), cs[1])
		}
	}
	return App("VList", List(cs))
}

// toCoq converts a value order wrote back into the model's universe.
func toCoq(v any) (string, bool) {
	switch v := v.(type) {
	case int:
		return App("VNum", zs(int64(v))), true
	case *big.Int:
		return App("VNum", bigzs(v)), true
	case float64:
		h := v * 2
		if h != float64(int64(h)) || h > 1<<53 || h < -(1<<53) {
			return "", false
		}
		return App("VFlt", zs(int64(h))), true
	case string:
		return App("VStr", Str(v)), true
	case bool:
		return App("VBool", Bool(v)), true
	case vals.List:
		var cs []string
		var gs []any
		ok := true
		for it := v.Iterator(); it.HasElem(); it.Next() {
			c, k := toCoq(it.Elem())
			ok = ok && k
			cs = append(cs, c)
			gs = append(gs, it.Elem())
		}
		return listCoq(gs, cs), ok
	case vals.Map:
		if v.Len() == 1 {
			if id, ok := v.Index("k"); ok {
				if i, ok := id.(int); ok && i >= 0 {
					return App("VMap", fmt.Sprint(i)), true
				}
			}
		}
	}
	return "", false
}

// ---------------------------------------------------------------- options

type failSpec struct {
	Kind string // "", "at", "on"
	K    int    // call number for "at"
	FK   string // FThrow | FArity0 | FArity2 | FNonBool
	On   *val   // poison value for "on"
}

type options struct {
	Reverse, Total bool
	Key            string // "", KId, KFirst, KSecond, KConst
	KeyFail        failSpec
	Lt             string // "", LCmp, LCmpTotal, LGt, LFirst
	LtFail         failSpec
	Piped          bool
}

func (o *options) coq() string {
	key := None()
	if o.Key != "" {
		f := None()
		if o.KeyFail.Kind == "at" {
			f = Some(Pair(Nat(o.KeyFail.K), o.KeyFail.FK))
		}
		key = Some(App("mkKey", o.Key, f))
	}
	lt := None()
	if o.Lt != "" {
		f := "LNoFail"
		switch o.LtFail.Kind {
		case "at":
			f = App("LFailAt", Nat(o.LtFail.K), o.LtFail.FK)
		case "on":
			f = App("LFailOn", o.LtFail.On.coq, o.LtFail.FK)
		}
		lt = Some(App("mkLt", o.Lt, f))
	}
	return App("mkOpts", Bool(o.Reverse), Bool(o.Total), key, lt)
}

// failAction: Elvish code executed when the scheduled failure triggers;
// cnt is the name of the call counter.
func failAction(fk, tag, cnt string) string {
	switch fk {
	case "FThrow":
		return "fail " + tag + "(cnt " + cnt + ")"
	case "FArity0":
		return "return"
	case "FArity2":
		return "put a b; return"
	default: // FNonBool
		return "put foo; return"
	}
}

// program builds the Elvish source: callbacks and the order call.  The
// callbacks count through the Go builtins `tick`/`at`/`cnt` (see emit), which
// keeps the per-call cost low: kc/lc = calls started, kx/lx = scheduled
// failures triggered, kd/ld = calls that ran to their end.
func (o *options) program() string {
	var sb strings.Builder
	var args []string
	if o.Reverse {
		args = append(args, "&reverse=$true")
	}
	if o.Total {
		args = append(args, "&total=$true")
	}
	if o.Key != "" {
		body := map[string]string{"KId": "put $x", "KFirst": "put $x[0]",
			"KSecond": "put $x[1]", "KConst": "put (num 0)"}[o.Key]
		sched := ""
		if o.KeyFail.Kind == "at" {
			sched = fmt.Sprintf("if (at kc %d) { tick kx; %s }; ",
				o.KeyFail.K, failAction(o.KeyFail.FK, "k", "kc"))
		}
		fmt.Fprintf(&sb, "fn key {|x| tick kc; %s%s; tick kd }\n", sched, body)
		args = append(args, "&key=$key~")
	}
	if o.Lt != "" {
		body := map[string]string{"LCmp": "== -1 (compare $a $b)",
			"LCmpTotal": "== -1 (compare &total $a $b)",
			"LGt":       "== 1 (compare $a $b)",
			"LFirst":    "== -1 (compare $a[0] $b[0])"}[o.Lt]
		sched := ""
		switch o.LtFail.Kind {
		case "at":
			sched = fmt.Sprintf("if (at lc %d) { tick lx; %s }; ",
				o.LtFail.K, failAction(o.LtFail.FK, "l", "lc"))
		case "on":
			sched = fmt.Sprintf("if (or (eq $a $poison) (eq $b $poison)) { tick lx; %s }; ",
				failAction(o.LtFail.FK, "l", "lc"))
		}
		fmt.Fprintf(&sb, "fn lt {|a b| tick lc; %s%s; tick ld }\n", sched, body)
		args = append(args, "&less-than=$lt~")
	}
	if o.Piped {
		sb.WriteString("all $in | order " + strings.Join(args, " ") + "\n")
	} else {
		sb.WriteString("order " + strings.Join(args, " ") + " $in\n")
	}
	return sb.String()
}

// ---------------------------------------------------------------- observation

func classify(err error) (string, string) {
	if err == nil {
		return None(), ""
	}
	var reason error = err
	if exc, ok := err.(eval.Exception); ok {
		reason = exc.Reason()
	}
	switch r := reason.(type) {
	case eval.FailError:
		s := vals.ToString(r.Content)
		if len(s) > 1 && (s[0] == 'k' || s[0] == 'l') {
			if n, e := strconv.ParseUint(s[1:], 10, 32); e == nil {
				return Some(App("EThrow", N(n))), "throw " + s
			}
		}
		return Some("EOther"), "fail " + s
	case errs.ArityMismatch:
		return Some("EArity"), "arity: " + r.Error()
	case errs.BadValue:
		if r == eval.ErrUncomparable {
			return Some("EUncomparable"), "uncomparable"
		}
		return Some("EBadValue"), "bad value: " + r.Error()
	}
	if reason == eval.ErrBothTotalAndLessThan {
		return Some("EBoth"), "both &total and &less-than"
	}
	return Some("EOther"), "other: " + reason.Error()
}

var kinds = []val{vNum(0), vStr(""), vBool(false), vList(), vMap(0)}

// ranks observes the session's order of the five kinds under CmpTotal.
func ranks() string {
	rs := make([]string, len(kinds))
	for i, a := range kinds {
		r := 0
		for _, b := range kinds {
			if vals.CmpTotal(b.g, a.g) == vals.CmpLess {
				r++
			}
		}
		rs[i] = N(uint64(r))
	}
	return List(rs)
}

type desc struct {
	Program  string   `json:"program"`
	In       string   `json:"in"`
	Poison   string   `json:"poison,omitempty"`
	Out      []string `json:"out"`
	Err      string   `json:"err"`
	Counters string   `json:"counters"`
}

func emit(c *reg.Ctx, class string, o *options, in []val) {
	gs := make([]any, len(in))
	cs := make([]string, len(in))
	for i, v := range in {
		gs[i], cs[i] = v.g, v.coq
	}
	ev := eval.NewEvaler()
	cnt := map[string]int{}
	nb := eval.BuildNs().AddVar("in", vars.FromInit(vals.MakeList(gs...))).
		AddGoFn("tick", func(name string) { cnt[name]++ }).
		AddGoFn("at", func(name string, k int) bool { return cnt[name] == k }).
		AddGoFn("cnt", func(name string) int { return cnt[name] })
	poison := ""
	if o.LtFail.Kind == "on" {
		nb = nb.AddVar("poison", vars.FromInit(o.LtFail.On.g))
		poison = vals.ReprPlain(o.LtFail.On.g)
	}
	ev.ExtendGlobal(nb)
	prog := o.program()
	port, collect, err := eval.ValueCapturePort()
	if err != nil {
		panic(err)
	}
	runErr := ev.Eval(parse.Source{Name: "c10", Code: prog},
		eval.EvalCfg{Ports: []*eval.Port{nil, port, nil}})
	outs := collect()
	kc, kx, kd, lc, lx, ld := cnt["kc"], cnt["kx"], cnt["kd"], cnt["lc"], cnt["lx"], cnt["ld"]
	cbFailed := kx > 0 || lx > 0 || kc > kd || lc > ld

	errCoq, errText := classify(runErr)
	outCoq := make([]string, len(outs))
	outRepr := make([]string, len(outs))
	direct := ""
	for i, v := range outs {
		t, ok := toCoq(v)
		if !ok {
			direct = "order wrote a value that is not among its inputs: " + vals.ReprPlain(v)
		}
		outCoq[i], outRepr[i] = t, vals.ReprPlain(v)
	}
	d := desc{Program: prog, In: vals.ReprPlain(vals.MakeList(gs...)), Poison: poison, Out: outRepr,
		Err: errText, Counters: fmt.Sprintf("key calls=%d failed=%d done=%d; less-than calls=%d failed=%d done=%d", kc, kx, kd, lc, lx, ld)}
	c.Count(class)
	c.Count(fmt.Sprintf("len/%s", lenBucket(len(in))))
	if runErr != nil {
		c.Count("outcome/exception")
	} else {
		c.Count("outcome/sorted")
	}
	cs0 := reg.Case{Desc: d, Key: prog + "\x00" + d.In + "\x00" + poison, Nontrivial: len(in) >= 2, Class: class}
	if direct != "" {
		cs0.Direct = direct
	} else {
		cs0.Coq = App("mkCase", ranks(), o.coq(), List(cs), List(outCoq), errCoq,
			Nat(kc), Nat(lc), Bool(cbFailed))
	}
	c.Emit(cs0)
}

func lenBucket(n int) string {
	switch {
	case n == 0:
		return "0"
	case n == 1:
		return "1"
	case n <= 12:
		return "2-12"
	case n <= 20:
		return "13-20"
	case n <= 40:
		return "21-40"
	case n <= 100:
		return "41-100"
	default:
		return "101-300"
	}
}

// ---------------------------------------------------------------- generators

var strPool = []string{"", "a", "ab", "abc", "b", "ba", "10", "9", "1", "é", "a\x00", "Z", "z", "aa"}

// scalar draws a key of the given family from a small pool so that ties are frequent.
func scalar(c *reg.Ctx, fam string, spread int) val {
	r := c.Rand
	switch fam {
	case "int":
		return vNum(int64(r.Intn(spread) - spread/3))
	case "num": // ints and half-integer floats: 1 and 1.0 compare equal
		if r.Intn(2) == 0 {
			return vNum(int64(r.Intn(spread) - spread/3))
		}
		return vFlt(int64(r.Intn(2*spread) - 2*spread/3))
	case "big":
		b := new(big.Int).Lsh(big.NewInt(1), 64)
		b.Add(b, big.NewInt(int64(r.Intn(spread))))
		switch r.Intn(3) {
		case 0:
			b.Neg(b)
		case 1:
			return vNum(int64(r.Intn(spread)) - 2)
		}
		return vBig(b)
	case "str":
		if r.Intn(4) == 0 {
			return vStr(strPool[r.Intn(len(strPool))] + strPool[r.Intn(len(strPool))])
		}
		return vStr(strPool[r.Intn(len(strPool))])
	case "bool":
		return vBool(r.Intn(2) == 0)
	case "map":
		return vMap(uint64(r.Intn(3)))
	case "list":
		n := r.Intn(4)
		es := make([]val, n)
		sub := []string{"int", "num", "str"}[r.Intn(3)]
		for i := range es {
			es[i] = scalar(c, sub, 3)
		}
		return vList(es...)
	case "listmix": // lists whose elements may be of different kinds
		n := r.Intn(3)
		es := make([]val, n)
		for i := range es {
			es[i] = scalar(c, []string{"int", "str", "bool", "num"}[r.Intn(4)], 2)
		}
		return vList(es...)
	default: // "mixed": any kind
		return scalar(c, []string{"int", "num", "str", "bool", "list", "map", "listmix"}[r.Intn(7)], spread)
	}
}

func genLen(c *reg.Ctx) int {
	r := c.Rand
	large := 93 // quick tier: long inputs are costly to judge
	if c.Tier == "thorough" {
		large = 85
	}
	switch x := r.Intn(100); {
	case x < 30:
		return r.Intn(9)
	case x < 65:
		return 9 + r.Intn(17)
	case x < large:
		return 26 + r.Intn(55)
	default:
		return 81 + r.Intn(220)
	}
}

var failKindsKey = []string{"FThrow", "FArity0", "FArity2"}
var failKindsLt = []string{"FThrow", "FArity0", "FArity2", "FNonBool"}

func random(c *reg.Ctx) {
	r := c.Rand
	o := &options{Reverse: r.Intn(2) == 0, Piped: r.Intn(3) == 0}
	class := []string{}
	switch x := r.Intn(100); {
	case x < 40:
	case x < 58:
		o.Total = true
	case x < 95:
		o.Lt = []string{"LCmp", "LCmpTotal", "LGt", "LFirst"}[r.Intn(4)]
	default:
		o.Total = true
		o.Lt = "LCmp"
	}
	switch x := r.Intn(100); {
	case x < 45:
	case x < 80:
		o.Key = "KFirst"
	case x < 88:
		o.Key = "KId"
	case x < 94:
		o.Key = "KConst"
	default:
		o.Key = "KSecond"
	}
	n := genLen(c)
	if o.Lt != "" && n > 70 && r.Intn(6) > 0 {
		n %= 70 // a &less-than call costs about 0.5 ms
	}
	totalCmp := o.Total || o.Lt == "LCmpTotal"
	fams := []string{"int", "num", "str", "bool", "list", "int", "num", "big"}
	if totalCmp {
		fams = append(fams, "mixed", "mixed", "mixed", "map", "listmix")
	} else if r.Intn(8) == 0 {
		fams = []string{"mixed", "listmix"}
	}
	fam := fams[r.Intn(len(fams))]
	spread := []int{2, 3, 6, 12, 40}[r.Intn(5)]
	// The comparator sees ck: the key alone, or (for LFirst, which indexes its
	// arguments) the list [key i].  The value is ck itself or a payload
	// [ck i] / [i ck] whose unique tag i makes the input order of equal keys
	// observable.
	shape := "bare"
	switch o.Key {
	case "KFirst":
		shape = "keytag"
	case "KSecond":
		shape = "tagkey"
	case "KConst":
		if r.Intn(2) == 0 {
			shape = "keytag"
		}
	}
	in := make([]val, n)
	for i := range in {
		ck := scalar(c, fam, spread)
		if o.Lt == "LFirst" {
			ck = vList(ck, vNum(int64(i)))
		}
		switch shape {
		case "keytag":
			in[i] = vList(ck, vNum(int64(i)))
		case "tagkey":
			in[i] = vList(vNum(int64(i)), ck)
		default:
			in[i] = ck
		}
	}
	class = append(class, fam+"/"+shape)
	// intruder: a value on which the callback itself fails
	if n > 0 && (shape != "bare" || o.Lt == "LFirst") && r.Intn(14) == 0 {
		in[r.Intn(n)] = []val{vNum(7), vBool(true), vMap(1), vList()}[r.Intn(4)]
		class = append(class, "intruder")
	}
	if o.Key != "" && r.Intn(8) == 0 {
		o.KeyFail = failSpec{Kind: "at", K: 1 + r.Intn(n+2), FK: failKindsKey[r.Intn(3)]}
		class = append(class, "keyfail")
	}
	if o.Lt != "" && r.Intn(4) == 0 {
		if r.Intn(3) > 0 {
			// roughly up to the number of comparisons a sort of n elements makes
			max := 3
			for m := n; m > 0; m /= 2 {
				max += n
			}
			k := 1 + r.Intn(max)
			if r.Intn(3) == 0 {
				k = 1 + r.Intn(n+1)
			}
			o.LtFail = failSpec{Kind: "at", K: k, FK: failKindsLt[r.Intn(4)]}
			class = append(class, "ltfail-at")
		} else {
			var p val
			// the comparator sees keys
			if n > 0 && r.Intn(5) > 0 {
				p = keyOf(o, in[r.Intn(n)])
			} else {
				p = scalar(c, fam, spread)
			}
			o.LtFail = failSpec{Kind: "on", On: &p, FK: failKindsLt[r.Intn(4)]}
			class = append(class, "ltfail-on")
		}
	}
	emit(c, className(o, class), o, in)
}

// keyOf mirrors what the &key callback would produce on v (used only to pick a
// poison value that the comparator can meet).
func keyOf(o *options, v val) val {
	l, ok := v.g.(vals.List)
	switch o.Key {
	case "KFirst":
		if ok && l.Len() > 0 {
			x, _ := l.Index(0)
			if t, k := toCoq(x); k {
				return val{x, t}
			}
		}
	case "KSecond":
		if ok && l.Len() > 1 {
			x, _ := l.Index(1)
			if t, k := toCoq(x); k {
				return val{x, t}
			}
		}
	case "KConst":
		return vNum(0)
	}
	return v
}

func className(o *options, extra []string) string {
	parts := []string{}
	switch {
	case o.Total && o.Lt != "":
		parts = append(parts, "total+lt")
	case o.Total:
		parts = append(parts, "total")
	case o.Lt != "":
		parts = append(parts, o.Lt)
	default:
		parts = append(parts, "default")
	}
	if o.Key != "" {
		parts = append(parts, o.Key)
	}
	if o.Reverse {
		parts = append(parts, "reverse")
	}
	return strings.Join(append(parts, extra...), ",")
}

// tagged builds n payloads [key tag] with keys cycling through few values.
func tagged(n, nkeys int, mk func(int) val) []val {
	in := make([]val, n)
	for i := range in {
		in[i] = vList(mk((i*7+3)%nkeys), vNum(int64(i)))
	}
	return in
}

func fixed(c *reg.Ctx) {
	intKey := func(i int) val { return vNum(int64(i)) }
	strKey := func(i int) val { return vStr(strPool[i%len(strPool)]) }
	// all option combinations on the empty input, one value, and a few sizes
	// around the thresholds of sort.Stable (12: pdqsort's insertion sort, 20:
	// block size, 40: one merge) with many ties
	for _, n := range []int{0, 1, 2, 13, 21, 41, 100, 300} {
		for _, rev := range []bool{false, true} {
			for _, key := range []string{"", "KFirst", "KConst"} {
				for _, cmp := range []string{"", "total", "LCmp", "LFirst"} {
					if n > 41 && (cmp == "total" || key == "KConst") {
						continue
					}
					if n > 41 && strings.HasPrefix(cmp, "L") &&
						!(n == 300 && !rev && key == "" && cmp == "LCmp") &&
						!(n == 100 && rev && key == "KFirst" && cmp == "LFirst") {
						continue // a &less-than call costs about 0.5 ms
					}
					o := &options{Reverse: rev, Key: key}
					switch cmp {
					case "total":
						o.Total = true
					case "":
					default:
						o.Lt = cmp
					}
					mk := intKey
					if (n+len(key))%2 == 1 {
						mk = strKey
					}
					in := tagged(n, 3, mk)
					if key == "KFirst" && cmp == "LFirst" {
						in = tagged(n, 3, func(i int) val { return vList(mk(i)) })
					}
					emit(c, className(o, []string{"fixed"}), o, in)
				}
			}
		}
	}
	// 1 and 1.0 compare equal but print differently: stability without &key
	var nums []val
	for i := 0; i < 45; i++ {
		if i%2 == 0 {
			nums = append(nums, vNum(int64(i%3)))
		} else {
			nums = append(nums, vFlt(int64(2*(i%3))))
		}
	}
	for _, rev := range []bool{false, true} {
		emit(c, className(&options{Reverse: rev}, []string{"fixed-num-ties"}), &options{Reverse: rev}, nums)
		emit(c, className(&options{Reverse: rev, Total: true}, []string{"fixed-num-ties"}), &options{Reverse: rev, Total: true}, nums)
	}
	// unordered type under &total: maps keep their relative order
	var mixed []val
	for i := 0; i < 30; i++ {
		mixed = append(mixed, []val{vMap(uint64(i % 4)), vStr("s"), vNum(int64(i % 2)), vBool(i%3 == 0), vList(vNum(1))}[i%5])
	}
	for _, rev := range []bool{false, true} {
		o := &options{Reverse: rev, Total: true}
		emit(c, className(o, []string{"fixed-mixed"}), o, mixed)
		o2 := &options{Reverse: rev}
		emit(c, className(o2, []string{"fixed-mixed"}), o2, mixed)
		o3 := &options{Reverse: rev, Lt: "LCmp"}
		emit(c, className(o3, []string{"fixed-mixed"}), o3, mixed)
	}
	// an uncomparable pair far apart in a long input
	long := tagged(120, 5, intKey)
	long[0] = vList(vStr("x"), vNum(0))
	for _, o := range []*options{{}, {Reverse: true}, {Key: "KFirst"}, {Lt: "LCmp"}, {Lt: "LFirst"}} {
		emit(c, className(o, []string{"fixed-one-uncomparable"}), o, long)
	}
	// both &total and &less-than
	o := &options{Total: true, Lt: "LCmp"}
	emit(c, className(o, []string{"fixed"}), o, tagged(5, 2, intKey))
	// callbacks failing at every position of a 25-element input
	for k := 1; k <= 27; k += 5 {
		for _, fk := range failKindsKey {
			o := &options{Key: "KFirst", KeyFail: failSpec{Kind: "at", K: k, FK: fk}, Reverse: k%4 == 1}
			emit(c, className(o, []string{"keyfail", "fixed"}), o, tagged(25, 4, intKey))
		}
	}
	for k := 1; k <= 140; k += 23 {
		for _, fk := range failKindsLt {
			o := &options{Lt: "LFirst", LtFail: failSpec{Kind: "at", K: k, FK: fk}, Reverse: k%2 == 0}
			emit(c, className(o, []string{"ltfail-at", "fixed"}), o, tagged(45, 4, intKey))
		}
	}
}

func run(c *reg.Ctx) {
	fixed(c)
	for i := 0; i < c.N; i++ {
		random(c)
	}
}
