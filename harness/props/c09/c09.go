// Package c09: eq is an equivalence, compare a consistent total preorder
// (vals.Equal, vals.Cmp, vals.CmpTotal and the eq / compare builtins on triples).
package c09

import (
	"crypto/sha1"
	"fmt"
	"math"
	"math/big"
	"strings"

	"src.elv.sh/pkg/eval/vals"
	"src.elv.sh/pkg/eval/vars"
	. "verifharness/coqfmt"
	"verifharness/props/c08/c08val"
	"verifharness/reg"
)

func init() {
	reg.Register(&reg.Spec{ID: "C09",
		Imports: "From verif Require Import lib.Base model.C08_Value model.C09.",
		Judge:   "C09.judge", Shard: 150, Run: run})
}

type desc struct {
	Kind string `json:"kind"`
	A    string `json:"a"`
	B    string `json:"b"`
	C    string `json:"c"`
	Obs  string `json:"obs"`
}

type runner struct {
	c  *reg.Ctx
	g  *c08val.G
	vs []vars.Var
}

// every ordered pair of {a b c}: eq, compare (error -> unc), compare &total
const code = `
for x [$a $b $c] { for y [$a $b $c] {
  put (eq $x $y)
  try { put (compare $x $y) } catch { put unc }
  try { put (compare &total $x $y) } catch { put unc }
} }
`

var ordNames = []string{"OLt", "OEq", "OGt", "OUn"}

func ordAPI(o vals.Ordering) string { return ordNames[int(o)&3] }
func ordBi(v any) string {
	switch v {
	case -1:
		return "OLt"
	case 0:
		return "OEq"
	case 1:
		return "OGt"
	}
	return "OUn"
}

// ---- input classes of a triple, computed from the inputs only (never from
// what the implementation answered).
//
// The three recorded mixed-compare findings say: an exact number that meets a
// float is first rounded as ConvertToFloat64 does (int64 and rationals to the
// nearest float64, big ints beyond int64 to +-Inf) and then compared as a
// float.  A pair (exact x, float y) belongs to such a class only if that
// rounding really changes the answer, i.e. the exact comparison of x and y
// differs from the comparison of the rounded x with y.  Pairs are taken at
// corresponding positions of two of the three values, at any nesting depth of
// lists (compare never looks inside maps: it uses Equal there).

// roundedAsConvert is ConvertToFloat64's documented behaviour, re-stated.
func roundedAsConvert(x any) float64 {
	switch x := x.(type) {
	case int:
		return float64(x)
	case *big.Int:
		if x.IsInt64() {
			return float64(x.Int64())
		}
		return math.Inf(x.Sign())
	case *big.Rat:
		f, _ := x.Float64()
		return f
	}
	return math.NaN()
}

func exactRat(x any) *big.Rat {
	switch x := x.(type) {
	case int:
		return new(big.Rat).SetInt64(int64(x))
	case *big.Int:
		return new(big.Rat).SetInt(x)
	case *big.Rat:
		return x
	}
	return nil
}

// sign of (x - y) by mathematical value; y is not NaN
func exactCmp(x any, y float64) int {
	switch {
	case math.IsInf(y, 1):
		return -1
	case math.IsInf(y, -1):
		return 1
	}
	return exactRat(x).Cmp(new(big.Rat).SetFloat64(y))
}

func floatCmp(a, b float64) int {
	switch {
	case a < b:
		return -1
	case a > b:
		return 1
	}
	return 0
}

// mixedClass gives the finding class of one (exact, float) pair, or "".
func mixedClass(x any, y float64) string {
	if math.IsNaN(y) {
		return "" // NaN is below every number either way
	}
	if exactCmp(x, y) == floatCmp(roundedAsConvert(x), y) {
		return ""
	}
	switch x := x.(type) {
	case int:
		return "mixed-exact-inexact-compare-2p53"
	case *big.Int:
		if x.IsInt64() {
			return "mixed-exact-inexact-compare-2p53"
		}
		return "mixed-bigint-float-compare-inf"
	case *big.Rat:
		return "mixed-rat-float-compare-rounded"
	}
	return ""
}

func isExact(v any) bool {
	switch v.(type) {
	case int, *big.Int, *big.Rat:
		return true
	}
	return false
}

// pairClasses adds the classes of all number pairs at corresponding positions of x and y.
func pairClasses(x, y any, out map[string]bool) {
	if lx, ok := x.(vals.List); ok {
		if ly, ok := y.(vals.List); ok {
			ix, iy := lx.Iterator(), ly.Iterator()
			for ix.HasElem() && iy.HasElem() {
				pairClasses(ix.Elem(), iy.Elem(), out)
				ix.Next()
				iy.Next()
			}
		}
		return
	}
	if fy, ok := y.(float64); ok && isExact(x) {
		if c := mixedClass(x, fy); c != "" {
			out[c] = true
		}
	}
	if fx, ok := x.(float64); ok && isExact(y) {
		if c := mixedClass(y, fx); c != "" {
			out[c] = true
		}
	}
}

// class joins the base class with every applicable finding class by "|".
func class(vs []any, is []c08val.Info, dflt string) string {
	set := map[string]bool{}
	for i := range vs {
		for j := range vs {
			if i < j {
				pairClasses(vs[i], vs[j], set)
			}
		}
	}
	var sub, plain bool
	for _, i := range is {
		sub = sub || i.SubList
		plain = plain || i.PlainList
	}
	if sub && plain {
		set["total-compare-sliced-list"] = true // repaired class: marker only
	}
	cl := dflt
	for _, k := range []string{"mixed-exact-inexact-compare-2p53", "mixed-rat-float-compare-rounded",
		"mixed-bigint-float-compare-inf", "total-compare-sliced-list"} {
		if set[k] {
			cl += "|" + k
		}
	}
	return cl
}

func (r *runner) triple(kind string, a, b, c any) {
	v := []any{a, b, c}
	is := []c08val.Info{c08val.Enc(a), c08val.Enc(b), c08val.Enc(c)}
	for i := range v {
		r.vs[i].Set(v[i])
	}
	out, err := r.g.Run(code)
	for len(out) < 27 {
		out = append(out, nil)
	}
	var obs []string
	var sb strings.Builder
	for i := 0; i < 3; i++ {
		for j := 0; j < 3; j++ {
			e, cm, ct := vals.Equal(v[i], v[j]), vals.Cmp(v[i], v[j]), vals.CmpTotal(v[i], v[j])
			k := 3 * (3*i + j)
			eb, _ := out[k].(bool)
			obs = append(obs, App("mkPobs", Bool(e), ordAPI(cm), ordAPI(ct), Bool(eb), ordBi(out[k+1]), ordBi(out[k+2])))
			fmt.Fprintf(&sb, "%d%d:%v/%d/%d ", i, j, e, int(cm)-1, int(ct)-1)
			if cm == vals.CmpUncomparable {
				r.c.Count("pair-uncomparable")
			} else if i != j {
				r.c.Count("pair-comparable")
			}
		}
	}
	cl := class(v, is, "triple-"+kind)
	for _, k := range strings.Split(cl, "|") {
		r.c.Count(k)
	}
	coq := App("mkCase", r.g.Ranks, List([]string{is[0].Coq, is[1].Coq, is[2].Coq}), List(obs))
	sum := sha1.Sum([]byte(coq))
	r.c.Emit(reg.Case{
		Coq: coq,
		Desc: desc{Kind: kind, A: c08val.Show(a), B: c08val.Show(b), C: c08val.Show(c),
			Obs: fmt.Sprintf("ij:eq/compare/compare&total(2=uncomparable) %s err=%v", sb.String(), err)},
		Key: fmt.Sprintf("%x", sum), Nontrivial: kind != "random", Class: cl})
}

func run(c *reg.Ctx) {
	g := c08val.New(c.Rand)
	r := &runner{c: c, g: g, vs: g.Vars("a", "b", "c")}
	nz := math.Copysign(0, -1)
	p := func(s string) *big.Int { z, _ := new(big.Int).SetString(s, 10); return z }
	b64 := p("18446744073709551616")
	fixed := [][3]any{
		{1<<53 + 1, float64(1 << 53), 1 << 53},           // 0 0 1: DESIGN section 7 item 2
		{-(1 << 53) - 1, -float64(1 << 53), -(1 << 53)},  // mirrored
		{math.MaxInt64, float64(1 << 63), p("9223372036854775808")},
		{b64, 1e30, math.Inf(1)},                          // big beyond int64 is compared as +Inf
		{new(big.Int).Neg(b64), -1e30, math.Inf(-1)},
		{b64, p("36893488147419103232"), math.Inf(1)},
		{big.NewRat(1, 3), 0.3333333333333333, big.NewRat(33333333, 100000000)},
		{big.NewRat(1, 2), 0.5, 1}, {big.NewRat(1, 2), big.NewRat(1, 3), big.NewRat(2, 3)}, {big.NewRat(-7, 3), big.NewRat(-7, 5), big.NewRat(7, 3)},
		{0.0, nz, 0}, {math.NaN(), math.NaN(), math.Inf(-1)}, {math.NaN(), 0, "a"},
		{vals.MakeList(math.NaN()), vals.MakeList(math.NaN()), vals.MakeList(math.NaN(), 1)},
		{vals.MakeList(1, 2), vals.MakeList(1, 2.0), vals.MakeList(1)},
		{vals.MakeList(), vals.MakeList(vals.MakeList()), vals.MakeList(vals.MakeList(), 1)},
		{"a", "ab", "b"}, {"", "\x00", "\xff"}, {true, false, true}, {nil, nil, false},
		{vals.MakeMap("a", 1), vals.MakeMap("a", 1), vals.MakeMap("a", 2)},
		{vals.MakeMap("a", 1), c08val.FM2{Key: 1, Val: 2}, vals.MakeMap("key", 1, "val", 2)},
		{g.Opaque[0], g.Opaque[1], g.Opaque[0]}, {g.Opaque[3], g.Opaque[0], g.Opaque[6]},
		{vals.MakeList(g.Opaque[0]), vals.MakeList(g.Opaque[1]), vals.MakeList(g.Opaque[0], 1)},
		{vals.MakeList(vals.MakeMap("a", 1), 1), vals.MakeList(vals.MakeMap("a", 2), 0), vals.MakeList(vals.MakeMap("a", 1), 0)},
		{1, "1", vals.MakeList(1)}, {nil, true, 1}, {"s", vals.EmptyList, vals.EmptyMap}, {vals.EmptyMap, g.Opaque[0], g.Opaque[3]},
		{g.Opaque[6], nil, "x"}, {1477884782, 1477884782.0, big.NewRat(2955769565, 2)},
	}
	for _, t := range fixed {
		r.triple("fixed", t[0], t[1], t[2])
		r.triple("fixed", t[2], t[0], t[1])
	}
	pick := func(a any) any {
		switch x := c.Rand.Intn(100); {
		case x < 30:
			return g.Rebuild(a, false)
		case x < 80:
			return g.Near(a)
		default:
			return g.Value(2)
		}
	}
	for i := 0; i < c.N; i++ {
		var a any
		kind := "derived"
		switch c.Rand.Intn(10) {
		case 0, 1, 2, 3:
			a = g.Num()
		case 4:
			// list of numbers: lexicographic order over mixed representations
			l := vals.EmptyList
			for k := c.Rand.Intn(3); k >= 0; k-- {
				l = l.Conj(g.Num())
			}
			a = l
		default:
			a = g.Value(3)
		}
		var b, cc any
		switch c.Rand.Intn(10) {
		case 0:
			b, cc, kind = g.Value(2), g.Value(2), "random"
		case 1, 2, 3:
			b = pick(a)
			cc = pick(b)
		default:
			b, cc = pick(a), pick(a)
		}
		r.triple(kind, a, b, cc)
	}
}
