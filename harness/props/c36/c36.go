// Package c36: the Markdown formatter preserves meaning and is idempotent
// (pkg/md/fmt.go).
package c36

import (
	"fmt"
	"os"
	"path/filepath"
	"regexp"
	"strconv"
	"strings"
	"time"
	"unicode/utf8"

	"src.elv.sh/pkg/md"
	"src.elv.sh/pkg/wcwidth"
	. "verifharness/coqfmt"
	"verifharness/props/c35/mdgen"
	"verifharness/reg"
)

func init() {
	reg.Register(&reg.Spec{ID: "C36",
		Imports: "From verif Require Import lib.Base model.C35_Bal model.C35_Inline model.C36.",
		Judge:   "C36.judge", Shard: 1500, Run: run})
}

type desc struct {
	Kind  string `json:"kind"`
	Input string `json:"input"`
	Width int    `json:"width,omitempty"`
	A     string `json:"a,omitempty"`
	B     string `json:"b,omitempty"`
	Note  string `json:"note,omitempty"`
}

func repoDir() string {
	if d := os.Getenv("VERIF_REPO"); d != "" {
		return d
	}
	return "/repo"
}

// ---- running the codecs under a watchdog ----

type fmtResult struct {
	out         string
	unsupported bool
	fail        string
}

func guarded[T any](what string, f func() T) (res T, fail string) {
	type r struct {
		v    T
		fail string
	}
	ch := make(chan r, 1)
	go func() {
		var x r
		defer func() {
			if p := recover(); p != nil {
				x.fail = fmt.Sprintf("%s panicked: %v", what, p)
			}
			ch <- x
		}()
		x.v = f()
	}()
	select {
	case x := <-ch:
		return x.v, x.fail
	case <-time.After(60 * time.Second):
		return res, what + " did not return within 60s"
	}
}

func format(doc string, w int) fmtResult {
	r, fail := guarded("md.Render with FmtCodec", func() fmtResult {
		c := &md.FmtCodec{Width: w}
		out := md.RenderString(doc, c)
		return fmtResult{out: out, unsupported: c.Unsupported() != nil}
	})
	r.fail = fail
	return r
}

func html(doc string) (string, string) {
	return guarded("md.Render with HTMLCodec", func() string { return md.RenderString(doc, &md.HTMLCodec{}) })
}

var (
	paragraph         = regexp.MustCompile(`(?s)<p>.*?</p>`)
	whitespaceRun     = regexp.MustCompile(`[ \t\n]+`)
	brWithWhitespaces = regexp.MustCompile(`[ \t\n]*<br />[ \t\n]*`)
	markersRegexp     = regexp.MustCompile(`^ *(?:(?:[-*>]|[0-9]{1,9}[.)]) *)*`)
	linkRegexp        = regexp.MustCompile(`\[.*\]\(.*\)`)
	codeSpanRegexp    = regexp.MustCompile("`.*`")
)

// normaliseParagraphs: "the same HTML up to whitespace inside paragraphs"
// (the normalisation of the package's own reflow test).
func normaliseParagraphs(h string) string {
	return paragraph.ReplaceAllStringFunc(h, func(p string) string {
		body := strings.Trim(p[3:len(p)-4], " \t\n")
		body = whitespaceRun.ReplaceAllLiteralString(body, " ")
		body = brWithWhitespaces.ReplaceAllLiteralString(body, "<br />")
		return "<p>" + body + "</p>"
	})
}

type blockKinds struct{ leafOther bool }

func (b *blockKinds) Do(op md.Op) {
	switch op.Type {
	case md.OpHeading, md.OpCodeBlock, md.OpHTMLBlock:
		b.leafOther = true
	}
}

func direct(c *reg.Ctx, class, doc, fail string) {
	c.Emit(reg.Case{Desc: desc{Kind: class, Input: doc, Note: fail}, Key: "D" + doc, Class: class, Nontrivial: true,
		Direct: fail + fmt.Sprintf(" on input %q", doc)})
}

// one document: all end-to-end observations
func document(c *reg.Ctx, kind, doc string, w int) {
	c.Count("doc/" + kind)
	f0 := format(doc, 0)
	if f0.fail != "" {
		direct(c, kind, doc, f0.fail)
		return
	}
	fw := format(doc, w)
	if fw.fail != "" {
		direct(c, kind, doc, fw.fail)
		return
	}
	switch {
	case !utf8.ValidString(doc):
		c.Count("outside/invalid-utf8 (totality only)")
		return
	case strings.Contains(doc, "\t"):
		c.Count("outside/tab (totality only)")
		return
	case f0.unsupported || fw.unsupported:
		c.Count("outside/nested-or-consecutive-emphasis (totality only)")
		return
	case len(doc) > 1500 || len(f0.out) > 4000:
		c.Count("large (totality only)")
		return
	}
	h, fail := html(doc)
	if fail != "" {
		direct(c, kind, doc, fail)
		return
	}
	hf, _ := html(f0.out)
	nt := len(strings.TrimSpace(doc)) > 2
	c.Emit(reg.Case{Coq: App("KPreserve", Str(h), Str(hf)), Desc: desc{Kind: "preserve", Input: doc, A: h, B: hf, Note: f0.out},
		Key: "P" + doc, Class: kind, Nontrivial: nt})
	f1 := format(f0.out, 0)
	if f1.fail != "" {
		direct(c, kind, f0.out, f1.fail)
		return
	}
	c.Emit(reg.Case{Coq: App("KIdem", Str(f0.out), Str(f1.out)), Desc: desc{Kind: "idempotent", Input: doc, A: f0.out, B: f1.out},
		Key: "I" + doc, Class: kind, Nontrivial: nt})
	// reflow
	if !strings.Contains(doc, "<p>") && !strings.Contains(doc, "</p>") {
		hw, _ := html(fw.out)
		c.Emit(reg.Case{Coq: App("KReflow", Str(normaliseParagraphs(h)), Str(normaliseParagraphs(hw))),
			Desc: desc{Kind: "reflow-preserve", Input: doc, Width: w, A: normaliseParagraphs(h), B: normaliseParagraphs(hw), Note: fw.out},
			Key:  fmt.Sprintf("R%d|%s", w, doc), Class: kind, Nontrivial: nt})
	}
	var bk blockKinds
	md.Render(doc, &bk)
	if w > 0 && !bk.leafOther {
		var ls []string
		for _, line := range strings.Split(fw.out, "\n") {
			content := line[len(markersRegexp.FindString(line)):]
			breakable := strings.Contains(content, " ") && !strings.Contains(content, "<") &&
				!linkRegexp.MatchString(content) && !codeSpanRegexp.MatchString(content)
			ls = append(ls, Pair(Nat(wcwidth.Of(line)), Bool(breakable)))
		}
		c.Emit(reg.Case{Coq: App("KFits", Nat(w), List(ls)), Desc: desc{Kind: "reflow-fits", Input: doc, Width: w, A: fw.out},
			Key: fmt.Sprintf("F%d|%s", w, doc), Class: kind, Nontrivial: strings.Contains(fw.out, " ")})
	}
}

// ---- corpora ----

func specMarkdown() []string {
	// reuse C35's loader without importing its runner package
	b, err := os.ReadFile(filepath.Join(repoDir(), "pkg/md/spec/spec.json"))
	if err != nil {
		panic(err)
	}
	var out []string
	for _, m := range regexp.MustCompile(`"markdown": ("(?:[^"\\]|\\.)*")`).FindAllSubmatch(b, -1) {
		s, err := strconv.Unquote(string(m[1]))
		if err == nil {
			out = append(out, s)
		}
	}
	return out
}

type fuzzCase struct {
	doc string
	w   int
}

var fuzzString = regexp.MustCompile(`(?m)^string\((.*)\)$`)
var fuzzInt = regexp.MustCompile(`(?m)^int\((-?[0-9]+)\)$`)

func fuzzCorpus() []fuzzCase {
	var out []fuzzCase
	files, _ := filepath.Glob(filepath.Join(repoDir(), "pkg/md/testdata/fuzz/*/*"))
	for _, f := range files {
		b, err := os.ReadFile(f)
		if err != nil {
			continue
		}
		m := fuzzString.FindSubmatch(b)
		if m == nil {
			continue
		}
		s, err := strconv.Unquote(string(m[1]))
		if err != nil {
			continue
		}
		fc := fuzzCase{doc: s}
		if mi := fuzzInt.FindSubmatch(b); mi != nil {
			fc.w, _ = strconv.Atoi(string(mi[1]))
		}
		out = append(out, fc)
	}
	return out
}

// ---- kernels ----

func kernel(c *reg.Ctx, kind, coq, input, obs string, nt bool) {
	c.Count("kernel/" + kind)
	c.Emit(reg.Case{Coq: coq, Desc: desc{Kind: kind, Input: input, A: obs}, Key: kind + "|" + input, Class: "kernel-" + kind, Nontrivial: nt})
}

func strList(ss []string) string {
	var xs []string
	for _, s := range ss {
		xs = append(xs, Str(s))
	}
	return List(xs)
}

var titleAlphabet = []string{"a", "b c", "\"", "'", "(", ")", "\\", "&", "&amp;", "&#40;", ";", "\n", "<", ">", "é", " ", "*", "&NewLine;", "&#"}
var destAlphabet = []string{"a", "/b", "(", ")", "\\", "&", "&amp;", "&lt", ";", "<", ">", " ", "\n", "\x01", "é", "#", "?x=1", "&#x3c;", "\t"}

func soupOf(c *reg.Ctx, al []string, n int) string {
	var sb strings.Builder
	for i := 0; i < n; i++ {
		sb.WriteString(al[c.Rand.Intn(len(al))])
	}
	return sb.String()
}

func runKernels(c *reg.Ctx, n int) {
	g := &mdgen.Gen{R: c.Rand}
	// link tails
	for i := 0; i < n; i++ {
		dest := soupOf(c, destAlphabet, c.Rand.Intn(5))
		title := soupOf(c, titleAlphabet, c.Rand.Intn(5))
		switch c.Rand.Intn(6) {
		case 0:
			dest = ""
		case 1:
			title = ""
		case 2:
			dest = g.Pick("u(v)w", "((a)", "a)(", "<x>", "<", "a b", "&amp", "&amp;", "\\", "a\\)b")
		}
		obs := md.VerifC36FormatLinkTail(dest, title)
		kernel(c, "linktail", App("KLinkTail", Str(dest), Str(title), Str(obs)), fmt.Sprintf("%q %q", dest, title), obs, dest != "" || title != "")
	}
	// code fences
	for i := 0; i < n/2; i++ {
		info := g.Pick("", "", "elvish", "a`b", "~x", "~`", "a&amp;b", "c\\d", "e\nf", " g", "&#", "`")
		var lines []string
		for j, m := 0, c.Rand.Intn(5); j < m; j++ {
			lines = append(lines, g.Pick("code", "", "```", "````", "~~~", "~~~~~", "  ```", "   ~~~~  ", "    ```", "a ``` b `````", "``", "~", "```x", "\t```", "``` "))
		}
		s, e := md.VerifC36CodeFences(info, lines)
		kernel(c, "fence", App("KFence", Str(info), strList(lines), Str(s), Str(e)), fmt.Sprintf("%q %q", info, lines), s+" / "+e, len(lines) > 0)
	}
	// escapeText
	for i := 0; i < n; i++ {
		s := soupOf(c, []string{"a", "b", "_", "__", "*", "[", "]", "`", "\\", "&", "&amp;", "&#1;", "&x", ";", "<", ">", " ", "é", "中", "\u00a0", ".", "!", "(", "-", "#", "1", "\n"}, 1+c.Rand.Intn(8))
		obs := md.VerifC36EscapeText(s)
		var in []string
		for _, r := range s {
			in = append(in, Pair(N(uint64(r)), Bool(md.VerifC36IsWordRune(r))))
		}
		var out []string
		for _, r := range obs {
			out = append(out, Pair(N(uint64(r)), Bool(md.VerifC36IsWordRune(r))))
		}
		kernel(c, "esctext", App("KEscText", List(in), List(out)), s, obs, s != obs)
	}
	// reflow kernel: words that need no escaping at a line start
	for i := 0; i < n/2; i++ {
		var ws []string
		for j, m := 0, 1+c.Rand.Intn(10); j < m; j++ {
			ws = append(ws, strings.Repeat(g.Pick("a", "b", "x", "Q"), 1+c.Rand.Intn(9)))
		}
		w := 1 + c.Rand.Intn(30)
		out := md.VerifC36Reflow(ws, w)
		lines := strings.Split(out, "\n")
		kernel(c, "reflow", App("KReflowKernel", Nat(w), strList(ws), strList(lines)), fmt.Sprintf("%d %q", w, ws), out, len(ws) > 1)
	}
}

// ---- reflow at the exact-width boundary ----

// words that need (or may need) an escape at the start of an output line
var startWords = []string{"-", "+", "*", "#", ">", "1.", "1)", "=", "~~~", "`", "``", "--", "---", "##", "- -", "2.", "10)", "_"}

// reflowLines runs the real reflow on plain words (hook) and returns the
// emitted lines with the first line that is too wide although breakable.
func reflowLines(words []string, w int) (lines []string, wide string) {
	out := md.VerifC36Reflow(words, w)
	for _, l := range strings.Split(out, "\n") {
		lines = append(lines, l)
		if len(l) > w && strings.Contains(l, " ") && wide == "" {
			wide = l
		}
	}
	return lines, wide
}

// boundaryParagraph plants a paragraph in which a start word begins a non-first
// line and the next word makes that line exactly w-1, w or w+1 columns wide.
func boundaryParagraph(c *reg.Ctx, w int) []string {
	sw := startWords[c.Rand.Intn(len(startWords))]
	fill := func(n int) string {
		if n < 1 {
			n = 1
		}
		return strings.Repeat("a", n)
	}
	var ws []string
	ws = append(ws, fill(w)) // a full first line forces the break
	for k, m := 0, 1+c.Rand.Intn(3); k < m; k++ {
		ws = append(ws, strings.Fields(sw)...)
		ws = append(ws, fill(w-len(sw)-1+c.Rand.Intn(3)-1))
		if c.Rand.Intn(2) == 0 {
			ws = append(ws, fill(1+c.Rand.Intn(3)))
		}
		sw = startWords[c.Rand.Intn(len(startWords))]
	}
	return ws
}

func runReflowBoundary(c *reg.Ctx, n int) {
	// 1. exhaustive small sweep through the real reflow: 2-3 words (4 in the thorough
	//    tier) of lengths 1-4 over {a,-,+,#}, widths 2-8; all emitted lines of one
	//    width are judged in one case (the oracle is per line)
	var vocab []string
	for _, ch := range []string{"a", "-", "+", "#"} {
		for l := 1; l <= 4; l++ {
			vocab = append(vocab, strings.Repeat(ch, l))
		}
	}
	maxWords := 3
	if c.Tier == "thorough" {
		maxWords = 4
	}
	for w := 2; w <= 8; w++ {
		seen := map[string]bool{}
		var all []string
		hint, count := "", 0
		var rec func(ws []string)
		rec = func(ws []string) {
			if len(ws) >= 2 {
				count++
				lines, wide := reflowLines(ws, w)
				if wide != "" && hint == "" {
					hint = fmt.Sprintf("words %q give line %q", ws, wide)
				}
				for _, l := range lines {
					if !seen[l] {
						seen[l] = true
						all = append(all, l)
					}
				}
			}
			if len(ws) == maxWords {
				return
			}
			for _, v := range vocab {
				rec(append(append([]string{}, ws...), v))
			}
		}
		rec(nil)
		c.Count("kernel/reflow-sweep")
		c.Emit(reg.Case{Coq: App("KReflowObs", Nat(w), strList(all)),
			Desc: desc{Kind: "reflow-sweep", Input: fmt.Sprintf("all sequences of 2-%d words of lengths 1-4 over {a,-,+,#}: %d paragraphs, %d distinct lines", maxWords, count, len(all)), Width: w, Note: hint},
			Key:  fmt.Sprintf("sweep%d", w), Class: "kernel-reflow-sweep", Nontrivial: true})
	}
	// 2. planted boundary paragraphs: kernel hook (words the text escaper leaves alone)
	//    and the whole formatter
	for i := 0; i < n; i++ {
		w := 3 + c.Rand.Intn(10)
		if c.Rand.Intn(4) == 0 {
			w = 13 + c.Rand.Intn(70)
		}
		ws := boundaryParagraph(c, w)
		plain := true
		for _, x := range ws {
			if strings.ContainsAny(x, "*`_") {
				plain = false
			}
		}
		if plain {
			lines, wide := reflowLines(ws, w)
			c.Count("kernel/reflow-boundary")
			c.Emit(reg.Case{Coq: App("KReflowObs", Nat(w), strList(lines)),
				Desc: desc{Kind: "reflow-boundary", Input: strings.Join(ws, " "), Width: w, A: strings.Join(lines, "\n"), Note: wide},
				Key:  fmt.Sprintf("rb%d|%s", w, strings.Join(ws, " ")), Class: "kernel-reflow-boundary", Nontrivial: true})
		}
		doc := strings.Join(ws, " ") + "\n"
		switch c.Rand.Intn(4) {
		case 0:
			doc = "> " + doc
		case 1:
			doc = "- x\n\n  " + doc
		}
		document(c, "reflow-boundary", doc, w)
	}
}

func run(c *reg.Ctx) {
	g := &mdgen.Gen{R: c.Rand, NoEmphasisNesting: true}
	widths := []int{20, 51, 80}
	randWidth := func() int {
		if c.Rand.Intn(3) == 0 {
			return widths[c.Rand.Intn(3)]
		}
		return 1 + c.Rand.Intn(90)
	}
	// 1. the checked-in fuzz corpus (with its own widths where present) and the spec corpus
	for _, fc := range fuzzCorpus() {
		w := fc.w
		if w <= 0 {
			w = randWidth()
		}
		document(c, "fuzz-corpus", fc.doc, w)
	}
	for i, doc := range specMarkdown() {
		document(c, "spec", doc, widths[i%3])
	}
	// 2. fixed regression documents for the mutation classes
	for _, doc := range []string{"aaaaa - foo\n", "aaaaa + foo\n", "\\# a\n", "\\- a\n", "1\\. a\n", "a\n\\# b\n", "```\n````\n```\n`````\n", "~~~ ~`\n~~~\n",
		"[a](<b c> \"t\\\"'()\")\n", "`` ` `` and `a b` and some more words to be wrapped here\n", "`a  b` xxxxxxxxx yyyyyyyy `c  d` zzzzzzz `e   f`\n", "\\+ a\n", "\\> a\n", "a \\*b\\* \\_c\\_\n",
		"\\[a\\](b)\n", "&amp;amp; \\&amp;\n", "\\<b>\n", "- - x\n", "* a\n\n  ***\n", "# a \\#\n", "    code\n", "- a\n\n      code\n"} {
		document(c, "fixed", doc, 20)
	}
	for _, wd := range []struct {
		doc string
		w   int
	}{{"aaaaa - foo\n", 5}, {"aaaaa + foo\n", 5}, {"aaaaaaa -- foo\n", 6}, {"aaaa # b\n", 3}, {"aaaaaa 1. bb\n", 5}, {"aaaaaa - - foo\n", 7}} {
		document(c, "fixed", wd.doc, wd.w)
	}
	// 3. kernels
	nk := c.N / 8
	if nk < 40 {
		nk = 40
	}
	runKernels(c, nk)
	runReflowBoundary(c, c.N/6)
	// 4. generated documents and mutations
	spec := specMarkdown()
	for i := 0; i < c.N/5; i++ {
		switch c.Rand.Intn(8) {
		case 0:
			document(c, "gen-inline", g.Inline(2)+"\n", randWidth())
		case 1:
			document(c, "gen-block", strings.Join(g.Block(1), "\n")+"\n", randWidth())
		case 2:
			document(c, "gen-soup", g.Soup(3+c.Rand.Intn(14)), randWidth())
		case 3:
			document(c, "gen-inline-soup", g.InlineSoup(3+c.Rand.Intn(12)), randWidth())
		case 4:
			document(c, "mutated-spec", g.Mutate(spec[c.Rand.Intn(len(spec))]), randWidth())
		case 5:
			document(c, "random-bytes", g.RandomBytes(c.Rand.Intn(40)), randWidth())
		default:
			document(c, "gen-doc", g.Doc(), randWidth())
		}
	}
	for i := 0; i < 6; i++ {
		document(c, "adversarial", g.Adversarial(200+c.Rand.Intn(2000)), randWidth())
	}
}
