// Package c21: tmp / with / defer on every exit path.  Generated programs nest the
// three constructs in functions, lambdas and control blocks, leave them by every
// exit path, and write an event log with `put` (see coq/model/C21.v).
package c21

import (
	"fmt"
	"math/rand"

	. "verifharness/coqfmt"
	a "verifharness/props/c15"
	"verifharness/reg"
)

func init() {
	reg.Register(&reg.Spec{ID: "C21",
		Imports: "From verif Require Import lib.Base model.C15_Syntax model.C21.",
		Judge:   "C21.judge", Shard: 15, Run: run})
}

type desc struct {
	Src string `json:"src"`
	Out string `json:"out"`
	Exc string `json:"exc,omitempty"`
}

// tracked variables: v0, v1 strings; v2 a list of three
const (
	vx = 0
	vy = 1
	vz = 2
)

type gen struct {
	r       *rand.Rand
	nextID  int
	nextFn  int
	fns     []int // defined functions (ids)
	budget  int
	exits   map[string]int
	inLoop  int
	fnFrame string // id of the nearest enclosing fn frame ("top" if none)
}

func (g *gen) id() string       { g.nextID++; return fmt.Sprint(g.nextID) }
func (g *gen) n(k int) int      { return g.r.Intn(k) }
func (g *gen) p(x float64) bool { return g.r.Float64() < x }

func s(x string) a.Expr { return a.EStr{S: x} }
func v(i int) a.Expr    { return a.EVar{X: i} }

func tracked() []a.Expr { return []a.Expr{v(vx), v(vy), v(vz)} }

func ev(tag string, rest ...a.Expr) a.Pipeline {
	return a.Pipeline{a.CBuiltin{B: "put", Args: []a.Expr{a.EList{Es: append([]a.Expr{s(tag)}, rest...)}}}}
}

var vals = []string{"p", "q", "r", "s", "t"}

func (g *gen) val() a.Expr { return s(vals[g.n(len(vals))]) }

// an lvalue on the tracked variables with a fitting value
func (g *gen) lv(bad bool) (a.LValue, a.Expr) {
	switch g.n(4) {
	case 0:
		return a.LValue{X: vx}, g.val()
	case 1:
		return a.LValue{X: vy}, g.val()
	default:
		ix := []string{"0", "1", "2", "-1"}[g.n(4)]
		if bad {
			ix = "7"
		}
		return a.LValue{X: vz, Ix: []a.Expr{s(ix)}}, g.val()
	}
}

func lam(body a.Chunk) a.Expr { return a.ELam{Sig: a.Sig{Rest: -1}, Body: body} }

// frame body: B ... Q|exit
func (g *gen) frame(kind string, d int) a.Chunk {
	fr := g.id()
	savedFn := g.fnFrame
	if kind == "fn" {
		g.fnFrame = fr
	}
	defer func() { g.fnFrame = savedFn }()
	c := a.Chunk{ev("B", s(fr), s(kind))}
	n := 1 + g.n(4)
	for i := 0; i < n; i++ {
		c = append(c, g.stmt(fr, d)...)
	}
	// how the body ends
	switch k := g.n(10); {
	case k < 5:
		c = append(c, ev("Q", s(fr)))
	case k == 5:
		id := g.id()
		g.exits["fail"]++
		c = append(c, ev("Bx", s(fr), s("fail")), a.Pipeline{a.CBuiltin{B: "fail", Args: []a.Expr{s("b" + id)}}})
	case k == 6 || k == 7:
		g.exits["return"]++
		c = append(c, ev("Bx", s(g.fnFrame), s("return")), a.Pipeline{a.CBuiltin{B: "return"}})
	case k == 8:
		g.exits["break"]++
		c = append(c, ev("Bx", s(fr), s("break")), a.Pipeline{a.CBuiltin{B: "break"}})
	default:
		g.exits["continue"]++
		c = append(c, ev("Bx", s(fr), s("continue")), a.Pipeline{a.CBuiltin{B: "continue"}})
	}
	return c
}

func (g *gen) bracket(st a.Cmd) []a.Pipeline {
	c := g.id()
	fin := a.Chunk{ev("X", append([]a.Expr{s(c)}, tracked()...)...)}
	return []a.Pipeline{
		ev("E", append([]a.Expr{s(c)}, tracked()...)...),
		{a.CTry{Body: a.Chunk{{st}}, CatchVar: -1, Fin: &fin}},
	}
}

func (g *gen) stmt(fr string, d int) []a.Pipeline {
	k := g.n(12)
	compound := d < 4 && g.budget > 0
	switch {
	case k < 2:
		return []a.Pipeline{ev("S", append([]a.Expr{s(fr), s(g.id())}, tracked()...)...)}
	case k < 5: // defer
		id := g.id()
		body := a.Chunk{ev("D", append([]a.Expr{s(fr), s(id)}, tracked()...)...)}
		if g.p(0.3) {
			body = append(body, ev("Df", s(fr), s(id)), a.Pipeline{a.CBuiltin{B: "fail", Args: []a.Expr{s("d" + id)}}})
		}
		return []a.Pipeline{ev("R", s(fr), s(id)), {a.CBuiltin{B: "defer", Args: []a.Expr{lam(body)}}}}
	case k < 7: // tmp
		lv, val := g.lv(g.p(0.1))
		if g.p(0.15) {
			lv2, val2 := g.lv(false)
			if lv2.X != lv.X {
				return []a.Pipeline{{a.CTmp{Lvs: []a.LValue{lv, lv2}, Rhs: []a.Expr{val, val2}}}}
			}
		}
		return []a.Pipeline{{a.CTmp{Lvs: []a.LValue{lv}, Rhs: []a.Expr{val}}}}
	case compound:
		g.budget--
		switch g.n(7) {
		case 0, 1: // with
			w := a.CWith{}
			for i, n := 0, 1+g.n(3); i < n; i++ {
				lv, val := g.lv(g.p(0.12))
				as := a.Assign{Lvs: []a.LValue{lv}, Rhs: []a.Expr{val}}
				if g.p(0.3) {
					// the second lvalue may fail after the first was assigned
					lv2, val2 := g.lv(g.p(0.35))
					if lv2.X != lv.X {
						as = a.Assign{Lvs: []a.LValue{lv, lv2}, Rhs: []a.Expr{val, val2}}
						if g.p(0.3) {
							as.Rhs = as.Rhs[:1] // arity error after nothing of this group was assigned
						}
					}
				}
				w.Assigns = append(w.Assigns, as)
			}
			w.Body = g.frame("lam", d+1)
			return g.bracket(w)
		case 2:
			return g.bracket(a.CCall{Head: lam(g.frame("lam", d+1))})
		case 3:
			if len(g.fns) > 0 {
				return g.bracket(a.CCmd{F: g.fns[g.n(len(g.fns))]})
			}
			fallthrough
		case 4:
			return g.bracket(a.CIf{Conds: []a.Expr{v(a.ConstTrue)}, Bodies: []a.Chunk{g.frame("lam", d+1)}})
		case 5:
			g.inLoop++
			body := g.frame("lam", d+1)
			g.inLoop--
			return g.bracket(a.CFor{Decl: true, X: 10 + g.nextID, E: a.EList{Es: []a.Expr{s("1"), s("2")}}, Body: body})
		default:
			fin := g.frame("lam", d+1)
			return g.bracket(a.CTry{Body: g.frame("lam", d+1), CatchVar: -1, Fin: &fin})
		}
	}
	return []a.Pipeline{ev("S", append([]a.Expr{s(fr), s(g.id())}, tracked()...)...)}
}

func (g *gen) program() a.Chunk {
	g.fnFrame = "top"
	g.budget = 4 + g.n(6)
	c := a.Chunk{
		{a.CVar{Lvs: []a.LValue{{X: vx}, {X: vy}}, Rhs: []a.Expr{s("x0"), s("y0")}, HasRhs: true}},
		{a.CVar{Lvs: []a.LValue{{X: vz}}, Rhs: []a.Expr{a.EList{Es: []a.Expr{s("z0"), s("z1"), s("z2")}}}, HasRhs: true}},
	}
	nf := 1 + g.n(3)
	for i := 0; i < nf; i++ {
		id := a.FnBase + g.nextFn
		g.nextFn++
		body := g.frame("fn", 0)
		c = append(c, a.Pipeline{a.CFn{F: id, Sig: a.Sig{Rest: -1}, Body: body}})
		g.fns = append(g.fns, id)
	}
	for j, f := range g.fns {
		cid := g.id()
		exc := 100 + j
		els := a.Chunk{ev("O", s(fmt.Sprint(j)), v(a.ConstOk))}
		fin := a.Chunk{ev("X", append([]a.Expr{s(cid)}, tracked()...)...)}
		c = append(c, ev("E", append([]a.Expr{s(cid)}, tracked()...)...))
		c = append(c, a.Pipeline{a.CTry{Body: a.Chunk{{a.CCmd{F: f}}}, HasCatch: true, CatchVar: exc, CatchDecl: true,
			Catch: a.Chunk{ev("O", s(fmt.Sprint(j)), v(exc))}, Else: &els, Fin: &fin}})
	}
	return c
}

func emit(c *reg.Ctx, bucket string, prog a.Chunk, exits map[string]int) {
	src := a.ProgSrc(prog)
	o := a.Run(src)
	class := a.ClassOf(prog)
	if class == "core" || class == "defer-ok-exception" {
		// the defer defect does not touch what C21 states; the model follows it
		class = "frames"
	}
	switch {
	case o.Hang:
		c.Emit(reg.Case{Desc: desc{Src: src}, Key: src, Class: class, Direct: "program did not finish within 20 s"})
		return
	case o.Panic != "":
		c.Emit(reg.Case{Desc: desc{Src: src, Exc: o.Panic}, Key: src, Class: class, Direct: "the evaluator panicked: " + o.Panic})
		return
	case o.Static:
		c.Count(bucket + "/static-error")
		return
	}
	c.Count(bucket + "/" + class)
	for k, n := range exits {
		if n > 0 {
			c.Count("exit/" + k)
		}
	}
	c.Emit(reg.Case{
		Coq:        App("mkCase", a.ChunkCoq(prog), a.ValsCoq(o.Out), a.ExcCoq(o.Err)),
		Desc:       desc{src, a.ValsText(o.Out), a.ExcText(o.Err)},
		Key:        src,
		Nontrivial: len(o.Out) >= 8,
		Class:      class,
	})
}

func run(c *reg.Ctx) {
	for i := 0; i < c.N; i++ {
		g := &gen{r: c.Rand, exits: map[string]int{}}
		emit(c, "random", g.program(), g.exits)
	}
}
