// Package c04: repr output evaluates back to an equal value
// (pkg/eval/vals/repr.go, repr_helpers.go, string.go, pkg/parse/quote.go).
package c04

import (
	"encoding/binary"
	"fmt"
	"math"
	"math/big"
	"sort"
	"strconv"
	"strings"
	"unicode"
	"unicode/utf8"

	"src.elv.sh/pkg/eval"
	"src.elv.sh/pkg/eval/vals"
	"src.elv.sh/pkg/parse"
	"src.elv.sh/pkg/persistent/vector"
	. "verifharness/coqfmt"
	"verifharness/reg"
)

func init() {
	reg.Register(&reg.Spec{ID: "C04",
		Imports: "From verif Require Import lib.Base model.C04.",
		Judge:   "C04.judge", Shard: 150, Run: run})
}

// ---------------------------------------------------------------- value trees

type kind int

const (
	kNil kind = iota
	kBool
	kStr
	kNum
	kList
	kMap
)

// node is a generated value: what to build, independent of insertion order.
type node struct {
	k     kind
	b     bool
	s     string
	num   any // int, *big.Int, *big.Rat, float64 (canonical as vals keeps them)
	sub   bool
	elems []*node
	keys  []*node
	vals  []*node
}

// build makes the Go value; every map is filled in the order perm gives
// (nil = as listed).
func build(n *node, perm func(int) []int) any {
	switch n.k {
	case kNil:
		return nil
	case kBool:
		return n.b
	case kStr:
		return n.s
	case kNum:
		return n.num
	case kList:
		vs := make([]any, len(n.elems))
		for i, e := range n.elems {
			vs[i] = build(e, perm)
		}
		if n.sub {
			// a slice view (Go type *vector.subVector), as $l[0..n] makes
			l := vals.MakeList(append(vs, "extra")...)
			return l.SubVector(0, len(vs))
		}
		return vals.MakeList(vs...)
	default:
		m := vals.EmptyMap
		order := make([]int, len(n.keys))
		for i := range order {
			order[i] = i
		}
		if perm != nil {
			order = perm(len(n.keys))
		}
		for _, i := range order {
			m = m.Assoc(build(n.keys[i], perm), build(n.vals[i], perm))
		}
		return m
	}
}

func isNaN(v any) bool {
	f, ok := v.(float64)
	return ok && math.IsNaN(f)
}

func hasNaN(v any) bool {
	switch v := v.(type) {
	case float64:
		return math.IsNaN(v)
	case vals.List:
		for it := v.Iterator(); it.HasElem(); it.Next() {
			if hasNaN(it.Elem()) {
				return true
			}
		}
	case vals.Map:
		for it := v.Iterator(); it.HasElem(); it.Next() {
			k, x := it.Elem()
			if hasNaN(k) || hasNaN(x) {
				return true
			}
		}
	}
	return false
}

// ---------------------------------------------------------------- serialisation

func field(b []byte) []byte {
	if len(b) > 65535 {
		panic("field too long")
	}
	return append([]byte{byte(len(b) >> 8), byte(len(b))}, b...)
}

func sgn(neg bool) byte {
	if neg {
		return 1
	}
	return 0
}

func isSub(l vals.List) bool { return strings.Contains(fmt.Sprintf("%T", l), "subVector") }

// ser writes a value as the byte string model/C04.v decodes (maps in the
// order the real iterator yields).  ok=false: a value outside the property.
func ser(v any, out *[]byte) bool {
	switch v := v.(type) {
	case nil:
		*out = append(*out, 0)
	case bool:
		if v {
			*out = append(*out, 2)
		} else {
			*out = append(*out, 1)
		}
	case string:
		*out = append(append(*out, 3), field([]byte(v))...)
	case int:
		z := big.NewInt(int64(v))
		*out = append(append(*out, 4, sgn(z.Sign() < 0)), field(z.Bytes())...)
	case *big.Int:
		*out = append(append(*out, 5, sgn(v.Sign() < 0)), field(v.Bytes())...)
	case *big.Rat:
		*out = append(append(*out, 6, sgn(v.Sign() < 0)), field(v.Num().Bytes())...)
		*out = append(*out, field(v.Denom().Bytes())...)
	case float64:
		var b [8]byte
		binary.BigEndian.PutUint64(b[:], math.Float64bits(v))
		*out = append(append(*out, 7), b[:]...)
	case vals.List:
		n := v.Len()
		*out = append(*out, 8, sgn(isSub(v)), byte(n>>8), byte(n))
		for it := v.Iterator(); it.HasElem(); it.Next() {
			if !ser(it.Elem(), out) {
				return false
			}
		}
	case vals.Map:
		n := v.Len()
		*out = append(*out, 9, byte(n>>8), byte(n))
		for it := v.Iterator(); it.HasElem(); it.Next() {
			k, x := it.Elem()
			if !ser(k, out) || !ser(x, out) {
				return false
			}
		}
	default:
		return false
	}
	return true
}

// walk calls f on every string and float inside v.
func walk(v any, fs func(string), ff func(float64)) {
	switch v := v.(type) {
	case string:
		fs(v)
	case float64:
		ff(v)
	case vals.List:
		for it := v.Iterator(); it.HasElem(); it.Next() {
			walk(it.Elem(), fs, ff)
		}
	case vals.Map:
		for it := v.Iterator(); it.HasElem(); it.Next() {
			k, x := it.Elem()
			walk(k, fs, ff)
			walk(x, fs, ff)
		}
	}
}

// tables: unicode.IsPrint of every non-ASCII rune around, FormatFloat of every
// float, ParseFloat of every text the model asks about.
func tables(vs []any, texts []string) (tbl, ftab, pftab []byte) {
	runes := map[rune]bool{}
	addRunes := func(s string) {
		for _, r := range s {
			if r >= 128 {
				runes[r] = true
			}
		}
	}
	floats := map[uint64]bool{}
	var forder []uint64
	for _, v := range vs {
		walk(v, addRunes, func(f float64) {
			b := math.Float64bits(f)
			if !floats[b] {
				floats[b] = true
				forder = append(forder, b)
			}
		})
	}
	for _, t := range texts {
		addRunes(t)
	}
	var rs []rune
	for r := range runes {
		rs = append(rs, r)
	}
	sort.Slice(rs, func(i, j int) bool { return rs[i] < rs[j] })
	for _, r := range rs {
		e := []byte{byte(r >> 24), byte(r >> 16), byte(r >> 8), byte(r), 0}
		if unicode.IsPrint(r) {
			e[4] = 1
		}
		tbl = append(tbl, field(e)...)
	}
	seenText := map[string]bool{}
	addPf := func(s string) {
		if seenText[s] {
			return
		}
		seenText[s] = true
		pftab = append(pftab, field([]byte(s))...)
		f, err := strconv.ParseFloat(s, 64)
		if err != nil {
			pftab = append(pftab, field(nil)...)
		} else {
			var b [8]byte
			binary.BigEndian.PutUint64(b[:], math.Float64bits(f))
			pftab = append(pftab, field(b[:])...)
		}
	}
	for _, bits := range forder {
		f := math.Float64frombits(bits)
		var b [8]byte
		binary.BigEndian.PutUint64(b[:], bits)
		ftab = append(ftab, field(b[:])...)
		sf := strconv.FormatFloat(f, 'f', -1, 64)
		se := strconv.FormatFloat(f, 'e', -1, 64)
		ftab = append(ftab, field([]byte(sf))...)
		ftab = append(ftab, field([]byte(se))...)
		addPf(sf)
		addPf(se)
		addPf(sf + ".0")
		addPf(vals.ToString(f))
	}
	addPf("NaN")
	return
}

// rank of the Go type of nil, bool, number, string, list, map (C08_Value.tag)
// under vals.CmpTotal (the order of the type descriptors in this process)
func typeRanks() []byte {
	reps := []any{nil, true, 1, "s", vals.MakeList("a"), vals.MakeMap("k", "v")}
	rk := make([]byte, len(reps))
	for i, a := range reps {
		for _, b := range reps {
			if vals.CmpTotal(b, a) == vals.CmpLess {
				rk[i]++
			}
		}
	}
	return rk
}

// ---------------------------------------------------------------- evaluation

var theEvaler = eval.NewEvaler()

// evalPut evaluates "put TEXT": kind 0 one value, 1 parse error, 2 exception, 3 other.
func evalPut(text string) (kindOf int, v any, note string) {
	defer func() {
		if r := recover(); r != nil {
			kindOf, note = 2, fmt.Sprintf("panic: %v", r)
		}
	}()
	port, collect, perr := eval.ValueCapturePort()
	if perr != nil {
		return 3, nil, perr.Error()
	}
	err := theEvaler.Eval(parse.Source{Name: "[c04]", Code: "put " + text},
		eval.EvalCfg{Ports: []*eval.Port{nil, port, nil}})
	vs := collect()
	switch {
	case err != nil && len(parse.UnpackErrors(err)) > 0:
		return 1, nil, short(err.Error())
	case err != nil:
		return 2, nil, short(err.Error())
	case len(vs) != 1:
		return 3, nil, fmt.Sprintf("%d values", len(vs))
	}
	return 0, vs[0], ""
}

func short(s string) string {
	if len(s) > 100 {
		s = s[:100]
	}
	return s
}

// ---------------------------------------------------------------- classes

// tieCollide: some map inside v has two keys that are not Equal, tie under
// CmpTotal and have the same 32-bit Hash (computed from the input only).
// ties: some map has two keys that tie under CmpTotal.
// cyclic: some map holding a colliding tie also has three keys on which the
// less function of reprMap (CmpTotal, ties broken by the key text) is cyclic.
func tieInfo(v any) (ties, collide, cyclic bool) {
	switch v := v.(type) {
	case vals.List:
		for it := v.Iterator(); it.HasElem(); it.Next() {
			t, c, y := tieInfo(it.Elem())
			ties, collide, cyclic = ties || t, collide || c, cyclic || y
		}
	case vals.Map:
		var keys []any
		for it := v.Iterator(); it.HasElem(); it.Next() {
			k, x := it.Elem()
			keys = append(keys, k)
			for _, y := range []any{k, x} {
				t, c, z := tieInfo(y)
				ties, collide, cyclic = ties || t, collide || c, cyclic || z
			}
		}
		here := false
		for i := range keys {
			for j := i + 1; j < len(keys); j++ {
				if vals.CmpTotal(keys[i], keys[j]) == vals.CmpEqual && !vals.Equal(keys[i], keys[j]) {
					ties = true
					if vals.Hash(keys[i]) == vals.Hash(keys[j]) {
						collide, here = true, true
					}
				}
			}
		}
		if here && len(keys) <= 12 {
			texts := make([]string, len(keys))
			for i, k := range keys {
				texts[i] = vals.ReprPlain(k)
			}
			lt := func(i, j int) bool {
				switch vals.CmpTotal(keys[i], keys[j]) {
				case vals.CmpLess:
					return true
				case vals.CmpEqual:
					return texts[i] < texts[j]
				}
				return false
			}
			for a := range keys {
				for b := range keys {
					for c := range keys {
						if lt(a, b) && lt(b, c) && lt(c, a) {
							cyclic = true
						}
					}
				}
			}
		}
	}
	return
}

func depthOf(n *node) int {
	d := 0
	for _, l := range [][]*node{n.elems, n.keys, n.vals} {
		for _, e := range l {
			if x := depthOf(e); x > d {
				d = x
			}
		}
	}
	if n.k == kList || n.k == kMap {
		return d + 1
	}
	return 0
}

func hasMap2(n *node) bool {
	if n.k == kMap && len(n.keys) >= 2 {
		return true
	}
	for _, l := range [][]*node{n.elems, n.keys, n.vals} {
		for _, e := range l {
			if hasMap2(e) {
				return true
			}
		}
	}
	return false
}

// ---------------------------------------------------------------- one case

type desc struct {
	Indent int      `json:"indent"`
	Text   string   `json:"repr"`
	Res    string   `json:"eval"`
	Back   string   `json:"back,omitempty"`
	GoEq   bool     `json:"equal"`
	Alts   []string `json:"other_insertion_orders,omitempty"`
	Via    string   `json:"via"`
}

var resName = []string{"value", "parse-error", "exception", "other"}

func emit(c *reg.Ctx, via string, n *node, indent int) {
	v := build(n, nil)
	var sv []byte
	if !ser(v, &sv) {
		return
	}
	text := vals.Repr(v, indent)
	res, back, note := evalPut(text)
	var sback []byte
	goeq := false
	backText := note
	if res == 0 {
		if !ser(back, &sback) {
			res, sback = 3, nil
			backText = "value of kind " + vals.Kind(back)
		} else {
			goeq = vals.Equal(v, back)
			backText = vals.ReprPlain(back)
		}
	}
	all := []any{v}
	texts := []string{text}
	if res == 0 {
		all = append(all, back)
	}
	// the same value with every map filled in other insertion orders
	var alts []string
	var altTexts []string
	if hasMap2(n) {
		for i := 0; i < 3; i++ {
			av := build(n, func(k int) []int { return c.Rand.Perm(k) })
			var sa []byte
			if !ser(av, &sa) {
				continue
			}
			at := vals.Repr(av, indent)
			alts = append(alts, Pair(Bytes(sa), Str(at)))
			if at != text {
				altTexts = append(altTexts, at)
			}
			all = append(all, av)
			texts = append(texts, at)
		}
	}
	tbl, ftab, pftab := tables(all, texts)

	ties, collide, cyclic := tieInfo(v)
	class := [...]string{"scalar", "scalar", "string", "number", "list", "map"}[n.k]
	switch {
	case cyclic:
		class = "map-keys-cyclic-tie-and-hash-collide"
	case collide:
		class = "map-keys-tie-and-hash-collide"
	case ties:
		class = "map-keys-tie"
	case hasNaN(v):
		class += "-nan"
	}
	mode := "plain"
	if indent >= 0 {
		mode = "pretty"
	}
	c.Count(via + "/" + class + "/" + mode + fmt.Sprintf("/depth%d", depthOf(n)))
	c.Emit(reg.Case{
		Coq: App("mkCase", Z(int64(indent)), Bytes(typeRanks()), Bytes(tbl), Bytes(ftab), Bytes(pftab),
			Bytes(sv), Str(text), N(uint64(res)), Bytes(sback), Bool(goeq), List(alts)),
		Desc:       desc{indent, text, resName[res], backText, goeq, altTexts, via},
		Key:        fmt.Sprintf("%d/%s", indent, text),
		Nontrivial: n.k != kNil && n.k != kBool && !(n.k == kStr && isAlnum(n.s)),
		Class:      class,
	})
}

func isAlnum(s string) bool {
	for _, r := range s {
		if !(r >= '0' && r <= '9' || r >= 'a' && r <= 'z' || r >= 'A' && r <= 'Z') {
			return false
		}
	}
	return s != ""
}

// ---------------------------------------------------------------- generators

var fixedStrings = []string{"", "a", "abc", "a b", " ", "~", "~a", "a~", "~/x", "'", "''", "\"", "\\", "a\\b",
	"$x", "$nil", "nil", "true", "&", "&a", "=", "a=b", "=a", ",", "a,b", "[", "]", "[]", "[&]", "[a b]", "[&a=b]",
	"(", ")", "(num 1)", "{", "}", "|", ";", "#", "#a", "a#", "^", "*", "?", "a*", "<", ">", "\n", "a\nb", "\t", "\r",
	"\x00", "\x1b", "\x7f", "\xff", "a\xffb", "\xc3", "\u00e9", "\u4e2d\u6587", "\u00a0", "\u00ad", "\u200b", "\u2028", "\ufffd",
	"\U0001F600", "\U000e0001", "1", "01", "1.0", "-1", "+1", "1e3", "+Inf", "-Inf", "NaN", "0x10", "1/2", "-", "--", "-a",
	":", "a:b", "@", "@a", "%", "!", "+", ".", "..", "/", "a/b", "\\n", "a'b", "a\"b", "a'\"b", "it's", " a", "a ", "\u00e9=\u00e9"}

var pieces = []string{"a", "b", "Z", "0", "9", "-", "_", ":", "~", ".", "/", "\\", "@", "%", "+", "!", "=", ",",
	"<", ">", "*", "^", "?", "'", "\"", "$", "&", "|", ";", "#", "(", ")", "[", "]", "{", "}", " ", "\t", "\n", "\r",
	"\x00", "\x07", "\x1b", "\x7f", "\xff", "\xc3", "\xe4\xb8", "\u00e9", "\u4e2d", "\u00a0", "\u200b", "\ufffd", "\U0001F600"}

func genString(c *reg.Ctx) string {
	switch c.Rand.Intn(5) {
	case 0:
		return fixedStrings[c.Rand.Intn(len(fixedStrings))]
	case 1:
		// a plain word
		n := 1 + c.Rand.Intn(6)
		var sb strings.Builder
		for i := 0; i < n; i++ {
			sb.WriteByte("abcxyzABC0123-_"[c.Rand.Intn(15)])
		}
		return sb.String()
	}
	n := c.Rand.Intn(6)
	var sb strings.Builder
	if c.Rand.Intn(10) == 0 {
		sb.WriteByte('~')
	}
	for i := 0; i < n; i++ {
		sb.WriteString(pieces[c.Rand.Intn(len(pieces))])
	}
	return sb.String()
}

func pow2(k uint) *big.Int { return new(big.Int).Lsh(big.NewInt(1), k) }

var fixedNums = func() []any {
	f := math.Float64frombits
	l := []any{0, 1, -1, 7, 10, 100, 1477884782, math.MaxInt64, math.MinInt64, 1 << 53, (1 << 53) + 1, 1073741824,
		pow2(63), new(big.Int).Neg(new(big.Int).Add(pow2(63), big.NewInt(1))), pow2(64), pow2(100),
		new(big.Int).Exp(big.NewInt(10), big.NewInt(30), nil), new(big.Int).Neg(pow2(64)),
		big.NewRat(1, 2), big.NewRat(-1, 3), big.NewRat(22, 7), new(big.Rat).SetFrac(pow2(70), big.NewInt(3)),
		new(big.Rat).SetFrac(big.NewInt(-5), pow2(80)), new(big.Rat).SetFrac(big.NewInt(1), new(big.Int).Exp(big.NewInt(10), big.NewInt(25), nil)),
		0.0, math.Copysign(0, -1), 1.0, -1.0, 0.5, 0.1, 1.5, 1477884782.0, 1e21, 1e22, 1e14, 1e15, 123456789012345680000.0,
		12345678901234567.0, 1234567.0, 100000000000000.0, 1e-4, 1e-5, 0.00001234, 1e-7, 5e-324, math.MaxFloat64, -math.MaxFloat64,
		math.SmallestNonzeroFloat64, 9007199254740992.0, 9007199254740993.0, 1e100, -2.5e-10, 0.3333333333333333,
		math.Inf(1), math.Inf(-1), math.NaN(), f(0x7ff8000000000002), f(0xfff8000000000000), f(0x7ff0000000000001),
		f(0x3ff0000000000001), f(0x0010000000000000), f(0x000fffffffffffff)}
	return l
}()

func genNum(c *reg.Ctx) any {
	switch c.Rand.Intn(9) {
	case 0, 1:
		return fixedNums[c.Rand.Intn(len(fixedNums))]
	case 2:
		return c.Rand.Intn(2000) - 1000
	case 3:
		return int(c.Rand.Uint64())
	case 4:
		z := new(big.Int).Rand(c.Rand, pow2(uint(64+c.Rand.Intn(140))))
		if c.Rand.Intn(2) == 0 {
			z.Neg(z)
		}
		return vals.NormalizeBigInt(z)
	case 5:
		a := new(big.Int).Rand(c.Rand, pow2(uint(1+c.Rand.Intn(130))))
		b := new(big.Int).Rand(c.Rand, pow2(uint(1+c.Rand.Intn(130))))
		b.Add(b, big.NewInt(1))
		if c.Rand.Intn(2) == 0 {
			a.Neg(a)
		}
		return vals.NormalizeBigRat(new(big.Rat).SetFrac(a, b))
	case 6:
		return math.Float64frombits(c.Rand.Uint64())
	case 7:
		// short decimal floats and integral floats of every magnitude
		m := float64(c.Rand.Intn(100000))
		e := c.Rand.Intn(50) - 25
		f, _ := strconv.ParseFloat(fmt.Sprintf("%ge%d", m, e), 64)
		if c.Rand.Intn(2) == 0 {
			f = -f
		}
		return f
	default:
		return float64(c.Rand.Intn(1 << 30))
	}
}

type budget struct{ left int }

func genAtom(c *reg.Ctx) *node {
	switch c.Rand.Intn(10) {
	case 0:
		return &node{k: kNil}
	case 1:
		return &node{k: kBool, b: c.Rand.Intn(2) == 0}
	case 2, 3, 4, 5:
		return &node{k: kStr, s: genString(c)}
	default:
		return &node{k: kNum, num: genNum(c)}
	}
}

// genValue: depth <= 5, width <= 8 (the property's quantifier), total size bounded.
func genValue(c *reg.Ctx, depth int, b *budget) *node {
	b.left--
	if depth <= 0 || b.left <= 0 || c.Rand.Intn(3) == 0 {
		return genAtom(c)
	}
	w := c.Rand.Intn(9)
	if c.Rand.Intn(3) == 0 {
		w = c.Rand.Intn(3)
	}
	if c.Rand.Intn(2) == 0 {
		n := &node{k: kList, sub: c.Rand.Intn(8) == 0}
		for i := 0; i < w && b.left > 0; i++ {
			n.elems = append(n.elems, genValue(c, depth-1, b))
		}
		return n
	}
	return genMap(c, depth, b, w)
}

// genMap: keys pairwise not Equal, at most one NaN key and no NaN inside a
// container key (a NaN-holding key is Equal to nothing, itself included).
func genMap(c *reg.Ctx, depth int, b *budget, w int) *node {
	n := &node{k: kMap}
	var built []any
	sawNaN := false
	for i := 0; i < w && b.left > 0; i++ {
		var k *node
		if c.Rand.Intn(4) == 0 {
			k = genValue(c, depth-2, b)
		} else {
			k = genAtom(c)
		}
		kv := build(k, nil)
		if hasNaN(kv) {
			if !isNaN(kv) || sawNaN {
				continue
			}
			sawNaN = true
		}
		dup := false
		for _, o := range built {
			if vals.Equal(o, kv) || vals.Equal(kv, o) {
				dup = true
			}
		}
		if dup {
			continue
		}
		built = append(built, kv)
		n.keys = append(n.keys, k)
		n.vals = append(n.vals, genValue(c, depth-1, b))
	}
	return n
}

func str(s string) *node    { return &node{k: kStr, s: s} }
func num(x any) *node       { return &node{k: kNum, num: x} }
func list(e ...*node) *node { return &node{k: kList, elems: e} }
func mp(kv ...*node) *node {
	n := &node{k: kMap}
	for i := 0; i+1 < len(kv); i += 2 {
		n.keys = append(n.keys, kv[i])
		n.vals = append(n.vals, kv[i+1])
	}
	return n
}

// tiePairs: pairs of keys that are not Equal but tie under CmpTotal.  The first
// group also collides in all 32 hash bits (model-checked in coq/props/C04.v:
// an int and the float of the same value whose hashes agree; maps and lists of
// maps differing in strings with equal DJB hash), so the hash map keeps them
// in one collision node in insertion order.
func tiePairs() [][2]*node {
	return [][2]*node{
		{num(0), num(0.0)},
		{num(1477884782), num(1477884782.0)},
		{mp(str("k"), str("ab")), mp(str("k"), str("bA"))},
		{list(mp(str("ab"), num(1))), list(mp(str("bA"), num(1)))},
		{mp(), list()}, // not a tie (different types): control
		{num(1), num(1.0)},
		{num(big.NewRat(1, 2)), num(0.5)},
		{num((1 << 53) + 1), num(9007199254740992.0)},
		{mp(str("a"), num(1)), mp(str("b"), num(2))},
		{mp(), mp(str("a"), str("b"))},
		{list(mp()), list(mp(str("x"), str("y")))},
	}
}

var indents = []int{math.MinInt, math.MinInt, 0, 0, 1, 3}

func run(c *reg.Ctx) {
	// 1. fixed: every fixed string and number as a scalar, as the only list
	//    element, as map key and as map value, plain and pretty
	var atoms []*node
	atoms = append(atoms, &node{k: kNil}, &node{k: kBool, b: true}, &node{k: kBool})
	for _, s := range fixedStrings {
		atoms = append(atoms, str(s))
	}
	for _, x := range fixedNums {
		atoms = append(atoms, num(x))
	}
	for i, a := range atoms {
		emit(c, "fixed", a, math.MinInt)
		ind := indents[i%len(indents)]
		switch i % 3 {
		case 0:
			emit(c, "fixed", list(a, a), ind)
		case 1:
			emit(c, "fixed", mp(a, a), ind)
		default:
			emit(c, "fixed", mp(str("k"), list(a), a, mp()), ind)
		}
	}
	// empty and nested empty containers, wide maps (beyond the insertion-sort size of sort.Slice)
	for _, ind := range []int{math.MinInt, 0, 2} {
		emit(c, "fixed", list(), ind)
		emit(c, "fixed", mp(), ind)
		emit(c, "fixed", list(list(), mp(), list(mp(), list(list()))), ind)
		emit(c, "fixed", mp(list(), mp(), mp(), list(), str(""), mp(str(""), str(""))), ind)
		wide := &node{k: kMap}
		for i := 0; i < 40; i++ {
			wide.keys = append(wide.keys, str(fmt.Sprintf("k%02d", (i*17)%40)))
			wide.vals = append(wide.vals, num(i))
		}
		emit(c, "fixed", wide, ind)
		mixed := mp(&node{k: kNil}, str("nil"), &node{k: kBool, b: true}, str("t"), &node{k: kBool}, str("f"),
			num(3), str("int"), num(2.5), str("float"), num(big.NewRat(7, 2)), str("rat"), num(pow2(70)), str("big"),
			str("s"), str("str"), list(str("a")), str("list"), &node{k: kList, sub: true, elems: []*node{str("a"), str("b")}}, str("sliced"),
			mp(str("a"), str("b")), str("map"), num(math.NaN()), str("nan"), num(math.Inf(-1)), str("-inf"))
		emit(c, "fixed", mixed, ind)
	}
	// 2. planted ties: two keys that tie under CmpTotal (some also collide in the hash)
	for _, p := range tiePairs() {
		for _, ind := range []int{math.MinInt, 0} {
			emit(c, "tie", mp(p[0], str("x"), p[1], str("y")), ind)
			emit(c, "tie", mp(p[1], str("y"), p[0], str("x")), ind)
			emit(c, "tie", list(mp(str("z"), num(1), p[0], str("x"), str("a"), list(), p[1], mp())), ind)
		}
	}
	// 2b. the cyclic triple: c and z exact, f inexact, both tie with f; c < f < z by
	//     text, z < c by value; z and f collide in the hash (C04_cyclic_triple,
	//     C04_planted_pairs_tie_and_collide).  Control: the same shape without
	//     a hash collision.
	for _, d := range []int{9007233084598712, 9007250264467764, 9007199254740996} {
		cc, ff, zz := num(-(d - 1)), num(-float64(d)), num(-(d + 1))
		for _, ind := range []int{math.MinInt, 0} {
			emit(c, "cyclic", mp(cc, str("v"), zz, str("v"), ff, str("v")), ind)
			emit(c, "cyclic", mp(cc, str("v"), ff, str("v"), zz, str("v")), ind)
			emit(c, "cyclic", list(mp(str("a"), num(1), ff, list(), zz, mp(), cc, str("x"))), ind)
		}
	}
	// 3. random values
	for i := 0; i < c.N; i++ {
		b := &budget{left: 4 + c.Rand.Intn(40)}
		var n *node
		switch c.Rand.Intn(8) {
		case 0:
			n = genAtom(c)
		case 1:
			n = genMap(c, 3, b, 2+c.Rand.Intn(7))
		default:
			n = genValue(c, 5, b)
		}
		if c.Rand.Intn(25) == 0 {
			// plant a tie pair somewhere in a random map
			p := tiePairs()[c.Rand.Intn(len(tiePairs()))]
			n = mp(str("r"), n, p[c.Rand.Intn(2)], genAtom(c), p[0], str("x"), p[1], str("y"))
			n.keys, n.vals = n.keys[:1], n.vals[:1]
			n.keys = append(n.keys, p[0], p[1])
			n.vals = append(n.vals, str("x"), str("y"))
		}
		emit(c, "random", n, indents[c.Rand.Intn(len(indents))])
	}
	_ = utf8.RuneError
	_ = vector.Empty
}
