// Package c25: the history store survives a kill at any point
// (pkg/store/db_store.go, cmd.go, dir.go over bbolt).
//
// A child process (this same binary, re-executed with VERIF_C25_CHILD set) runs
// a list of operations against store.NewStore on a database file on a real
// disk-backed directory and writes one acknowledgement line per finished
// operation to a pipe.  The parent kills it
//
//	(a) under strace with a SIGKILL injected at the k-th write/pwrite64/fsync/
//	    fdatasync system call of a thread (k swept over what a traced run makes),
//	(b) at the moment the j-th acknowledgement arrives, and
//	(c) at random times,
//
// then reopens the database, dumps it, lets another child continue (which is
// killed again) and finally runs more operations itself.  The case handed to
// Coq = (operations, acknowledged results, dump) per round + the final
// operations with their results.
package c25

import (
	"bufio"
	"bytes"
	"crypto/sha1"
	"encoding/gob"
	"encoding/hex"
	"encoding/json"
	"fmt"
	"math"
	"os"
	"os/exec"
	"path/filepath"
	"regexp"
	"runtime"
	"strconv"
	"strings"
	"syscall"
	"time"

	bolt "go.etcd.io/bbolt"
	"src.elv.sh/pkg/store"
	"src.elv.sh/pkg/store/storedefs"
	. "verifharness/coqfmt"
	"verifharness/reg"
)

const (
	childEnv = "VERIF_C25_CHILD" // path of the gob-encoded operation list
	dbEnv    = "VERIF_C25_DB"
)

func init() {
	if p := os.Getenv(childEnv); p != "" {
		childMain(p, os.Getenv(dbEnv))
		os.Exit(0)
	}
	reg.Register(&reg.Spec{ID: "C25",
		Imports: "From Coq Require Import Floats.SpecFloat.\nFrom verif Require Import lib.Base model.C24_F64 model.C24_StoreSpec model.C25.",
		Judge:   "C25.judge", Shard: 15, Run: run})
}


// interner: byte strings of a case are bound once with let (string literals are
// by far the slowest thing for Coq to elaborate) and referenced by name.
type interner struct {
	names map[string]string
	order []string
}

var cur = &interner{names: map[string]string{}}

func resetIntern() { cur = &interner{names: map[string]string{}} }

// noIntern: set in the child process, whose terms are re-interned by the parent.
var noIntern bool

var hxRe = regexp.MustCompile(`\(hx "([0-9a-f]*)"\)`)

// reintern replaces the literal byte strings of a term by interned names.
func reintern(term string) string {
	return hxRe.ReplaceAllStringFunc(term, func(m string) string {
		b, err := hex.DecodeString(hxRe.FindStringSubmatch(m)[1])
		if err != nil {
			return m
		}
		return S(string(b))
	})
}

// S is the interned counterpart of coqfmt.Str.
func S(s string) string {
	if s == "" || noIntern {
		return Str(s)
	}
	if n, ok := cur.names[s]; ok {
		return n
	}
	n := fmt.Sprintf("w%d", len(cur.order))
	cur.names[s] = n
	cur.order = append(cur.order, s)
	return n
}


// typed list: an empty list carries its element type, so that no term of a
// case needs an implicit argument to be inferred
func tlist(ty string, items []string) string {
	if len(items) == 0 {
		return "(@nil " + ty + ")"
	}
	return List(items)
}

// wrap puts the let bindings of the interned strings around a term.
func wrap(term string) string {
	var sb strings.Builder
	sb.WriteString("(")
	for i, s := range cur.order {
		fmt.Fprintf(&sb, "let w%d := %s in ", i, Str(s))
	}
	sb.WriteString(term)
	sb.WriteString(")")
	return sb.String()
}

// ---------------------------------------------------------------- operations

type op struct {
	K      string   `json:"k"` // add del get list next prev seq adddir deldir dirs
	Text   string   `json:"t,omitempty"`
	A      int      `json:"a,omitempty"`
	B      int      `json:"b,omitempty"`
	Factor float64  `json:"f,omitempty"`
	BL     []string `json:"bl,omitempty"`
}

// F64 prints a float64 as a SpecFloat term in canonical form.
func F64(x float64) string {
	b := math.Float64bits(x)
	s := Bool(b>>63 == 1)
	exp := int64((b >> 52) & 0x7ff)
	frac := b & (1<<52 - 1)
	switch {
	case exp == 0x7ff && frac != 0:
		return "S754_nan"
	case exp == 0x7ff:
		return "(S754_infinity " + s + ")"
	case exp == 0 && frac == 0:
		return "(S754_zero " + s + ")"
	case exp == 0:
		return fmt.Sprintf("(S754_finite %s %d%%positive (-1074)%%Z)", s, frac)
	}
	return fmt.Sprintf("(S754_finite %s %d%%positive (%d)%%Z)", s, frac|1<<52, exp-1075)
}

func (o op) coq() string {
	switch o.K {
	case "add":
		return App("OAddCmd", S(o.Text))
	case "del":
		return App("ODelCmd", Z(int64(o.A)))
	case "get":
		return App("OCmd", Z(int64(o.A)))
	case "list":
		return App("OCmds", Z(int64(o.A)), Z(int64(o.B)))
	case "next":
		return App("ONextCmd", Z(int64(o.A)), S(o.Text))
	case "prev":
		return App("OPrevCmd", Z(int64(o.A)), S(o.Text))
	case "seq":
		return "ONextCmdSeq"
	case "adddir":
		return App("OAddDir", S(o.Text), F64(o.Factor))
	case "deldir":
		return App("ODelDir", S(o.Text))
	case "dirs":
		l := make([]string, len(o.BL))
		for i, d := range o.BL {
			l[i] = S(d)
		}
		return App("ODirs", tlist("bytes", l))
	}
	panic("bad op " + o.K)
}

func (o op) String() string {
	switch o.K {
	case "add", "adddir", "deldir":
		return fmt.Sprintf("%s(%q,%v)", o.K, o.Text, o.Factor)
	case "next", "prev":
		return fmt.Sprintf("%s(%d,%q)", o.K, o.A, o.Text)
	case "dirs":
		return fmt.Sprintf("dirs(%q)", o.BL)
	}
	return fmt.Sprintf("%s(%d,%d)", o.K, o.A, o.B)
}

func errKind(err error) string {
	if err == storedefs.ErrNoMatchingCmd {
		return "RNoMatch"
	}
	return "RErr"
}

func coqCmds(cmds []storedefs.Cmd) string {
	l := make([]string, len(cmds))
	for i, x := range cmds {
		l[i] = App("pz", S(x.Text), Z(int64(x.Seq)))
	}
	return App("RCmds", tlist("(bytes * Z)", l))
}

func coqDirs(ds []storedefs.Dir) string {
	l := make([]string, len(ds))
	for i, x := range ds {
		l[i] = App("pd", S(x.Path), F64(x.Score))
	}
	return App("RDirs", tlist("dir", l))
}

// exec runs one operation; returns the Coq result term and a readable one.
func exec1(st storedefs.Store, o op) (string, string) {
	switch o.K {
	case "add":
		s, err := st.AddCmd(o.Text)
		if err != nil {
			return errKind(err), err.Error()
		}
		return App("RInt", Z(int64(s))), strconv.Itoa(s)
	case "del":
		if err := st.DelCmd(o.A); err != nil {
			return errKind(err), err.Error()
		}
		return "ROk", "ok"
	case "get":
		t, err := st.Cmd(o.A)
		if err != nil {
			return errKind(err), err.Error()
		}
		return App("RText", S(t)), strconv.Quote(t)
	case "list":
		cmds, err := st.CmdsWithSeq(o.A, o.B)
		if err != nil {
			return errKind(err), err.Error()
		}
		return coqCmds(cmds), fmt.Sprintf("%d cmds", len(cmds))
	case "next", "prev":
		var x storedefs.Cmd
		var err error
		if o.K == "next" {
			x, err = st.NextCmd(o.A, o.Text)
		} else {
			x, err = st.PrevCmd(o.A, o.Text)
		}
		if err != nil {
			return errKind(err), err.Error()
		}
		return App("RCmd", S(x.Text), Z(int64(x.Seq))), fmt.Sprintf("%q@%d", x.Text, x.Seq)
	case "seq":
		s, err := st.NextCmdSeq()
		if err != nil {
			return errKind(err), err.Error()
		}
		return App("RInt", Z(int64(s))), strconv.Itoa(s)
	case "adddir":
		if err := st.AddDir(o.Text, o.Factor); err != nil {
			return errKind(err), err.Error()
		}
		return "ROk", "ok"
	case "deldir":
		if err := st.DelDir(o.Text); err != nil {
			return errKind(err), err.Error()
		}
		return "ROk", "ok"
	case "dirs":
		bl := map[string]struct{}{}
		for _, d := range o.BL {
			bl[d] = struct{}{}
		}
		ds, err := st.Dirs(bl)
		if err != nil {
			return errKind(err), err.Error()
		}
		return coqDirs(ds), fmt.Sprintf("%d dirs", len(ds))
	}
	panic("bad op " + o.K)
}

// ---------------------------------------------------------------- child

type ack struct {
	I   int    `json:"i"`
	Coq string `json:"coq"`
	Obs string `json:"obs"`
}

// childMain: open the store, run the operations, acknowledge each on fd 3 with
// one write system call per line.  An operation is acknowledged only after the
// store call has returned.
func childMain(opsPath, db string) {
	noIntern = true
	// bbolt does its I/O in the calling goroutine: pinned to one thread, the
	// store's write/pwrite64/fdatasync calls are numbered the same way in every
	// run, so strace's per-thread when=k sweeps them one by one
	runtime.LockOSThread()
	f, err := os.Open(opsPath)
	if err != nil {
		os.Exit(3)
	}
	var ops []op
	if gob.NewDecoder(f).Decode(&ops) != nil {
		os.Exit(3)
	}
	f.Close()
	out := os.NewFile(3, "acks")
	st, err := store.NewStore(db)
	if err != nil {
		out.Write([]byte("{\"i\":-2,\"obs\":" + strconv.Quote(err.Error()) + "}\n"))
		os.Exit(4)
	}
	for i, o := range ops {
		c, obs := exec1(st, o)
		line, _ := json.Marshal(ack{i, c, obs})
		out.Write(append(line, '\n'))
	}
	st.Close()
	out.Write([]byte("{\"i\":-1}\n"))
}

// ---------------------------------------------------------------- parent

type killMode struct {
	Kind string `json:"kind"` // none | strace | ack | time
	K    int    `json:"k"`    // strace: when=k; ack: kill on the k-th ack; time: microseconds
}

type childResult struct {
	acks     []ack
	finished bool   // the child wrote its end marker
	openErr  string // the child could not open the store
	killed   bool
	elapsed  time.Duration
	perTid   map[string]int // calibration: traced system calls per (thread, call name)
}

var straceOK = -1

func haveStrace() bool {
	if straceOK < 0 {
		straceOK = 0
		if _, err := exec.LookPath("strace"); err == nil {
			// ptrace may be forbidden in the sandbox: try it once
			cmd := exec.Command("strace", "-f", "-q", "-o", "/dev/null", "-e", "trace=write",
				"-e", "inject=write:signal=KILL:when=1", "/bin/sh", "-c", "echo x")
			cmd.Run()
			if ws, ok := cmd.ProcessState.Sys().(syscall.WaitStatus); ok && (ws.Signaled() || ws.ExitStatus() == 137 || ws.ExitStatus() != 0) {
				straceOK = 1
			}
		}
	}
	return straceOK == 1
}

const traced = "write,pwrite64,fsync,fdatasync"

func runChild(c *reg.Ctx, ops []op, db string, km killMode, calibrate bool) childResult {
	var res childResult
	// gob, not JSON: command texts are arbitrary bytes
	opsPath := filepath.Join(c.Scratch, "ops.gob")
	var buf bytes.Buffer
	if err := gob.NewEncoder(&buf).Encode(ops); err != nil {
		panic(err)
	}
	os.WriteFile(opsPath, buf.Bytes(), 0o644)
	exe, err := os.Executable()
	if err != nil {
		panic(err)
	}
	pr, pw, err := os.Pipe()
	if err != nil {
		panic(err)
	}
	var cmd *exec.Cmd
	tracePath := filepath.Join(c.Scratch, "trace.out")
	switch {
	case calibrate:
		cmd = exec.Command("strace", "-f", "-q", "-o", tracePath, "-e", "trace="+traced, exe)
	case km.Kind == "strace":
		cmd = exec.Command("strace", "-f", "-q", "-o", "/dev/null", "-e", "trace="+traced,
			"-e", fmt.Sprintf("inject=%s:signal=KILL:when=%d", traced, km.K), exe)
	default:
		cmd = exec.Command(exe)
	}
	cmd.Env = append(os.Environ(), childEnv+"="+opsPath, dbEnv+"="+db, "GOMAXPROCS=2")
	cmd.ExtraFiles = []*os.File{pw}
	cmd.SysProcAttr = &syscall.SysProcAttr{Setpgid: true}
	t0 := time.Now()
	if err := cmd.Start(); err != nil {
		panic(err)
	}
	pw.Close()
	kill := func() {
		// the whole process group: strace and the traced child
		syscall.Kill(-cmd.Process.Pid, syscall.SIGKILL)
		res.killed = true
	}
	var timer *time.Timer
	if km.Kind == "time" {
		timer = time.AfterFunc(time.Duration(km.K)*time.Microsecond, kill)
	}
	watchdog := time.AfterFunc(120*time.Second, kill)
	rd := bufio.NewReaderSize(pr, 1<<16)
	for {
		line, err := rd.ReadBytes('\n')
		if err != nil {
			break
		}
		var a ack
		if json.Unmarshal(line, &a) != nil {
			break
		}
		if a.I == -1 {
			res.finished = true
			continue
		}
		if a.I == -2 {
			res.openErr = a.Obs
			continue
		}
		res.acks = append(res.acks, a)
		if km.Kind == "ack" && len(res.acks) == km.K {
			kill()
		}
	}
	pr.Close()
	cmd.Wait()
	res.elapsed = time.Since(t0)
	watchdog.Stop()
	if timer != nil {
		timer.Stop()
	}
	// nothing of the group may survive (strace detaches when killed itself)
	syscall.Kill(-cmd.Process.Pid, syscall.SIGKILL)
	if calibrate {
		res.perTid = map[string]int{}
		if f, err := os.Open(tracePath); err == nil {
			sc := bufio.NewScanner(f)
			sc.Buffer(make([]byte, 1<<20), 1<<20)
			for sc.Scan() {
				l := sc.Text()
				// strace keeps one injection counter per thread and per system call:
				// count lines per (thread, call name)
				if i := strings.IndexByte(l, ' '); i > 0 && !strings.Contains(l, "resumed>") &&
					!strings.Contains(l, "+++") && !strings.Contains(l, "---") {
					rest := strings.TrimLeft(l[i:], " ")
					if j := strings.IndexByte(rest, '('); j > 0 {
						res.perTid[l[:i]+" "+rest[:j]]++
					}
				}
			}
			f.Close()
		}
		os.Remove(tracePath)
	}
	return res
}

type dump struct {
	coq string
	seq int
	n   int
	err string
}

// reopen opens the database the way the shell's daemon does and dumps it.
func reopen(db string) (d dump) {
	defer func() {
		if r := recover(); r != nil {
			d.err = fmt.Sprintf("panic while reopening: %v", r)
		}
	}()
	st, err := store.NewStore(db)
	if err != nil {
		d.err = "store.NewStore failed after the kill: " + err.Error()
		return
	}
	defer st.Close()
	seq, err1 := st.NextCmdSeq()
	cmds, err2 := st.CmdsWithSeq(0, -1)
	dirs, err3 := st.Dirs(map[string]struct{}{})
	if err1 != nil || err2 != nil || err3 != nil {
		d.err = fmt.Sprintf("reading the reopened store failed: %v %v %v", err1, err2, err3)
		return
	}
	d.seq, d.n = seq, len(cmds)
	d.coq = App("mkDump", App("RInt", Z(int64(seq))), coqCmds(cmds), coqDirs(dirs))
	return
}

// ---------------------------------------------------------------- generators

var words = []string{"", "e", "echo", "echo a", "echo b", "ls", "ls -l", "\x00\xff", "é", "put 中", "a\nb", "cd /tmp"}
var dirNames = []string{"/", "/a", "/a/b", "/tmp", "/home/é", "", "/b"}
var factors = []float64{1, 1, 1, 0.5, 2, 0.1, 3.7}

type gen struct {
	c   *reg.Ctx
	cur int // estimate of the bucket sequence
}

func (g *gen) seq() int {
	switch g.c.Rand.Intn(8) {
	case 0:
		return 0
	case 1:
		return -1
	case 2:
		return g.cur + 1 + g.c.Rand.Intn(2)
	case 3, 4:
		return g.cur // the most recent command
	}
	return g.c.Rand.Intn(g.cur+2) + 0
}

func (g *gen) op() op {
	r := g.c.Rand
	switch w := r.Intn(100); {
	case w < 42:
		g.cur++
		return op{K: "add", Text: words[r.Intn(len(words))]}
	case w < 57:
		return op{K: "del", A: g.seq()}
	case w < 75:
		return op{K: "adddir", Text: dirNames[r.Intn(len(dirNames))], Factor: factors[r.Intn(len(factors))]}
	case w < 80:
		return op{K: "deldir", Text: dirNames[r.Intn(len(dirNames))]}
	case w < 84:
		return op{K: "get", A: g.seq()}
	case w < 88:
		return op{K: "list", A: g.seq(), B: g.seq()}
	case w < 91:
		return op{K: "next", A: g.seq(), Text: words[r.Intn(len(words))]}
	case w < 94:
		return op{K: "prev", A: g.seq(), Text: words[r.Intn(len(words))]}
	case w < 97:
		return op{K: "seq"}
	}
	return op{K: "dirs", BL: []string{dirNames[r.Intn(len(dirNames))]}}
}

func (g *gen) ops(n int) []op {
	l := make([]op, n)
	for i := range l {
		l[i] = g.op()
	}
	return l
}

// ---------------------------------------------------------------- cases

type roundDesc struct {
	Ops      []string `json:"ops"`
	Kill     killMode `json:"kill"`
	Acked    []string `json:"acked"`
	Finished bool     `json:"finished"`
	Seq      int      `json:"next_seq_after_reopen"`
	NCmds    int      `json:"cmds_after_reopen"`
}

type desc struct {
	Class  string      `json:"class"`
	Seq0   uint64      `json:"seq0"`
	Rounds []roundDesc `json:"rounds"`
	Tail   []string    `json:"tail"`
}

type plan struct {
	seq0  uint64
	ops   []op
	kmax  int // largest count of one traced system call in one thread of an unkilled run
	total time.Duration
}

var preseqs = []uint64{0, 0, 0, 254, 65534, 1<<32 - 2}

func presetSeq(db string, seq0 uint64) {
	if seq0 == 0 {
		return
	}
	b, err := bolt.Open(db, 0644, nil)
	if err != nil {
		panic(err)
	}
	err = b.Update(func(tx *bolt.Tx) error {
		bk, err := tx.CreateBucketIfNotExists([]byte("cmd"))
		if err != nil {
			return err
		}
		return bk.SetSequence(seq0)
	})
	if err != nil {
		panic(err)
	}
	b.Close()
}

var dbCount int

// oneCase: the first round runs p.ops under the given kill mode; then, with
// probability 1/2, a second child continues and is killed too; then the parent
// runs a few operations to completion.
func oneCase(c *reg.Ctx, p *plan, km killMode, calibrate bool) {
	dbCount++
	db := filepath.Join(c.Scratch, fmt.Sprintf("c25-%d.db", dbCount))
	defer os.Remove(db)
	presetSeq(db, p.seq0)
	class := "kill-" + km.Kind
	if km.Kind == "none" {
		class = "no-kill"
	}
	resetIntern()
	d := desc{Class: class, Seq0: p.seq0}
	rc := reg.Case{Class: class}
	var rounds []string
	killedWithOutstanding := false
	totalAcks := 0
	g := &gen{c: c, cur: int(p.seq0)}
	ops := p.ops
	for r := 0; ; r++ {
		res := runChild(c, ops, db, km, calibrate && r == 0)
		if calibrate && r == 0 {
			for _, n := range res.perTid {
				if n > p.kmax {
					p.kmax = n
				}
			}
			p.total = res.elapsed
		}
		rd := roundDesc{Kill: km, Finished: res.finished}
		opsCoq := make([]string, len(ops))
		for i, o := range ops {
			opsCoq[i] = o.coq()
			rd.Ops = append(rd.Ops, o.String())
		}
		acked := make([]string, len(res.acks))
		for i, a := range res.acks {
			acked[i] = reintern(a.Coq)
			rd.Acked = append(rd.Acked, a.Obs)
		}
		totalAcks += len(res.acks)
		if !res.finished && len(res.acks) < len(ops) {
			killedWithOutstanding = true
		}
		if res.openErr != "" {
			// the child itself is a reopening process from round 2 on
			d.Rounds = append(d.Rounds, rd)
			rc.Direct = "the child could not open the store: " + res.openErr
			break
		}
		dp := reopen(db)
		if dp.err != "" {
			d.Rounds = append(d.Rounds, rd)
			rc.Direct = dp.err
			break
		}
		rd.Seq, rd.NCmds = dp.seq, dp.n
		d.Rounds = append(d.Rounds, rd)
		rounds = append(rounds, App("mkRound", tlist("op", opsCoq), tlist("res", acked), dp.coq))
		if r >= 2 || c.Rand.Intn(2) == 0 {
			break
		}
		// continue in another child from the reopened state
		g.cur = dp.seq - 1
		ops = g.ops(4 + c.Rand.Intn(10))
		switch c.Rand.Intn(3) {
		case 0:
			km = killMode{"ack", 1 + c.Rand.Intn(len(ops))}
		case 1:
			km = killMode{"time", c.Rand.Intn(int(p.total/time.Microsecond) + 1)}
		default:
			if haveStrace() && p.kmax > 0 {
				km = killMode{"strace", 1 + c.Rand.Intn(p.kmax)}
			} else {
				km = killMode{"ack", 1 + c.Rand.Intn(len(ops))}
			}
		}
	}
	var tail []string
	if rc.Direct == "" {
		func() {
			defer func() {
				if r := recover(); r != nil {
					rc.Direct = fmt.Sprintf("panic in a store operation after reopening: %v", r)
				}
			}()
			st, err := store.NewStore(db)
			if err != nil {
				rc.Direct = "store.NewStore failed after the kill: " + err.Error()
				return
			}
			defer st.Close()
			g.cur = d.Rounds[len(d.Rounds)-1].Seq - 1
			for _, o := range append([]op{{K: "add", Text: "after"}, {K: "seq"}}, g.ops(3+c.Rand.Intn(4))...) {
				cq, obs := exec1(st, o)
				tail = append(tail, App("orr", o.coq(), cq))
				d.Tail = append(d.Tail, o.String()+"="+obs)
			}
		}()
	}
	js, _ := json.Marshal(d)
	sum := sha1.Sum(js)
	if rc.Direct == "" {
		rc.Coq = wrap(App("mkCase", N(p.seq0), tlist("round", rounds), tlist("(op * res)", tail)))
	}
	rc.Desc = d
	rc.Key = fmt.Sprintf("%x", sum[:8])
	rc.Nontrivial = killedWithOutstanding && totalAcks >= 1
	c.Count(class)
	c.Count(fmt.Sprintf("rounds=%d", len(d.Rounds)))
	c.Emit(rc)
}

func run(c *reg.Ctx) {
	// c.Scratch is under os.TempDir(): a disk-backed file system here (not
	// /dev/shm), so that fdatasync is a real system call with a real effect.
	perPlan := 12
	if c.Tier == "thorough" {
		perPlan = 60
	}
	emitted := 0
	for emitted < c.N {
		g := &gen{c: c}
		p := &plan{seq0: preseqs[c.Rand.Intn(len(preseqs))]}
		g.cur = int(p.seq0)
		p.ops = g.ops(8 + c.Rand.Intn(17))
		// unkilled run (traced when strace works): every operation acknowledged,
		// also the calibration of the injection sweep
		oneCase(c, p, killMode{Kind: "none"}, haveStrace())
		emitted++
		if p.total == 0 {
			p.total = 50 * time.Millisecond
		}
		var kms []killMode
		if haveStrace() && p.kmax > 0 {
			// sweep of the injection point: in the thorough tier every k, in the
			// quick tier a stratified sample
			n := perPlan / 2
			if c.Tier == "thorough" {
				n = p.kmax
			}
			for i := 0; i < n; i++ {
				k := 1 + i*p.kmax/n + c.Rand.Intn(p.kmax/n+1)
				if c.Tier == "thorough" {
					k = i + 1
				}
				if k > p.kmax {
					k = p.kmax
				}
				kms = append(kms, killMode{"strace", k})
			}
		}
		for len(kms) < perPlan-1 || len(kms) < 4 {
			if c.Rand.Intn(2) == 0 || !haveStrace() && c.Rand.Intn(3) > 0 {
				kms = append(kms, killMode{"ack", 1 + c.Rand.Intn(len(p.ops))})
			} else {
				kms = append(kms, killMode{"time", c.Rand.Intn(int(p.total/time.Microsecond) + 1)})
			}
		}
		for _, km := range kms {
			if emitted >= c.N {
				break
			}
			oneCase(c, p, km, false)
			emitted++
		}
	}
}
