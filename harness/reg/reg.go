// Package reg is the registry through which per-property runners plug into
// the implrun binary. A runner executes the implementation (built from the
// current /repo with -tags verif) on generated inputs and emits one Case per
// observation: a Coq term for the model-side judge plus a JSON description
// used for evidence and replay.
package reg

import (
	"math/rand"
	"sort"
)

// Case is one observation of the implementation.
type Case struct {
	// Coq term of the property's case type (see coq/model/Cxx.v).
	Coq string
	// Human-readable description of the input and what was observed (JSON-able).
	Desc any
	// Key identifies the input for distinctness counting.
	Key string
	// Nontrivial says whether the case exercises the property in a non-degenerate way.
	Nontrivial bool
	// Class names the input class; known findings are matched on it.
	Class string
	// Direct, when non-empty, is a violation found directly by the harness
	// (crash, hang, leak, ...) that needs no model-side judgement.
	Direct string
}

// Ctx is what a runner gets.
type Ctx struct {
	Rand   *rand.Rand
	Seed   int64
	N      int    // requested number of cases
	Tier   string // quick | thorough
	Mode   string // gen | replay | search
	Replay []byte // replay file content when Mode == replay
	Corpus [][]byte
	Emit   func(Case)
	// Dist accumulates the input distribution printed into the evidence.
	Dist map[string]int
	// Scratch is a directory the runner may use; removed afterwards.
	Scratch string
}

func (c *Ctx) Count(k string) { c.Dist[k]++ }

// Spec describes how cases of one property are judged on the Coq side.
type Spec struct {
	ID string
	// Coq module(s) to import and the judge function: judge : list case -> list (N*N).
	Imports string // e.g. "From verif Require Import lib.Base model.C37."
	Judge   string // e.g. "C37.judge"
	Shard   int    // cases per Coq shard file (default 400)
	Run     func(*Ctx)
}

var specs = map[string]*Spec{}

func Register(s *Spec) { specs[s.ID] = s }
func Get(id string) *Spec { return specs[id] }
func IDs() []string {
	var ids []string
	for k := range specs {
		ids = append(ids, k)
	}
	sort.Strings(ids)
	return ids
}
