(* C23 — wildcard expansion.  Executable model (no proofs) of
     pkg/glob/parse.go    Parse
     pkg/glob/glob.go     Pattern.Glob, glob, matchElement, matchFixedLength
     pkg/eval/glob.go     globPattern.Index / Concat / RConcat, stringToSegments, doGlob
   over an abstract file system (lstat / readdir as functions) with a concrete
   instance computed from a modelled file tree (File | Dir entries | Link target),
   plus the reference matcher (backtracking, decidable) and the oracle check_C23.

   The model follows the code including its defects:
     - matchElement is the greedy chunk matcher (no backtracking across chunks);
     - glob enumerates "the position of the first slash" once per ** and does not
       remove duplicates;
     - the hidden-file rule looks only at the first segment of an element;
     - type:regular tests the Lstat mode, so a symbolic link is not "regular". *)
From verif Require Import lib.Base lib.Utf8.
Open Scope nat_scope.

(* ------------------------------------------------------------------ *)
(* Patterns (pkg/glob/pattern.go) *)

Inductive wtype := Question | Star | StarStar.

(* rune predicates that Elvish can attach to a wildcard; character classes
   (unicode.IsDigit ...) are passed by the harness as the finite set of the
   runes of the case's alphabet that satisfy the class *)
Inductive matcher :=
| MSet (set : bytes)                       (* strings.ContainsRune(set, r) *)
| MRange (lo hi : N) (incl : bool).        (* lo <= r <= hi  /  lo <= r < hi *)

Record wild := mkWild { w_ty : wtype; w_hidden : bool; w_ms : list matcher }.

Inductive seg := Lit (d : bytes) | Slash | Wild (w : wild).

Definition is_nil {A} (l : list A) : bool := match l with [] => true | _ => false end.

Definition matcher_ok (m : matcher) (r : N) : bool :=
  match m with
  | MSet set => existsb (N.eqb r) (decode_all set)
  | MRange lo hi incl => (lo <=? r)%N && (if incl then (r <=? hi)%N else (r <? hi)%N)
  end.

(* Wild.Match *)
Definition wmatch (w : wild) (r : N) : bool :=
  match w_ms w with
  | [] => true
  | ms => existsb (fun m => matcher_ok m r) ms
  end.

Definition is_star (s : seg) : bool :=
  match s with
  | Wild w => match w_ty w with Question => false | _ => true end
  | _ => false
  end.

Definition SL : N := 47%N.   (* '/' *)
Definition DOT : N := 46%N.  (* '.' *)

Definition first_byte_dot (name : bytes) : bool :=
  match name with c :: _ => N.eqb c DOT | [] => false end.

(* name[:n] == d, returning name[n:] *)
Fixpoint strip_prefix (d name : bytes) : option bytes :=
  match d, name with
  | [], _ => Some name
  | x :: d', y :: n' => if N.eqb x y then strip_prefix d' n' else None
  | _ :: _, [] => None
  end.

(* ------------------------------------------------------------------ *)
(* Matching one path element.  [decode] is utf8.DecodeRuneInString; the
   theorems hold for every decoder that consumes between 1 and len bytes of a
   non-empty string; execution uses lib/Utf8.decode_rune. *)
Section Match.
Variable decode : bytes -> N * nat.

(* matchFixedLength: Some rest / None.  (The Go code panics on a Slash or a
   non-Question wildcard here; matchElement never passes one.) *)
Fixpoint matchFixed (segs : list seg) (name : bytes) : option bytes :=
  match segs with
  | [] => Some name
  | s :: tl =>
    match name with
    | [] => None
    | _ =>
      match s with
      | Lit d => match strip_prefix d name with
                 | Some r => matchFixed tl r
                 | None => None
                 end
      | Wild w => let '(r, n) := decode name in
                  if wmatch w r then matchFixed tl (skipn n name) else None
      | Slash => None
      end
    end
  end.

(* chunks: an optional star followed by a run of fixed-length segments *)
Fixpoint split_chunks (segs : list seg) : list seg * list (wild * list seg) :=
  match segs with
  | [] => ([], [])
  | s :: tl =>
    let '(fx, cs) := split_chunks tl in
    match s with
    | Wild w => if is_star s then ([], (w, fx) :: cs) else (s :: fx, cs)
    | _ => (s :: fx, cs)
    end
  end.

Definition chunks (segs : list seg) : list (option wild * list seg) :=
  let '(fx, cs) := split_chunks segs in
  let cs' := map (fun c => (Some (fst c), snd c)) cs in
  match fx with [] => cs' | _ => (None, fx) :: cs' end.

Definition accept (last : bool) (r : option bytes) : option bytes :=
  match r with
  | Some rest => if is_nil rest || negb last then Some rest else None
  | None => None
  end.

(* the loop "for i := 0; i < len(name);" of a chunk that starts with a star:
   extend the star rune by rune while it accepts the rune, stop at the first
   extension after which the fixed part matches (fuel = len(name)) *)
Fixpoint star_loop (fuel : nat) (w : wild) (fixed : list seg) (last : bool) (name : bytes)
  : option bytes :=
  match fuel with
  | O => None
  | S f =>
    match name with
    | [] => None
    | _ =>
      let '(r, n) := decode name in
      if wmatch w r then
        let nm := skipn n name in
        match accept last (matchFixed fixed nm) with
        | Some rest => Some rest
        | None => star_loop f w fixed last nm
        end
      else None
    end
  end.

Fixpoint match_chunks (cs : list (option wild * list seg)) (name : bytes) : bool :=
  match cs with
  | [] => is_nil name
  | (st, fixed) :: tl =>
    let last := is_nil tl in
    match accept last (matchFixed fixed name) with
    | Some rest => match_chunks tl rest
    | None =>
      match st with
      | Some w => match star_loop (length name) w fixed last name with
                  | Some rest => match_chunks tl rest
                  | None => false
                  end
      | None => false
      end
    end
  end.

(* "If the name starts with . and the first segment is a Wild, only match when
   MatchHidden is true" *)
Definition hidden_block (segs : list seg) (name : bytes) : bool :=
  first_byte_dot name &&
  match segs with Wild w :: _ => negb (w_hidden w) | _ => false end.

Definition matchElement (segs : list seg) (name : bytes) : bool :=
  match segs with
  | [] => is_nil name
  | _ => if hidden_block segs name then false else match_chunks (chunks segs) name
  end.

(* ---- reference matcher: full backtracking; a wildcard may consume the
   leading dot of the name only if it carries match-hidden ---- *)
Definition wild_ok (st : bool) (w : wild) (name : bytes) (r : N) : bool :=
  wmatch w r && (negb (st && first_byte_dot name) || w_hidden w).

Fixpoint rmatch (segs : list seg) : bool -> bytes -> bool :=
  match segs with
  | [] => fun _ name => is_nil name
  | Lit d :: tl => fun _ name =>
      negb (is_nil d) &&
      match strip_prefix d name with Some r => rmatch tl false r | None => false end
  | Slash :: _ => fun _ _ => false
  | Wild w :: tl =>
      match w_ty w with
      | Question => fun st name =>
          match name with
          | [] => false
          | _ => let '(r, n) := decode name in
                 wild_ok st w name r && rmatch tl false (skipn n name)
          end
      | _ => fun st name =>
          (fix loop (fuel : nat) (st : bool) (name : bytes) {struct fuel} : bool :=
             rmatch tl st name ||
             match fuel with
             | O => false
             | S f =>
               match name with
               | [] => false
               | _ => let '(r, n) := decode name in
                      wild_ok st w name r && loop f false (skipn n name)
               end
             end) (length name) st name
      end
  end.

(* the element-level specification, decidable form *)
Definition ref_elem (segs : list seg) (name : bytes) : bool :=
  match segs with
  | [] => is_nil name
  | _ => negb (hidden_block segs name) && rmatch segs true name
  end.

End Match.

(* ------------------------------------------------------------------ *)
(* File system interface as seen by glob: os.Lstat and os.ReadDir *)

Inductive kind := KFile | KDir | KLink | KOther.

Definition kind_eqb (a b : kind) : bool :=
  match a, b with
  | KFile, KFile | KDir, KDir | KLink, KLink | KOther, KOther => true
  | _, _ => false
  end.

Record fsys := mkFs {
  lstat : bytes -> option kind;
  (* names with DirEntry.IsDir *)
  readdir : bytes -> option (list (bytes * bool)) }.

Definition entry := (bytes * kind)%type.

(* readDir: "" means "." *)
Definition readDir (fs : fsys) (dir : bytes) : option (list (bytes * bool)) :=
  readdir fs (if is_nil dir then [DOT] else dir).

Definition lstat_list (fs : fsys) (p : bytes) : list entry :=
  match lstat fs p with Some k => [(p, k)] | None => [] end.

(* the literal-prefix loop at the start of glob: None = return without result *)
Fixpoint follow_prefix (fs : fsys) (segs : list seg) (dir : bytes) : option (list seg * bytes) :=
  match segs with
  | Lit d :: Slash :: rest =>
    let dir' := dir ++ d ++ [SL] in
    match lstat fs dir' with
    | Some KDir => follow_prefix fs rest dir'
    | _ => None
    end
  | _ => Some (segs, dir)
  end.

(* the positions of the first slash: every ** before the first Slash, then that
   Slash.  (first, rest) per position, and whether the loop ended at a Slash *)
Fixpoint cuts (pre post : list seg) : list (list seg * list seg) * bool :=
  match post with
  | [] => ([], false)
  | Slash :: post' => ([(pre, post')], true)
  | Wild w :: post' =>
    match w_ty w with
    | StarStar => let '(l, b) := cuts (pre ++ [Wild w]) post' in
                  ((pre ++ [Wild w], post) :: l, b)
    | _ => cuts (pre ++ [Wild w]) post'
    end
  | s :: post' => cuts (pre ++ [s]) post'
  end.

Fixpoint flat_map_opt {A B} (f : A -> option (list B)) (l : list A) : option (list B) :=
  match l with
  | [] => Some []
  | x :: r =>
    match f x, flat_map_opt f r with
    | Some a, Some b => Some (a ++ b)
    | _, _ => None
    end
  end.

(* the two cases in which glob ends with a single Lstat: no segment left
   (Lstat(dir)) or one literal left (Lstat(dir + literal)) *)
Definition simple_target (segs : list seg) (dir : bytes) : option bytes :=
  match segs with
  | [] => Some dir
  | [Lit d] => Some (dir ++ d)
  | _ => None
  end.

(* glob, generic in the element matcher; None = out of fuel *)
Fixpoint glob_gen (melem : list seg -> bytes -> bool) (fuel : nat) (fs : fsys)
    (segs : list seg) (dir : bytes) : option (list entry) :=
  match fuel with
  | O => None
  | S f =>
    match follow_prefix fs segs dir with
    | None => Some []
    | Some (segs, dir) =>
      match simple_target segs dir with
      | Some p => Some (lstat_list fs p)
      | None =>
        match readDir fs dir with
        | None => Some []
        | Some infos =>
          match flat_map_opt (fun c : list seg * list seg =>
                  flat_map_opt (fun e : bytes * bool =>
                    if melem (fst c) (fst e) && snd e
                    then glob_gen melem f fs (snd c) (dir ++ fst e ++ [SL])
                    else Some []) infos) (fst (cuts [] segs)) with
          | None => None
          | Some r1 =>
            Some (r1 ++
                  (if snd (cuts [] segs) then []
                   else flat_map (fun e : bytes * bool =>
                          if melem segs (fst e) then lstat_list fs (dir ++ fst e) else [])
                        infos))
          end
        end
      end
    end
  end.

(* Pattern.Glob (DirOverride and Windows drives not modelled) *)
Definition pattern_glob_gen melem fuel fs (segs : list seg) : option (list entry) :=
  match segs with
  | Slash :: rest => glob_gen melem fuel fs rest [SL]
  | _ => glob_gen melem fuel fs segs []
  end.

Definition dec := decode_rune.
Definition glob := glob_gen (matchElement dec).
Definition pattern_glob := pattern_glob_gen (matchElement dec).
Definition ref_glob := glob_gen (ref_elem dec).
Definition ref_pattern_glob := pattern_glob_gen (ref_elem dec).

(* ------------------------------------------------------------------ *)
(* glob.Parse.  next/backup are modelled as reading a rune and restoring the
   previous position. *)
Definition QM : N := 63%N.   (* ? *)
Definition AST : N := 42%N.  (* * *)
Definition BSL : N := 92%N.  (* \ *)

Fixpoint drop_while_eq (c : N) (s : bytes) : nat * bytes :=
  match s with
  | x :: r => if N.eqb x c then let '(k, t) := drop_while_eq c r in (S k, t) else (0, s)
  | [] => (0, [])
  end.

Fixpoint parse_lit (fuel : nat) (s acc : bytes) : bytes * bytes :=
  match fuel with
  | O => (acc, s)
  | S f =>
    match s with
    | [] => (acc, [])
    | _ =>
      let '(r, n) := decode_rune s in
      if N.eqb r QM || N.eqb r AST || N.eqb r SL then (acc, s)
      else if N.eqb r BSL then
        match skipn n s with
        | [] => (acc, [])
        | s1 => let '(r2, n2) := decode_rune s1 in
                parse_lit f (skipn n2 s1) (acc ++ encode_rune r2)
        end
      else parse_lit f (skipn n s) (acc ++ encode_rune r)
    end
  end.

Definition plain (t : wtype) : seg := Wild (mkWild t false []).

Fixpoint parse_pat (fuel : nat) (s : bytes) : list seg :=
  match fuel with
  | O => []
  | S f =>
    match s with
    | [] => []
    | c :: s1 =>
      if N.eqb c QM then plain Question :: parse_pat f s1
      else if N.eqb c AST then
        let '(k, s2) := drop_while_eq AST s1 in
        plain (match k with O => Star | _ => StarStar end) :: parse_pat f s2
      else if N.eqb c SL then
        let '(_, s2) := drop_while_eq SL s1 in Slash :: parse_pat f s2
      else
        let '(lit, s2) := parse_lit (S (length s)) s [] in
        Lit lit :: parse_pat f s2
    end
  end.

Definition parse (s : bytes) : list seg := parse_pat (S (length s)) s.

(* ------------------------------------------------------------------ *)
(* Elvish side: a wildcard expression is a sequence of pieces *)

Inductive modifier :=
| MNomatchOk | MBut (s : bytes) | MMatchHidden | MType (isdir : bool) | MMatcher (m : matcher).

Inductive piece := PStr (s : bytes) | PWild (ty : wtype) (mods : list modifier).

Record gpat := mkGp {
  g_segs : list seg; g_nomatch_ok : bool; g_buts : list bytes; g_type : option bool }.

(* stringToSegments *)
Fixpoint s2s (s cur : bytes) (prev_slash : bool) : list seg :=
  match s with
  | [] => match cur with [] => [] | _ => [Lit cur] end
  | c :: r =>
    if N.eqb c SL then
      (match cur with [] => [] | _ => [Lit cur] end) ++
      (if prev_slash then [] else [Slash]) ++ s2s r [] true
    else s2s r (cur ++ [c]) false
  end.
Definition stringToSegments (s : bytes) : list seg := s2s s [] false.

(* globPattern.Index on a pattern whose last segment is the wildcard [w];
   None = ErrMultipleTypeModifiers *)
Definition gp1 := (wild * bool * list bytes * option bool)%type.

Definition index1 (g : gp1) (m : modifier) : option gp1 :=
  let '(w, nm, buts, ty) := g in
  match m with
  | MNomatchOk => Some (w, true, buts, ty)
  | MBut s => Some (w, nm, buts ++ [s], ty)
  | MMatchHidden => Some (mkWild (w_ty w) true (w_ms w), nm, buts, ty)
  | MType d => match ty with Some _ => None | None => Some (w, nm, buts, Some d) end
  | MMatcher x => Some (mkWild (w_ty w) (w_hidden w) (w_ms w ++ [x]), nm, buts, ty)
  end.

Fixpoint index_all (g : gp1) (ms : list modifier) : option gp1 :=
  match ms with
  | [] => Some g
  | m :: r => match index1 g m with Some g' => index_all g' r | None => None end
  end.

Definition wild_piece (ty : wtype) (ms : list modifier) : option gpat :=
  match index_all (mkWild ty false [], false, [], None) ms with
  | Some (w, nm, buts, t) => Some (mkGp [Wild w] nm buts t)
  | None => None
  end.

Inductive acc := AStr (s : bytes) | AGp (g : gpat).

(* vals.Concat on the accumulated value and the next piece's value *)
Definition cat (a : acc) (p : piece) : option acc :=
  match p with
  | PStr t =>
    match a with
    | AStr s => Some (AStr (s ++ t))
    | AGp g => Some (AGp (mkGp (g_segs g ++ stringToSegments t) (g_nomatch_ok g) (g_buts g) (g_type g)))
    end
  | PWild ty ms =>
    match wild_piece ty ms with
    | None => None
    | Some r =>
      match a with
      | AStr s => Some (AGp (mkGp (stringToSegments s ++ g_segs r) (g_nomatch_ok r) (g_buts r) (g_type r)))
      | AGp g =>
        match g_type g, g_type r with
        | Some _, Some _ => None
        | _, _ =>
          Some (AGp (mkGp (g_segs g ++ g_segs r) (g_nomatch_ok g || g_nomatch_ok r)
                          (g_buts g ++ g_buts r)
                          (match g_type r with Some t => Some t | None => g_type g end)))
        end
      end
    end
  end.

Fixpoint cat_all (a : acc) (ps : list piece) : option acc :=
  match ps with
  | [] => Some a
  | p :: r => match cat a p with Some a' => cat_all a' r | None => None end
  end.

(* None = a compile/evaluation error (only "multiple type modifiers" can arise
   from pieces) or no wildcard at all *)
Definition compile (ps : list piece) : option gpat :=
  match cat_all (AStr []) ps with
  | Some (AGp g) => Some g
  | _ => None
  end.

(* what an expansion yields *)
Inductive outcome :=
| OPaths (l : list bytes)
| ONoMatch            (* ErrWildcardNoMatch *)
| OTypeErr            (* ErrMultipleTypeModifiers *)
| OOther.             (* anything else (not expected) *)

Definition mem (p : bytes) (l : list bytes) : bool := existsb (bytes_eqb p) l.

(* typeCbMap on the Lstat mode: as coded *)
Definition type_ok_impl (ty : option bool) (k : kind) : bool :=
  match ty with
  | None => true
  | Some true => kind_eqb k KDir
  | Some false => kind_eqb k KFile
  end.
(* as documented: "Symbolic links are considered to be regular files" *)
Definition type_ok_doc (ty : option bool) (k : kind) : bool :=
  match ty with
  | None => true
  | Some true => kind_eqb k KDir
  | Some false => kind_eqb k KFile || kind_eqb k KLink
  end.

Definition filter_out (type_ok : option bool -> kind -> bool) (g : gpat) (l : list entry)
  : outcome :=
  let vs := map fst (filter (fun e : entry =>
              negb (mem (fst e) (g_buts g)) && type_ok (g_type g) (snd e)) l) in
  if is_nil vs && negb (g_nomatch_ok g) then ONoMatch else OPaths vs.

(* doGlob; None = out of fuel *)
Definition doGlob (fuel : nat) (fs : fsys) (g : gpat) : option outcome :=
  match pattern_glob fuel fs (g_segs g) with
  | None => None
  | Some l => Some (filter_out type_ok_impl g l)
  end.

(* ------------------------------------------------------------------ *)
(* The file tree and its file-system instance (path resolution as POSIX
   lstat(2)/opendir(3) do it: symbolic links in non-final components and before
   a trailing slash are followed, ".." is the physical parent). *)

Inductive tree := File | Dir (es : list (bytes * tree)) | Link (target : bytes).

Fixpoint lookup (name : bytes) (es : list (bytes * tree)) : option tree :=
  match es with
  | [] => None
  | (n, t) :: r => if bytes_eqb n name then Some t else lookup name r
  end.

(* split at '/', dropping empty components *)
Fixpoint split_path (s cur : bytes) : list bytes :=
  match s with
  | [] => match cur with [] => [] | _ => [cur] end
  | c :: r =>
    if N.eqb c SL then (match cur with [] => [] | _ => [cur] end) ++ split_path r []
    else split_path r (cur ++ [c])
  end.

(* harness encoding of a flat directory of plain files: names joined by '/' *)
Definition flat_tree (enc : bytes) : tree :=
  Dir (map (fun n => (n, File)) (split_path enc [])).

Definition ends_with_slash (s : bytes) : bool :=
  match rev s with c :: _ => N.eqb c SL | [] => false end.
Definition is_abs (s : bytes) : bool :=
  match s with c :: _ => N.eqb c SL | [] => false end.

(* Path resolution.  A state is the stack of nodes from the current node (first)
   up to the root (last).  One component is resolved by [stepf]: "." stays, ".."
   pops (the root is its own parent), a name is looked up in the current
   directory; a symbolic link is resolved completely by resolving the components
   of its target (relative to the directory holding the link, or to the root for
   an absolute target), nested at most LINK_FUEL deep (ELOOP beyond); with
   [follow = false] a link is returned unresolved (final component of lstat). *)
Fixpoint stepf (fuel : nat) (follow : bool) (bottom : list tree) (st : option (list tree))
    (c : bytes) : option (list tree) :=
  match st with
  | None => None
  | Some stack =>
    match stack with
    | Dir es :: up =>
      if bytes_eqb c [DOT] then Some stack
      else if bytes_eqb c [DOT; DOT] then Some (match up with [] => stack | _ => up end)
      else
        match lookup c es with
        | None => None
        | Some (Link tgt) =>
          if negb follow then Some (Link tgt :: stack)
          else
            match fuel with
            | O => None
            | S f =>
              if is_nil tgt then None
              else fold_left (stepf f true bottom) (split_path tgt [])
                             (Some (if is_abs tgt then bottom else stack))
            end
        | Some node => Some (node :: stack)
        end
    | _ => None
    end
  end.

Definition LINK_FUEL : nat := 40.

Record world := mkWorld {
  w_root : tree;           (* the generated tree *)
  w_cwd : list bytes;      (* working directory, names of real directories from the root *)
  w_abs : bytes }.         (* absolute path of the root on disk, no trailing slash *)

Definition follow_all (wd : world) (st : option (list tree)) (cs : list bytes) : option (list tree) :=
  fold_left (stepf LINK_FUEL true [w_root wd]) cs st.

Definition start_stack (wd : world) : option (list tree) :=
  follow_all wd (Some [w_root wd]) (w_cwd wd).

Fixpoint is_dir_prefix (p full : list bytes) : bool :=
  match p, full with
  | [], _ => true
  | x :: p', y :: f' => bytes_eqb x y && is_dir_prefix p' f'
  | _ :: _, [] => false
  end.

Fixpoint strip_comps (pre l : list bytes) : option (list bytes) :=
  match pre, l with
  | [], _ => Some l
  | x :: p', y :: l' => if bytes_eqb x y then strip_comps p' l' else None
  | _ :: _, [] => None
  end.

(* where the resolution of a path string starts and which components remain.
   Absolute paths inside the generated tree start at its root; proper ancestors
   of the root are directories whose content is not modelled. *)
Inductive base_res := BStart (st : option (list tree)) (cs : list bytes) | BAncestor | BNone.

Definition base (wd : world) (p : bytes) : base_res :=
  let comps := split_path p [] in
  if is_abs p then
    let root_comps := split_path (w_abs wd) [] in
    match strip_comps root_comps comps with
    | Some rel => BStart (Some [w_root wd]) rel
    | None => if is_dir_prefix comps root_comps then BAncestor else BNone
    end
  else BStart (start_stack wd) comps.

(* the path resolved as a directory path (every link followed) *)
Definition dir_stack (wd : world) (p : bytes) : option (list tree) :=
  match base wd p with
  | BStart st cs => follow_all wd st cs
  | _ => None
  end.

Definition kind_of (t : tree) : kind :=
  match t with File => KFile | Dir _ => KDir | Link _ => KLink end.
Definition is_dir_node (t : tree) : bool := match t with Dir _ => true | _ => false end.

Definition tree_lstat (wd : world) (p : bytes) : option kind :=
  match p with
  | [] => None
  | _ =>
    match base wd p with
    | BAncestor => Some KDir
    | BNone => None
    | BStart st cs =>
      let trailing := ends_with_slash p in
      let r := match cs with
               | [] => st
               | _ => stepf LINK_FUEL trailing [w_root wd] (follow_all wd st (removelast cs)) (last cs [])
               end in
      match r with
      | Some (t :: _) =>
        match t with
        | Dir _ => Some KDir
        | _ => if trailing then None else Some (kind_of t)
        end
      | _ => None
      end
    end
  end.

Definition tree_readdir (wd : world) (p : bytes) : option (list (bytes * bool)) :=
  match p with
  | [] => None
  | _ =>
    match dir_stack wd (p ++ [SL]) with
    | Some (Dir es :: _) => Some (map (fun e => (fst e, is_dir_node (snd e))) es)
    | _ => None
    end
  end.

Definition tree_fs (wd : world) : fsys := mkFs (tree_lstat wd) (tree_readdir wd).

(* well-formed trees (what a directory on disk is): entry names are distinct,
   non-empty, slash-free and neither "." nor ".." *)
Definition name_ok (n : bytes) : bool :=
  negb (is_nil n) && negb (existsb (N.eqb SL) n) &&
  negb (bytes_eqb n [DOT]) && negb (bytes_eqb n [DOT; DOT]).

Fixpoint nodup_names (l : list bytes) : bool :=
  match l with [] => true | x :: r => negb (mem x r) && nodup_names r end.

Fixpoint wf_tree (t : tree) : bool :=
  match t with
  | Dir es =>
    nodup_names (map fst es) && forallb (fun e => name_ok (fst e)) es &&
    (fix all (l : list (bytes * tree)) : bool :=
       match l with [] => true | e :: r => wf_tree (snd e) && all r end) es
  | _ => true
  end.

Fixpoint height (t : tree) : nat :=
  match t with
  | Dir es =>
    S ((fix mx (l : list (bytes * tree)) : nat :=
          match l with [] => 0 | e :: r => Nat.max (height (snd e)) (mx r) end) es)
  | _ => 0
  end.

(* the fuel the judge gives to glob: proved sufficient for well-formed trees
   (C23_glob_fuel_sufficient) *)
Definition fuel_of (wd : world) (segs : list seg) : nat :=
  S (length segs * S (height (w_root wd)) + height (w_root wd)).

(* ------------------------------------------------------------------ *)
(* The oracle.  Expected = the set of paths accepted by the reference glob
   (backtracking element matcher, each path once), filtered as documented. *)

Fixpoint dedup (l : list entry) : list entry :=
  match l with
  | [] => []
  | e :: r => if existsb (fun x => bytes_eqb (fst x) (fst e)) r then dedup r else e :: dedup r
  end.

Definition count (p : bytes) (l : list bytes) : nat :=
  length (filter (bytes_eqb p) l).

Definition multiset_eqb (a b : list bytes) : bool :=
  Nat.eqb (length a) (length b) &&
  forallb (fun p => Nat.eqb (count p a) (count p b)) a.

Definition entry_eqb (a b : entry) : bool :=
  bytes_eqb (fst a) (fst b) && kind_eqb (snd a) (snd b).
Definition count_e (e : entry) (l : list entry) : nat := length (filter (entry_eqb e) l).
Definition multiset_e_eqb (a b : list entry) : bool :=
  Nat.eqb (length a) (length b) &&
  forallb (fun e => Nat.eqb (count_e e a) (count_e e b)) a.

Definition outcome_eqb (a b : outcome) : bool :=
  match a, b with
  | OPaths x, OPaths y => multiset_eqb x y
  | ONoMatch, ONoMatch | OTypeErr, OTypeErr | OOther, OOther => true
  | _, _ => false
  end.

(* patterns outside the documented domain: an empty literal (a pattern ending
   in a lone backslash) *)
Definition has_empty_lit (segs : list seg) : bool :=
  existsb (fun s => match s with Lit [] => true | _ => false end) segs.

Definition FUEL : nat := 64.

Inductive route :=
| RGlob (pat : bytes)            (* glob.Glob(pat, cb) *)
| RElvish (ps : list piece).     (* put <expression> evaluated by an Evaler *)

Inductive observation :=
| ObsGlob (l : list entry) (segs : list seg)  (* callback arguments; glob.Parse(pat).Segments *)
| ObsElvish (o : outcome).

Record case := mkCase { c_world : world; c_route : route; c_obs : observation }.

Definition check_C23 (c : case) : bool :=
  let fs := tree_fs (c_world c) in
  match c_route c, c_obs c with
  | RGlob pat, ObsGlob l _ =>
    let segs := parse pat in
    if has_empty_lit segs then true else
    match ref_pattern_glob (fuel_of (c_world c) segs) fs segs with
    | Some exp => multiset_eqb (map fst l) (map fst (dedup exp))
    | None => false
    end
  | RElvish ps, ObsElvish o =>
    match compile ps with
    | None => outcome_eqb o OTypeErr
    | Some g =>
      match ref_pattern_glob (fuel_of (c_world c) (g_segs g)) fs (g_segs g) with
      | Some exp => outcome_eqb o (filter_out type_ok_doc g (dedup exp))
      | None => false
      end
    end
  | _, _ => false
  end.

Definition seg_eqb (a b : seg) : bool :=
  match a, b with
  | Lit x, Lit y => bytes_eqb x y
  | Slash, Slash => true
  | Wild v, Wild w =>
    match w_ty v, w_ty w with
    | Question, Question | Star, Star | StarStar, StarStar => true
    | _, _ => false
    end && Bool.eqb (w_hidden v) (w_hidden w) && Nat.eqb (length (w_ms v)) (length (w_ms w))
  | _, _ => false
  end.

(* model = implementation? *)
Definition corr_C23 (c : case) : bool :=
  let fs := tree_fs (c_world c) in
  match c_route c, c_obs c with
  | RGlob pat, ObsGlob l osegs =>
    let segs := parse pat in
    list_eqb seg_eqb segs osegs &&
    match pattern_glob (fuel_of (c_world c) segs) fs segs with
    | Some m => multiset_e_eqb l m
    | None => false
    end
  | RElvish ps, ObsElvish o =>
    match compile ps with
    | None => outcome_eqb o OTypeErr
    | Some g =>
      match doGlob (fuel_of (c_world c) (g_segs g)) fs g with
      | Some m => outcome_eqb o m
      | None => false
      end
    end
  | _, _ => false
  end.

(* the harness must describe the directory it wrote by a well-formed tree *)
Definition judge1 (c : case) : N :=
  code (check_C23 c) (corr_C23 c && wf_tree (w_root (c_world c))).
Definition judge := judge_with judge1.
