(* C27 -- daemon activation (pkg/daemon/activate.go, server.go, client.go).
   Executable Gallina only (no proofs).

   Part 1: the transition system.  File-system facts (what the socket path refers
           to, who holds the flock on the database), daemons with the program
           counter of Serve, shells with the program counter of Activate.  One
           label = one system call or one atomic protocol action of one process.
           Process spawning, unix sockets and flock are MODELLED:
             - bind fails iff the path exists; connect to a path whose listener is
               gone is refused; a connection to a listening daemon that is not yet
               in its serve loop blocks (the Version call waits); to a daemon that
               left the loop but has not closed its listener it ends in an error;
             - accept + registration of the connection is atomic with the dial;
             - net.UnixListener.Close unlinks the path it was bound to (Go does
               that for listeners it created), so the exit path of Serve removes
               the path twice: os.Remove (DExit1) and listener.Close (DExit3);
             - SIGKILL (LCrash) releases the flock, leaves the socket file behind;
             - all timeouts (spawn poll, kill wait, bbolt lock) are nondeterministic
               labels: every retry bound of the code is covered.
   Part 2: schedules: run, the serialized guard, a bounded explorer (witness
           finder and correspondence oracle only; no theorem rests on it).
   Part 3: observations of real processes, the acceptor check_C27, the case
           record and the judge. *)
From verif Require Import lib.Base.
Open Scope nat_scope.

(* ------------------------------------------------------------------ *)
(* Part 1 *)

Inductive sockst := SkNone | SkStale | SkOwned (d : nat).
Inductive dpc := DStart | DOpenDB | DServe | DExit1 | DExit2 | DExit3 | DDead.
Record daemon := mkD { d_pc : dpc; d_db : bool; d_old : bool }.

Inductive spc :=
| SIdle                (* not started *)
| SLstat               (* detectDaemon: os.Lstat *)
| SDial                (* detectDaemon: cl.Version (dial + RPC) *)
| SRemove              (* connectionRefused: os.Remove(sockpath) *)
| SKill (d : nat)      (* daemonOutdated: connected to d, about to Pid + signal *)
| SKillWait            (* killDaemon: wait until the path is gone *)
| SSpawn               (* spawn *)
| SPollLstat           (* wait loop: time check + Lstat *)
| SPollDial            (* wait loop: Version *)
| SConn (d : nat)      (* Activate returned nil error; the client holds a connection to d *)
| SErr                 (* Activate returned an error *)
| SDropped             (* was connected; the daemon closed the connection (signal, crash) *)
| SGone.               (* closed its connection and exited *)

Record state := mkSt { sock : sockst; lock : option nat; ds : list daemon; ss : list spc }.

Fixpoint upd {A} (i : nat) (x : A) (l : list A) : list A :=
  match l, i with
  | [], _ => []
  | _ :: r, O => x :: r
  | y :: r, S j => y :: upd j x r
  end.

Definition client_of (d : nat) (p : spc) : bool :=
  match p with SConn e => Nat.eqb d e | SKill e => Nat.eqb d e | _ => false end.
Definition nclients (d : nat) (l : list spc) : nat := length (filter (client_of d) l).
Definition drop1 (d : nat) (p : spc) : spc :=
  match p with
  | SConn e => if Nat.eqb d e then SDropped else p
  | SKill e => if Nat.eqb d e then SErr else p
  | _ => p
  end.
Definition drop (d : nat) (l : list spc) : list spc := map (drop1 d) l.
Definition set_pc (x : daemon) (pc : dpc) : daemon := mkD pc (d_db x) (d_old x).

Inductive label :=
| LBegin (s : nat) | LLstat (s : nat) | LDial (s : nat) | LRemove (s : nat)
| LKillSig (s : nat) | LKillWait (s : nat) | LKillTimeout (s : nat)
| LSpawn (s : nat) | LSpawnFail (s : nat)
| LPollLstat (s : nat) | LPollDial (s : nat) | LPollTimeout (s : nat)
| LLeave (s : nat)
| LListen (d : nat) | LOpenDB (d : nat) | LDBTimeout (d : nat)
| LExit1 (d : nat) | LExit2 (d : nat) | LExit3 (d : nat) | LCrash (d : nat).

Inductive dialres := DRNoEnt | DRRefused | DRBlocked | DROk (d : nat) (old : bool) | DROther.

Definition dial (st : state) : dialres :=
  match sock st with
  | SkNone => DRNoEnt
  | SkStale => DRRefused
  | SkOwned d =>
    match nth_error (ds st) d with
    | Some x =>
      match d_pc x with
      | DOpenDB => DRBlocked
      | DServe => DROk d (d_old x)
      | DExit1 | DExit2 | DExit3 => DROther
      | DStart | DDead => DRRefused
      end
    | None => DRRefused
    end
  end.

Definition sets (st : state) (s : nat) (p : spc) : state :=
  mkSt (sock st) (lock st) (ds st) (upd s p (ss st)).
Definition setd (st : state) (d : nat) (x : daemon) : state :=
  mkSt (sock st) (lock st) (upd d x (ds st)) (ss st).

Definition sock_eqb (a b : sockst) : bool :=
  match a, b with
  | SkNone, SkNone => true | SkStale, SkStale => true
  | SkOwned d, SkOwned e => Nat.eqb d e | _, _ => false
  end.
Definition olock_eqb (a b : option nat) : bool := option_eqb Nat.eqb a b.

Definition step (st : state) (l : label) : option state :=
  match l with
  | LBegin s =>
    match nth_error (ss st) s with Some SIdle => Some (sets st s SLstat) | _ => None end
  | LLstat s =>
    match nth_error (ss st) s with
    | Some SLstat => Some (sets st s (match sock st with SkNone => SSpawn | _ => SDial end))
    | _ => None end
  | LDial s =>
    match nth_error (ss st) s with
    | Some SDial =>
      match dial st with
      | DRNoEnt => Some (sets st s SErr)
      | DROther => Some (sets st s SErr)
      | DRRefused => Some (sets st s SRemove)
      | DRBlocked => None
      | DROk d old => Some (sets st s (if old then SKill d else SConn d))
      end
    | _ => None end
  | LRemove s =>
    match nth_error (ss st) s with
    | Some SRemove =>
      match sock st with
      | SkNone => Some (sets st s SErr)
      | _ => Some (mkSt SkNone (lock st) (ds st) (upd s SSpawn (ss st)))
      end
    | _ => None end
  | LKillSig s =>
    match nth_error (ss st) s with
    | Some (SKill d) =>
      match nth_error (ds st) d with
      | Some x =>
        match d_pc x with
        | DServe => Some (mkSt (sock st) (lock st) (upd d (set_pc x DExit1) (ds st))
                               (upd s SKillWait (drop d (ss st))))
        | _ => Some (sets st s SErr)
        end
      | None => Some (sets st s SErr)
      end
    | _ => None end
  | LKillWait s =>
    match nth_error (ss st) s with
    | Some SKillWait => match sock st with SkNone => Some (sets st s SSpawn) | _ => None end
    | _ => None end
  | LKillTimeout s =>
    match nth_error (ss st) s with
    | Some SKillWait => match sock st with SkNone => None | _ => Some (sets st s SErr) end
    | _ => None end
  | LSpawn s =>
    match nth_error (ss st) s with
    | Some SSpawn => Some (mkSt (sock st) (lock st) (ds st ++ [mkD DStart false false])
                                (upd s SPollLstat (ss st)))
    | _ => None end
  | LSpawnFail s =>
    match nth_error (ss st) s with Some SSpawn => Some (sets st s SErr) | _ => None end
  | LPollLstat s =>
    match nth_error (ss st) s with
    | Some SPollLstat => match sock st with SkNone => None | _ => Some (sets st s SPollDial) end
    | _ => None end
  | LPollDial s =>
    match nth_error (ss st) s with
    | Some SPollDial =>
      match dial st with
      | DRNoEnt => Some (sets st s SErr)
      | DROther => Some (sets st s SErr)
      | DRRefused => Some (sets st s SPollLstat)
      | DRBlocked => None
      | DROk d old => Some (sets st s (if old then SErr else SConn d))
      end
    | _ => None end
  | LPollTimeout s =>
    match nth_error (ss st) s with Some SPollLstat => Some (sets st s SErr) | _ => None end
  | LLeave s =>
    match nth_error (ss st) s with
    | Some (SConn d) =>
      let ss' := upd s SGone (ss st) in
      match nth_error (ds st) d with
      | Some x =>
        match d_pc x with
        | DServe =>
          if Nat.eqb (nclients d ss') 0
          then Some (mkSt (sock st) (lock st) (upd d (set_pc x DExit1) (ds st)) ss')
          else Some (mkSt (sock st) (lock st) (ds st) ss')
        | _ => Some (mkSt (sock st) (lock st) (ds st) ss')
        end
      | None => Some (mkSt (sock st) (lock st) (ds st) ss')
      end
    | _ => None end
  | LListen d =>
    match nth_error (ds st) d with
    | Some x =>
      match d_pc x with
      | DStart =>
        match sock st with
        | SkNone => Some (mkSt (SkOwned d) (lock st) (upd d (set_pc x DOpenDB) (ds st)) (ss st))
        | _ => Some (setd st d (set_pc x DDead))
        end
      | _ => None end
    | None => None end
  | LOpenDB d =>
    match nth_error (ds st) d with
    | Some x =>
      match d_pc x, lock st with
      | DOpenDB, None => Some (mkSt (sock st) (Some d) (upd d (mkD DServe true (d_old x)) (ds st)) (ss st))
      | _, _ => None end
    | None => None end
  | LDBTimeout d =>
    match nth_error (ds st) d with
    | Some x =>
      match d_pc x, lock st with
      | DOpenDB, Some _ => Some (setd st d (mkD DServe false (d_old x)))
      | _, _ => None end
    | None => None end
  | LExit1 d =>
    match nth_error (ds st) d with
    | Some x =>
      match d_pc x with
      | DExit1 => Some (mkSt SkNone (lock st) (upd d (set_pc x DExit2) (ds st)) (ss st))
      | _ => None end
    | None => None end
  | LExit2 d =>
    match nth_error (ds st) d with
    | Some x =>
      match d_pc x with
      | DExit2 => Some (mkSt (sock st) (if d_db x then None else lock st)
                             (upd d (mkD DExit3 false (d_old x)) (ds st)) (ss st))
      | _ => None end
    | None => None end
  | LExit3 d =>
    match nth_error (ds st) d with
    | Some x =>
      match d_pc x with
      | DExit3 => Some (mkSt SkNone (lock st) (upd d (set_pc x DDead) (ds st)) (ss st))
      | _ => None end
    | None => None end
  | LCrash d =>
    match nth_error (ds st) d with
    | Some x =>
      match d_pc x with
      | DDead => None
      | _ => Some (mkSt (if sock_eqb (sock st) (SkOwned d) then SkStale else sock st)
                        (if olock_eqb (lock st) (Some d) then None else lock st)
                        (upd d (mkD DDead false (d_old x)) (ds st))
                        (drop d (ss st)))
      end
    | None => None end
  end.

(* ------------------------------------------------------------------ *)
(* Part 2: schedules *)

Fixpoint run (st : state) (ls : list label) : option state :=
  match ls with
  | [] => Some st
  | l :: r => match step st l with Some st' => run st' r | None => None end
  end.

Definition init (n : nat) (stale : bool) : state :=
  mkSt (if stale then SkStale else SkNone) None [] (repeat SIdle n).
(* a running daemon of an older API version, holding the database *)
Definition init_old (n : nat) : state :=
  mkSt (SkOwned 0) (Some 0) [mkD DServe true true] (repeat SIdle n).

Definition shell_idle (p : spc) : bool :=
  match p with SIdle | SConn _ | SErr | SDropped | SGone => true | _ => false end.
Definition daemon_quiet (x : daemon) : bool :=
  match d_pc x with DServe | DDead => true | _ => false end.
Definition quiescent (st : state) : bool :=
  forallb shell_idle (ss st) && forallb daemon_quiet (ds st).

(* serialized schedules: a shell starts Activate, or closes its connection, only
   when no other shell is inside Activate and no daemon is starting up or exiting *)
Definition guard (st : state) (l : label) : bool :=
  match l with LBegin _ | LLeave _ => quiescent st | _ => true end.

Fixpoint srun (st : state) (ls : list label) : option state :=
  match ls with
  | [] => Some st
  | l :: r => if guard st l then match step st l with Some st' => srun st' r | None => None end
              else None
  end.

(* ---- state equality (explorer only) ---- *)
Definition dpc_eqb (a b : dpc) : bool :=
  match a, b with
  | DStart, DStart | DOpenDB, DOpenDB | DServe, DServe | DExit1, DExit1
  | DExit2, DExit2 | DExit3, DExit3 | DDead, DDead => true | _, _ => false end.
Definition daemon_eqb (a b : daemon) : bool :=
  dpc_eqb (d_pc a) (d_pc b) && Bool.eqb (d_db a) (d_db b) && Bool.eqb (d_old a) (d_old b).
Definition spc_eqb (a b : spc) : bool :=
  match a, b with
  | SIdle, SIdle | SLstat, SLstat | SDial, SDial | SRemove, SRemove | SKillWait, SKillWait
  | SSpawn, SSpawn | SPollLstat, SPollLstat | SPollDial, SPollDial | SErr, SErr
  | SDropped, SDropped | SGone, SGone => true
  | SKill d, SKill e => Nat.eqb d e
  | SConn d, SConn e => Nat.eqb d e
  | _, _ => false end.
Definition state_eqb (a b : state) : bool :=
  sock_eqb (sock a) (sock b) && olock_eqb (lock a) (lock b)
  && list_eqb daemon_eqb (ds a) (ds b) && list_eqb spc_eqb (ss a) (ss b).

(* labels of shell s / daemon d *)
Definition shell_labels (s : nat) : list label :=
  [LLstat s; LDial s; LRemove s; LKillSig s; LKillWait s; LKillTimeout s; LSpawn s;
   LSpawnFail s; LPollLstat s; LPollDial s; LPollTimeout s].
Definition daemon_labels (d : nat) : list label :=
  [LListen d; LOpenDB d; LDBTimeout d; LExit1 d; LExit2 d; LExit3 d].

(* patient schedules (correspondence oracle): a timeout fires only when waiting is
   hopeless -- nothing in the system can move any more without it; spawning never
   fails.  Real runs on a machine that is not pathologically slow are patient. *)
Definition shell_waiting (p : spc) : bool :=
  match p with SPollLstat | SPollDial | SKillWait => true | _ => shell_idle p end.
Definition is_owned (k : sockst) : bool := match k with SkOwned _ => true | _ => false end.
Definition hopeless (st : state) : bool :=
  forallb daemon_quiet (ds st) && forallb shell_waiting (ss st) && negb (is_owned (sock st)).
Definition lock_holder_serving (st : state) : bool :=
  match lock st with
  | Some e => match nth_error (ds st) e with
              | Some x => dpc_eqb (d_pc x) DServe | None => true end
  | None => false end.
Definition patient_ok (st : state) (l : label) : bool :=
  match l with
  | LSpawnFail _ => false
  | LPollTimeout _ | LKillTimeout _ => hopeless st
  | LDBTimeout _ => lock_holder_serving st
  | _ => true end.

Definition all_labels (patient : bool) (st : state) : list label :=
  let ls := flat_map shell_labels (seq 0 (length (ss st)))
            ++ flat_map daemon_labels (seq 0 (length (ds st))) in
  if patient then filter (patient_ok st) ls else ls.

Definition succs (patient : bool) (st : state) : list (label * state) :=
  flat_map (fun l => match step st l with Some st' => [(l, st')] | None => [] end)
           (all_labels patient st).

Fixpoint mem_state (x : state) (l : list state) : bool :=
  match l with [] => false | y :: r => if state_eqb x y then true else mem_state x r end.

(* breadth-first search with paths (reversed); [bad] stops the search *)
Fixpoint bfs (patient : bool) (bad : state -> bool) (fuel : nat)
         (frontier : list (state * list label)) (seen : list state) : option (list label) :=
  match fuel with
  | O => None
  | S f =>
    match find (fun sp => bad (fst sp)) frontier with
    | Some (_, p) => Some (rev p)
    | None =>
      let '(next, seen') :=
        fold_left (fun (acc : list (state * list label) * list state) sp =>
          fold_left (fun (acc : list (state * list label) * list state) ls =>
              let '(nx, sn) := acc in
              if mem_state (snd ls) sn then acc
              else ((snd ls, fst ls :: snd sp) :: nx, snd ls :: sn))
            (succs patient (fst sp)) acc)
          frontier ([], seen) in
      match next with [] => None | _ => bfs patient bad f next seen' end
    end
  end.

Definition find_witness (patient : bool) (bad : state -> bool) (fuel : nat)
           (st : state) (prefix : list label) : option (list label) :=
  match run st prefix with
  | Some st' => match bfs patient bad fuel [(st', [])] [st'] with
                | Some p => Some (prefix ++ p) | None => None end
  | None => None end.

(* all terminal states reachable by patient schedules (no enabled label) *)
Fixpoint settle_loop (fuel : nat) (frontier seen terminal : list state) : list state :=
  match fuel with
  | O => terminal
  | S f =>
    match frontier with
    | [] => terminal
    | _ =>
      let '(next, seen', term') :=
        fold_left (fun (acc : list state * list state * list state) st =>
          let '(nx, sn, tm) := acc in
          match succs true st with
          | [] => (nx, sn, if mem_state st tm then tm else st :: tm)
          | sc => let '(nx', sn') :=
                    fold_left (fun (a : list state * list state) ls =>
                      if mem_state (snd ls) (snd a) then a
                      else (snd ls :: fst a, snd ls :: snd a)) sc (nx, sn) in
                  (nx', sn', tm)
          end) frontier ([], seen, terminal) in
      settle_loop f next seen' term'
    end
  end.
Definition settle (st : state) : list state := settle_loop 400 [st] [st] [].

(* bad-state predicates used by the refuted theorems *)
Definition pc_of (st : state) (d : nat) : dpc :=
  match nth_error (ds st) d with Some x => d_pc x | None => DDead end.
Definition db_of (st : state) (d : nat) : bool :=
  match nth_error (ds st) d with Some x => d_db x | None => false end.
Definition serving_count (st : state) : nat :=
  length (filter (fun x => dpc_eqb (d_pc x) DServe) (ds st)).
Definition two_serving (st : state) : bool := Nat.leb 2 (serving_count st).
Definition conn_without_db (st : state) : bool :=
  existsb (fun p => match p with SConn d => negb (db_of st d) | _ => false end) (ss st).
(* some daemon is about to unlink the path while it refers to somebody else's socket *)
Definition foreign_unlink (st : state) : bool :=
  existsb (fun d => (dpc_eqb (pc_of st d) DExit1 || dpc_eqb (pc_of st d) DExit3)
                    && match sock st with
                       | SkOwned e => negb (Nat.eqb e d) | _ => false end)
          (seq 0 (length (ds st))).
(* a serving daemon whose path is gone / refers to another socket *)
Definition serving_unreachable (st : state) : bool :=
  existsb (fun d => dpc_eqb (pc_of st d) DServe && negb (sock_eqb (sock st) (SkOwned d)))
          (seq 0 (length (ds st))).

(* ------------------------------------------------------------------ *)
(* Part 3: observations of real processes and the acceptor *)
Open Scope N_scope.

(* what the harness sees of one shell *)
Inductive shobs :=
| ONone                (* Activate not called yet *)
| OErr                 (* Activate returned an error *)
| OConn (pid : N)      (* Activate returned nil; Pid RPC over the held connection answers pid *)
| ODead                (* held connection no longer answers *)
| OGone.               (* closed its client and exited *)

Record snap := mkSnap {
  sn_exists : bool;              (* lstat(sock path) succeeds *)
  sn_owner : option N;           (* live daemon whose listening socket the path refers to *)
  sn_lock : option N;            (* pid holding the flock on the database file *)
  sn_daemons : list (N * bool);  (* live daemon processes of this socket path, listening? *)
  sn_shells : list shobs }.

Inductive action :=
| AActs (l : list nat)           (* these shells call Activate concurrently; wait for all *)
| ALeave (s : nat)               (* shell s closes its client; wait until things settle *)
| ACrashPeer (s : nat).          (* SIGKILL the daemon shell s is connected to *)

Fixpoint memN (x : N) (l : list N) : bool :=
  match l with [] => false | y :: r => if x =? y then true else memN x r end.
Definition oN_eqb (a b : option N) : bool := option_eqb N.eqb a b.

Definition live (s : snap) (p : N) : bool := memN p (map fst (sn_daemons s)).

(* one daemon per socket + nobody removed a socket he did not own: every live
   listening daemon is the one the path refers to *)
Definition listeners_ok (s : snap) : bool :=
  forallb (fun d : N * bool => if snd d then oN_eqb (sn_owner s) (Some (fst d)) else true) (sn_daemons s).

Definition peer_of (s : snap) (i : nat) : option N :=
  match nth_error (sn_shells s) i with Some (OConn p) => Some p | _ => None end.

(* shell i between the previous snapshot and this one *)
Definition shell_ok (a : action) (prev cur : snap) (i : nat) (o : shobs) : bool :=
  match nth_error (sn_shells prev) i with
  | Some (OConn p) =>
    (* was connected: the daemon keeps serving it, unless the shell left or the
       harness killed that daemon *)
    match a with
    | ALeave s => if Nat.eqb s i then true
                  else match o with OConn q => (p =? q) && live cur q | _ => false end
    | ACrashPeer s => if oN_eqb (peer_of prev s) (Some p) then true
                      else match o with OConn q => (p =? q) && live cur q | _ => false end
    | AActs _ => match o with OConn q => (p =? q) && live cur q | _ => false end
    end
  | _ =>
    (* a finished activation: connected to a live daemon that holds the database, or an error *)
    match o with
    | OConn q => live cur q && oN_eqb (sn_lock cur) (Some q)
    | _ => true
    end
  end.

Fixpoint forallb_i {A} (f : nat -> A -> bool) (i : nat) (l : list A) : bool :=
  match l with [] => true | x :: r => f i x && forallb_i f (S i) r end.

Definition snap_ok (a : action) (prev cur : snap) : bool :=
  listeners_ok cur && forallb_i (shell_ok a prev cur) 0%nat (sn_shells cur).

Fixpoint trace_ok (prev : snap) (tr : list (action * snap)) : bool :=
  match tr with
  | [] => true
  | (a, s) :: r => snap_ok a prev s && trace_ok s r
  end.

Definition check_C27 (s0 : snap) (tr : list (action * snap)) : bool :=
  listeners_ok s0 && trace_ok s0 tr.

(* ---- the model side of a scripted scenario: set of abstract traces ---- *)

(* abstract snapshot: per shell 0 none / 1 err / 2 connected to the db holder /
   3 connected to a daemon without the db / 4 dropped / 5 gone; number of live
   daemons; number of listening ones; path: 0 none, 1 file without live owner,
   2 owner holds the db, 3 owner without db; database locked?; number of live
   daemons of the outdated API version *)
Definition asnap := (list N * N * N * N * bool * N)%type.

Definition asnap_eqb (a b : asnap) : bool :=
  match a, b with
  | (s1, l1, n1, p1, k1, o1), (s2, l2, n2, p2, k2, o2) =>
    list_eqb N.eqb s1 s2 && (l1 =? l2) && (n1 =? n2) && (p1 =? p2) && Bool.eqb k1 k2 && (o1 =? o2)
  end.

Definition abs_impl (olds : list N) (s : snap) : asnap :=
  (map (fun o => match o with
                 | ONone => 0 | OErr => 1
                 | OConn p => if oN_eqb (sn_lock s) (Some p) then 2 else 3
                 | ODead => 4 | OGone => 5 end) (sn_shells s),
   N.of_nat (length (sn_daemons s)),
   N.of_nat (length (filter (fun d : N * bool => snd d) (sn_daemons s))),
   match sn_owner s with
   | Some p => if oN_eqb (sn_lock s) (Some p) then 2 else 3
   | None => if sn_exists s then 1 else 0 end,
   match sn_lock s with Some _ => true | None => false end,
   N.of_nat (length (filter (fun d : N * bool => memN (fst d) olds) (sn_daemons s)))).

Definition listening_pc (p : dpc) : bool :=
  match p with DOpenDB | DServe | DExit1 | DExit2 | DExit3 => true | _ => false end.

Definition abs_model (st : state) : asnap :=
  (map (fun p => match p with
                 | SIdle => 0 | SErr => 1
                 | SConn d => if olock_eqb (lock st) (Some d) then 2 else 3
                 | SDropped => 4 | SGone => 5
                 | _ => 9 end) (ss st),
   N.of_nat (length (filter (fun x => negb (dpc_eqb (d_pc x) DDead)) (ds st))),
   N.of_nat (length (filter (fun x => listening_pc (d_pc x)) (ds st))),
   match sock st with
   | SkNone => 0 | SkStale => 1
   | SkOwned d => if olock_eqb (lock st) (Some d) then 2 else 3 end,
   match lock st with Some _ => true | None => false end,
   N.of_nat (length (filter (fun x => d_old x && negb (dpc_eqb (d_pc x) DDead)) (ds st))))%N.

Definition begin_all (st : state) (l : list nat) : state :=
  fold_left (fun st s => match step st (LBegin s) with Some st' => st' | None => st end) l st.

Definition do_action (st : state) (a : action) : list state :=
  match a with
  | AActs l => settle (begin_all st l)
  | ALeave s =>
    match nth_error (ss st) s with
    | Some SErr | Some SDropped => [sets st s SGone]   (* holds no connection: only the process ends *)
    | _ => match step st (LLeave s) with Some st' => settle st' | None => [st] end
    end
  | ACrashPeer s =>
    match nth_error (ss st) s with
    | Some (SConn d) => match step st (LCrash d) with Some st' => settle st' | None => [st] end
    | _ => [st] end
  end.

(* does some patient run of the model produce exactly this abstract trace? *)
Fixpoint model_accepts (sts : list state) (tr : list (action * asnap)) : bool :=
  match tr with
  | [] => match sts with [] => false | _ => true end
  | (a, o) :: r =>
    let nxt := filter (fun st => asnap_eqb (abs_model st) o) (flat_map (fun st => do_action st a) sts) in
    match nxt with [] => false | _ => model_accepts nxt r end
  end.

Record case := mkCase {
  c_n : nat;                        (* number of shells *)
  c_stale : bool;                   (* a stale socket file is present at the start *)
  c_old : bool;                     (* a daemon of an older API version is serving at the start *)
  c_corr : bool;                    (* compare with the model (false: oracle only) *)
  c_s0 : snap;
  c_trace : list (action * snap) }.

Definition model_init (c : case) : state :=
  if c_old c then init_old (c_n c) else init (c_n c) (c_stale c).

Definition corr_ok (c : case) : bool :=
  if c_corr c then
    let olds := if c_old c then map fst (sn_daemons (c_s0 c)) else [] in
    asnap_eqb (abs_model (model_init c)) (abs_impl olds (c_s0 c))
    && model_accepts [model_init c] (map (fun p => (fst p, abs_impl olds (snd p))) (c_trace c))
  else true.

Definition judge1 (c : case) : N :=
  code (check_C27 (c_s0 c) (c_trace c)) (corr_ok c).

Definition judge := judge_with judge1.
