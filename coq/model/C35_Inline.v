(* C35/C36 shared kernels of pkg/md/inline.go, md.go and html.go (executable
   Gallina, no proofs): byte classes, character references, unescapeHTML,
   escapeHTML, code-span scanning, parseLinkTail, delimiter flanking and the
   delimiter-stack algorithm processEmphasis. *)
From verif Require Import lib.Base lib.Utf8 model.C35_Bal.
Open Scope N_scope.

(* ---------------- byte classes ---------------- *)
Definition is_digit (b : N) : bool := (48 <=? b) && (b <=? 57).
Definition is_upper (b : N) : bool := (65 <=? b) && (b <=? 90).
Definition is_lower (b : N) : bool := (97 <=? b) && (b <=? 122).
Definition is_letter (b : N) : bool := is_upper b || is_lower b.
Definition is_alnum (b : N) : bool := is_letter b || is_digit b.
Definition is_hex (b : N) : bool :=
  is_digit b || ((65 <=? b) && (b <=? 70)) || ((97 <=? b) && (b <=? 102)).
(* asciiPuncts: the four ASCII punctuation ranges *)
Definition is_ascii_punct (b : N) : bool :=
  ((33 <=? b) && (b <=? 47)) || ((58 <=? b) && (b <=? 64)) ||
  ((91 <=? b) && (b <=? 96)) || ((123 <=? b) && (b <=? 126)).
Definition is_ascii_control (b : N) : bool := b <? 32.
Definition is_ws (b : N) : bool := (b =? 32) || (b =? 9) || (b =? 10).
(* metas = "![]*_`\\&<\n" *)
Definition is_meta (b : N) : bool :=
  (b =? 33) || (b =? 91) || (b =? 93) || (b =? 42) || (b =? 95) || (b =? 96) ||
  (b =? 92) || (b =? 38) || (b =? 60) || (b =? 10).

Fixpoint span (p : N -> bool) (s : bytes) : nat :=
  match s with
  | c :: r => if p c then S (span p r) else 0%nat
  | [] => 0%nat
  end.

Definition nth_is (k : nat) (s : bytes) (b : N) : bool :=
  match nth_error s k with Some c => c =? b | None => false end.

(* ---------------- leadingCharRef ----------------
   ^&(?:[a-zA-Z0-9]+|#[0-9]{1,7}|#[xX][0-9a-fA-F]{1,6});
   length of the match, 0 if none.  The three alternatives are mutually
   exclusive on the byte after the ampersand, and each run must be maximal because
   the terminating semicolon is outside every class. *)
Definition char_ref_len (s : bytes) : nat :=
  match s with
  | a :: r =>
    if negb (a =? 38) then 0%nat else
    match r with
    | h :: c :: r3 =>
      if h =? 35 then
        if (c =? 120) || (c =? 88) then
          let k := span is_hex r3 in
          if Nat.leb 1 k && Nat.leb k 6 && nth_is k r3 59 then (k + 4)%nat else 0%nat
        else
          let k := span is_digit (c :: r3) in
          if Nat.leb 1 k && Nat.leb k 7 && nth_is k (c :: r3) 59 then (k + 3)%nat else 0%nat
      else
        let k := span is_alnum r in
        if Nat.leb 1 k && nth_is k r 59 then (k + 2)%nat else 0%nat
    | _ =>
      let k := span is_alnum r in
      if Nat.leb 1 k && nth_is k r 59 then (k + 2)%nat else 0%nat
    end
  | [] => 0%nat
  end.

(* ---------------- unescapeHTML on one matched reference ---------------- *)
Fixpoint dec_val (acc : N) (s : bytes) : N :=
  match s with c :: r => dec_val (acc * 10 + (c - 48)) r | [] => acc end.
Definition hex_digit (c : N) : N :=
  if is_digit c then c - 48 else if c <? 97 then c - 55 else c - 87.
Fixpoint hex_val (acc : N) (s : bytes) : N :=
  match s with c :: r => hex_val (acc * 16 + hex_digit c) r | [] => acc end.

(* the entities map of md.go *)
Definition entity_table : list (bytes * bytes) :=
  [ ([108;116], [60]);                       (* lt *)
    ([103;116], [62]);                       (* gt *)
    ([113;117;111;116], [34]);               (* quot *)
    ([97;112;111;115], [39]);                (* apos *)
    ([97;109;112], [38]);                    (* amp *)
    ([84;97;98], [9]);                       (* Tab *)
    ([78;101;119;76;105;110;101], [10]);     (* NewLine *)
    ([110;98;115;112], [194;160]) ].         (* nbsp *)

Fixpoint assoc_bytes (k : bytes) (t : list (bytes * bytes)) : option bytes :=
  match t with
  | (k', v) :: r => if bytes_eqb k k' then Some v else assoc_bytes k r
  | [] => None
  end.

(* CommonMark: code point 0 is replaced by U+FFFD *)
Definition nul_to_replacement (v : N) : N := if v =? 0 then RuneError else v.

(* [e] is a whole reference, ampersand and semicolon included *)
Definition unescape_entity (e : bytes) : bytes :=
  let body := removelast (tl e) in
  match assoc_bytes body entity_table with
  | Some v => v
  | None =>
    match body with
    | 35 :: c :: r =>
      if (c =? 120) || (c =? 88) then encode_rune (nul_to_replacement (hex_val 0 r))
      else encode_rune (nul_to_replacement (dec_val 0 (c :: r)))
    | _ => e
    end
  end.

(* ---------------- escapeHTML (html.go) ---------------- *)
Definition esc_byte (c : N) : bytes :=
  if c =? 38 then [38;97;109;112;59]              (* &amp; *)
  else if c =? 34 then [38;113;117;111;116;59]    (* &quot; *)
  else if c =? 60 then [38;108;116;59]            (* &lt; *)
  else if c =? 62 then [38;103;116;59]            (* &gt; *)
  else [c].
Definition escape_html (s : bytes) : bytes := flat_map esc_byte s.

(* the inverse used by the safety theorem: decodes exactly the four references
   that escapeHTML produces *)
Fixpoint has_prefix (p s : bytes) : bool :=
  match p, s with
  | [], _ => true
  | a :: p', b :: s' => (a =? b) && has_prefix p' s'
  | _, [] => false
  end.

(* [skip] bytes are still to be dropped (the tail of a decoded reference) *)
Fixpoint unescape4 (skip : nat) (s : bytes) : bytes :=
  match s with
  | [] => []
  | c :: r =>
    match skip with
    | S k => unescape4 k r
    | O =>
      if c =? 38 then
        if has_prefix [97;109;112;59] r then 38 :: unescape4 4 r
        else if has_prefix [113;117;111;116;59] r then 34 :: unescape4 5 r
        else if has_prefix [108;116;59] r then 60 :: unescape4 3 r
        else if has_prefix [103;116;59] r then 62 :: unescape4 3 r
        else c :: unescape4 0 r
      else c :: unescape4 0 r
    end
  end.

(* ---------------- code spans ---------------- *)
Definition BT : N := 96.
Definition is_bt (c : N) : bool := c =? BT.

(* first index j >= i at which k backticks start (strings.Index of the run) *)
Fixpoint index_run (fuel : nat) (s : bytes) (k i : nat) : option nat :=
  match fuel with
  | O => None
  | S f =>
    if Nat.ltb (length s) (i + k) then None
    else if Nat.leb k (span is_bt (skipn i s)) then Some i
    else index_run f s k (S i)
  end.

(* findBacktickRun(s, run, i) with k = len(run); None = -1 *)
Fixpoint find_backtick_run (fuel : nat) (s : bytes) (k i : nat) : option nat :=
  match fuel with
  | O => None
  | S f =>
    if Nat.leb (length s) i then None else
    match index_run (S (length s)) s k i with
    | None => None
    | Some j =>
      let c := span is_bt (skipn j s) in
      if Nat.eqb c k then Some j else find_backtick_run f s k (j + c)
    end
  end.
Definition findBacktickRun (s : bytes) (k i : nat) : option nat :=
  find_backtick_run (S (length s)) s k i.

Definition all_space (s : bytes) : bool := forallb (fun c => c =? 32) s.

(* normalizeCodeSpanContent *)
Definition normalize_code_span (s : bytes) : bytes :=
  let s := map (fun c => if c =? 10 then 32 else c) s in
  match s, rev s with
  | 32 :: _ :: _, 32 :: _ => if all_space s then s else removelast (tl s)
  | _, _ => s
  end.

(* ---------------- parseLinkTail ---------------- *)
Fixpoint skip_ws (s : bytes) : bytes :=
  match s with c :: r => if is_ws c then skip_ws r else s | [] => [] end.

(* at a backslash; [r] is the text after it: (byte written, rest) *)
Definition parse_backslash (r : bytes) : N * bytes :=
  match r with
  | c :: r' => if is_ascii_punct c then (c, r') else (92, r)
  | [] => (92, [])
  end.

(* at an ampersand; [s] starts with it: (bytes written, rest) *)
Definition parse_charref (s : bytes) : bytes * bytes :=
  let k := char_ref_len s in
  if Nat.eqb k 0 then ([38], tl s) else (unescape_entity (firstn k s), skipn k s).

(* <...> destination, after the opening angle bracket *)
Fixpoint angle_dest (fuel : nat) (s acc : bytes) : option (bytes * bytes) :=
  match fuel with
  | O => None
  | S f =>
    match s with
    | [] => None
    | c :: r =>
      if c =? 62 then Some (rev acc, r)
      else if (c =? 10) || (c =? 60) then None
      else if c =? 92 then let '(b, r') := parse_backslash r in angle_dest f r' (b :: acc)
      else if c =? 38 then let '(bs, r') := parse_charref s in angle_dest f r' (rev bs ++ acc)
      else angle_dest f r (c :: acc)
    end
  end.

(* bare destination: (dest, rest, final paren balance) *)
Fixpoint bare_dest (fuel : nat) (s acc : bytes) (bal : nat) : option (bytes * bytes * nat) :=
  match fuel with
  | O => None
  | S f =>
    match s with
    | [] => Some (rev acc, [], bal)
    | c :: r =>
      if is_ascii_control c || (c =? 32) then Some (rev acc, s, bal)
      else if c =? 40 then bare_dest f r (40 :: acc) (S bal)
      else if c =? 41 then
        match bal with
        | O => Some (rev acc, s, bal)
        | S b' => bare_dest f r (41 :: acc) b'
        end
      else if c =? 92 then let '(b, r') := parse_backslash r in bare_dest f r' (b :: acc) bal
      else if c =? 38 then let '(bs, r') := parse_charref s in bare_dest f r' (rev bs ++ acc) bal
      else bare_dest f r (c :: acc) bal
    end
  end.

(* title body after the opener; None = the title rejects the whole tail or the
   input ended before the closer *)
Fixpoint title_body (fuel : nat) (opener closer : N) (s acc : bytes) : option (bytes * bytes) :=
  match fuel with
  | O => None
  | S f =>
    match s with
    | [] => None
    | c :: r =>
      if c =? closer then Some (rev acc, r)
      else if c =? opener then None
      else if c =? 92 then let '(b, r') := parse_backslash r in title_body f opener closer r' (b :: acc)
      else if c =? 38 then let '(bs, r') := parse_charref s in title_body f opener closer r' (rev bs ++ acc)
      else title_body f opener closer r (c :: acc)
    end
  end.

Inductive tail_result :=
| TailNone                               (* n = -1 *)
| TailOk (n : nat) (dest title : bytes)
| TailFuel.                              (* never: excluded by the theorems *)

(* what follows the destination: optional title, then the closing parenthesis;
   [total] is the length of the whole tail text *)
Definition tail_after_dest (fuel total : nat) (dest rest : bytes) : tail_result :=
  let s2 := skip_ws rest in
  let title_res :=
    match s2 with
    | q :: r2 =>
      if (q =? 39) || (q =? 34) || (q =? 40) then
        title_body fuel q (if q =? 40 then 41 else q) r2 []
      else Some ([], s2)
    | [] => Some ([], s2)
    end in
  match title_res with
  | None => TailNone
  | Some (title, rest2) =>
    match skip_ws rest2 with
    | c3 :: rest3 => if c3 =? 41 then TailOk (total - length rest3) dest title else TailNone
    | [] => TailNone
    end
  end.

Definition parse_link_tail (text : bytes) : tail_result :=
  let fuel := S (length text) in
  match text with
  | c0 :: rest0 =>
    if negb (c0 =? 40) then TailNone else
    match rest0 with [] => TailNone | _ =>
    let s1 := skip_ws rest0 in
    match s1 with
    | [] => TailNone
    | c :: r =>
      if c =? 60 then
        match angle_dest fuel r [] with
        | Some (d, rest) => tail_after_dest fuel (length text) d rest
        | None => TailNone
        end
      else
        match bare_dest fuel s1 [] 0 with
        | Some (d, rest, O) => tail_after_dest fuel (length text) d rest
        | Some (_, _, S _) => TailNone
        | None => TailFuel
        end
    end end
  | [] => TailNone
  end.

(* ---------------- delimiter flanking (canOpenCloseEmphasis) ----------------
   The Unicode predicates are inputs: sp/pp = unicode.IsSpace / isUnicodePunct of
   the previous rune, sn/pn of the next rune. *)
Definition can_open_close (underscore sp pp sn pn : bool) : bool * bool :=
  let lf := negb sn && (negb pn || sp || pp) in
  let rf := negb sp && (negb pp || sn || pn) in
  if underscore then (lf && (negb rf || pp), rf && (negb lf || pn))
  else (lf, rf).

(* the table of the documentation comment, as an independent statement:
   category 0 = space, 1 = punctuation, 2 = other *)
Definition cat (s p : bool) : nat := if s then 0%nat else if p then 1%nat else 2%nat.
Definition table_open (underscore : bool) (prev next : nat) : bool :=
  match prev, next with
  | _, O => false
  | (0 | 1)%nat, _ => true
  | _, 1%nat => false
  | _, _ => negb underscore
  end.
Definition table_close (underscore : bool) (prev next : nat) : bool :=
  match prev, next with
  | O, _ => false
  | 1%nat, (0 | 1)%nat => true
  | 1%nat, _ => false
  | _, (0 | 1)%nat => true
  | _, _ => negb underscore
  end.

(* ---------------- processEmphasis ---------------- *)
Inductive item :=
| IText (id len : nat)                    (* a buffer piece printed as text *)
| INode (strong : bool) (kids : list item).

Record delim := mkDelim {
  d_id : nat;        (* bufIdx *)
  d_typ : N;         (* the byte: star, underscore, bracket, bang *)
  d_n : nat;         (* original run length (never updated by the Go code) *)
  d_rem : nat;       (* remaining text of the piece *)
  d_open : bool; d_close : bool }.

Inductive entry := EDelim (d : delim) | EItem (i : item).

Definition US : N := 95.

(* openersBottom[typ == underscore][n % 3][canOpen] *)
Definition bucket (c : delim) : nat :=
  ((if N.eqb (d_typ c) US then 6 else 0) + 2 * (d_n c mod 3) + (if d_open c then 1 else 0))%nat.

(* the map bucket -> delimiter id; absent or None = the bottom sentinel *)
Definition ob_map2 := list (nat * option nat).
Fixpoint ob_lookup (m : ob_map2) (b : nat) : option nat :=
  match m with
  | (b', v) :: r => if Nat.eqb b b' then v else ob_lookup r b
  | [] => None
  end.

Definition suitable (p c : delim) : bool :=
  d_open p && (d_typ p =? d_typ c) &&
  ((negb (d_close p) && negb (d_open c))
   || negb (Nat.eqb ((d_n p + d_n c) mod 3) 0)
   || (Nat.eqb (d_n p mod 3) 0 && Nat.eqb (d_n c mod 3) 0)).

(* scan from the closer towards the bottom: (entries passed, nearest first;
   the opener; what lies below it) *)
Fixpoint find_opener (left : list entry) (stop : option nat) (c : delim)
  : option (list entry * delim * list entry) :=
  match left with
  | [] => None
  | EItem i :: l =>
    match find_opener l stop c with
    | Some (btw, o, rest) => Some (EItem i :: btw, o, rest)
    | None => None
    end
  | EDelim p :: l =>
    if match stop with Some id => Nat.eqb id (d_id p) | None => false end then None
    else if suitable p c then Some ([], p, l)
    else match find_opener l stop c with
         | Some (btw, o, rest) => Some (EDelim p :: btw, o, rest)
         | None => None
         end
  end.

(* closer.prev: the nearest delimiter below, None = the bottom sentinel *)
Fixpoint nearest_delim (left : list entry) : option nat :=
  match left with
  | EDelim p :: _ => Some (d_id p)
  | EItem _ :: l => nearest_delim l
  | [] => None
  end.

Definition demote (e : entry) : item :=
  match e with EItem i => i | EDelim d => IText (d_id d) (d_rem d) end.

Definition use (d : delim) (k : nat) : delim :=
  mkDelim (d_id d) (d_typ d) (d_n d) (d_rem d - k) (d_open d) (d_close d).

Fixpoint pe (fuel : nat) (left right : list entry) (ob : ob_map2) : option (list entry) :=
  match fuel with
  | O => None
  | S f =>
    match right with
    | [] => Some left
    | EItem i :: r => pe f (EItem i :: left) r ob
    | EDelim c :: r =>
      if negb (d_close c) then pe f (EDelim c :: left) r ob
      else
        let b := bucket c in
        match find_opener left (ob_lookup ob b) c with
        | None =>
          let ob' := (b, nearest_delim left) :: ob in
          if d_open c then pe f (EDelim c :: left) r ob'
          else pe f (EItem (demote (EDelim c)) :: left) r ob'
        | Some (btw, o, rest) =>
          let strong := Nat.leb 2 (d_rem o) && Nat.leb 2 (d_rem c) in
          let k := if strong then 2%nat else 1%nat in
          let o' := use o k in
          let c' := use c k in
          let node := INode strong (map demote (rev btw)) in
          let left' := EItem node :: (if Nat.eqb (d_rem o') 0 then rest else EDelim o' :: rest) in
          if Nat.eqb (d_rem c') 0 then pe f left' r ob else pe f left' (EDelim c' :: r) ob
        end
    end
  end.

(* the specification the opener lower bounds only optimise: the same loop, but
   every search for an opener scans the whole stack *)
Fixpoint pe_naive (fuel : nat) (left right : list entry) : option (list entry) :=
  match fuel with
  | O => None
  | S f =>
    match right with
    | [] => Some left
    | EItem i :: r => pe_naive f (EItem i :: left) r
    | EDelim c :: r =>
      if negb (d_close c) then pe_naive f (EDelim c :: left) r
      else
        match find_opener left None c with
        | None =>
          if d_open c then pe_naive f (EDelim c :: left) r
          else pe_naive f (EItem (demote (EDelim c)) :: left) r
        | Some (btw, o, rest) =>
          let strong := Nat.leb 2 (d_rem o) && Nat.leb 2 (d_rem c) in
          let k := if strong then 2%nat else 1%nat in
          let o' := use o k in
          let c' := use c k in
          let node := INode strong (map demote (rev btw)) in
          let left' := EItem node :: (if Nat.eqb (d_rem o') 0 then rest else EDelim o' :: rest) in
          if Nat.eqb (d_rem c') 0 then pe_naive f left' r else pe_naive f left' (EDelim c' :: r)
        end
    end
  end.

(* decreasing measure of the loop: remaining delimiter text plus what is still
   to be scanned *)
Fixpoint rem_sum (l : list entry) : nat :=
  match l with
  | EDelim d :: r => (d_rem d + rem_sum r)%nat
  | EItem _ :: r => rem_sum r
  | [] => 0%nat
  end.
Definition pe_measure (left right : list entry) : nat :=
  (rem_sum left + rem_sum right + length right)%nat.

Definition process_emphasis (ents : list entry) : option (list entry) :=
  match pe (S (pe_measure [] ents)) [] ents [] with
  | Some l => Some (rev l)
  | None => None
  end.

(* output tokens: text pieces with their length, emphasis start/end *)
Inductive otok := OText (id len : nat) | OStart (strong : bool) | OEnd (strong : bool).

Fixpoint flat_item (i : item) : list otok :=
  match i with
  | IText id len => if Nat.eqb len 0 then [] else [OText id len]
  | INode s kids =>
    OStart s :: (fix fl (l : list item) : list otok :=
                   match l with [] => [] | k :: t => flat_item k ++ fl t end) kids ++ [OEnd s]
  end.
Definition flat_entry (e : entry) : list otok := flat_item (demote e).
Definition flatten (l : list entry) : list otok := flat_map flat_entry l.

Definition otok_tok (t : otok) : tok bool :=
  match t with OText _ _ => TL | OStart s => TO s | OEnd s => TC s end.

Definition otok_eqb (a b : otok) : bool :=
  match a, b with
  | OText i l, OText i' l' => Nat.eqb i i' && Nat.eqb l l'
  | OStart s, OStart s' => Bool.eqb s s'
  | OEnd s, OEnd s' => Bool.eqb s s'
  | _, _ => false
  end.

(* total delimiter characters: text lengths plus 1 per emphasis tag side, 2 per
   strong tag side *)
Fixpoint weight (ts : list otok) : nat :=
  match ts with
  | OText _ l :: r => (l + weight r)%nat
  | OStart s :: r | OEnd s :: r => ((if s then 2 else 1) + weight r)%nat
  | [] => 0%nat
  end.
