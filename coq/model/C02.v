(* C02 — Errors in prefixes of valid programs are partial, so the REPL keeps
   reading.  Oracle on the observations of parse.Parse and of the editor's
   isSyntaxComplete for every rune-boundary prefix; case record; judge. *)
From verif Require Import lib.Base lib.Utf8 model.C01_Parse.
Open Scope nat_scope.

(* what was observed for the prefix src[:p_len] *)
Record pobs := mkP {
  p_len : nat;
  p_errs : list perr;      (* parse.UnpackErrors of parse.Parse(prefix) *)
  p_complete : bool        (* edit.isSyntaxComplete(prefix): true = Enter submits *)
}.
(* as written by the runner: positions as N *)
Definition mkPN (len : N) (es : list eperr) (complete : bool) : pobs :=
  mkP (N.to_nat len) (map decode_err es) complete.

(* every error marked partial starts at the very end of the input *)
Definition partial_at_end (len : nat) (es : list perr) : bool :=
  forallb (fun e => negb (e_partial e) || Nat.eqb (e_from e) len) es.

(* for a prefix of a valid program: only partial errors, and if there is an
   error Enter inserts a newline (isSyntaxComplete = false) *)
Definition prefix_ok (o : pobs) : bool :=
  forallb e_partial (p_errs o)
  && match p_errs o with [] => true | _ => negb (p_complete o) end.

Definition check_C02 (src : bytes) (full : list perr) (pre : list pobs) : bool :=
  partial_at_end (length src) full
  && forallb (fun o => partial_at_end (p_len o) (p_errs o)) pre
  && match full with
     | [] => forallb prefix_ok pre       (* a valid program *)
     | _ => true
     end.

Record case := mkCase {
  c_src : bytes;
  c_efull : list eperr;   (* errors of the whole text (encoded, positions as N) *)
  c_pre : list pobs;      (* one per proper rune-boundary prefix *)
  c_print : list N;       (* runes >= 0x80 of the input accepted by unicode.IsPrint *)
  c_cmp : bool            (* compare with the model *)
}.

Definition c_full (c : case) : list perr := map decode_err (c_efull c).

Definition errs_eqb : list perr -> list perr -> bool := list_eqb perr_eqb.

(* model: errors of a text, and isSyntaxComplete computed from them *)
Definition model_errs (pr : list N) (s : bytes) : option (list perr) :=
  match parse_model (print_table pr) s with
  | Some (_, es) => Some es
  | None => None
  end.

Definition corr_prefix (pr : list N) (src : bytes) (o : pobs) : bool :=
  let s := firstn (p_len o) src in
  match model_errs pr s with
  | Some es => errs_eqb es (p_errs o) && Bool.eqb (isSyntaxComplete s es) (p_complete o)
  | None => false
  end.

Definition judge1 (c : case) : N :=
  code (check_C02 (c_src c) (c_full c) (c_pre c))
       (negb (c_cmp c)
        || (match model_errs (c_print c) (c_src c) with
            | Some es => errs_eqb es (c_full c)
            | None => false
            end
            && forallb (corr_prefix (c_print c) (c_src c)) (c_pre c))).

Definition judge := judge_with judge1.
