(* C15 — core language programs evaluate as the language reference specifies.
   The model is the reference interpreter (model/C15_Interp.v); the property
   "Elvish agrees with the reference" is decided per case: the program is run
   by the reference interpreter inside Coq and compared with what
   eval.Evaler.Eval showed (value outputs, exception cause). *)
From verif Require Import lib.Base model.C15_Syntax model.C15_Values model.C15_Interp.
Open Scope N_scope.

Record case := mkCase {
  c_prog : chunk;              (* the program, as the AST that was printed to Elvish source *)
  c_out : list value;          (* observed value outputs, in order *)
  c_exc : value                (* observed exception as VExc kind payload, or VOk *)
}.

(* the oracle: outputs and exception cause agree with the reference result [r] *)
Definition check_C15 (r : res) (out : list value) (exc : value) : bool :=
  vals_match (outputs r) out && val_match (final_exc r) exc.

Definition judge1 (c : case) : N :=
  let r := run_program default_fuel false (c_prog c) in
  if finished r then code (check_C15 r (c_out c) (c_exc c)) true
  else 0.      (* outside the modelled subset (Unsupported) or out of fuel: not judged *)

Definition judge := judge_with judge1.
