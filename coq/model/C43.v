(* C43 — model of pkg/edit/complete (executable, no proofs):
   raw_item.go (Cook of PlainItem / ComplexItem / noQuoteItem), filterers.go
   (FilterPrefix), complete.go (Complete: filter, sort by text, cook, adjacent
   dedup), generators.go (generateFileNames over a directory listing), the
   dispatch of completers.go on the leaf-to-root node path and the seed /
   style / range extraction of np.SimpleExpr + Evaler.PurelyEvalPartialCompound
   for argument and redirection words.

   Inputs that come from outside the modelled code are inputs of the case,
   observed from the real system: the kinds of the nodes on the path from the
   leaf at the dot to the root and the pieces (type, value, end offset) of the
   compound at the dot (parser), the directory listing (os.ReadDir / Stat),
   the home directory (fsutil.GetHome), unicode.IsPrint on the runes touched.
   Quoting and reading a word back is model/C03.v (imported read-only).

   Command, variable and index completion are dispatched but their candidate
   sets are not modelled (MAbstain): the tie still applies the oracle to them. *)
From verif Require Import lib.Base lib.Utf8 model.C03.
Open Scope N_scope.

(* ------------------------------------------------------------------ *)
(* strings.HasPrefix, Go string comparison, filepath.Split (Unix)       *)

Fixpoint has_prefix (s p : bytes) : bool :=
  match p, s with
  | [], _ => true
  | b :: p', c :: s' => (b =? c) && has_prefix s' p'
  | _ :: _, [] => false
  end.

(* a < b on Go strings: byte-wise lexicographic *)
Fixpoint bytes_ltb (a b : bytes) : bool :=
  match a, b with
  | _, [] => false
  | [], _ :: _ => true
  | x :: a', y :: b' => (x <? y) || ((x =? y) && bytes_ltb a' b')
  end.

Definition cSLASH : N := 47.
Definition cDOT : N := 46.
Definition cSPACE : N := 32.
Definition cHASH : N := 35.

(* filepath.Split on Unix: everything up to and including the last slash, and
   the rest *)
Fixpoint split_path (s : bytes) : bytes * bytes :=
  match s with
  | [] => ([], [])
  | c :: r =>
    let '(d, f) := split_path r in
    if c =? cSLASH then (c :: d, f)
    else match d with [] => ([], c :: f) | _ => (c :: d, f) end
  end.

(* dotfile *)
Definition dotfile (s : bytes) : bool :=
  match s with c :: _ => c =? cDOT | [] => false end.

(* ------------------------------------------------------------------ *)
(* raw_item.go                                                          *)

Inductive rawitem :=
| RPlain (s : bytes)
| RComplex (stem suffix : bytes)     (* Display is not modelled *)
| RNoQuote (s : bytes).

Definition item_str (r : rawitem) : bytes :=
  match r with RPlain s => s | RComplex s _ => s | RNoQuote s => s end.

Definition item_suffix (r : rawitem) : bytes :=
  match r with RComplex _ sfx => sfx | _ => [] end.
(* PlainItem and ComplexItem quote their text, noQuoteItem does not *)
Definition quotes (r : rawitem) : bool :=
  match r with RNoQuote _ => false | _ => true end.

(* modes.CompletionItem: ToInsert and the text of ToShow (= the stem when
   Display is nil or, for file names, ui.T(full)) *)
Record citem := mkItem { to_insert : bytes; to_show : bytes }.

Definition citem_eqb (a b : citem) : bool :=
  bytes_eqb (to_insert a) (to_insert b) && bytes_eqb (to_show a) (to_show b).

Section WithTable.
Variable is_print : N -> bool.

Definition cook (q : ptype) (r : rawitem) : citem :=
  match r with
  | RPlain s => mkItem (fst (QuoteAs is_print s q)) s
  | RComplex stem sfx => mkItem (fst (QuoteAs is_print stem q) ++ sfx) stem
  | RNoQuote s => mkItem s s
  end.

(* filterers.go: FilterPrefix *)
Definition filter_prefix (seed : bytes) (items : list rawitem) : list rawitem :=
  filter (fun r => has_prefix (item_str r) seed) items.

(* complete.go: dedup compares with the previous element of the input *)
Fixpoint dedup_from (prev : option bytes) (l : list citem) : list citem :=
  match l with
  | [] => []
  | x :: r =>
    (if option_eqb bytes_eqb prev (Some (to_insert x)) then [] else [x])
    ++ dedup_from (Some (to_insert x)) r
  end.
Definition dedup (l : list citem) : list citem := dedup_from None l.

(* sort.Slice by String(): any function with the contract (sorted permutation);
   the executable instance is insertion sort *)
Fixpoint insert_item (x : rawitem) (l : list rawitem) : list rawitem :=
  match l with
  | [] => [x]
  | y :: r => if bytes_ltb (item_str x) (item_str y) then x :: l else y :: insert_item x r
  end.
Fixpoint isort_items (l : list rawitem) : list rawitem :=
  match l with [] => [] | x :: r => insert_item x (isort_items r) end.

Section WithSort.
Variable sort_items : list rawitem -> list rawitem.

(* the part of Complete after the completer returned (ctx, rawItems) *)
Definition pipeline (seed : bytes) (q : ptype) (raw : list rawitem) : list citem :=
  dedup (map (cook q) (sort_items (filter_prefix seed raw))).
End WithSort.

(* ------------------------------------------------------------------ *)
(* generators.go: generateFileNames(seed, nil)                           *)

(* one directory entry: name and (is a directory, or a symlink to one) *)
Definition entry := (bytes * bool)%type.

Definition file_item (dir : bytes) (e : entry) : rawitem :=
  RComplex (dir ++ fst e ++ (if snd e then [cSLASH] else []))
           (if snd e then [] else [cSPACE]).

Definition dir_to_read (seed : bytes) : bytes :=
  match fst (split_path seed) with [] => [cDOT] | d => d end.

(* listing = None: os.ReadDir failed (the error is dropped by Complete, which
   then offers no items) *)
Definition gen_file_names (listing : option (list entry)) (seed : bytes) : list rawitem :=
  let '(dir, fp) := split_path seed in
  match listing with
  | None => []
  | Some es =>
    flat_map (fun e : entry => if Bool.eqb (dotfile fp) (dotfile (fst e)) then [file_item dir e] else []) es
  end.

(* ------------------------------------------------------------------ *)
(* np.SimpleExpr / PurelyEvalPartialCompound                             *)

(* one Indexing of the compound at the dot *)
Record piece := mkPiece {
  p_type : option ptype;       (* None: a primary that is not a string, variable or tilde *)
  p_val : option bytes;        (* Primary.Value; for a variable: its string value, if any *)
  p_idx : bool;                (* len(Indices) > 0 *)
  p_to : nat }.                (* Indexing.To *)

Fixpoint pec (ps : list piece) (upto : nat) (tilde : bool) (head : bytes) : option (bool * bytes) :=
  match ps with
  | [] => Some (tilde, head)
  | p :: r =>
    if p_idx p then None
    else if Nat.ltb upto (p_to p) then Some (tilde, head)
    else match p_type p with
    | Some TTilde => pec r upto true head
    | Some _ => match p_val p with Some v => pec r upto tilde (head ++ v) | None => None end
    | None => None
    end
  end.

(* head cut at its first slash (strings.Index) *)
Fixpoint upto_slash (s : bytes) : bytes * bytes :=
  match s with
  | [] => ([], [])
  | c :: r => if c =? cSLASH then ([], s) else let '(a, b) := upto_slash r in (c :: a, b)
  end.

Fixpoint lookup_home (homes : list (bytes * bytes)) (u : bytes) : option bytes :=
  match homes with
  | [] => None
  | (k, v) :: t => if bytes_eqb k u then Some v else lookup_home t u
  end.

Definition partial_compound (homes : list (bytes * bytes)) (ps : list piece) (upto : nat) : option bytes :=
  match pec ps upto false [] with
  | None => None
  | Some (false, head) => Some head
  | Some (true, head) =>
    let '(uname, rest) := upto_slash head in
    match lookup_home homes uname with Some h => Some (h ++ rest) | None => None end
  end.

(* ------------------------------------------------------------------ *)
(* completers.go: which completer answers                                *)

Inductive pkind :=
| PStr (t : ptype)        (* Bareword, SingleQuoted, DoubleQuoted, Variable, Tilde *)
| PCapture                (* OutputCapture, ExceptionCapture, Lambda *)
| POtherPrim.

Inductive nkind :=
| KChunk | KPipeline
| KForm (has_head head_is_compound : bool)   (* head_is_compound: Form.Head is the compound below it on the path *)
| KSep | KPrimary (t : pkind) | KIndexing | KCompound | KArray | KRedir | KOtherNode.

Inductive decision :=
| DCommand | DRedirNew | DRedirPartial | DVariable | DArgNew | DArgPartial | DNone
| DIndexMaybe.    (* index completion applies or not depending on evaluation: not modelled *)

Definition k_at (p : list nkind) (i : nat) (f : nkind -> bool) : bool :=
  match nth_error p i with Some k => f k | None => false end.

Definition isChunk (k : nkind) := match k with KChunk => true | _ => false end.
Definition isPipeline (k : nkind) := match k with KPipeline => true | _ => false end.
Definition isSep (k : nkind) := match k with KSep => true | _ => false end.
Definition isIndexing (k : nkind) := match k with KIndexing => true | _ => false end.
Definition isCompound (k : nkind) := match k with KCompound => true | _ => false end.
Definition isArray (k : nkind) := match k with KArray => true | _ => false end.
Definition isRedir (k : nkind) := match k with KRedir => true | _ => false end.
Definition isPrimary (k : nkind) := match k with KPrimary _ => true | _ => false end.
Definition isCapture (k : nkind) := match k with KPrimary PCapture => true | _ => false end.
Definition isVarPrimary (k : nkind) := match k with KPrimary (PStr TVar) => true | _ => false end.
Definition isFormHeadIsCompound (k : nkind) := match k with KForm _ true => true | _ => false end.
Definition isFormWithHead (k : nkind) := match k with KForm true _ => true | _ => false end.
Definition isFormArg (k : nkind) := match k with KForm true false => true | _ => false end.

Definition is_simple_path (p : list nkind) : bool :=
  k_at p 0 isPrimary && k_at p 1 isIndexing && k_at p 2 isCompound.

(* the completers in their order; Match looks only at a prefix of the path *)
Definition dispatch (p : list nkind) (simple_ok : bool) : decision :=
  let simple := is_simple_path p && simple_ok in
  let sep := k_at p 0 isSep in
  (* completeCommand *)
  if k_at p 0 isChunk then DCommand
  else if sep && (k_at p 1 isChunk || k_at p 1 isPipeline) then DCommand
  else if sep && k_at p 1 isCapture then DCommand
  else if simple && k_at p 3 isFormHeadIsCompound then DCommand
  (* completeIndex *)
  else if sep && (k_at p 1 isIndexing || (k_at p 1 isArray && k_at p 2 isIndexing)) then DIndexMaybe
  else if simple && k_at p 3 isArray && k_at p 4 isIndexing then DIndexMaybe
  (* completeRedir *)
  else if sep && k_at p 1 isRedir then DRedirNew
  else if simple && k_at p 3 isRedir then DRedirPartial
  (* completeVariable *)
  else if k_at p 0 isVarPrimary then DVariable
  (* completeArg *)
  else if sep && k_at p 1 isFormWithHead then DArgNew
  else if simple && k_at p 3 isFormArg then DArgPartial
  else DNone.

(* ------------------------------------------------------------------ *)
(* Complete for argument / redirection words                             *)

(* where the candidates come from *)
Inductive candsrc :=
| GFiles (dir : bytes) (listing : option (list entry))  (* the directory the harness listed, and what it holds *)
| GFixed (items : list rawitem)                          (* a fixed Config.ArgGenerator *)
| GVars (names : list bytes)     (* variable completion: the names in scope (global, builtin, defined in the code) *)
| GNotModelled.

(* the tree at the dot, as observed *)
Record treeobs := mkTree {
  t_path : list nkind;            (* leaf first *)
  t_leaf_to : nat;                (* Range().To of the leaf (for Sep: the insertion point) *)
  t_pieces : list piece;          (* the compound of a simple path, else [] *)
  t_upto : nat;                   (* To of the Indexing on the path *)
  t_leaf_type : ptype;            (* type of the leaf primary *)
  t_cfrom : nat; t_cto : nat;     (* Range() of the compound *)
  t_head : option bytes;          (* PurelyEvalCompound(form.Head) when it is a simple compound *)
  t_leaf_from : nat;              (* Range().From of the leaf *)
  t_leaf_val : bytes }.           (* Primary.Value of the leaf when it is a primary *)

Inductive rname := NArgument | NRedir | NCommand | NVariable | NIndex.
Definition rname_eqb (a b : rname) : bool :=
  match a, b with
  | NArgument, NArgument | NRedir, NRedir | NCommand, NCommand
  | NVariable, NVariable | NIndex, NIndex => true
  | _, _ => false
  end.

Record result := mkRes { r_name : rname; r_from : nat; r_to : nat; r_items : list citem }.

Inductive mres :=
| MRes (r : result) (seed : bytes) (q : ptype)
| MNone               (* errNoCompletion *)
| MAbstain (name : option rname).   (* which completer answers is known (or not), its candidates are not modelled *)

Definition special_head (h : option bytes) : bool :=
  match h with
  | Some s => bytes_eqb s [115;101;116] || bytes_eqb s [116;109;112] || bytes_eqb s [100;101;108]  (* set tmp del *)
  | None => false
  end.

(* eval.SplitSigil and eval.SplitIncompleteQNameNs *)
Definition cCOLON : N := 58.
Definition split_sigil (s : bytes) : bytes * bytes :=
  match s with
  | c :: r => if c =? cAT then ([c], r) else ([], s)
  | [] => ([], [])
  end.
Fixpoint split_ns (s : bytes) : bytes * bytes :=
  match s with
  | [] => ([], [])
  | c :: r =>
    let '(d, f) := split_ns r in
    if c =? cCOLON then (c :: d, f)
    else match d with [] => ([], c :: f) | _ => (c :: d, f) end
  end.

(* completeVariable: every name in scope, quoted as a variable name and then
   inserted verbatim (noQuoteItem); e: and E: when no namespace was typed *)
Definition var_items (ns : bytes) (names : list bytes) : list rawitem :=
  map (fun n => RNoQuote (QuoteVariableName is_print n)) names
  ++ match ns with [] => [RNoQuote [101; 58]; RNoQuote [69; 58]] | _ => [] end.

Definition candidates (src : candsrc) (is_redir : bool) (seed : bytes) : option (list rawitem) :=
  match src with
  | GFiles dir l => if bytes_eqb dir (dir_to_read seed) then Some (gen_file_names l seed) else None
  | GFixed items => if is_redir then None else Some items
  | GVars _ => None
  | GNotModelled => None
  end.

Definition complete_model (homes : list (bytes * bytes)) (t : treeobs) (src : candsrc) : mres :=
  let seedv := partial_compound homes (t_pieces t) (t_upto t) in
  let simple_ok := match seedv with Some _ => true | None => false end in
  let run (name : rname) (is_redir : bool) (seed : bytes) (q : ptype) (from to : nat) :=
    if negb is_redir && special_head (t_head t) then MAbstain (Some name) else
    match candidates src is_redir seed with
    | Some raw => MRes (mkRes name from to (pipeline isort_items seed q raw)) seed q
    | None => MAbstain (Some name)
    end in
  match dispatch (t_path t) simple_ok with
  | DCommand => MAbstain (Some NCommand)
  | DVariable =>
    match src with
    | GVars names =>
      let '(sigil, qname) := split_sigil (t_leaf_val t) in
      let '(ns, nseed) := split_ns qname in
      (* the names of the global scope are modelled; other namespaces are left to the tie *)
      if bytes_eqb ns [] || bytes_eqb ns [cCOLON] then
        MRes (mkRes NVariable (t_leaf_from t + 1 + length sigil + length ns) (t_leaf_to t)
                    (pipeline isort_items nseed TBare (var_items ns names))) nseed TBare
      else MAbstain (Some NVariable)
    | _ => MAbstain (Some NVariable)
    end
  | DIndexMaybe => MAbstain None
  | DNone => MNone
  | DRedirNew => run NRedir true [] TBare (t_leaf_to t) (t_leaf_to t)
  | DArgNew => run NArgument false [] TBare (t_leaf_to t) (t_leaf_to t)
  | DRedirPartial =>
    match seedv with Some s => run NRedir true s (t_leaf_type t) (t_cfrom t) (t_cto t) | None => MNone end
  | DArgPartial =>
    match seedv with Some s => run NArgument false s (t_leaf_type t) (t_cfrom t) (t_cto t) | None => MNone end
  end.

(* ------------------------------------------------------------------ *)
(* substituting an item, and reading the completed word                  *)

Definition subst (buf : bytes) (from to : nat) (ins : bytes) : bytes :=
  firstn from buf ++ ins ++ skipn to buf.

(* what the parser + evaluator make of the word that starts at [from] in the
   new buffer, in argument position (NormalExpr): its pieces, its length and
   its value; None = outside C03's reader model *)
Inductive wobs :=
| WWord (pieces : list (ptype * bytes)) (len : nat)
| WParseErr
| WNoWord.       (* no compound starts there / not a literal word *)

Definition read_word (newbuf : bytes) (from : nat) : option wobs :=
  let text := skipn from newbuf in
  match read_compound is_print CNormal text with
  | COk [] _ => Some WNoWord
  | COk ws rest => Some (WWord ws (length text - length rest))
  | CErr => Some WParseErr
  | COther | CFuel => None
  end.

(* ------------------------------------------------------------------ *)
(* The property as a decidable predicate on observables (the oracle)     *)

(* what the harness typed at the dot: style of the piece under the cursor and
   the value of the word up to there (new word: TBare, empty) *)
Record typed := mkTyped { ty_style : ptype; ty_value : bytes }.

(* per offered item: the word found at [from] of the new buffer by the real
   parser and what a real Evaler made of it *)
Record iobs := mkIObs {
  io_word : wobs;
  io_eval : eobs }.        (* C03.eobs: EStr v | EParseErr | EOtherObs *)

Definition all_printable (s : bytes) : bool :=
  forallb (fun c => negb (fst c =? RuneError) && is_print (fst c)) (chunks s).

Definition bare_safe (s : bytes) : bool :=
  match s with
  | [] => false
  | b0 :: _ => negb (b0 =? cTILDE) && all_printable s
               && forallb (fun c => allowed_in_bareword is_print (fst c) CStrict) (chunks s)
  end.

(* can the string be written in the style the user started? *)
Definition representable (q : ptype) (s : bytes) : bool :=
  match q with
  | TDouble => true
  | TSingle => all_printable s
  | TBare => bare_safe s
  | _ => false
  end.

Definition word_type (w : wobs) : option ptype :=
  match w with WWord [(ty, _)] _ => Some ty | _ => None end.

Definition style_ok (q : ptype) (s : bytes) (w : wobs) : bool :=
  if representable q s then option_eqb ptype_eqb (word_type w) (Some q) else true.

Fixpoint mem_bytes (x : bytes) (l : list bytes) : bool :=
  match l with [] => false | y :: r => bytes_eqb x y || mem_bytes x r end.
Definition subset_bytes (a b : list bytes) : bool := forallb (fun x => mem_bytes x b) a.
Fixpoint nodup_bytes (l : list bytes) : bool :=
  match l with [] => true | x :: r => negb (mem_bytes x r) && nodup_bytes r end.

(* the directory entries that must be offered for the typed value *)
Definition expected_files (es : list entry) (typed_value : bytes) : list bytes :=
  let '(dir, fp) := split_path typed_value in
  flat_map (fun e : entry =>
              if has_prefix (fst e) fp && Bool.eqb (dotfile fp) (dotfile (fst e))
              then [dir ++ fst e ++ (if snd e then [cSLASH] else [])] else []) es.

(* the fixed candidates that must be offered *)
Definition expected_fixed (items : list rawitem) (typed_value : bytes) : list bytes :=
  map item_str (filter_prefix typed_value items).

(* is offset i of s on a rune boundary (not inside a multi-byte sequence)?
   the buffer is valid UTF-8 in all generated cases *)
Definition on_boundary (s : bytes) (i : nat) : bool :=
  match skipn i s with [] => true | b :: _ => rune_start b end.

Definition range_ok (buf : bytes) (from to : nat) : bool :=
  Nat.leb from to && Nat.leb to (length buf) && on_boundary buf from && on_boundary buf to.

(* every item: the completed word evaluates to the candidate (its shown text),
   written in the started style when that style can represent it *)
Fixpoint items_ok (q : ptype) (items : list citem) (obs : list iobs) : bool :=
  match items, obs with
  | [], [] => true
  | it :: items', o :: obs' =>
    eobs_eqb (io_eval o) (EStr (to_show it)) && style_ok q (to_show it) (io_word o)
    && items_ok q items' obs'
  | _, _ => false
  end.

Definition offered_ok (src : candsrc) (ty : typed) (items : list citem) : bool :=
  let shows := map to_show items in
  match src with
  | GFiles _ (Some es) =>
    let ex := expected_files es (ty_value ty) in
    subset_bytes shows ex && subset_bytes ex shows && nodup_bytes (map to_insert items)
  | GFiles _ None => match items with [] => true | _ => false end
  | GFixed its =>
    let ex := expected_fixed its (ty_value ty) in
    subset_bytes shows ex && subset_bytes ex shows
  | GVars _ => true
  | GNotModelled => true
  end.

(* variable completion: the completed text after the dollar sign is a variable
   reference; obs = EStr name for a variable the harness defined (identified by
   its value), EOtherObs only on failure *)
Fixpoint var_items_ok (seed : bytes) (obs : list iobs) : bool :=
  match obs with
  | [] => true
  | o :: r =>
    match io_eval o with
    | EStr name => has_prefix name seed
    | _ => false
    end && var_items_ok seed r
  end.

Definition check_C43 (buf : bytes) (name : rname) (src : candsrc) (ty : typed)
    (res : result) (obs : list iobs) : bool :=
  range_ok buf (r_from res) (r_to res)
  && match name with
     | NVariable => Nat.eqb (length obs) (length (r_items res)) && var_items_ok (ty_value ty) obs
     | NArgument | NRedir => items_ok (ty_style ty) (r_items res) obs && offered_ok src ty (r_items res)
     | NCommand | NIndex => items_ok (ty_style ty) (r_items res) obs
     end.

(* ------------------------------------------------------------------ *)
(* the model's prediction of the per-item observation                    *)

Definition wobs_eqb (a b : wobs) : bool :=
  match a, b with
  | WWord ws n, WWord ws' n' => list_eqb word_eqb ws ws' && Nat.eqb n n'
  | WParseErr, WParseErr | WNoWord, WNoWord => true
  | _, _ => false
  end.

Definition predicted_obs (buf : bytes) (from to : nat) (it : citem) : option iobs :=
  match read_word (subst buf from to (to_insert it)) from with
  | Some w =>
    Some (mkIObs w (match w with
                    | WWord ws _ => match eval_compound ws with Some v => EStr v | None => EOtherObs end
                    | WParseErr => EParseErr
                    | WNoWord => EOtherObs
                    end))
  | None => None
  end.

Definition iobs_matches (m : option iobs) (o : iobs) : bool :=
  match m with
  | None => true
  | Some p => wobs_eqb (io_word p) (io_word o)
              && match io_word p with
                 | WWord ws _ => match eval_compound ws with
                                 | Some _ => eobs_eqb (io_eval p) (io_eval o)
                                 | None => true      (* evaluation outside the model *)
                                 end
                 | _ => eobs_eqb (io_eval p) (io_eval o)
                 end
  end.

Fixpoint all_obs_match (buf : bytes) (from to : nat) (items : list citem) (obs : list iobs) : bool :=
  match items, obs with
  | [], [] => true
  | it :: items', o :: obs' =>
    iobs_matches (predicted_obs buf from to it) o && all_obs_match buf from to items' obs'
  | _, _ => false
  end.

End WithTable.

(* ------------------------------------------------------------------ *)
(* correspondence case and judge                                         *)

Record case := mkCase {
  c_tbl : list (N * bool);               (* unicode.IsPrint on the non-ASCII runes touched *)
  c_buf : bytes; c_dot : nat;
  c_tree : treeobs;
  c_homes : list (bytes * bytes);        (* fsutil.GetHome results *)
  c_src : candsrc;
  c_typed : typed;
  c_res : option result;                 (* None: Complete returned errNoCompletion *)
  c_obs : list iobs }.

Definition result_eqb (a b : result) : bool :=
  rname_eqb (r_name a) (r_name b) && Nat.eqb (r_from a) (r_from b) && Nat.eqb (r_to a) (r_to b)
  && list_eqb citem_eqb (r_items a) (r_items b).

Definition judge1 (c : case) : N :=
  let pr := mk_is_print (c_tbl c) in
  let m := complete_model pr (c_homes c) (c_tree c) (c_src c) in
  let oracle_ok :=
    match c_res c with
    | None => true                       (* nothing offered: the property says nothing *)
    | Some r => check_C43 pr (c_buf c) (r_name r) (c_src c) (c_typed c) r (c_obs c)
    end in
  let corr_ok :=
    match m, c_res c with
    | MNone, None => true
    | MNone, Some _ => false
    | MAbstain (Some n), Some r => rname_eqb n (r_name r)
    | MAbstain (Some _), None => false
    | MAbstain None, _ => true
    | MRes mr seed q, Some r =>
      result_eqb mr r
      && bytes_eqb seed (ty_value (c_typed c)) && ptype_eqb q (ty_style (c_typed c))
      && match r_name r with
         | NVariable => true     (* the observation of a variable item is the variable's name, see var_items_ok *)
         | _ => all_obs_match pr (c_buf c) (r_from r) (r_to r) (r_items r) (c_obs c)
         end
    | MRes _ _ _, None => false
    end in
  code oracle_ok corr_ok.

Definition judge := judge_with judge1.
