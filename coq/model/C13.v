(* C13 — indexing and slicing (pkg/eval/vals/index_list.go, index_string.go,
   assoc.go).  Executable Gallina only, no proofs.

   Part 1: the model of the Go code (strconv.Atoi as ParseInt, strings.Index,
           splitIndexString, parseIndexString, adjustAndCheckIndex,
           ConvertListIndex, indexList, convertStringIndex, assocList,
           assocString).  Machine ints are Z; the one place where Go can
           overflow (j++ in parseIndexString) has the wrap written out.
   Part 2: the reference specification ref_index, written from
           website/ref/language.md (sections String, List, Indexing), and the
           character boundaries of a string given as its code point sequence.
   Part 3: the oracle check_C13 on observations, the case record and the judge. *)
From verif Require Import lib.Base lib.Utf8.
Open Scope Z_scope.

(* ================================================================== *)
(* Part 1 — model of the code                                          *)
(* ================================================================== *)

Definition MaxInt : Z := 9223372036854775807.
Definition MinInt : Z := -9223372036854775808.
Definition two64 : Z := 18446744073709551616.
(* int64 wrap-around *)
Definition wrap64 (z : Z) : Z := (z + 9223372036854775808) mod two64 - 9223372036854775808.

Inductive errkind :=
| EOutOfRange      (* errs.OutOfRange *)
| ENotInteger      (* errIndexMustBeInteger *)
| ENotBoundary     (* errIndexNotAtRuneBoundary *)
| EAssocSlice      (* errAssocWithSlice *)
| EReplNotString   (* errReplacementMustBeString *)
| EOther.          (* anything else the harness may see *)

Inductive res (A : Type) := Ok (a : A) | Err (e : errkind).
Arguments Ok {A} a.
Arguments Err {A} e.

Definition bind {A B} (r : res A) (f : A -> res B) : res B :=
  match r with Ok a => f a | Err e => Err e end.

(* ---- bytes used by the index syntax ---- *)
Definition ch_dot : N := 46%N.
Definition ch_eq : N := 61%N.
Definition ch_plus : N := 43%N.
Definition ch_minus : N := 45%N.
Definition is_digit (c : N) : bool := ((48 <=? c) && (c <=? 57))%N.
Definition digit_val (c : N) : Z := Z.of_N c - 48.

(* ---- strconv.ParseUint(s, 10, 64): left-to-right scan, the first event wins
        (a non-digit gives a syntax error, an overflow gives a range error even
        when a non-digit follows later) ---- *)
Inductive ures := UOk (n : Z) | URange | USyntax.

Definition uint_cutoff : Z := 1844674407370955162.   (* maxUint64/10 + 1 *)

Fixpoint parse_uint_loop (s : bytes) (acc : Z) : ures :=
  match s with
  | [] => UOk acc
  | c :: r =>
    if negb (is_digit c) then USyntax
    else if uint_cutoff <=? acc then URange               (* n >= cutoff *)
    else let n1 := acc * 10 + digit_val c in
         if two64 <=? n1 then URange                      (* n1 < n (wrapped) *)
         else parse_uint_loop r n1
  end.

Definition parse_uint (s : bytes) : ures :=
  match s with [] => USyntax | _ => parse_uint_loop s 0 end.

(* ---- strconv.Atoi = ParseInt(s, 10, 0) on a 64-bit platform (the fast path
        of Atoi for short strings computes the same function) ---- *)
Inductive ares := AOk (i : Z) | ARange | ASyntax.

Definition strconv_atoi (s : bytes) : ares :=
  match s with
  | [] => ASyntax
  | c :: r =>
    let neg := (c =? ch_minus)%N in
    let body := if ((c =? ch_plus) || (c =? ch_minus))%N then r else s in
    match parse_uint body with
    | USyntax => ASyntax
    | URange => ARange
    | UOk un =>
      if negb neg && (9223372036854775808 <=? un) then ARange
      else if neg && (9223372036854775808 <? un) then ARange
      else AOk (if neg then - un else un)
    end
  end.

(* vals.atoi: ErrRange -> errs.OutOfRange, other errors -> errIndexMustBeInteger *)
Definition atoi (s : bytes) : res Z :=
  match strconv_atoi s with
  | AOk i => Ok i
  | ARange => Err EOutOfRange
  | ASyntax => Err ENotInteger
  end.

(* ---- strings.Index ---- *)
Fixpoint is_prefix (p s : bytes) : bool :=
  match p, s with
  | [], _ => true
  | a :: p', b :: s' => (a =? b)%N && is_prefix p' s'
  | _ :: _, [] => false
  end.

Fixpoint index_of (p s : bytes) : option nat :=
  match s with
  | [] => if is_prefix p [] then Some O else None
  | _ :: r => if is_prefix p s then Some O else option_map S (index_of p r)
  end.

Inductive sep := SepNone | SepExcl | SepIncl.

Definition dotdot : bytes := [ch_dot; ch_dot].
Definition dotdoteq : bytes := [ch_dot; ch_dot; ch_eq].

Definition splitIndexString (s : bytes) : bytes * sep * bytes :=
  match index_of dotdoteq s with
  | Some i => (firstn i s, SepIncl, skipn (i + 3) s)
  | None =>
    match index_of dotdot s with
    | Some i => (firstn i s, SepExcl, skipn (i + 2) s)
    | None => (s, SepNone, [])
    end
  end.

Definition is_nil {A} (l : list A) : bool := match l with [] => true | _ => false end.

(* parseIndexString: (slice, i, j) *)
Definition parseIndexString (s : bytes) (n : Z) : res (bool * Z * Z) :=
  let '(low, sp, high) := splitIndexString s in
  match sp with
  | SepNone => bind (atoi s) (fun i => Ok (false, i, 0))
  | _ =>
    bind (if is_nil low then Ok 0 else atoi low) (fun i =>
    bind (if is_nil high then Ok n
          else bind (atoi high) (fun j =>
               match sp with
               | SepIncl => if j =? -1 then Ok n else Ok (wrap64 (j + 1))   (* j++ *)
               | _ => Ok j
               end)) (fun j =>
    Ok (true, i, j)))
  end.

Definition adjustAndCheckIndex (i n : Z) (includeN : bool) : res Z :=
  if i <? 0 then
    if i <? - n then Err EOutOfRange else Ok (i + n)
  else if includeN then
    if n <? i then Err EOutOfRange else Ok i
  else
    if n <=? i then Err EOutOfRange else Ok i.

(* the index value handed to vals.Index: a Go int, a string, or anything else
   (float64, *big.Int, *big.Rat, list, map, nil, bool, ...) *)
Inductive index := IInt (i : Z) | IStr (s : bytes) | IOther.

(* ListIndex{Slice, Lower, Upper} *)
Definition ConvertListIndex (raw : index) (n : Z) : res (bool * Z * Z) :=
  match raw with
  | IInt i => bind (adjustAndCheckIndex i n false) (fun k => Ok (false, k, 0))
  | IStr s =>
    bind (parseIndexString s n) (fun '(slice, i, j) =>
      if negb slice then
        bind (adjustAndCheckIndex i n false) (fun i' => Ok (false, i', j))
      else
        bind (adjustAndCheckIndex i n true) (fun i' =>
        bind (adjustAndCheckIndex j n true) (fun j' =>
        if j' <? i' then Err EOutOfRange else Ok (true, i', j'))))
  | IOther => Err ENotInteger
  end.

(* ---- lists: the persistent vector is abstracted to the list of its elements
        (C06 proves Index/SubVector/Assoc of the vector against this) ---- *)
Definition sub_list {A} (l : list A) (lo hi : Z) : list A :=
  firstn (Z.to_nat (hi - lo)) (skipn (Z.to_nat lo) l).

Fixpoint list_set {A} (l : list A) (k : nat) (v : A) : list A :=
  match l, k with
  | [], _ => []
  | _ :: r, O => v :: r
  | x :: r, S k' => x :: list_set r k' v
  end.

Definition zlen {A} (l : list A) : Z := Z.of_nat (length l).

Inductive value := VElem (v : N) | VList (l : list N) | VStr (s : bytes).

Definition indexList (l : list N) (raw : index) : res value :=
  bind (ConvertListIndex raw (zlen l)) (fun '(slice, lo, hi) =>
    if slice then Ok (VList (sub_list l lo hi))
    else Ok (VElem (nth (Z.to_nat lo) l 0%N))).

Definition assocList (l : list N) (raw : index) (v : N) : res value :=
  bind (ConvertListIndex raw (zlen l)) (fun '(slice, lo, hi) =>
    if slice then Err EAssocSlice
    else Ok (VList (list_set l (Z.to_nat lo) v))).

(* ---- strings ---- *)
(* a decoding failure is (RuneError, 1); a validly encoded U+FFFD is (RuneError, 3) *)
Definition decode_failed (d : N * nat) : bool := (fst d =? RuneError)%N && Nat.eqb (snd d) 1.

Definition startsWithRuneBoundary (s : bytes) : bool :=
  match s with
  | [] => true
  | _ => negb (decode_failed (decode_rune s))
  end.

(* utf8.DecodeLastRuneInString's backward scan.  [rest] = the bytes before the
   last one, nearest first; [acc] = s[start+1:end] collected so far; [k] = how
   many more positions may be examined (lim = end - UTFMax).  Returns
   s[start:end] for the final value of start. *)
Fixpoint scan_back (k : nat) (rest acc : bytes) : bytes :=
  match k with
  | O => match rest with [] => acc | b :: _ => b :: acc end   (* start = lim-1 (clipped at 0) *)
  | S k' =>
    match rest with
    | [] => acc                                                (* start = -1 -> 0 *)
    | b :: rest' => if rune_start b then b :: acc else scan_back k' rest' (b :: acc)
    end
  end.

(* utf8.DecodeLastRuneInString: (rune, size) *)
Definition decode_last (s : bytes) : N * nat :=
  match rev s with
  | [] => (RuneError, 0%nat)
  | l :: rest =>
    if (l <? RuneSelf)%N then (l, 1%nat)
    else let t := scan_back 3 rest [l] in
         let '(r, w) := decode_rune t in
         if Nat.eqb w (length t) then (r, w) else (RuneError, 1%nat)   (* start+size != end *)
  end.

Definition endsWithRuneBoundary (s : bytes) : bool :=
  match s with
  | [] => true
  | _ => negb (decode_failed (decode_last s))
  end.

Definition convertStringIndex (raw : index) (s : bytes) : res (Z * Z) :=
  bind (ConvertListIndex raw (zlen s)) (fun '(slice, lo, hi) =>
    if slice then
      if startsWithRuneBoundary (skipn (Z.to_nat lo) s) && endsWithRuneBoundary (firstn (Z.to_nat hi) s)
      then Ok (lo, hi) else Err ENotBoundary
    else
      let d := decode_rune (skipn (Z.to_nat lo) s) in
      if decode_failed d then Err ENotBoundary else Ok (lo, lo + Z.of_nat (snd d))).

Definition indexString (s : bytes) (raw : index) : res value :=
  bind (convertStringIndex raw s) (fun '(i, j) => Ok (VStr (sub_list s i j))).

(* replacement: Some bytes for a string value, None for any other value *)
Definition assocString (s : bytes) (raw : index) (repl : option bytes) : res value :=
  bind (convertStringIndex raw s) (fun '(i, j) =>
    match repl with
    | None => Err EReplNotString
    | Some r => Ok (VStr (firstn (Z.to_nat i) s ++ r ++ skipn (Z.to_nat j) s))
    end).

(* ================================================================== *)
(* Part 2 — reference specification (from website/ref/language.md)     *)
(* ================================================================== *)

(* "A non-negative integer, an offset counting from the beginning of the list;
    a negative integer, an offset counting from the back of the list."
   An integer text: optional sign, then one or more decimal digits. *)
Fixpoint digits_value (ds : bytes) (acc : Z) : Z :=
  match ds with [] => acc | c :: r => digits_value r (acc * 10 + digit_val c) end.

Definition ref_parse_int (t : bytes) : option Z :=
  let '(neg, ds) :=
    match t with
    | c :: r => if (c =? ch_minus)%N then (true, r) else if (c =? ch_plus)%N then (false, r) else (false, t)
    | [] => (false, [])
    end in
  if negb (is_nil ds) && forallb is_digit ds
  then Some (if neg then - digits_value ds 0 else digits_value ds 0)
  else None.

(* the shape of an index text: a, a..b or a..=b, where a and b contain no '.' *)
Inductive shape := ShSingle (a : bytes) | ShSlice (a : bytes) (incl : bool) (b : bytes) | ShMalformed.

Fixpoint span_nodot (s : bytes) : bytes * bytes :=
  match s with
  | [] => ([], [])
  | c :: r => if (c =? ch_dot)%N then ([], s)
              else let '(a, rest) := span_nodot r in (c :: a, rest)
  end.

Definition ref_split (s : bytes) : shape :=
  let '(a, rest) := span_nodot s in
  match rest with
  | [] => ShSingle a
  | d1 :: d2 :: rest' =>
    if ((d1 =? ch_dot) && (d2 =? ch_dot))%N then
      match rest' with
      | e :: b => if (e =? ch_eq)%N then ShSlice a true b else ShSlice a false rest'
      | [] => ShSlice a false []
      end
    else ShMalformed
  | _ => ShMalformed
  end.

Inductive ref_result := RIndex (k : Z) | RSlice (lo hi : Z) | RError.

(* element position of an integer index in a sequence of length n *)
Definition norm_index (n i : Z) : ref_result :=
  if (0 <=? i) && (i <? n) then RIndex i
  else if (- n <=? i) && (i <? 0) then RIndex (n + i)
  else RError.

(* a slice bound may also be n itself *)
Definition norm_bound (n a : Z) : option Z :=
  if (0 <=? a) && (a <=? n) then Some a
  else if (- n <=? a) && (a <? 0) then Some (n + a)
  else None.

(* "$a..=$b is similar to $a..$b, but includes $li[$b]": the upper bound is one
   past the position that b names *)
Definition incl_upper (n b : Z) : option Z :=
  let p := if b <? 0 then n + b else b in
  if (-1 <=? p) && (p <? n) then Some (p + 1) else None.

(* a bound text: Some None = omitted, Some (Some z) = integer, None = not an integer *)
Definition ref_bound (t : bytes) : option (option Z) :=
  if is_nil t then Some None
  else match ref_parse_int t with Some z => Some (Some z) | None => None end.

Definition ref_index (n : Z) (raw : index) : ref_result :=
  match raw with
  | IOther => RError
  | IInt i => norm_index n i
  | IStr s =>
    match ref_split s with
    | ShMalformed => RError
    | ShSingle a => match ref_parse_int a with Some i => norm_index n i | None => RError end
    | ShSlice a incl b =>
      match ref_bound a, ref_bound b with
      | Some oa, Some ob =>
        let lo := match oa with None => Some 0 | Some x => norm_bound n x end in
        let hi := match ob with
                  | None => Some n
                  | Some y => if incl then incl_upper n y else norm_bound n y
                  end in
        match lo, hi with
        | Some lo', Some hi' => if lo' <=? hi' then RSlice lo' hi' else RError
        | _, _ => RError
        end
      | _, _ => RError
      end
    end
  end.

(* ---- index texts on which the reference is silent or ambiguous: the oracle
        demands nothing there (the theorems still cover them) ---- *)
Definition canonical_int (t : bytes) : bool :=
  match ref_parse_int t with
  | None => false
  | Some _ =>
    let ds := match t with
              | c :: r => if ((c =? ch_minus) || (c =? ch_plus))%N then r else t
              | [] => [] end in
    match ds with
    | c :: _ :: _ => negb (c =? 48)%N       (* no superfluous leading zero *)
    | _ => true
    end
  end.

(* looks like some other spelling of a number (0x10, 1_0, 010, 1e3, ...) *)
Definition alt_spelling (t : bytes) : bool :=
  negb (is_nil t) && negb (canonical_int t) && existsb is_digit t.

Definition unspecified (n : Z) (raw : index) : bool :=
  match raw with
  | IStr s =>
    match ref_split s with
    | ShSingle a => alt_spelling a
    | ShSlice a incl b =>
      alt_spelling a || alt_spelling b
      || (incl && is_nil b)                                   (* "a..=" *)
      || (incl && match ref_parse_int b with                  (* $li[$b] does not exist but b+1 is a bound *)
                  | Some y => (if y <? 0 then n + y else y) =? -1
                  | None => false end)
    | ShMalformed => false
    end
  | _ => false
  end.

(* ---- spec of the parts of a list ---- *)
Definition elems_between (l : list N) (lo hi : Z) : list N :=
  map (fun i => nth i l 0%N) (seq (Z.to_nat lo) (Z.to_nat (hi - lo))).

Definition replaced_at (l : list N) (k : Z) (v : N) : list N :=
  map (fun j => if Nat.eqb j (Z.to_nat k) then v else nth j l 0%N) (seq 0 (length l)).

(* ---- character boundaries of a string given as its code points ---- *)
Fixpoint boundaries_from (rs : list N) (off : Z) : list Z :=
  off :: match rs with
         | [] => []
         | r :: rest => boundaries_from rest (off + Z.of_nat (rune_len r))
         end.
Definition boundaries (rs : list N) : list Z := boundaries_from rs 0.

Definition is_boundary (rs : list N) (k : Z) : bool := existsb (Z.eqb k) (boundaries rs).

(* the code point that starts at byte offset k *)
Fixpoint rune_at (rs : list N) (k : Z) : option N :=
  match rs with
  | [] => None
  | r :: rest => if k =? 0 then Some r
                 else if k <? 0 then None
                 else rune_at rest (k - Z.of_nat (rune_len r))
  end.

Definition good_rune (r : N) : bool := valid_rune r.
Definition valid_text (rs : list N) (s : bytes) : bool :=
  forallb good_rune rs && bytes_eqb (encode_all rs) s.

(* ================================================================== *)
(* Part 3 — observations, oracle, judge                                *)
(* ================================================================== *)

Inductive op :=
| OpConvert (n : Z) (raw : index)                                   (* vals.ConvertListIndex *)
| OpIndexList (l : list N) (raw : index)                            (* vals.Index / $l[i] *)
| OpAssocList (l : list N) (raw : index) (v : N)                    (* vals.Assoc / set l[i] = v *)
| OpIndexStr (rs : option (list N)) (s : bytes) (raw : index)       (* vals.Index / $s[i] *)
| OpAssocStr (rs : option (list N)) (s : bytes) (raw : index) (repl : option bytes).

Inductive obs :=
| ObsErr (e : errkind)
| ObsConv (slice : bool) (lo hi : Z)
| ObsVal (v : value).

Definition run_op (o : op) : obs :=
  let of_res (r : res value) := match r with Ok v => ObsVal v | Err e => ObsErr e end in
  match o with
  | OpConvert n raw =>
    match ConvertListIndex raw n with
    | Ok (sl, lo, hi) => ObsConv sl lo hi
    | Err e => ObsErr e
    end
  | OpIndexList l raw => of_res (indexList l raw)
  | OpAssocList l raw v => of_res (assocList l raw v)
  | OpIndexStr _ s raw => of_res (indexString s raw)
  | OpAssocStr _ s raw repl => of_res (assocString s raw repl)
  end.

Definition listN_eqb : list N -> list N -> bool := list_eqb N.eqb.

Definition is_err (o : obs) : bool := match o with ObsErr _ => true | _ => false end.

(* what the reference demands for a string of code points rs (bytes s):
   Some (lo, hi) = must succeed with exactly that byte range; None = must raise *)
Definition ref_string_range (rs : list N) (s : bytes) (raw : index) : option (Z * Z) :=
  match ref_index (zlen s) raw with
  | RError => None
  | RIndex k =>
    match rune_at rs k with
    | Some r => Some (k, k + Z.of_nat (rune_len r))
    | None => None
    end
  | RSlice lo hi => if is_boundary rs lo && is_boundary rs hi then Some (lo, hi) else None
  end.

Definition is_slice (r : ref_result) : bool := match r with RSlice _ _ => true | _ => false end.

Definition check_C13 (o : op) (ob : obs) : bool :=
  match o with
  | OpConvert n raw =>
    unspecified n raw ||
    match ref_index n raw, ob with
    | RIndex k, ObsConv false lo _ => lo =? k
    | RSlice lo hi, ObsConv true lo' hi' => (lo =? lo') && (hi =? hi')
    | RError, ObsErr _ => true
    | _, _ => false
    end
  | OpIndexList l raw =>
    unspecified (zlen l) raw ||
    match ref_index (zlen l) raw, ob with
    | RIndex k, ObsVal (VElem v) => (v =? nth (Z.to_nat k) l 0)%N
    | RSlice lo hi, ObsVal (VList r) => listN_eqb r (elems_between l lo hi)
    | RError, ObsErr _ => true
    | _, _ => false
    end
  | OpAssocList l raw v =>
    unspecified (zlen l) raw ||
    match ref_index (zlen l) raw, ob with
    | RIndex k, ObsVal (VList r) => listN_eqb r (replaced_at l k v)
    | RSlice _ _, _ => true           (* the reference does not describe slice assignment *)
    | RError, ObsErr _ => true
    | _, _ => false
    end
  | OpIndexStr (Some rs) s raw =>
    negb (valid_text rs s) || unspecified (zlen s) raw ||
    match ref_string_range rs s raw, ob with
    | Some (lo, hi), ObsVal (VStr r) => bytes_eqb r (sub_list s lo hi)
    | None, ObsErr _ => true
    | _, _ => false
    end
  | OpAssocStr (Some rs) s raw repl =>
    negb (valid_text rs s) || unspecified (zlen s) raw ||
    match ref_string_range rs s raw, repl, ob with
    | Some (lo, hi), Some rp, ObsVal (VStr r) =>
      bytes_eqb r (firstn (Z.to_nat lo) s ++ rp ++ skipn (Z.to_nat hi) s)
    | Some _, Some _, ObsErr _ => is_slice (ref_index (zlen s) raw)   (* slice assignment: not described *)
    | Some _, None, ObsErr _ => true   (* replacement is not a string *)
    | None, _, ObsErr _ => true
    | _, _, _ => false
    end
  (* strings that are not valid UTF-8: behaviour unspecified by the reference *)
  | OpIndexStr None _ _ => true
  | OpAssocStr None _ _ _ => true
  end.

Definition errkind_eqb (a b : errkind) : bool :=
  match a, b with
  | EOutOfRange, EOutOfRange | ENotInteger, ENotInteger | ENotBoundary, ENotBoundary
  | EAssocSlice, EAssocSlice | EReplNotString, EReplNotString | EOther, EOther => true
  | _, _ => false
  end.

Definition value_eqb (a b : value) : bool :=
  match a, b with
  | VElem x, VElem y => (x =? y)%N
  | VList x, VList y => listN_eqb x y
  | VStr x, VStr y => bytes_eqb x y
  | _, _ => false
  end.

Definition obs_eqb (a b : obs) : bool :=
  match a, b with
  | ObsErr x, ObsErr y => errkind_eqb x y
  | ObsConv s l h, ObsConv s' l' h' => Bool.eqb s s' && (l =? l') && (h =? h')
  | ObsVal x, ObsVal y => value_eqb x y
  | _, _ => false
  end.

Record case := mkCase { c_op : op; c_obs : obs }.

Definition judge1 (c : case) : N :=
  code (check_C13 (c_op c) (c_obs c)) (obs_eqb (run_op (c_op c)) (c_obs c)).

Definition judge := judge_with judge1.
