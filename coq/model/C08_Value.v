(* C08/C09 — shared executable model of Elvish values (pkg/eval/vals):
   Equal (equal.go), Hash (hash.go + pkg/persistent/hash), Cmp / CmpTotal
   (cmp.go), number unification (num.go).  Executable Gallina only, no proofs.

   Representation
     nil, bool, string (bytes)
     numbers : VInt z   Go int (64-bit)
               VBig z   *big.Int (any z; vals keeps only |z| beyond int there,
                        but Equal/Hash/Cmp accept any, and so does the model)
               VRat q   *big.Rat; math/big keeps it in lowest terms with a
                        positive denominator, the model reads it through Qred
               VFloat b float64 as its 64-bit IEEE-754 pattern (b < 2^64)
     VList sub l  persistent vector = list of elements in order; sub tells
              whether the Go value is a slice view (Go type vector.subVector,
              made by $l[i..j]) or a plain vector.vector: no function looks
              at it (before the fix of total-compare-sliced-list CmpTotal's
              typeOf did; the harness still records it)
     VMap m   persistent hash map = association list in iteration order
              (the trie itself is C07's business)
     VOpaque ty id   values compared by identity and hashed by address
              (closures, builtin functions, namespaces): id = address. *)
From verif Require Import lib.Base gen.Consts.
From Coq Require Import QArith.
Close Scope Q_scope.
Open Scope N_scope.

Inductive value :=
| VNil
| VBool (b : bool)
| VInt (z : Z)
| VBig (z : Z)
| VRat (q : Q)
| VFloat (bits : N)
| VStr (s : bytes)
| VList (sub : bool) (l : list value)
| VMap (m : list (value * value))
| VOpaque (ty : N) (id : N).

(* what the harness writes for a *big.Rat num/denom *)
Definition mkrat (n d : Z) : Q := Qmake n (Z.to_pos d).

(* ------------------------------------------------------------------ *)
(* binary64 on bit patterns *)
Definition p2 (k : N) : N := 2 ^ k.
Definition f_mag (b : N) : N := b mod 2 ^ 63.
Definition f_sign (b : N) : bool := 2 ^ 63 <=? b.
Definition f_inf_mag : N := 2047 * 2 ^ 52.
Definition f_is_nan (b : N) : bool := f_inf_mag <? f_mag b.
(* order key: a < b (neither NaN) iff key a < key b; +0 and -0 share key 0 *)
Definition f_key (b : N) : Z :=
  if f_sign b then (- Z.of_N (f_mag b))%Z else Z.of_N (f_mag b).
(* Go == on float64 *)
Definition f_eq (a b : N) : bool :=
  negb (f_is_nan a) && negb (f_is_nan b) && Z.eqb (f_key a) (f_key b).
Definition f_pos_inf : N := f_inf_mag.
Definition f_neg_inf : N := 2 ^ 63 + f_inf_mag.
Definition f_is_zero (b : N) : bool := f_mag b =? 0.
Definition f_is_negzero (b : N) : bool := b =? 2 ^ 63.
(* the zero of either sign becomes +0.0 (vals.Hash: if v == 0 { v = 0 }) *)
Definition f_canon (b : N) : N := if f_is_zero b then 0 else b.

(* nearest-even rounding of the rational n/d to binary64 (float64(int64),
   big.Rat.Float64): overflow gives an infinity, tiny values denormals/zero *)
Definition f_of_Q (n : Z) (d : positive) : N :=
  if (n =? 0)%Z then 0 else
  let s := (n <? 0)%Z in
  let a := Z.abs n in
  let dz := Zpos d in
  (* l0 <= floor(log2(a/d)) + 1 and >= floor(log2(a/d)) *)
  let l0 := (Z.log2 a - Z.log2 dz)%Z in
  (* ge l : a/d >= 2^l *)
  let ge (l : Z) := if (0 <=? l)%Z then (dz * 2 ^ l <=? a)%Z else (dz <=? a * 2 ^ (- l))%Z in
  let lg := if ge l0 then l0 else (l0 - 1)%Z in
  let e := Z.max (lg - 52) (-1074) in
  (* a/d = (num/den) * 2^e *)
  let num := if (0 <=? e)%Z then a else (a * 2 ^ (- e))%Z in
  let den := if (0 <=? e)%Z then (dz * 2 ^ e)%Z else dz in
  let q := (num / den)%Z in
  let r := (num mod den)%Z in
  let q' := match (2 * r ?= den)%Z with
            | Lt => q
            | Gt => (q + 1)%Z
            | Eq => if Z.even q then q else (q + 1)%Z
            end in
  let m := ((e + 1074) * 2 ^ 52 + q')%Z in
  let m' := if (Z.of_N f_inf_mag <=? m)%Z then f_inf_mag else Z.to_N m in
  if s then 2 ^ 63 + m' else m'.

(* exact value of a finite float as a rational *)
Definition f_to_Q (b : N) : Q :=
  let mg := f_mag b in
  let ex := mg / 2 ^ 52 in
  let mt := mg mod 2 ^ 52 in
  let m := if ex =? 0 then mt else 2 ^ 52 + mt in
  let e := if ex =? 0 then (-1074)%Z else (Z.of_N ex - 1075)%Z in
  let mz := if f_sign b then (- Z.of_N m)%Z else Z.of_N m in
  if (0 <=? e)%Z then Qmake (mz * 2 ^ e) 1 else Qmake mz (Z.to_pos (2 ^ (- e))).

(* ------------------------------------------------------------------ *)
(* pkg/persistent/hash in uint32 arithmetic *)
Definition w32 (x : N) : N := x mod 2 ^ 32.
Definition mul33 (u : N) : N := w32 (u * 32 + u).
Definition djb_init : N := Z.to_N pkg_persistent_hash.DJBInit.   (* 5381, regenerated from /repo *)
Definition djb_combine (acc h : N) : N := w32 (mul33 acc + h).
Definition djb (hs : list N) : N := fold_left djb_combine hs djb_init.
Definition hash_u64 (u : N) : N := w32 (mul33 (w32 (u / 2 ^ 32)) + w32 u).
(* hash.UIntPtr(uintptr(v)) for a Go int: two's complement *)
Definition hash_int (z : Z) : N := hash_u64 (Z.to_N (z mod 2 ^ 64)).
Definition hash_str (s : bytes) : N := fold_left djb_combine s djb_init.

(* big.Int.Bits(): little-endian 64-bit words of |z|, none for 0 *)
Fixpoint words64 (fuel : nat) (n : N) : list N :=
  match fuel with
  | O => []
  | S f => if n =? 0 then [] else (n mod 2 ^ 64) :: words64 f (n / 2 ^ 64)
  end.
Definition big_words (n : N) : list N := words64 (S (N.to_nat (N.log2 n / 64))) n.
Definition sign32 (z : Z) : N :=
  match z with Z0 => 0 | Zpos _ => 1 | Zneg _ => 4294967295 end.
Definition hash_big (z : Z) : N :=
  fold_left (fun h w => djb_combine h (hash_u64 w)) (big_words (Z.abs_N z))
            (djb_combine djb_init (sign32 z)).
Definition hash_rat (q : Q) : N :=
  let r := Qred q in djb [hash_big (Qnum r); hash_big (Zpos (Qden r))].

Fixpoint hash (v : value) : N :=
  match v with
  | VNil => 0
  | VBool b => if b then 1 else 0
  | VInt z => hash_int z
  | VBig z => hash_big z
  | VRat q => hash_rat q
  | VFloat b => hash_u64 (f_canon b)
  | VStr s => hash_str s
  | VList _ l => fold_left (fun h x => djb_combine h (hash x)) l djb_init
  | VMap m => fold_left (fun h e => w32 (h + djb [hash (fst e); hash (snd e)])) m 0
  | VOpaque _ id => hash_u64 id
  end.

(* ------------------------------------------------------------------ *)
(* Equal *)
Definition lookup_by {A} (eqk : value -> bool) (m : list (value * A)) : option A :=
  match find (fun e => eqk (fst e)) m with Some e => Some (snd e) | None => None end.

Fixpoint equal (a b : value) {struct a} : bool :=
  match a, b with
  | VNil, VNil => true
  | VBool x, VBool y => Bool.eqb x y
  | VInt x, VInt y => Z.eqb x y
  | VBig x, VBig y => Z.eqb x y
  | VRat x, VRat y => Qeq_bool x y
  | VFloat x, VFloat y => f_eq x y
  | VStr x, VStr y => bytes_eqb x y
  | VList _ x, VList _ y =>
    (fix eql (x y : list value) {struct x} : bool :=
       match x, y with
       | [], [] => true
       | p :: x', q :: y' => equal p q && eql x' y'
       | _, _ => false
       end) x y
  | VMap x, VMap y =>
    Nat.eqb (length x) (length y) &&
    (fix sub (x : list (value * value)) : bool :=
       match x with
       | [] => true
       | (k, vx) :: x' =>
         (fix look (y : list (value * value)) : bool :=
            match y with
            | [] => false
            | (k', vy) :: y' => if equal k k' then equal vx vy else look y'
            end) y && sub x'
       end) x
  | VOpaque t i, VOpaque t' i' => N.eqb t t' && N.eqb i i'
  | _, _ => false
  end.

(* ------------------------------------------------------------------ *)
(* Cmp / CmpTotal *)
Inductive ordering := OLt | OEq | OGt | OUn.

Definition ordering_eqb (a b : ordering) : bool :=
  match a, b with OLt, OLt | OEq, OEq | OGt, OGt | OUn, OUn => true | _, _ => false end.
Definition of_comparison (c : comparison) : ordering :=
  match c with Lt => OLt | Eq => OEq | Gt => OGt end.
Definition flip (o : ordering) : ordering :=
  match o with OLt => OGt | OGt => OLt | o => o end.

(* compareFloat *)
Definition cmp_float (a b : N) : ordering :=
  if f_is_nan a then (if f_is_nan b then OEq else OLt)
  else if f_is_nan b then OGt
  else of_comparison (Z.compare (f_key a) (f_key b)).

(* NumType of a number: 0 int, 1 big, 2 rat, 3 float; None for non-numbers *)
Definition num_type (v : value) : option N :=
  match v with
  | VInt _ => Some 0 | VBig _ => Some 1 | VRat _ => Some 2 | VFloat _ => Some 3
  | _ => None
  end.

Definition in_int64 (z : Z) : bool := ((- 2 ^ 63 <=? z) && (z <? 2 ^ 63))%Z.

(* PromoteToBigInt / PromoteToBigRat / ConvertToFloat64 *)
Definition to_Z (v : value) : Z := match v with VInt z | VBig z => z | _ => 0%Z end.
Definition to_Q (v : value) : Q :=
  match v with VInt z | VBig z => Qmake z 1 | VRat q => q | _ => Qmake 0 1 end.
Definition to_f64 (v : value) : N :=
  match v with
  | VInt z => f_of_Q z 1
  | VBig z => if in_int64 z then f_of_Q z 1
              else if (z <? 0)%Z then f_neg_inf else f_pos_inf
  | VRat q => let r := Qred q in f_of_Q (Qnum r) (Qden r)
  | VFloat b => b
  | _ => 0
  end.

(* numbers after UnifyNums2 *)
Definition cmp_num (a b : value) : ordering :=
  match num_type a, num_type b with
  | Some ta, Some tb =>
    let t := N.max ta tb in
    if t <=? 1 then of_comparison (Z.compare (to_Z a) (to_Z b))
    else if t =? 2 then of_comparison (Qcompare (to_Q a) (to_Q b))
    else cmp_float (to_f64 a) (to_f64 b)
  | _, _ => OUn
  end.

Fixpoint bytes_cmp (a b : bytes) : ordering :=
  match a, b with
  | [], [] => OEq
  | [], _ => OLt
  | _, [] => OGt
  | x :: a', y :: b' =>
    match N.compare x y with Lt => OLt | Gt => OGt | Eq => bytes_cmp a' b' end
  end.

(* the type used by CmpTotal's typeOf: all numbers share one, field maps count
   as maps, every list (plain or slice view) is a list *)
Definition tag (v : value) : N :=
  match v with
  | VNil => 0 | VBool _ => 1
  | VInt _ | VBig _ | VRat _ | VFloat _ => 2
  | VStr _ => 3 | VList _ _ => 4 | VMap _ => 5
  | VOpaque ty _ => 6 + ty
  end.

Definition lift_total (o : ordering) : ordering := match o with OUn => OEq | o => o end.

(* cmpg rk false = Cmp; cmpg rk true = CmpTotal, where rk orders the type
   descriptors (an arbitrary but fixed order within one session) *)
Fixpoint cmpg (rk : N -> Z) (tot : bool) (a b : value) {struct a} : ordering :=
  let inner :=
    match a, b with
    | VNil, VNil => OEq
    | VBool x, VBool y =>
      if Bool.eqb x y then OEq else if x then OGt else OLt
    | VInt _, _ | VBig _, _ | VRat _, _ | VFloat _, _ => cmp_num a b
    | VStr x, VStr y => bytes_cmp x y
    | VList _ x, VList _ y =>
      (fix go (x y : list value) {struct x} : ordering :=
         match x, y with
         | p :: x', q :: y' =>
           match cmpg rk tot p q with OEq => go x' y' | o => o end
         | [], [] => OEq
         | [], _ :: _ => OLt
         | _ :: _, [] => OGt
         end) x y
    | VMap _, _ | VOpaque _ _, _ => if equal a b then OEq else OUn
    | _, _ => OUn
    end in
  if tot then
    match Z.compare (rk (tag a)) (rk (tag b)) with
    | Lt => OLt
    | Gt => OGt
    | Eq => lift_total inner
    end
  else inner.

Definition cmp (a b : value) : ordering := cmpg (fun _ => 0%Z) false a b.
Definition cmp_total (rk : N -> Z) (a b : value) : ordering := cmpg rk true a b.

(* ------------------------------------------------------------------ *)
(* predicates on values used by theorems, oracles and input classes *)
Fixpoint any_float (p : N -> bool) (v : value) : bool :=
  match v with
  | VFloat b => p b
  | VList _ l => existsb (any_float p) l
  | VMap m => existsb (fun e => any_float p (fst e) || any_float p (snd e)) m
  | _ => false
  end.
Definition has_nan : value -> bool := any_float f_is_nan.
Definition has_negzero : value -> bool := any_float f_is_negzero.

(* representation invariant: float patterns are 64-bit, map keys pairwise
   not Equal *)
Fixpoint wfb (v : value) : bool :=
  match v with
  | VFloat b => b <? 2 ^ 64
  | VList _ l => forallb wfb l
  | VMap m =>
    forallb (fun e => wfb (fst e) && wfb (snd e)) m &&
    (fix nodup (m : list (value * value)) : bool :=
       match m with
       | [] => true
       | e :: m' => negb (existsb (fun e' => equal (fst e) (fst e')) m') && nodup m'
       end) m
  | _ => true
  end.

(* ------------------------------------------------------------------ *)
(* abstract map with the Equal interface (what vals.Map must behave like):
   association list, key found by Equal.  Values are small ints. *)
Definition amap := list (value * Z).
Definition am_find (k : value) (m : amap) : option Z := lookup_by (equal k) m.
Definition am_has (k : value) (m : amap) : bool :=
  match am_find k m with Some _ => true | None => false end.
Fixpoint am_assoc (k : value) (v : Z) (m : amap) : amap :=
  match m with
  | [] => [(k, v)]
  | (k', v') :: m' => if equal k k' then (k, v) :: m' else (k', v') :: am_assoc k v m'
  end.
Fixpoint am_dissoc (k : value) (m : amap) : amap :=
  match m with
  | [] => []
  | (k', v') :: m' => if equal k k' then m' else (k', v') :: am_dissoc k m'
  end.
Definition am_build (hist : list (value * Z)) : amap :=
  fold_left (fun m e => am_assoc (fst e) (snd e) m) hist [].

(* a hash map in the abstract: a key is found only in the bucket of its own
   hash, i.e. entry e matches k iff hash agrees and Equal holds.  Any hash
   table (the trie of C07 included) may miss an Equal key whose hash differs. *)
Definition hm_match (k k' : value) : bool := N.eqb (hash k) (hash k') && equal k k'.
Definition hm_find (k : value) (m : amap) : option Z := lookup_by (hm_match k) m.
Fixpoint hm_assoc (k : value) (v : Z) (m : amap) : amap :=
  match m with
  | [] => [(k, v)]
  | (k', v') :: m' => if hm_match k k' then (k, v) :: m' else (k', v') :: hm_assoc k v m'
  end.
Fixpoint hm_dissoc (k : value) (m : amap) : amap :=
  match m with
  | [] => []
  | (k', v') :: m' => if hm_match k k' then m' else (k', v') :: hm_dissoc k m'
  end.
Inductive mop := MAssoc (k : value) (v : Z) | MDissoc (k : value).
Definition hm_step (m : amap) (o : mop) : amap :=
  match o with MAssoc k v => hm_assoc k v m | MDissoc k => hm_dissoc k m end.
Definition hm_run (ops : list mop) : amap := fold_left hm_step ops [].
