(* C32 -- model of the editor event loop, pkg/cli/loop.go (executable, no proofs).

   The loop is a labelled transition system.  Shared state:
     inq   the buffered input channel (bounded FIFO, capacity inputChSize),
     tok   the redraw token (redrawCh, capacity 1),
     full  the redrawFull flag (read and written only under redrawMutex, so
           every access is one atomic step),
     ret   the return slot (returnCh, capacity 1: the first send wins),
     pc    the program counter of Run.
   Environment actions (Input e, Redraw f, Return r) may be taken by any
   goroutine at any time: the step relation allows them in every state, so the
   set of traces contains every interleaving.  The nondeterministic Go select
   is a choice between the enabled communication steps.

   Modelled, not verified: Go channels, select and sync.Mutex (standard
   semantics: buffered channel = bounded FIFO, non-blocking send = send if room,
   select = any ready case, default only if none is ready). *)
From verif Require Import lib.Base gen.Consts.
Open Scope nat_scope.

Definition cap : nat := Z.to_nat pkg_cli.inputChSize.

(* ---- labels ---- *)
(* observable: what the environment did (at its atomic point) and the callback
   boundaries seen by handleCb / redrawCb, the result of Run, and the harness
   marker "the loop is blocked in its select with nothing pending" *)
Inductive obs :=
| EInput (e : N)             (* lp.Input(e) enqueued *)
| ERedraw (f : bool)         (* lp.Redraw(f) *)
| EReturn (r : N)            (* lp.Return(r) *)
| CRedrawStart (f : bool)    (* redrawCb(flag) entered, flag has no finalRedraw bit; f = fullRedraw bit *)
| CRedrawEnd
| CHandleStart (e : N)       (* handleCb(e) entered *)
| CHandleEnd
| CFinalStart (f : bool)     (* redrawCb(flag) entered, flag has the finalRedraw bit; f = fullRedraw bit *)
| CFinalEnd
| CReturned (r : N)          (* Run returned r *)
| OQuiesce.                  (* loop blocked: in select, nothing pending *)

(* internal steps of Run that no callback sees *)
Inductive tau :=
| TExtract      (* extractRedrawFull: read and clear the flag *)
| TSelToken     (* select: case <-lp.redrawCh *)
| TSelReturn    (* select: case ret := <-lp.returnCh *)
| TChkRet       (* after handleCb: non-blocking receive on returnCh *)
| TDrainNo.     (* drain select: default (no event ready) -> break *)

Inductive label := Obs (o : obs) | Tau (t : tau).

Inductive pc :=
| PTop                      (* start of the for body *)
| PExtracted (f : bool)     (* flag extracted, redrawCb not yet entered *)
| PRedrawing                (* inside redrawCb *)
| PSelect                   (* at the 3-way select *)
| PHandling                 (* inside handleCb *)
| PAfterHandle              (* at the non-blocking returnCh receive *)
| PDrain                    (* at the non-blocking inputCh receive *)
| PFinal (r : N)            (* return value taken, final redraw not yet entered *)
| PFinalRedrawing (r : N)   (* inside redrawCb(finalRedraw) *)
| PFinalDone (r : N)        (* final redraw finished, Run not yet returned *)
| PReturned (r : N).

Record st := mkSt { inq : list N; tok : bool; full : bool; ret : option N; pcs : pc }.

Definition init : st := mkSt [] false false None PTop.

Definition isnil {A} (l : list A) : bool := match l with [] => true | _ => false end.

Definition quiescent (s : st) : bool :=
  match pcs s with
  | PSelect => isnil (inq s) && negb (tok s) && match ret s with None => true | _ => false end
  | _ => false
  end.

Definition step (s : st) (l : label) : option st :=
  let '(mkSt q t f r p) := s in
  match l with
  (* --- environment, enabled in every loop state --- *)
  | Obs (EInput e) => if Nat.ltb (length q) cap then Some (mkSt (q ++ [e]) t f r p) else None
  | Obs (ERedraw b) => Some (mkSt q true (f || b) r p)
  | Obs (EReturn x) => Some (mkSt q t f (match r with None => Some x | _ => r end) p)
  (* --- the loop --- *)
  | Tau TExtract => match p with PTop => Some (mkSt q t false r (PExtracted f)) | _ => None end
  | Obs (CRedrawStart b) =>
      match p with PExtracted b' => if Bool.eqb b b' then Some (mkSt q t f r PRedrawing) else None | _ => None end
  | Obs CRedrawEnd => match p with PRedrawing => Some (mkSt q t f r PSelect) | _ => None end
  | Tau TSelToken => match p with PSelect => if t then Some (mkSt q false f r PTop) else None | _ => None end
  | Tau TSelReturn =>
      match p, r with PSelect, Some x => Some (mkSt q t f None (PFinal x)) | _, _ => None end
  | Obs (CHandleStart e) =>
      match p, q with
      | PSelect, e' :: q' | PDrain, e' :: q' => if N.eqb e e' then Some (mkSt q' t f r PHandling) else None
      | _, _ => None
      end
  | Obs CHandleEnd => match p with PHandling => Some (mkSt q t f r PAfterHandle) | _ => None end
  | Tau TChkRet =>
      match p with
      | PAfterHandle => match r with
                        | Some x => Some (mkSt q t f None (PFinal x))
                        | None => Some (mkSt q t f r PDrain)
                        end
      | _ => None
      end
  | Tau TDrainNo => match p, q with PDrain, [] => Some (mkSt q t f r PTop) | _, _ => None end
  | Obs (CFinalStart b) =>
      match p with PFinal x => if b then None else Some (mkSt q t f r (PFinalRedrawing x)) | _ => None end
  | Obs CFinalEnd => match p with PFinalRedrawing x => Some (mkSt q t f r (PFinalDone x)) | _ => None end
  | Obs (CReturned x) =>
      match p with PFinalDone y => if N.eqb x y then Some (mkSt q t f r (PReturned y)) else None | _ => None end
  | Obs OQuiesce => if quiescent s then Some s else None
  end.

Fixpoint run (s : st) (ts : list label) : option st :=
  match ts with
  | [] => Some s
  | l :: r => match step s l with Some s' => run s' r | None => None end
  end.

Fixpoint proj (ts : list label) : list obs :=
  match ts with
  | [] => []
  | Obs o :: r => o :: proj r
  | Tau _ :: r => proj r
  end.

(* ------------------------------------------------------------------ *)
(* The oracle: a monitor automaton run over the observable trace.  It states
   exactly the property:
   - callbacks never overlap, and none runs after Run returned;
   - events are handled in the order they were enqueued (each handled event is
     the oldest one not yet handled);
   - whenever the loop is blocked (OQuiesce) every enqueued event has been
     handled, every Redraw request made so far was followed by a redraw that
     started after it, every Redraw(true) by a full one, and no Return is pending;
   - the final redraw happens at most once, after some Return, and Run returns
     the value of the first Return, after exactly one final redraw. *)
Inductive cbk := KNone | KHandle | KRedraw | KFinal.
Definition cbk_eqb (a b : cbk) : bool :=
  match a, b with
  | KNone, KNone | KHandle, KHandle | KRedraw, KRedraw | KFinal, KFinal => true
  | _, _ => false
  end.

Record mon := mkMon {
  m_ok : bool;
  m_acc : list N;         (* enqueued, not yet handled (oldest first) *)
  m_cb : cbk;             (* callback currently running *)
  m_uns : bool;           (* some Redraw request has no redraw start after it *)
  m_unsf : bool;          (* some Redraw(true) has no full redraw start after it *)
  m_first : option N;     (* value of the first Return *)
  m_finals : nat;         (* final redraws started *)
  m_done : bool }.        (* Run has returned *)

Definition mon0 : mon := mkMon true [] KNone false false None 0 false.

Definition opt_eqb (a b : option N) : bool := option_eqb N.eqb a b.
Definition is_none (a : option N) : bool := match a with None => true | _ => false end.

Definition mstep (m : mon) (o : obs) : mon :=
  let '(mkMon ok acc cb uns unsf fst fin dn) := m in
  let idle := cbk_eqb cb KNone && negb dn in
  match o with
  | EInput e => mkMon ok (acc ++ [e]) cb uns unsf fst fin dn
  | ERedraw f => mkMon ok acc cb true (unsf || f) fst fin dn
  | EReturn r => mkMon ok acc cb uns unsf (match fst with None => Some r | _ => fst end) fin dn
  | CRedrawStart f =>
      mkMon (ok && idle && Nat.eqb fin 0) acc KRedraw false (unsf && negb f) fst fin dn
  | CRedrawEnd => mkMon (ok && cbk_eqb cb KRedraw) acc KNone uns unsf fst fin dn
  | CHandleStart e =>
      mkMon (ok && idle && Nat.eqb fin 0 && match acc with e' :: _ => N.eqb e e' | [] => false end)
            (tl acc) KHandle uns unsf fst fin dn
  | CHandleEnd => mkMon (ok && cbk_eqb cb KHandle) acc KNone uns unsf fst fin dn
  | CFinalStart _ =>
      mkMon (ok && idle && Nat.eqb fin 0 && negb (is_none fst)) acc KFinal uns unsf fst (S fin) dn
  | CFinalEnd => mkMon (ok && cbk_eqb cb KFinal) acc KNone uns unsf fst fin dn
  | CReturned r =>
      mkMon (ok && idle && Nat.eqb fin 1 && opt_eqb fst (Some r)) acc cb uns unsf fst fin true
  | OQuiesce =>
      mkMon (ok && idle && Nat.eqb fin 0 && isnil acc && negb uns && negb unsf && is_none fst)
            acc cb uns unsf fst fin dn
  end.

Definition mrun (m : mon) (os : list obs) : mon := fold_left mstep os m.

Definition check_C32 (os : list obs) : bool := m_ok (mrun mon0 os).

(* ------------------------------------------------------------------ *)
(* The acceptor: is the observed trace a behaviour of the model?  Simulates the
   set of model states compatible with the observations so far; before every
   observation the loop may have taken any enabled internal steps. *)
Definition all_taus : list tau := [TExtract; TSelToken; TSelReturn; TChkRet; TDrainNo].

Definition tau_succ (s : st) : list st :=
  flat_map (fun t => match step s (Tau t) with Some s' => [s'] | None => [] end) all_taus.

Fixpoint closure (fuel : nat) (s : st) : list st :=
  match fuel with
  | O => [s]
  | S k => s :: flat_map (closure k) (tau_succ s)
  end.

Definition pc_eqb (a b : pc) : bool :=
  match a, b with
  | PTop, PTop | PRedrawing, PRedrawing | PSelect, PSelect | PHandling, PHandling
  | PAfterHandle, PAfterHandle | PDrain, PDrain => true
  | PExtracted x, PExtracted y => Bool.eqb x y
  | PFinal x, PFinal y | PFinalRedrawing x, PFinalRedrawing y
  | PFinalDone x, PFinalDone y | PReturned x, PReturned y => N.eqb x y
  | _, _ => false
  end.

Definition st_eqb (a b : st) : bool :=
  list_eqb N.eqb (inq a) (inq b) && Bool.eqb (tok a) (tok b) && Bool.eqb (full a) (full b)
  && opt_eqb (ret a) (ret b) && pc_eqb (pcs a) (pcs b).

Fixpoint dedup (l : list st) : list st :=
  match l with
  | [] => []
  | x :: r => if existsb (st_eqb x) r then dedup r else x :: dedup r
  end.

Definition after_obs (cfgs : list st) (o : obs) : list st :=
  dedup (flat_map (fun s =>
           flat_map (fun s' => match step s' (Obs o) with Some s'' => [s''] | None => [] end)
                    (closure 4 s)) cfgs).

Fixpoint accept_from (cfgs : list st) (os : list obs) : bool :=
  match os with
  | [] => negb (isnil cfgs)
  | o :: r => accept_from (after_obs cfgs o) r
  end.

Definition accepts (os : list obs) : bool := accept_from [init] os.

(* ---- correspondence case: the observable trace recorded from the real loop ---- *)
Record case := mkCase { c_obs : list obs }.

Definition judge1 (c : case) : N :=
  code (check_C32 (c_obs c)) (accepts (c_obs c)).

Definition judge := judge_with judge1.
