(* C32 -- model of the editor event loop, pkg/cli/loop.go (executable, no proofs).

   The loop is a labelled transition system.  Shared state:
     inq   the buffered input channel (bounded FIFO, capacity inputChSize),
     tok   the redraw token (redrawCh, capacity 1),
     full  the redrawFull flag (read and written only under redrawMutex, so
           every access is one atomic step),
     ret   the return slot (returnCh, capacity 1: the first send wins),
     pc    the program counter of Run.
   Environment actions (Input e, Redraw f, Return r) may be taken by any
   goroutine at any time: the step relation allows them in every state, so the
   set of traces contains every interleaving.  The nondeterministic Go select
   is a choice between the enabled communication steps.

   Redraw is modelled at two granularities.  [ERedraw f] is the whole call as one
   step (used when the harness makes the call between two of its own records).
   [ERedrawCall f] is only the invocation: the call then performs its two
   halves as separate internal steps, [TRFirst f] = lock the mutex and set the
   flag, [TRSecond] = send the token and unlock; between them the mutex is
   held, so extractRedrawFull and other Redraw calls wait.  [step_ord true] is
   the same system with the halves SWAPPED (token first, without the mutex,
   then lock and set the flag): it is not the model of the code, it exists so
   that the order is a proved necessity (props: C32_swapped_redraw_loses_full).

   Modelled, not verified: Go channels, select and sync.Mutex (standard
   semantics: buffered channel = bounded FIFO, non-blocking send = send if room,
   select = any ready case, default only if none is ready). *)
From verif Require Import lib.Base gen.Consts.
Open Scope nat_scope.

Definition cap : nat := Z.to_nat pkg_cli.inputChSize.

(* ---- labels ---- *)
(* observable: what the environment did (at its atomic point) and the callback
   boundaries seen by handleCb / redrawCb, the result of Run, and the harness
   marker "the loop is blocked in its select with nothing pending" *)
Inductive obs :=
| EInput (e : N)             (* lp.Input(e) enqueued *)
| ERedraw (f : bool)         (* lp.Redraw(f) *)
| EReturn (r : N)            (* lp.Return(r) *)
| CRedrawStart (f : bool)    (* redrawCb(flag) entered, flag has no finalRedraw bit; f = fullRedraw bit *)
| CRedrawEnd
| CHandleStart (e : N)       (* handleCb(e) entered *)
| CHandleEnd
| CFinalStart (f : bool)     (* redrawCb(flag) entered, flag has the finalRedraw bit; f = fullRedraw bit *)
| CFinalEnd
| CReturned (r : N)          (* Run returned r *)
| OQuiesce                   (* loop blocked: in select, nothing pending, no Redraw call in flight *)
| ERedrawCall (f : bool).    (* lp.Redraw(f) invoked; its two halves follow as internal steps *)

(* internal steps of Run that no callback sees *)
Inductive tau :=
| TExtract      (* extractRedrawFull: read and clear the flag *)
| TSelToken     (* select: case <-lp.redrawCh *)
| TSelReturn    (* select: case ret := <-lp.returnCh *)
| TChkRet       (* after handleCb: non-blocking receive on returnCh *)
| TDrainNo      (* drain select: default (no event ready) -> break *)
| TRFirst (f : bool)  (* an invoked Redraw(f): lock redrawMutex, set redrawFull if f *)
| TRSecond.           (* that call: non-blocking send on redrawCh, unlock *)

Inductive label := Obs (o : obs) | Tau (t : tau).

Inductive pc :=
| PTop                      (* start of the for body *)
| PExtracted (f : bool)     (* flag extracted, redrawCb not yet entered *)
| PRedrawing                (* inside redrawCb *)
| PSelect                   (* at the 3-way select *)
| PHandling                 (* inside handleCb *)
| PAfterHandle              (* at the non-blocking returnCh receive *)
| PDrain                    (* at the non-blocking inputCh receive *)
| PFinal (r : N)            (* return value taken, final redraw not yet entered *)
| PFinalRedrawing (r : N)   (* inside redrawCb(finalRedraw) *)
| PFinalDone (r : N)        (* final redraw finished, Run not yet returned *)
| PReturned (r : N).

(* pendf / pendn: invoked Redraw(true) / Redraw(false) calls that have not yet
   done anything; mid = Some f: a Redraw(f) call is between its two halves *)
Record st := mkSt { inq : list N; tok : bool; full : bool; ret : option N; pcs : pc;
                    pendf : nat; pendn : nat; mid : option bool }.

Definition init : st := mkSt [] false false None PTop 0 0 None.

Definition is_noneb (a : option bool) : bool := match a with None => true | _ => false end.

Definition isnil {A} (l : list A) : bool := match l with [] => true | _ => false end.

(* the loop is at its select and nothing can wake it *)
Definition loop_idle (s : st) : bool :=
  match pcs s with
  | PSelect => isnil (inq s) && negb (tok s) && match ret s with None => true | _ => false end
  | _ => false
  end.

(* ... and no Redraw call is in flight *)
Definition quiescent (s : st) : bool :=
  loop_idle s && Nat.eqb (pendf s) 0 && Nat.eqb (pendn s) 0 && is_noneb (mid s).

(* sw = false: the code (flag first, both halves under the mutex).
   sw = true: the halves swapped (token first without the mutex, then flag). *)
Definition step_ord (sw : bool) (s : st) (l : label) : option st :=
  let '(mkSt q t f r p pf pn md) := s in
  let mk := fun q t f r p => mkSt q t f r p pf pn md in
  match l with
  (* --- environment, enabled in every loop state --- *)
  | Obs (EInput e) => if Nat.ltb (length q) cap then Some (mk (q ++ [e]) t f r p) else None
  | Obs (ERedraw b) => match md with None => Some (mk q true (f || b) r p) | Some _ => None end
  | Obs (ERedrawCall b) =>
      Some (mkSt q t f r p (if b then S pf else pf) (if b then pn else S pn) md)
  | Tau (TRFirst b) =>
      match md with
      | Some _ => None
      | None =>
        let t' := if sw then true else t in
        let f' := if sw then f else f || b in
        if b then match pf with S pf' => Some (mkSt q t' f' r p pf' pn (Some b)) | O => None end
        else match pn with S pn' => Some (mkSt q t' f' r p pf pn' (Some b)) | O => None end
      end
  | Tau TRSecond =>
      match md with
      | Some b => if sw then Some (mkSt q t (f || b) r p pf pn None)
                  else Some (mkSt q true f r p pf pn None)
      | None => None
      end
  | Obs (EReturn x) => Some (mk q t f (match r with None => Some x | _ => r end) p)
  (* --- the loop --- *)
  | Tau TExtract =>
      match p with
      | PTop => if sw || is_noneb md then Some (mk q t false r (PExtracted f)) else None
      | _ => None
      end
  | Obs (CRedrawStart b) =>
      match p with PExtracted b' => if Bool.eqb b b' then Some (mk q t f r PRedrawing) else None | _ => None end
  | Obs CRedrawEnd => match p with PRedrawing => Some (mk q t f r PSelect) | _ => None end
  | Tau TSelToken => match p with PSelect => if t then Some (mk q false f r PTop) else None | _ => None end
  | Tau TSelReturn =>
      match p, r with PSelect, Some x => Some (mk q t f None (PFinal x)) | _, _ => None end
  | Obs (CHandleStart e) =>
      match p, q with
      | PSelect, e' :: q' | PDrain, e' :: q' => if N.eqb e e' then Some (mk q' t f r PHandling) else None
      | _, _ => None
      end
  | Obs CHandleEnd => match p with PHandling => Some (mk q t f r PAfterHandle) | _ => None end
  | Tau TChkRet =>
      match p with
      | PAfterHandle => match r with
                        | Some x => Some (mk q t f None (PFinal x))
                        | None => Some (mk q t f r PDrain)
                        end
      | _ => None
      end
  | Tau TDrainNo => match p, q with PDrain, [] => Some (mk q t f r PTop) | _, _ => None end
  | Obs (CFinalStart b) =>
      match p with PFinal x => if b then None else Some (mk q t f r (PFinalRedrawing x)) | _ => None end
  | Obs CFinalEnd => match p with PFinalRedrawing x => Some (mk q t f r (PFinalDone x)) | _ => None end
  | Obs (CReturned x) =>
      match p with PFinalDone y => if N.eqb x y then Some (mk q t f r (PReturned y)) else None | _ => None end
  | Obs OQuiesce => if quiescent s then Some s else None
  end.

Definition step : st -> label -> option st := step_ord false.

Fixpoint run_ord (sw : bool) (s : st) (ts : list label) : option st :=
  match ts with
  | [] => Some s
  | l :: r => match step_ord sw s l with Some s' => run_ord sw s' r | None => None end
  end.

Fixpoint run (s : st) (ts : list label) : option st :=
  match ts with
  | [] => Some s
  | l :: r => match step s l with Some s' => run s' r | None => None end
  end.

Fixpoint proj (ts : list label) : list obs :=
  match ts with
  | [] => []
  | Obs o :: r => o :: proj r
  | Tau _ :: r => proj r
  end.

(* ------------------------------------------------------------------ *)
(* The oracle: a monitor automaton run over the observable trace.  It states
   exactly the property:
   - callbacks never overlap, and none runs after Run returned;
   - events are handled in the order they were enqueued (each handled event is
     the oldest one not yet handled);
   - whenever the loop is blocked (OQuiesce) every enqueued event has been
     handled, every Redraw request made so far was followed by a redraw that
     started after it, every Redraw(true) by a full one, and no Return is pending;
   - the final redraw happens at most once, after some Return, and Run returns
     the value of the first Return, after exactly one final redraw. *)
Inductive cbk := KNone | KHandle | KRedraw | KFinal.
Definition cbk_eqb (a b : cbk) : bool :=
  match a, b with
  | KNone, KNone | KHandle, KHandle | KRedraw, KRedraw | KFinal, KFinal => true
  | _, _ => false
  end.

Record mon := mkMon {
  m_ok : bool;
  m_acc : list N;         (* enqueued, not yet handled (oldest first) *)
  m_cb : cbk;             (* callback currently running *)
  m_uns : bool;           (* some Redraw request has no redraw start after it *)
  m_unsf : bool;          (* some Redraw(true) has no full redraw start after it *)
  m_first : option N;     (* value of the first Return *)
  m_finals : nat;         (* final redraws started *)
  m_done : bool }.        (* Run has returned *)

Definition mon0 : mon := mkMon true [] KNone false false None 0 false.

Definition opt_eqb (a b : option N) : bool := option_eqb N.eqb a b.
Definition is_none (a : option N) : bool := match a with None => true | _ => false end.

Definition mstep (m : mon) (o : obs) : mon :=
  let '(mkMon ok acc cb uns unsf fst fin dn) := m in
  let idle := cbk_eqb cb KNone && negb dn in
  match o with
  | EInput e => mkMon ok (acc ++ [e]) cb uns unsf fst fin dn
  | ERedraw f | ERedrawCall f => mkMon ok acc cb true (unsf || f) fst fin dn
  | EReturn r => mkMon ok acc cb uns unsf (match fst with None => Some r | _ => fst end) fin dn
  | CRedrawStart f =>
      mkMon (ok && idle && Nat.eqb fin 0) acc KRedraw false (unsf && negb f) fst fin dn
  | CRedrawEnd => mkMon (ok && cbk_eqb cb KRedraw) acc KNone uns unsf fst fin dn
  | CHandleStart e =>
      mkMon (ok && idle && Nat.eqb fin 0 && match acc with e' :: _ => N.eqb e e' | [] => false end)
            (tl acc) KHandle uns unsf fst fin dn
  | CHandleEnd => mkMon (ok && cbk_eqb cb KHandle) acc KNone uns unsf fst fin dn
  | CFinalStart _ =>
      mkMon (ok && idle && Nat.eqb fin 0 && negb (is_none fst)) acc KFinal uns unsf fst (S fin) dn
  | CFinalEnd => mkMon (ok && cbk_eqb cb KFinal) acc KNone uns unsf fst fin dn
  | CReturned r =>
      mkMon (ok && idle && Nat.eqb fin 1 && opt_eqb fst (Some r)) acc cb uns unsf fst fin true
  | OQuiesce =>
      mkMon (ok && idle && Nat.eqb fin 0 && isnil acc && negb uns && negb unsf && is_none fst)
            acc cb uns unsf fst fin dn
  end.

Definition mrun (m : mon) (os : list obs) : mon := fold_left mstep os m.

Definition check_C32 (os : list obs) : bool := m_ok (mrun mon0 os).

(* ------------------------------------------------------------------ *)
(* The acceptor: is the observed trace a behaviour of the model?  Simulates the
   set of model states compatible with the observations so far; before every
   observation the loop may have taken any enabled internal steps. *)
Definition all_taus : list tau :=
  [TExtract; TSelToken; TSelReturn; TChkRet; TDrainNo; TRFirst true; TRFirst false; TRSecond].

Definition tau_succ (s : st) : list st :=
  flat_map (fun t => match step s (Tau t) with Some s' => [s'] | None => [] end) all_taus.

Fixpoint closure (fuel : nat) (s : st) : list st :=
  match fuel with
  | O => [s]
  | S k => s :: flat_map (closure k) (tau_succ s)
  end.

Definition pc_eqb (a b : pc) : bool :=
  match a, b with
  | PTop, PTop | PRedrawing, PRedrawing | PSelect, PSelect | PHandling, PHandling
  | PAfterHandle, PAfterHandle | PDrain, PDrain => true
  | PExtracted x, PExtracted y => Bool.eqb x y
  | PFinal x, PFinal y | PFinalRedrawing x, PFinalRedrawing y
  | PFinalDone x, PFinalDone y | PReturned x, PReturned y => N.eqb x y
  | _, _ => false
  end.

Definition st_eqb (a b : st) : bool :=
  list_eqb N.eqb (inq a) (inq b) && Bool.eqb (tok a) (tok b) && Bool.eqb (full a) (full b)
  && opt_eqb (ret a) (ret b) && pc_eqb (pcs a) (pcs b)
  && Nat.eqb (pendf a) (pendf b) && Nat.eqb (pendn a) (pendn b)
  && option_eqb Bool.eqb (mid a) (mid b).

Fixpoint dedup (l : list st) : list st :=
  match l with
  | [] => []
  | x :: r => if existsb (st_eqb x) r then dedup r else x :: dedup r
  end.

Definition after_obs (cfgs : list st) (o : obs) : list st :=
  dedup (flat_map (fun s =>
           flat_map (fun s' => match step s' (Obs o) with Some s'' => [s''] | None => [] end)
                    (closure 6 s)) cfgs).

Fixpoint accept_from (cfgs : list st) (os : list obs) : bool :=
  match os with
  | [] => negb (isnil cfgs)
  | o :: r => accept_from (after_obs cfgs o) r
  end.

Definition accepts (os : list obs) : bool := accept_from [init] os.

(* ---- correspondence case: the observable trace recorded from the real loop ---- *)
Record case := mkCase { c_obs : list obs }.

Definition judge1 (c : case) : N :=
  code (check_C32 (c_obs c)) (accepts (c_obs c)).

Definition judge := judge_with judge1.
