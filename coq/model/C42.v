(* C42 -- redirections route bytes and values exactly as specified.
   Executable model of forms with redirections (pkg/eval/compile_effect.go:
   formOp.exec, pipelineOp.exec for one- and two-stage pipelines) on top of the
   port table of C42_Ports, in two flavours: [Impl] follows the code including
   its defects, [Spec] is the reference semantics of the language reference
   (left-to-right composition, invalid fds raise, files opened by the form are
   closed when the form finishes and not before).  No proofs here. *)
From verif Require Import lib.Base model.C42_Ports.
Open Scope nat_scope.

(* ---------------------------------------------------------------- programs *)
Inductive cmd :=
| CEcho (s : bytes)        (* echo s        : bytes s, then newline, to port 1 *)
| CPrint (s : bytes)       (* print s       : bytes s to port 1 *)
| CPut (s : bytes)         (* put s         : string value to port 1 *)
| CSlurp                   (* slurp         : read port 0 to EOF, put it as a value *)
| CNop
| CFail                    (* fail x *)
| CBlock (body : list form)  (* { f1; f2; ... } called as a command *)
with form := Form (c : cmd) (rs : list redir).

Inductive prog :=
| PForm (f : form)
| PPipe (w r : form).      (* w | r *)

Definition NLb : bytes := [10%N].

Definition write_value_fl (fl : flavour) (s : st) (c : chan) (v : bytes) : res st :=
  match fl, c with
  | Spec, ChClosedIn => Unmod     (* a value written to an input port: not specified by C42 *)
  | _, _ => write_value s c v
  end.

Definition bind {A B} (r : res A) (k : A -> res B) : res B :=
  match r with Ok a => k a | Exc e s => Exc e s | Crash => Crash | Unmod => Unmod end.

(* pipelineOp.exec's per-form epilogue: signal the writer of the input pipe
   through ports[0], then close what the form owns *)
Definition finish (fl : flavour) (pin : option nat) (x : fstate) (r : res st) : res st :=
  let sig_ok :=
    match fl, pin with
    | Impl, Some j =>
      (* DEFECT: *newFm.ports[0].sendError / close(sendStop) on whatever port 0
         is now; only the original pipe port survives that *)
      match tget (fs_T x) 0 with
      | Some p => chan_eqb (p_chan p) (ChPipe j)
      | None => false
      end
    | _, _ => true
    end in
  match r with
  | Ok s => if sig_ok then Ok (form_end x s) else Crash
  | Exc k s => if sig_ok then Exc k (form_end x s) else Crash
  | Crash => Crash
  | Unmod => Unmod
  end.

Section Run.
Variable fl : flavour.
Variable objs : list obj.

Fixpoint run_form (fuel : nat) (T : table) (F0 : list fop) (pin : option nat) (f : form) (s : st)
  {struct fuel} : res st :=
  match fuel with
  | O => Unmod
  | S fuel' =>
    let '(Form c rs) := f in
    match exec_redirs fl objs (mkFs T F0 s []) rs with
    | RCrash => Crash
    | RExc k x => finish fl pin x (Exc k (fs_st x))
    | ROk x =>
      let T' := fs_T x in
      let s1 := fs_st x in
      let out := tget T' 1 in
      let r :=
        match c with
        | CNop => Ok s1
        | CFail => Exc EFail s1
        | CEcho b =>
          match out with
          | None => Unmod
          | Some p => bind (write_bytes s1 (p_file p) b) (fun s2 => write_bytes s2 (p_file p) NLb)
          end
        | CPrint b =>
          match out with None => Unmod | Some p => write_bytes s1 (p_file p) b end
        | CPut v =>
          match out with None => Unmod | Some p => write_value_fl fl s1 (p_chan p) v end
        | CSlurp =>
          match tget T' 0, out with
          | Some pi, Some po =>
            bind (read_all s1 (p_file pi)) (fun bs => write_value_fl fl (snd bs) (p_chan po) (fst bs))
          | _, _ => Unmod
          end
        | CBlock body =>
          (fix run_forms (fs : list form) (s : st) {struct fs} : res st :=
             match fs with
             | [] => Ok s
             | g :: rest => bind (run_form fuel' T' [] None g s) (run_forms rest)
             end) body s1
        end in
      finish fl pin x r
    end
  end.

Definition run_prog (fuel : nat) (T : table) (p : prog) (s : st) : res st :=
  match p with
  | PForm f => run_form fuel T [] None f s
  | PPipe w r =>
    (* os.Pipe + channel; the writer form runs in its own goroutine *)
    let j := length (s_pipes s) in
    let s0 := set_pipes s (s_pipes s ++ [mkPipe [] true true]) in
    let s0 := set_led s0 (led_spawn 1 (led_popen (s_led s0))) in
    let Tw := list_upd T 1 (Some (mkPort (Some (HPipeW j)) (ChPipe j))) in
    let Tr := list_upd T 0 (Some (mkPort (Some (HPipeR j)) (ChPipe j))) in
    let join s := set_led s (led_join 1 (s_led s)) in
    match run_form fuel Tw [fop0; mkFop true true] None w s0 with
    | Crash => Crash | Unmod => Unmod
    | Ok s1 =>
      match run_form fuel Tr [mkFop true false] (Some j) r s1 with
      | Ok s2 => Ok (join s2) | Exc k s2 => Exc k (join s2) | Crash => Crash | Unmod => Unmod
      end
    | Exc kw s1 =>
      match run_form fuel Tr [mkFop true false] (Some j) r s1 with
      | Ok s2 => Exc kw (join s2) | Exc _ s2 => Exc EMulti (join s2) | Crash => Crash | Unmod => Unmod
      end
    end
  end.
End Run.

(* ---------------------------------------------------------------- the environment *)
Inductive ospec :=
| OsIn (p : nat)      (* file:open f_p          *)
| OsOut (p : nat)     (* file:open-output f_p   *)
| OsPipe              (* file:pipe              *)
| OsMapEmpty.         (* [&]                    *)

Fixpoint build_env (specs : list ospec) (s : st) : list obj * st :=
  match specs with
  | [] => ([], s)
  | sp :: rest =>
    let '(o, s1) :=
      match sp with
      | OsIn p =>
        match open_file s p (mkFlag true false false false false) with
        | Some (i, s') => (OFile (HOfd i), s')
        | None => (OMap None None, s)
        end
      | OsOut p =>
        match open_file s p (mkFlag false true true true false) with
        | Some (i, s') => (OFile (HOfd i), s')
        | None => (OMap None None, s)
        end
      | OsPipe =>
        let j := length (s_pipes s) in
        let s' := set_pipes s (s_pipes s ++ [mkPipe [] true true]) in
        (OMap (Some (HPipeR j)) (Some (HPipeW j)), set_led s' (led_popen (s_led s')))
      | OsMapEmpty => (OMap None None, s)
      end in
    let '(os, s2) := build_env rest s1 in
    (o :: os, s2)
  end.

(* initial table: port 0 = dummy input, port 1/2 = sinks 0/1, then the extra
   ports (Some k: a sink port, None: a nil entry) *)
Definition sink_port (k : nat) : port := mkPort (Some (HSink k)) (ChVal k).
Definition init_table (extra : list (option nat)) : table :=
  Some (mkPort (Some HNull) ChClosedIn) :: Some (sink_port 0) :: Some (sink_port 1)
  :: map (fun e => match e with Some k => Some (sink_port k) | None => None end) extra.

(* ---------------------------------------------------------------- observations *)
Record obs := mkObs {
  ob_crash : bool;                 (* the process died (Go panic) *)
  ob_exc : option ekind;           (* kind of the exception Eval returned *)
  ob_fs : list (option bytes);     (* final file contents, by path number *)
  ob_bs : list bytes;              (* bytes received by each sink *)
  ob_vs : list (list bytes);       (* values received by each sink *)
  ob_pipes : list bytes;           (* bytes left in each environment pipe *)
  ob_fd_delta : Z }.               (* descriptors open after the program - before it *)

Definition nsinks (extra : list (option nat)) : nat :=
  2 + length (filter (fun e => match e with Some _ => true | None => false end) extra).

Definition pad_fs (n : nat) (fs : list (option bytes)) : list (option bytes) :=
  fs ++ repeat None (n - length fs).

(* run a program from scratch and project the observables *)
Definition observe (fl : flavour) (fs0 : list (option bytes)) (env : list ospec)
    (extra : list (option nat)) (p : prog) : option obs :=
  let n := nsinks extra in
  let s0 := mkSt fs0 [] [] (repeat [] n) (repeat [] n) led0 false in
  let '(objs, s1) := build_env env s0 in
  let npipes := length (s_pipes s1) in
  let mk exc s :=
    Some (mkObs false exc (s_fs s) (s_bs s) (s_vs s) (map pi_buf (firstn npipes (s_pipes s)))
               (Z.of_nat (live_fds s) - Z.of_nat (live_fds s1))%Z) in
  match run_prog fl objs 64 (init_table extra) p s1 with
  | Ok s => mk None s
  | Exc k s => mk (Some k) s
  | Crash => Some (mkObs true None [] [] [] [] 0%Z)
  | Unmod => None
  end.

Definition fs_eqb (a b : list (option bytes)) : bool :=
  let n := Nat.max (length a) (length b) in
  list_eqb (option_eqb bytes_eqb) (pad_fs n a) (pad_fs n b).

(* ---------------------------------------------------------------- oracle *)
(* The property on observables: no crash; an exception exactly when the
   reference semantics raises one; bytes and values where the left-to-right
   composition of the redirections puts them; no descriptor left behind. *)
Definition check_C42 (fs0 : list (option bytes)) (env : list ospec) (extra : list (option nat))
    (p : prog) (o : obs) : bool :=
  match observe Spec fs0 env extra p with
  | None => true       (* the reference semantics leaves this program unspecified *)
  | Some e =>
    negb (ob_crash o)
    && Bool.eqb (match ob_exc o with Some _ => true | None => false end)
                (match ob_exc e with Some _ => true | None => false end)
    && fs_eqb (ob_fs o) (ob_fs e)
    && list_eqb bytes_eqb (ob_bs o) (ob_bs e)
    && list_eqb (list_eqb bytes_eqb) (ob_vs o) (ob_vs e)
    && list_eqb bytes_eqb (ob_pipes o) (ob_pipes e)
    && Z.eqb (ob_fd_delta o) 0
  end.

(* full comparison with the faithful model *)
Definition obs_eqb (a b : obs) : bool :=
  if ob_crash a || ob_crash b then Bool.eqb (ob_crash a) (ob_crash b)
  else option_eqb ekind_eqb (ob_exc a) (ob_exc b)
       && fs_eqb (ob_fs a) (ob_fs b)
       && list_eqb bytes_eqb (ob_bs a) (ob_bs b)
       && list_eqb (list_eqb bytes_eqb) (ob_vs a) (ob_vs b)
       && list_eqb bytes_eqb (ob_pipes a) (ob_pipes b)
       && Z.eqb (ob_fd_delta a) (ob_fd_delta b).

Record case := mkCase {
  c_fs : list (option bytes);
  c_env : list ospec;
  c_extra : list (option nat);
  c_prog : prog;
  c_flags : list oflag;      (* eval.makeFlag for Read, Write, Append, ReadWrite as observed *)
  c_obs : obs }.

Definition all_modes : list mode := [MRead; MWrite; MAppend; MRdWr].

Definition judge1 (c : case) : N :=
  let corr :=
    list_eqb oflag_eqb (c_flags c) (map makeFlag all_modes)
    && match observe Impl (c_fs c) (c_env c) (c_extra c) (c_prog c) with
       | Some m => obs_eqb m (c_obs c)
       | None => false
       end in
  code (check_C42 (c_fs c) (c_env c) (c_extra c) (c_prog c) (c_obs c)) corr.

Definition judge := judge_with judge1.
