(* C15 — operations on values used by the reference interpreter: equality,
   truthiness, number syntax, indexing, assoc/dissoc, concatenation
   (executable, no proofs).  Written from website/ref/language.md sections
   "Value types", "Indexing", "Compounding" and the `set`/`del` sections. *)
From verif Require Import lib.Base model.C15_Syntax.
Open Scope N_scope.

(* result of a pure value operation *)
Inductive pres (A : Type) :=
| POk (a : A)
| PErr (k : exkind)
| PUnsup.
Arguments POk {A} a.
Arguments PErr {A} k.
Arguments PUnsup {A}.

Definition pbind {A B} (r : pres A) (k : A -> pres B) : pres B :=
  match r with POk a => k a | PErr e => PErr e | PUnsup => PUnsup end.

Definition exkind_eqb (a b : exkind) : bool :=
  match a, b with
  | KFail, KFail | KBreak, KBreak | KContinue, KContinue | KReturn, KReturn
  | KArity, KArity | KRange, KRange | KNoKey, KNoKey | KBadValue, KBadValue
  | KConcat, KConcat | KBadOpt, KBadOpt | KArgType, KArgType | KPipe, KPipe
  | KOther, KOther => true
  | _, _ => false
  end.

(* Structural equality.  [opq] = true: a closure on the left matches VOpaque on
   the right (model value against observed value). *)
Fixpoint veq (opq : bool) (a b : value) {struct a} : bool :=
  match a, b with
  | VStr x, VStr y => bytes_eqb x y
  | VNum x, VNum y => Z.eqb x y
  | VBool x, VBool y => Bool.eqb x y
  | VNil, VNil => true
  | VOk, VOk => true
  | VList la, VList lb =>
    (fix go (la lb : list value) : bool :=
       match la, lb with
       | [], [] => true
       | x :: la', y :: lb' => veq opq x y && go la' lb'
       | _, _ => false
       end) la lb
  | VMap ma, VMap mb =>
    Nat.eqb (length ma) (length mb) &&
    (fix all (ma : list (value * value)) : bool :=
       match ma with
       | [] => true
       | (k, v) :: r =>
         (fix find (mb : list (value * value)) : bool :=
            match mb with
            | [] => false
            | (k', v') :: r' => (veq opq k k' && veq opq v v') || find r'
            end) mb && all r
       end) ma
  | VExc k p, VExc k' p' =>
    exkind_eqb k k' &&
    (fix go (la lb : list value) : bool :=
       match la, lb with
       | [] , [] => true
       | x :: la', y :: lb' => veq opq x y && go la' lb'
       | _, _ => false
       end) p p'
  | VClos _ _ _ _ _ _, VOpaque => opq
  | _, _ => false
  end.

Definition value_eqb := veq false.     (* Elvish eq on plain values *)
Definition val_match := veq true.      (* model value vs observed value *)

Fixpoint vals_match (a b : list value) : bool :=
  match a, b with
  | [], [] => true
  | x :: a', y :: b' => val_match x y && vals_match a' b'
  | _, _ => false
  end.

(* plain = built from strings, numbers, booleans, nil, lists and maps only;
   eq / map keys on anything else is identity-based in Elvish and not modelled *)
Fixpoint plain (v : value) : bool :=
  match v with
  | VStr _ | VNum _ | VBool _ | VNil | VOk => true
  | VList l => (fix go (l : list value) := match l with [] => true | x :: r => plain x && go r end) l
  | VMap m => (fix go (m : list (value * value)) :=
                 match m with [] => true | (k, v) :: r => plain k && plain v && go r end) m
  | _ => false
  end.

(* booleanly true? ($nil, $false and exceptions are false) *)
Definition truthy (v : value) : bool :=
  match v with
  | VBool b => b
  | VNil => false
  | VExc _ _ => false
  | _ => true
  end.

(* ---- number syntax ---- *)
Definition is_digit (c : N) : bool := (48 <=? c) && (c <=? 57).

Fixpoint all_digits (s : bytes) : bool :=
  match s with [] => true | c :: r => is_digit c && all_digits r end.

Fixpoint dec_value (acc : Z) (s : bytes) : Z :=
  match s with [] => acc | c :: r => dec_value (10 * acc + Z.of_N (c - 48))%Z r end.

(* sign and rest *)
Definition split_sign (s : bytes) : bool * bytes :=
  match s with
  | 45 :: r => (true, r)       (* - *)
  | 43 :: r => (false, r)      (* + *)
  | _ => (false, s)
  end.

(* strconv.Atoi: optional sign, decimal digits (leading zeros allowed) *)
Definition parse_int (s : bytes) : option Z :=
  let '(neg, d) := split_sign s in
  match d with
  | [] => None
  | _ => if all_digits d then Some (if neg then (- dec_value 0 d)%Z else dec_value 0 d) else None
  end.

(* Elvish number from a string: canonical decimal integers are modelled; other
   numeric syntaxes (hex, octal with leading zero, underscores, floats,
   rationals, Inf, NaN) are outside the modelled subset. *)
Definition parse_num (s : bytes) : pres Z :=
  let '(neg, d) := split_sign s in
  match d with
  | [] => PErr KArgType
  | c :: r =>
    if is_digit c then
      if all_digits r && (negb (N.eqb c 48) || match r with [] => true | _ => false end)
      then POk (if neg then (- dec_value 0 d)%Z else dec_value 0 d)
      else PUnsup
    else if N.eqb c 46 || N.eqb c 73 || N.eqb c 105 || N.eqb c 78 || N.eqb c 110
    then PUnsup       (* . I i N n : may be a float, Inf or NaN *)
    else PErr KArgType
  end.

Definition to_num (v : value) : pres Z :=
  match v with
  | VNum z => POk z
  | VStr s => parse_num s
  | _ => PErr KArgType
  end.

(* decimal printing *)
Fixpoint dec_digits (fuel : nat) (n : N) (acc : bytes) : bytes :=
  match fuel with
  | O => acc
  | S f => let acc' := (48 + N.modulo n 10) :: acc in
           if n <? 10 then acc' else dec_digits f (N.div n 10) acc'
  end.
Definition N_to_dec (n : N) : bytes := dec_digits (S (N.to_nat (N.log2 n))) n [].
Definition Z_to_dec (z : Z) : bytes :=
  if (z <? 0)%Z then 45 :: N_to_dec (Z.to_N (- z)) else N_to_dec (Z.to_N z).

(* string form used by compounding *)
Definition to_str (v : value) : option bytes :=
  match v with
  | VStr s => Some s
  | VNum z => Some (Z_to_dec z)
  | _ => None
  end.

Definition concat2 (a b : value) : pres value :=
  match to_str a, to_str b with
  | Some x, Some y => POk (VStr (x ++ y))
  | _, _ =>
    match a, b with
    | VOpaque, _ | _, VOpaque => PUnsup
    | _, _ => PErr KConcat
    end
  end.

(* ---- list indices ---- *)
Definition int_min : Z := (- 9223372036854775808)%Z.
Definition int_max : Z := 9223372036854775807%Z.
Definition fits_int (z : Z) : bool := (int_min <=? z)%Z && (z <=? int_max)%Z.

(* adjustAndCheckIndex *)
Definition adjust_index (i : Z) (n : nat) (include_n : bool) : pres nat :=
  let zn := Z.of_nat n in
  if (i <? 0)%Z then
    if (i <? - zn)%Z then PErr KRange else POk (Z.to_nat (i + zn))
  else if include_n then
    if (zn <? i)%Z then PErr KRange else POk (Z.to_nat i)
  else
    if (zn <=? i)%Z then PErr KRange else POk (Z.to_nat i).

(* position of the first ".." in a string *)
Fixpoint find_dotdot (s : bytes) (pre : bytes) : option (bytes * bytes) :=
  match s with
  | 46 :: ((46 :: r) as t) => Some (rev pre, r)
  | c :: r => find_dotdot r (c :: pre)
  | [] => None
  end.

Inductive list_index := IxAt (i : nat) | IxSlice (lo hi : nat).

Definition atoi (s : bytes) : pres Z :=
  match parse_int s with
  | Some z => if fits_int z then POk z else PErr KRange
  | None => PErr KOther         (* index must be integer *)
  end.

Definition convert_list_index (ix : value) (n : nat) : pres list_index :=
  match ix with
  | VNum z => if fits_int z then pbind (adjust_index z n false) (fun i => POk (IxAt i))
              else PErr KOther
  | VStr s =>
    match find_dotdot s [] with
    | None => pbind (atoi s) (fun z => pbind (adjust_index z n false) (fun i => POk (IxAt i)))
    | Some (lo, hi0) =>
      let '(incl, hi) := match hi0 with 61 :: r => (true, r) | _ => (false, hi0) end in
      pbind (match lo with [] => POk 0%Z | _ => atoi lo end) (fun i =>
      pbind (match hi with
             | [] => POk (Z.of_nat n)
             | _ => pbind (atoi hi) (fun j =>
                      POk (if incl then (if (j =? -1)%Z then Z.of_nat n else j + 1)%Z else j))
             end) (fun j =>
      pbind (adjust_index i n true) (fun i' =>
      pbind (adjust_index j n true) (fun j' =>
      if Nat.ltb j' i' then PErr KRange else POk (IxSlice i' j')))))
    end
  | _ => PErr KOther
  end.

(* ---- maps ---- *)
Fixpoint map_get (m : list (value * value)) (k : value) : option value :=
  match m with
  | [] => None
  | (k', v) :: r => if value_eqb k k' then Some v else map_get r k
  end.

Fixpoint map_assoc (m : list (value * value)) (k v : value) : list (value * value) :=
  match m with
  | [] => [(k, v)]
  | (k', v') :: r => if value_eqb k k' then (k', v) :: r else (k', v') :: map_assoc r k v
  end.

Fixpoint map_dissoc (m : list (value * value)) (k : value) : list (value * value) :=
  match m with
  | [] => []
  | (k', v') :: r => if value_eqb k k' then r else (k', v') :: map_dissoc r k
  end.

Definition ascii_only (s : bytes) : bool := forallb (fun c => c <? 128) s.

(* ---- indexing: container[index] ---- *)
Definition index_value (c ix : value) : pres value :=
  match c with
  | VList l =>
    pbind (convert_list_index ix (length l)) (fun li =>
      match li with
      | IxAt i => match nth_error l i with Some v => POk v | None => PErr KRange end
      | IxSlice lo hi => POk (VList (firstn (hi - lo) (skipn lo l)))
      end)
  | VMap m =>
    if plain ix then match map_get m ix with Some v => POk v | None => PErr KNoKey end
    else PUnsup
  | VStr _ => PUnsup                 (* string indexing: "will likely change" *)
  | VExc _ _ | VClos _ _ _ _ _ _ | VOpaque => PUnsup     (* pseudo-maps *)
  | VNum _ | VBool _ | VNil | VOk => PErr KOther         (* not indexable *)
  end.

(* assoc: container with [index] replaced by v *)
Definition assoc_value (c ix v : value) : pres value :=
  match c with
  | VList l =>
    pbind (convert_list_index ix (length l)) (fun li =>
      match li with
      | IxAt i => POk (VList (upd_nth l i v))
      | IxSlice _ _ => PErr KOther          (* assoc with slice not yet supported *)
      end)
  | VMap m => if plain ix then POk (VMap (map_assoc m ix v)) else PUnsup
  | VStr _ | VExc _ _ | VClos _ _ _ _ _ _ | VOpaque => PUnsup
  | VNum _ | VBool _ | VNil | VOk => PErr KOther         (* assoc is not supported *)
  end.

(* dissoc: only maps support element removal *)
Definition dissoc_value (c ix : value) : pres value :=
  match c with
  | VMap m => if plain ix then POk (VMap (map_dissoc m ix)) else PUnsup
  | VExc _ _ | VClos _ _ _ _ _ _ | VOpaque => PUnsup
  | _ => PErr KOther
  end.

(* `set x[i1]...[in] = v`: the new value of x is
   assoc x i1 (assoc x[i1] i2 (... (assoc x[i1]...[i(n-1)] in v))) *)
Fixpoint nested_assoc (c : value) (ixs : list value) (v : value) : pres value :=
  match ixs with
  | [] => POk v
  | [i] => assoc_value c i v
  | i :: r =>
    pbind (index_value c i) (fun sub =>
    pbind (nested_assoc sub r v) (fun sub' =>
    assoc_value c i sub'))
  end.

(* `del x[i1]...[in]` *)
Fixpoint nested_dissoc (c : value) (ixs : list value) : pres value :=
  match ixs with
  | [] => PUnsup
  | [i] => dissoc_value c i
  | i :: r =>
    pbind (index_value c i) (fun sub =>
    pbind (nested_dissoc sub r) (fun sub' =>
    assoc_value c i sub'))
  end.

(* the checks MakeElement performs when the left-hand side is evaluated:
   every prefix of the index path except the last must be indexable *)
Fixpoint check_path (c : value) (ixs : list value) : pres unit :=
  match ixs with
  | [] | [_] => POk tt
  | i :: r => pbind (index_value c i) (fun sub => check_path sub r)
  end.

(* iterate a value: list elements, or the characters of an ASCII string *)
Definition iterate_value (v : value) : pres (list value) :=
  match v with
  | VList l => POk l
  | VStr s => if ascii_only s then POk (map (fun c => VStr [c]) s) else PUnsup
  | VOpaque | VExc _ _ | VClos _ _ _ _ _ _ => PUnsup
  | _ => PErr KOther      (* maps, numbers, booleans, nil cannot be iterated *)
  end.
