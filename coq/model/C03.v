(* C03 — model of pkg/parse/quote.go (Quote, QuoteAs, QuoteVariableName,
   QuoteCommandName, quoteSingle, quoteDouble, rtohex) and of exactly the
   string-literal part of the parser in pkg/parse/parse.go (Compound.parse,
   Compound.tilde, Indexing.parse as far as (is there an index), Primary.parse
   for barewords, single-quoted and double-quoted strings with every escape
   form, Primary.variable), plus the one-line evaluation of such a word
   (pkg/eval/compile_value.go: compoundOp/primaryOp -> literalValues).
   Executable Gallina only; the proofs are in proofs/C03_proofs.v.

   Go's Unicode table unicode.IsPrint is a Section variable [is_print]; all
   theorems hold for every table.  For execution the harness passes, in each
   case, the classification of every non-ASCII rune that the case touches
   ([mk_is_print]); the ASCII part is fixed here and compared with Go by the
   [KAscii] case.

   Errors: the Go parser records an error and continues; the model stops at
   the first error ([RdErr]/[CErr]).  Only (there was an error) is observed.
   Constructs outside the model (wildcards, captures, lists, maps, braces,
   indexing) give [COther], on which the judge abstains. *)
From verif Require Import lib.Base lib.Utf8.
Open Scope N_scope.

(* PrimaryType (the part used here) and ExprCtx *)
Inductive ptype := TBare | TSingle | TDouble | TVar | TTilde.
Inductive ectx := CNormal | CCmd | CLHS | CBraced | CStrict.

Definition ptype_eqb (a b : ptype) : bool :=
  match a, b with
  | TBare, TBare | TSingle, TSingle | TDouble, TDouble | TVar, TVar | TTilde, TTilde => true
  | _, _ => false
  end.

(* ASCII codes used below *)
Definition cQUOTE : N := 39.     (* single quote *)
Definition cDQUOTE : N := 34.    (* double quote *)
Definition cBSLASH : N := 92.    (* \ *)
Definition cDOLLAR : N := 36.    (* $ *)
Definition cTILDE : N := 126.    (* ~ *)
Definition cLBRACKET : N := 91.  (* [ *)
Definition cAT : N := 64.        (* @ *)

(* ------------------------------------------------------------------ *)
(* the input cut into (rune, raw bytes) the way utf8.DecodeRuneInString /
   a range loop over s walk it; fuel = length of the input *)
Fixpoint chunks_fuel (fuel : nat) (s : bytes) : list (N * bytes) :=
  match fuel with
  | O => []
  | S f =>
    match s with
    | [] => []
    | _ => let '(r, w) := decode_rune s in (r, firstn w s) :: chunks_fuel f (skipn w s)
    end
  end.
Definition chunks (s : bytes) : list (N * bytes) := chunks_fuel (length s) s.

(* rtohex(r, w): w lower-case hex digits, most significant first *)
Definition hex_digit (d : N) : N := if d <=? 9 then 48 + d else 97 + d - 10.
Fixpoint rtohex (r : N) (w : nat) : bytes :=
  match w with
  | O => []
  | S w' => rtohex (r / 16) w' ++ [hex_digit (r mod 16)]
  end.

(* doubleEscape: letter after the backslash -> rune *)
Definition double_escape (c : N) : option N :=
  if c =? 97 then Some 7          (* a -> \a *)
  else if c =? 98 then Some 8     (* b *)
  else if c =? 102 then Some 12   (* f *)
  else if c =? 110 then Some 10   (* n *)
  else if c =? 114 then Some 13   (* r *)
  else if c =? 116 then Some 9    (* t *)
  else if c =? 118 then Some 11   (* v *)
  else if c =? 92 then Some 92    (* \ *)
  else if c =? 34 then Some 34    (* double quote *)
  else if c =? 101 then Some 27   (* e -> ESC *)
  else None.

(* doubleUnescape: the inverse table built by init() *)
Definition double_unescape (r : N) : option N :=
  if r =? 7 then Some 97
  else if r =? 8 then Some 98
  else if r =? 12 then Some 102
  else if r =? 10 then Some 110
  else if r =? 13 then Some 114
  else if r =? 9 then Some 116
  else if r =? 11 then Some 118
  else if r =? 92 then Some 92
  else if r =? 34 then Some 34
  else if r =? 27 then Some 101
  else None.

(* hexToDigit *)
Definition hex_to_digit (r : N) : option N :=
  if (48 <=? r) && (r <=? 57) then Some (r - 48)
  else if (97 <=? r) && (r <=? 102) then Some (r - 97 + 10)
  else if (65 <=? r) && (r <=? 70) then Some (r - 65 + 10)
  else None.

(* parser.peek / parser.next on the remaining input; None = eof *)
Definition peek (src : bytes) : option N :=
  match src with [] => None | _ => Some (fst (decode_rune src)) end.
Definition next (src : bytes) : option N * bytes :=
  match src with
  | [] => (None, [])
  | _ => let '(r, w) := decode_rune src in (Some r, skipn w src)
  end.
(* ps.peek() == c *)
Definition peek_is (src : bytes) (c : N) : bool :=
  match peek src with Some r => r =? c | None => false end.

Section WithTable.
Variable is_print : N -> bool.     (* unicode.IsPrint *)

(* allowedInVariableName *)
Definition allowed_in_varname (r : N) : bool :=
  ((128 <=? r) && is_print r)
  || ((48 <=? r) && (r <=? 57))
  || ((97 <=? r) && (r <=? 122))
  || ((65 <=? r) && (r <=? 90))
  || (r =? 45) || (r =? 95) || (r =? 58) || (r =? 126).   (* - _ : ~ *)

Definition ctx_is (a b : ectx) : bool :=
  match a, b with
  | CNormal, CNormal | CCmd, CCmd | CLHS, CLHS | CBraced, CBraced | CStrict, CStrict => true
  | _, _ => false
  end.

(* allowedInBareword *)
Definition allowed_in_bareword (r : N) (ctx : ectx) : bool :=
  allowed_in_varname r
  || (r =? 46) || (r =? 47) || (r =? 92) || (r =? 64) || (r =? 37) || (r =? 43) || (r =? 33)  (* . / \ @ % + ! *)
  || (negb (ctx_is ctx CLHS) && negb (ctx_is ctx CStrict) && (r =? 61))        (* = *)
  || (negb (ctx_is ctx CBraced) && negb (ctx_is ctx CStrict) && (r =? 44))     (* , *)
  || (ctx_is ctx CCmd && ((r =? 60) || (r =? 62) || (r =? 42) || (r =? 94))).  (* < > * ^ *)

(* startsPrimary = startsIndexing = startsCompound *)
Definition starts_primary (r : N) (ctx : ectx) : bool :=
  (r =? 39) || (r =? 34) || (r =? 36) || allowed_in_bareword r ctx
  || (r =? 63) || (r =? 42) || (r =? 40) || (r =? 91) || (r =? 123).   (* ? * ( [ { *)

(* ---------------------------- quote.go ---------------------------- *)

(* quoteSingle: every rune re-encoded (buf.WriteRune), quotes doubled *)
Definition sq_piece (c : N * bytes) : bytes :=
  let r := fst c in
  if r =? 39 then encode_rune r ++ [39] else encode_rune r.
Definition quote_single (s : bytes) : bytes :=
  39 :: flat_map sq_piece (chunks s) ++ [39].

(* quoteDouble, one loop iteration *)
Definition dq_piece (c : N * bytes) : bytes :=
  let '(r, raw) := c in
  if (r =? RuneError) && Nat.eqb (length raw) 1 then
    92 :: 120 :: rtohex (hd 0 raw) 2                    (* \xNN for an invalid byte *)
  else match double_unescape r with
  | Some e => 92 :: encode_rune e
  | None =>
    if is_print r && negb (r =? RuneError) then encode_rune r
    else if r <=? 127 then 92 :: 120 :: rtohex r 2       (* \xNN *)
    else if r <=? 65535 then 92 :: 117 :: rtohex r 4     (* \uNNNN *)
    else 92 :: 85 :: rtohex r 8                          (* \UNNNNNNNN *)
  end.
Definition quote_double (s : bytes) : bytes :=
  34 :: flat_map dq_piece (chunks s) ++ [34].

(* the range loop shared by quoteAs and QuoteVariableName: None when a rune is
   U+FFFD or unprintable (early return quoteDouble), else Some bare where bare
   says whether all runes satisfy [ok] *)
Fixpoint scan (ok : N -> bool) (cs : list (N * bytes)) (bare : bool) : option bool :=
  match cs with
  | [] => Some bare
  | (r, _) :: cs' =>
    if (r =? RuneError) || negb (is_print r) then None
    else scan ok cs' (bare && ok r)
  end.

(* quoteAs(s, q, ctx) *)
Definition quote_as (s : bytes) (q : ptype) (ctx : ectx) : bytes * ptype :=
  match q with
  | TDouble => (quote_double s, TDouble)
  | _ =>
    match s with
    | [] => ([39; 39], TSingle)
    | b0 :: _ =>
      match scan (fun r => allowed_in_bareword r ctx) (chunks s) (negb (b0 =? 126)) with
      | None => (quote_double s, TDouble)
      | Some bare =>
        if ptype_eqb q TBare && bare then (s, TBare) else (quote_single s, TSingle)
      end
    end
  end.

Definition QuoteAs (s : bytes) (q : ptype) : bytes * ptype := quote_as s q CStrict.
Definition Quote (s : bytes) : bytes := fst (QuoteAs s TBare).
Definition QuoteCommandName (s : bytes) : bytes := fst (quote_as s TBare CCmd).
Definition QuoteVariableName (s : bytes) : bytes :=
  match s with
  | [] => [39; 39]
  | _ =>
    match scan allowed_in_varname (chunks s) true with
    | None => quote_double s
    | Some bare => if bare then s else quote_single s
    end
  end.

(* ---------------------------- parse.go ---------------------------- *)

Inductive rd :=
| RdOk (val rest : bytes)
| RdErr                      (* a parse error was recorded *)
| RdFuel.

(* singleQuotedInner: after the opening quote; one fuel unit per loop iteration *)
Fixpoint read_sq (fuel : nat) (src acc : bytes) : rd :=
  match fuel with
  | O => RdFuel
  | S f =>
    match next src with
    | (None, _) => RdErr                                    (* errStringUnterminated *)
    | (Some r, src1) =>
      if r =? 39 then
        if peek_is src1 39 then read_sq f (snd (next src1)) (acc ++ [39])
        else RdOk acc src1
      else read_sq f src1 (acc ++ encode_rune r)             (* buf.WriteRune(r) *)
    end
  end.

(* n hex digits read with next(); None = errInvalidEscapeHex *)
Fixpoint read_hex (n : nat) (src : bytes) (rr : N) : option (N * bytes) :=
  match n with
  | O => Some (rr, src)
  | S n' =>
    match next src with
    | (Some r, src1) =>
      match hex_to_digit r with
      | Some d => read_hex n' src1 (rr * 16 + d)
      | None => None
      end
    | (None, _) => None
    end
  end.

Definition is_oct (r : N) : bool := (48 <=? r) && (r <=? 55).

(* the escape after a backslash: Some (bytes appended, rest) or None on error *)
Definition read_escape (src : bytes) : option (bytes * bytes) :=
  match next src with
  | (None, _) => None                                        (* errInvalidEscape at eof *)
  | (Some c, src1) =>
    if (c =? 99) || (c =? 94) then                           (* \c? \^? control sequence *)
      match next src1 with
      | (None, _) => None
      | (Some r, src2) =>
        if (r <? 63) || (95 <? r) then None                  (* errInvalidEscapeControl *)
        else if r =? 63 then Some ([127], src2)
        else Some ([r - 64], src2)
      end
    else if c =? 120 then                                    (* \xNN: one byte *)
      match read_hex 2 src1 0 with
      | Some (rr, src2) => Some ([rr mod 256], src2)
      | None => None
      end
    else if c =? 117 then                                    (* \uNNNN: WriteRune *)
      match read_hex 4 src1 0 with
      | Some (rr, src2) => Some (encode_rune rr, src2)
      | None => None
      end
    else if c =? 85 then                                     (* \UNNNNNNNN: WriteRune; a value
        that does not fit a rune (int32 wrap) is written as U+FFFD, as is any invalid rune *)
      match read_hex 8 src1 0 with
      | Some (rr, src2) => Some (encode_rune rr, src2)
      | None => None
      end
    else if is_oct c then                                    (* three octal digits *)
      match next src1 with
      | (Some r1, src2) =>
        if negb (is_oct r1) then None else
        match next src2 with
        | (Some r2, src3) =>
          if negb (is_oct r2) then None else
          let rr := ((c - 48) * 8 + (r1 - 48)) * 8 + (r2 - 48) in
          if rr <=? 255 then Some ([rr], src3) else None     (* errInvalidEscapeOctOverflow *)
        | (None, _) => None
        end
      | (None, _) => None
      end
    else match double_escape c with
    | Some rr => Some (encode_rune rr, src1)
    | None => None                                           (* errInvalidEscape *)
    end
  end.

(* doubleQuotedInner: after the opening quote *)
Fixpoint read_dq (fuel : nat) (src acc : bytes) : rd :=
  match fuel with
  | O => RdFuel
  | S f =>
    match next src with
    | (None, _) => RdErr                                    (* errStringUnterminated *)
    | (Some r, src1) =>
      if r =? 34 then RdOk acc src1
      else if r =? 92 then
        match read_escape src1 with
        | Some (bs, src2) => read_dq f src2 (acc ++ bs)
        | None => RdErr
        end
      else read_dq f src1 (acc ++ encode_rune r)
    end
  end.

(* the loop [for ok(ps.peek()) { ps.next() }]: (consumed raw bytes, rest) *)
Fixpoint take_while (fuel : nat) (ok : N -> bool) (src : bytes) : bytes * bytes :=
  match fuel with
  | O => ([], src)
  | S f =>
    match src with
    | [] => ([], src)
    | _ =>
      let '(r, w) := decode_rune src in
      if ok r then
        let '(v, rest) := take_while f ok (skipn w src) in (firstn w src ++ v, rest)
      else ([], src)
    end
  end.

(* Primary.variable: after the dollar sign *)
Definition read_variable (src : bytes) : rd :=
  match next src with
  | (None, _) => RdErr                                       (* errShouldBeVariableName *)
  | (Some r, src1) =>
    if r =? 39 then read_sq (S (length src1)) src1 []
    else if r =? 34 then read_dq (S (length src1)) src1 []
    else if negb (allowed_in_varname r) && negb (r =? 64) then RdErr
    else
      let w := snd (decode_rune src) in
      let '(v, rest) := take_while (length src1) allowed_in_varname src1 in
      RdOk (firstn w src ++ v) rest
  end.

Inductive pres :=
| POk (ty : ptype) (val rest : bytes)
| PErr
| POther          (* a primary outside this model *)
| PFuel.

Definition of_rd (ty : ptype) (r : rd) : pres :=
  match r with RdOk v rest => POk ty v rest | RdErr => PErr | RdFuel => PFuel end.

(* Primary.parse *)
Definition read_primary (ctx : ectx) (src : bytes) : pres :=
  match peek src with
  | None => PErr                                             (* errShouldBePrimary *)
  | Some r =>
    if negb (starts_primary r ctx) then PErr
    else if allowed_in_bareword r ctx then
      let '(v, rest) := take_while (length src) (fun r => allowed_in_bareword r ctx) src in
      POk TBare v rest
    else
      let src1 := snd (next src) in
      if r =? 39 then of_rd TSingle (read_sq (S (length src1)) src1 [])
      else if r =? 34 then of_rd TDouble (read_dq (S (length src1)) src1 [])
      else if r =? 36 then of_rd TVar (read_variable src1)
      else POther
  end.

Inductive cres :=
| COk (words : list (ptype * bytes)) (rest : bytes)
| CErr
| COther
| CFuel.

(* the loop of Compound.parse; Indexing.parse = one Primary and then a check
   for an opening bracket (indexing is outside the model) *)
Fixpoint read_indexings (fuel : nat) (ctx : ectx) (src : bytes) (acc : list (ptype * bytes)) : cres :=
  match fuel with
  | O => CFuel
  | S f =>
    match peek src with
    | None => COk acc src
    | Some r =>
      if negb (starts_primary r ctx) then COk acc src
      else match read_primary ctx src with
      | POk ty v rest =>
        if peek_is rest 91 then COther
        else read_indexings f ctx rest (acc ++ [(ty, v)])
      | PErr => CErr
      | POther => COther
      | PFuel => CFuel
      end
    end
  end.

(* Compound.parse with Compound.tilde *)
Definition read_compound (ctx : ectx) (src : bytes) : cres :=
  if peek_is src 126 then
    let src1 := snd (next src) in
    read_indexings (S (length src1)) ctx src1 [(TTilde, [126])]
  else read_indexings (S (length src)) ctx src [].

(* -------------------- compile_value.go, literal words -------------------- *)
Definition is_literal (ty : ptype) : bool :=
  match ty with TBare | TSingle | TDouble => true | _ => false end.

(* compoundOp on a compound made only of string literals: the concatenation
   (vals.Concat on strings); None = not a pure literal compound (variables,
   tilde expansion, empty compound are outside this model) *)
Fixpoint eval_words (ws : list (ptype * bytes)) : option bytes :=
  match ws with
  | [] => Some []
  | (ty, v) :: r =>
    if is_literal ty then match eval_words r with Some x => Some (v ++ x) | None => None end
    else None
  end.
Definition eval_compound (ws : list (ptype * bytes)) : option bytes :=
  match ws with [] => None | _ => eval_words ws end.

(* cmpd.StringLiteral: the compound is one literal primary *)
Definition string_literal (ws : list (ptype * bytes)) : option bytes :=
  match ws with
  | [(ty, v)] => if is_literal ty then Some v else None
  | _ => None
  end.

End WithTable.

(* ------------------------------------------------------------------ *)
(* executable instance of the table: ASCII fixed, the rest from the case *)
Definition ascii_print (r : N) : bool := (32 <=? r) && (r <=? 126).
Fixpoint tbl_lookup (tbl : list (N * bool)) (r : N) : bool :=
  match tbl with
  | [] => false
  | (k, v) :: t => if k =? r then v else tbl_lookup t r
  end.
Definition mk_is_print (tbl : list (N * bool)) (r : N) : bool :=
  if r <? 128 then ascii_print r else tbl_lookup tbl r.

(* ------------------------------------------------------------------ *)
(* Observations and the judge *)

(* which quoting function *)
Inductive qfun := QAs (pref : ptype) | QCmd | QVar.

Definition model_quote (pr : N -> bool) (f : qfun) (s : bytes) : bytes * option ptype :=
  match f with
  | QAs p => let '(q, ty) := QuoteAs pr s p in (q, Some ty)
  | QCmd => (QuoteCommandName pr s, None)
  | QVar => (QuoteVariableName pr s, None)
  end.

(* where the quoted text was placed *)
Inductive position :=
| PosArg        (* an argument or list element: NormalExpr *)
| PosKey        (* a map key: LHSExpr *)
| PosCmd        (* the head of a form: CmdExpr *)
| PosVar.       (* after a dollar sign (any context: NormalExpr used) *)

Definition pos_ctx (p : position) : ectx :=
  match p with PosArg => CNormal | PosKey => CLHS | PosCmd => CCmd | PosVar => CNormal end.

(* what the implementation did with the text *)
Inductive eobs :=
| EStr (v : bytes)    (* PosArg/PosKey: evaluation gave exactly this one string (value / only key);
                         PosCmd: the head is the string literal v (and, when observed, exactly the
                         command named v was called); PosVar: a Variable primary named v *)
| EParseErr           (* parse error *)
| EOtherObs.          (* anything else: exception, several values, other node shape *)

Definition eobs_eqb (a b : eobs) : bool :=
  match a, b with
  | EStr x, EStr y => bytes_eqb x y
  | EParseErr, EParseErr | EOtherObs, EOtherObs => true
  | _, _ => false
  end.

(* what the model of the reader + evaluator predicts for q ++ suffix at a position;
   None = outside the model (judge abstains) *)
Definition model_use (pr : N -> bool) (p : position) (q suffix : bytes) : option eobs :=
  let text := match p with PosVar => 36 :: q ++ suffix | _ => q ++ suffix end in
  match read_compound pr (pos_ctx p) text with
  | COk ws rest =>
    if negb (bytes_eqb rest suffix) then None else
    match p with
    | PosVar => Some (match ws with [(TVar, v)] => EStr v | _ => EOtherObs end)
    | PosCmd => Some (match string_literal ws with Some v => EStr v | None => EOtherObs end)
    | _ => match eval_compound ws with Some v => Some (EStr v) | None => None end
    end
  | CErr => Some EParseErr
  | COther | CFuel => None
  end.

(* observed result of parse.ParseAs(text, &Compound{ExprCtx: ctx}) *)
Inductive robs :=
| ROk (words : list (ptype * bytes)) (consumed : nat)
| RErr
| ROtherObs.

Definition word_eqb (a b : ptype * bytes) : bool :=
  ptype_eqb (fst a) (fst b) && bytes_eqb (snd a) (snd b).

Definition read_matches (m : cres) (src : bytes) (o : robs) : bool :=
  match m with
  | COther => true
  | CFuel => false
  | CErr => match o with RErr => true | _ => false end
  | COk ws rest =>
    match o with
    | ROk ws' n => list_eqb word_eqb ws ws' && Nat.eqb (length src - length rest) n
    | _ => false
    end
  end.

Definition rw_eqb (a b : N * nat) : bool := N.eqb (fst a) (fst b) && Nat.eqb (snd a) (snd b).

Inductive case :=
(* parse.QuoteAs / QuoteCommandName / QuoteVariableName (s) = q (and type) *)
| KQuote (tbl : list (N * bool)) (f : qfun) (s q : bytes) (ty : option ptype)
(* (q, ty) = the implementation's quoting of s with f; prefix ++ q ++ suffix was
   parsed/evaluated with q at position p, giving o.  The property: o = EStr s. *)
| KUse (tbl : list (N * bool)) (f : qfun) (s q : bytes) (ty : option ptype) (p : position) (suffix : bytes) (o : eobs)
(* reader correspondence on arbitrary text (not produced by quoting) *)
| KRead (tbl : list (N * bool)) (ctx : ectx) (src : bytes) (o : robs)
(* evaluator correspondence on arbitrary text at a position *)
| KEvalText (tbl : list (N * bool)) (p : position) (src suffix : bytes) (o : eobs)
(* lib/Utf8.v against Go's unicode/utf8 *)
| KDec (s : bytes) (r : N) (w : nat)
| KDecLast (s : bytes) (r : N) (w : nat)
| KEnc (r : N) (bs : bytes)
| KValid (s : bytes) (b : bool)
| KValidRune (r : N) (b : bool)
(* unicode.IsPrint on 0..127 *)
| KAscii (obs : list bool).

Definition opt_ptype_eqb (a b : option ptype) : bool := option_eqb ptype_eqb a b.

(* which positions the property speaks about for each quoting function *)
Definition in_property (f : qfun) (p : position) : bool :=
  match f, p with
  | QAs _, PosArg | QAs _, PosKey => true
  | QCmd, PosCmd => true
  | QVar, PosVar => true
  | _, _ => false
  end.

Definition check_C03 (f : qfun) (p : position) (s : bytes) (o : eobs) : bool :=
  if in_property f p then eobs_eqb o (EStr s) else true.

Definition judge1 (c : case) : N :=
  match c with
  | KQuote tbl f s q ty =>
    let '(mq, mty) := model_quote (mk_is_print tbl) f s in
    code true (bytes_eqb mq q && opt_ptype_eqb mty ty)
  | KUse tbl f s q ty p suffix o =>
    let '(mq, mty) := model_quote (mk_is_print tbl) f s in
    code (check_C03 f p s o)
         (bytes_eqb mq q && opt_ptype_eqb mty ty &&
          match model_use (mk_is_print tbl) p q suffix with
          | Some m => eobs_eqb m o
          | None => true
          end)
  | KRead tbl ctx src o =>
    code true (read_matches (read_compound (mk_is_print tbl) ctx src) src o)
  | KEvalText tbl p src suffix o =>
    code true (match model_use (mk_is_print tbl) p src suffix with
               | Some m => eobs_eqb m o
               | None => true
               end)
  | KDec s r w => code true (rw_eqb (decode_rune s) (r, w))
  | KDecLast s r w => code true (rw_eqb (decode_last_rune s) (r, w))
  | KEnc r bs => code true (bytes_eqb (encode_rune r) bs)
  | KValid s b => code true (Bool.eqb (valid s) b)
  | KValidRune r b => code true (Bool.eqb (valid_rune r) b)
  | KAscii obs => code true (list_eqb Bool.eqb (map ascii_print (map N.of_nat (seq 0 128))) obs)
  end.

Definition judge := judge_with judge1.
