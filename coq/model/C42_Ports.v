(* C42_Ports -- the port table / resource model shared by C42 (redirections)
   and C40 (no leaked descriptors or goroutines).  Executable Gallina only.

   Models pkg/eval/compile_effect.go: redirOp.exec, evalForFd, growAccess,
   makeFlag, fileRedirPort, formOwnedPort.close, and the parts of os.File that
   matter (open flags, offset, append, closed).  Faithful to the code including
   its defects; the places where the reference semantics (flavour [Spec])
   differs are marked DEFECT. *)
From verif Require Import lib.Base.
Open Scope nat_scope.

(* ---------------------------------------------------------------- files *)
Inductive mode := MRead | MWrite | MAppend | MRdWr.

Definition mode_eqb (a b : mode) : bool :=
  match a, b with
  | MRead, MRead | MWrite, MWrite | MAppend, MAppend | MRdWr, MRdWr => true
  | _, _ => false
  end.

(* os.O_RDONLY/O_WRONLY/O_RDWR, O_CREATE, O_TRUNC, O_APPEND as booleans *)
Record oflag := mkFlag { f_rd : bool; f_wr : bool; f_creat : bool; f_trunc : bool; f_app : bool }.

(* compile_effect.go:makeFlag (transcribed; compared with the real function on
   every run through the hook VerifC42MakeFlag) *)
Definition makeFlag (m : mode) : oflag :=
  match m with
  | MRead => mkFlag true false false false false
  | MWrite => mkFlag false true true true false
  | MRdWr => mkFlag true true true false false
  | MAppend => mkFlag false true true false true
  end.

Definition oflag_eqb (a b : oflag) : bool :=
  Bool.eqb (f_rd a) (f_rd b) && Bool.eqb (f_wr a) (f_wr b) && Bool.eqb (f_creat a) (f_creat b)
  && Bool.eqb (f_trunc a) (f_trunc b) && Bool.eqb (f_app a) (f_app b).

(* an open file description on a regular file *)
Record ofd := mkOfd { o_path : nat; o_off : nat; o_rd : bool; o_wr : bool; o_app : bool; o_open : bool }.

Record pipe := mkPipe { pi_buf : bytes; pi_r : bool; pi_w : bool }.   (* r/w end open? *)

(* what an *os.File can be here *)
Inductive handle :=
| HOfd (i : nat)      (* regular file, index into s_ofds *)
| HSink (k : nat)     (* write-only byte sink owned by the harness (stdout/stderr capture) *)
| HNull               (* /dev/null opened read-only *)
| HPipeR (j : nat) | HPipeW (j : nat).

(* the value-channel part of a port together with its sendStop/sendError *)
Inductive chan :=
| ChVal (k : nat)     (* open channel drained by the harness, sendStop nil *)
| ChClosedIn          (* ClosedChan: placeholder input channel, sendStop nil *)
| ChRaise             (* nil channel, closedSendStop, sendError set: Put raises *)
| ChPipe (j : nat).   (* channel of pipeline pipe j, sendStop/sendError/readerGone set *)

Record port := mkPort { p_file : option handle; p_chan : chan }.

Definition handle_eqb (a b : handle) : bool :=
  match a, b with
  | HOfd i, HOfd j | HSink i, HSink j | HPipeR i, HPipeR j | HPipeW i, HPipeW j => Nat.eqb i j
  | HNull, HNull => true
  | _, _ => false
  end.
Definition chan_eqb (a b : chan) : bool :=
  match a, b with
  | ChVal i, ChVal j | ChPipe i, ChPipe j => Nat.eqb i j
  | ChClosedIn, ChClosedIn | ChRaise, ChRaise => true
  | _, _ => false
  end.
Definition port_eqb (a b : port) : bool :=
  option_eqb handle_eqb (p_file a) (p_file b) && chan_eqb (p_chan a) (p_chan b).

(* the port installed by n>&- *)
Definition closed_port : port := mkPort None ChRaise.

(* compile_effect.go:fileRedirPort *)
Definition fileRedirPort (m : mode) (h : handle) : port :=
  match m with
  | MRead => mkPort (Some h) ChClosedIn
  | _ => mkPort (Some h) ChRaise
  end.

(* formOwnedPort *)
Record fop := mkFop { fo_file : bool; fo_chan : bool }.
Definition fop0 : fop := mkFop false false.

(* ---------------------------------------------------------------- state *)
(* resource counters: the ledger.  Every open/close/spawn/join bumps one. *)
Record ledger := mkLed { l_fopen : nat; l_fclose : nat; l_popen : nat; l_pclose : nat;
                         l_spawn : nat; l_join : nat }.
Definition led0 : ledger := mkLed 0 0 0 0 0 0.

Record st := mkSt {
  s_fs : list (option bytes);     (* path number -> content (None: does not exist) *)
  s_ofds : list ofd;
  s_pipes : list pipe;
  s_bs : list bytes;              (* byte sinks *)
  s_vs : list (list bytes);       (* value sinks (string values) *)
  s_led : ledger;
  s_cancel : bool }.              (* the evaluation context has been cancelled *)

Definition set_fs (s : st) x := mkSt x (s_ofds s) (s_pipes s) (s_bs s) (s_vs s) (s_led s) (s_cancel s).
Definition set_ofds (s : st) x := mkSt (s_fs s) x (s_pipes s) (s_bs s) (s_vs s) (s_led s) (s_cancel s).
Definition set_pipes (s : st) x := mkSt (s_fs s) (s_ofds s) x (s_bs s) (s_vs s) (s_led s) (s_cancel s).
Definition set_bs (s : st) x := mkSt (s_fs s) (s_ofds s) (s_pipes s) x (s_vs s) (s_led s) (s_cancel s).
Definition set_vs (s : st) x := mkSt (s_fs s) (s_ofds s) (s_pipes s) (s_bs s) x (s_led s) (s_cancel s).
Definition set_led (s : st) x := mkSt (s_fs s) (s_ofds s) (s_pipes s) (s_bs s) (s_vs s) x (s_cancel s).
Definition set_cancel (s : st) x := mkSt (s_fs s) (s_ofds s) (s_pipes s) (s_bs s) (s_vs s) (s_led s) x.

Definition led_fopen l := mkLed (S (l_fopen l)) (l_fclose l) (l_popen l) (l_pclose l) (l_spawn l) (l_join l).
Definition led_fclose l := mkLed (l_fopen l) (S (l_fclose l)) (l_popen l) (l_pclose l) (l_spawn l) (l_join l).
Definition led_popen l := mkLed (l_fopen l) (l_fclose l) (2 + l_popen l) (l_pclose l) (l_spawn l) (l_join l).
Definition led_pclose l := mkLed (l_fopen l) (l_fclose l) (l_popen l) (S (l_pclose l)) (l_spawn l) (l_join l).
Definition led_spawn k l := mkLed (l_fopen l) (l_fclose l) (l_popen l) (l_pclose l) (k + l_spawn l) (l_join l).
Definition led_join k l := mkLed (l_fopen l) (l_fclose l) (l_popen l) (l_pclose l) (l_spawn l) (k + l_join l).

(* what the kernel would count: open descriptors and live goroutines, derived
   from the state (not from the counters) *)
Definition count_open_ofds (l : list ofd) : nat := length (filter o_open l).
Definition pipe_ends (p : pipe) : nat := (if pi_r p then 1 else 0) + (if pi_w p then 1 else 0).
Fixpoint count_pipe_ends (l : list pipe) : nat :=
  match l with [] => 0 | p :: r => pipe_ends p + count_pipe_ends r end.
Definition live_fds (s : st) : nat := count_open_ofds (s_ofds s) + count_pipe_ends (s_pipes s).
Definition live_gor (s : st) : Z := (Z.of_nat (l_spawn (s_led s)) - Z.of_nat (l_join (s_led s)))%Z.

(* ---------------------------------------------------------------- list helpers *)
Fixpoint list_upd {A} (l : list A) (i : nat) (x : A) : list A :=
  match l, i with
  | [], _ => []
  | _ :: r, O => x :: r
  | y :: r, S i' => y :: list_upd r i' x
  end.

(* growAccess: make index i valid, padding with the zero value d *)
Definition grow {A} (d : A) (l : list A) (i : nat) : list A :=
  if Nat.ltb i (length l) then l else l ++ repeat d (S i - length l).

Definition fs_get (fs : list (option bytes)) (p : nat) : option bytes :=
  match nth_error fs p with Some c => c | None => None end.
Definition fs_set (fs : list (option bytes)) (p : nat) (c : bytes) : list (option bytes) :=
  list_upd (grow None fs p) p (Some c).

(* write b at offset off of old (zero-filling a gap) *)
Definition write_at (old : bytes) (off : nat) (b : bytes) : bytes :=
  firstn off old ++ repeat 0%N (off - length old) ++ b ++ skipn (off + length b) old.

(* ---------------------------------------------------------------- results *)
Inductive ekind :=
| EInvalidFD | EBadValue | EValueOut | EIO (* failed read or write on a file *) | EOpen | EFail
| EInterrupted | EMulti | EOther.

Definition ekind_eqb (a b : ekind) : bool :=
  match a, b with
  | EInvalidFD, EInvalidFD | EBadValue, EBadValue | EValueOut, EValueOut | EIO, EIO
  | EOpen, EOpen | EFail, EFail | EInterrupted, EInterrupted | EMulti, EMulti | EOther, EOther => true
  | _, _ => false
  end.

Inductive res (A : Type) :=
| Ok (a : A)
| Exc (k : ekind) (s : st)   (* Elvish exception; side effects so far persist *)
| Crash                      (* Go panic: the process dies *)
| Unmod.                     (* outside the modelled fragment (generator must not produce it) *)
Arguments Ok {A} a. Arguments Exc {A} k s. Arguments Crash {A}. Arguments Unmod {A}.

(* ---------------------------------------------------------------- os.File operations *)
(* os.OpenFile(path, flag) on the modelled file system *)
Definition open_file (s : st) (p : nat) (fl : oflag) : option (nat * st) :=
  let ex := fs_get (s_fs s) p in
  match ex, f_creat fl with
  | None, false => None                               (* ENOENT *)
  | _, _ =>
    let content := match ex with Some c => if f_trunc fl then [] else c | None => [] end in
    let s1 := set_fs s (fs_set (s_fs s) p content) in
    let i := length (s_ofds s) in
    let s2 := set_ofds s1 (s_ofds s ++ [mkOfd p 0 (f_rd fl) (f_wr fl) (f_app fl) true]) in
    Some (i, set_led s2 (led_fopen (s_led s2)))
  end.

(* os.File.Close; closing twice is an ignored error *)
Definition close_handle (s : st) (h : handle) : st :=
  match h with
  | HOfd i =>
    match nth_error (s_ofds s) i with
    | Some o => if o_open o
                then let s1 := set_ofds s (list_upd (s_ofds s) i
                                 (mkOfd (o_path o) (o_off o) (o_rd o) (o_wr o) (o_app o) false)) in
                     set_led s1 (led_fclose (s_led s1))
                else s
    | None => s
    end
  | HPipeR j =>
    match nth_error (s_pipes s) j with
    | Some p => if pi_r p
                then let s1 := set_pipes s (list_upd (s_pipes s) j (mkPipe (pi_buf p) false (pi_w p))) in
                     set_led s1 (led_pclose (s_led s1))
                else s
    | None => s
    end
  | HPipeW j =>
    match nth_error (s_pipes s) j with
    | Some p => if pi_w p
                then let s1 := set_pipes s (list_upd (s_pipes s) j (mkPipe (pi_buf p) (pi_r p) false)) in
                     set_led s1 (led_pclose (s_led s1))
                else s
    | None => s
    end
  | HSink _ | HNull => s      (* never owned by a form in the modelled fragment *)
  end.

Definition handle_open (s : st) (h : handle) : bool :=
  match h with
  | HOfd i => match nth_error (s_ofds s) i with Some o => o_open o | None => false end
  | HPipeR j => match nth_error (s_pipes s) j with Some p => pi_r p | None => false end
  | HPipeW j => match nth_error (s_pipes s) j with Some p => pi_w p | None => false end
  | HSink _ | HNull => true
  end.

(* os.File.Write via byteOutput; None file = nil *os.File *)
Definition write_bytes (s : st) (f : option handle) (b : bytes) : res st :=
  match f with
  | None => Exc EIO s                                   (* invalid argument *)
  | Some HNull => Exc EIO s                             (* EBADF: opened read-only *)
  | Some (HSink k) =>
    match nth_error (s_bs s) k with
    | Some old => Ok (set_bs s (list_upd (s_bs s) k (old ++ b)))
    | None => Unmod
    end
  | Some (HOfd i) =>
    match nth_error (s_ofds s) i with
    | None => Unmod
    | Some o =>
      if negb (o_open o) then Exc EIO s                 (* file already closed *)
      else if negb (o_wr o) then Exc EIO s              (* EBADF *)
      else
        let old := match fs_get (s_fs s) (o_path o) with Some c => c | None => [] end in
        let off := if o_app o then length old else o_off o in
        let new := write_at old off b in
        let s1 := set_fs s (fs_set (s_fs s) (o_path o) new) in
        Ok (set_ofds s1 (list_upd (s_ofds s) i
              (mkOfd (o_path o) (off + length b) (o_rd o) (o_wr o) (o_app o) true)))
    end
  | Some (HPipeR _) => Exc EIO s                        (* EBADF *)
  | Some (HPipeW j) =>
    match nth_error (s_pipes s) j with
    | None => Unmod
    | Some p =>
      if negb (pi_w p) then Exc EIO s
      else if negb (pi_r p) then Exc EIO s              (* EPIPE -> ReaderGone; see C42.v *)
      else Ok (set_pipes s (list_upd (s_pipes s) j (mkPipe (pi_buf p ++ b) (pi_r p) (pi_w p))))
    end
  end.

(* io.ReadAll on the file *)
Definition read_all (s : st) (f : option handle) : res (bytes * st) :=
  match f with
  | None => Exc EIO s
  | Some HNull => Ok ([], s)
  | Some (HSink _) => Exc EIO s                          (* write-only *)
  | Some (HOfd i) =>
    match nth_error (s_ofds s) i with
    | None => Unmod
    | Some o =>
      if negb (o_open o) then Exc EIO s
      else if negb (o_rd o) then Exc EIO s
      else
        let c := match fs_get (s_fs s) (o_path o) with Some c => c | None => [] end in
        Ok (skipn (o_off o) c,
            set_ofds s (list_upd (s_ofds s) i
              (mkOfd (o_path o) (Nat.max (o_off o) (length c)) (o_rd o) (o_wr o) (o_app o) true)))
    end
  | Some (HPipeW _) => Exc EIO s
  | Some (HPipeR j) =>
    match nth_error (s_pipes s) j with
    | None => Unmod
    | Some p =>
      if negb (pi_r p) then Exc EIO s
      else if pi_w p then Unmod                            (* would block: writer still open *)
      else Ok (pi_buf p, set_pipes s (list_upd (s_pipes s) j (mkPipe [] (pi_r p) (pi_w p))))
    end
  end.

(* valueOutput.Put of a string value *)
Definition write_value (s : st) (c : chan) (v : bytes) : res st :=
  match c with
  | ChVal k =>
    match nth_error (s_vs s) k with
    | Some old => Ok (set_vs s (list_upd (s_vs s) k (old ++ [v])))
    | None => Unmod
    end
  | ChClosedIn => Crash          (* send on closed channel (sendStop is nil) *)
  | ChRaise => Exc EValueOut s   (* ErrPortDoesNotSupportValueOutput *)
  | ChPipe _ => Unmod
  end.

(* ---------------------------------------------------------------- redirections *)
(* the evaluated word naming an fd *)
Inductive fdv := FdNum (z : Z) | FdName (n : nat) | FdBad.

Inductive src :=
| SFile (p : nat)          (* a string: file name number p *)
| SFd (f : fdv)            (* &fd *)
| SClose                   (* &- *)
| SObj (k : nat)           (* a value from the environment: file object or map *)
| SBad.                    (* any other value (a list) *)

Record redir := mkRedir { r_dst : option fdv; r_mode : mode; r_src : src }.

(* values a redirection source can evaluate to *)
Inductive obj :=
| OFile (h : handle)
| OMap (r w : option handle).    (* [&r=.. &w=..]; None: field missing or not a file *)

Inductive flavour := Impl | Spec.

Definition default_dst (m : mode) : Z := match m with MRead => 0%Z | _ => 1%Z end.

(* evalForFd for the destination (closeOK = false) *)
Definition eval_dst (r : redir) : option Z :=
  match r_dst r with
  | None => Some (default_dst (r_mode r))
  | Some (FdNum z) => Some z
  | Some (FdName n) => Some (Z.of_nat n)
  | Some FdBad => None
  end.

Definition table := list (option port).
Definition tget (T : table) (i : nat) : option port :=
  match nth_error T i with Some p => p | None => None end.

(* formOwnedPort.close *)
Definition close_fop (s : st) (f : fop) (p : port) : st :=
  if fo_file f then match p_file p with Some h => close_handle s h | None => s end else s.
(* closing the channel part has no modelled effect except on pipeline channels,
   which carry no observed values in the modelled fragment *)

Record fstate := mkFs { fs_T : table; fs_fops : list fop; fs_st : st;
                        fs_defer : list handle (* Spec only: files to close at form end *) }.

(* result of executing redirections: the form state is needed on the exception
   path too, because the form end still closes what the form owns *)
Inductive rres := ROk (x : fstate) | RExc (k : ekind) (x : fstate) | RCrash.

(* an existing destination port: release what the form owns there.  Returns the
   state, the ownership flags and the deferred-close list afterwards. *)
Definition release (fl : flavour) (x : fstate) (d : nat) : st * list fop * list handle :=
  let T1 := grow None (fs_T x) d in
  let F1 := grow fop0 (fs_fops x) d in
  match tget T1 d with
  | Some p =>
    match fl with
    | Impl => (close_fop (fs_st x) (nth d F1 fop0) p, list_upd F1 d fop0, fs_defer x)
              (* DEFECT: closes the file even if another fd still shares the port *)
    | Spec => (fs_st x, list_upd F1 d fop0,
               if fo_file (nth d F1 fop0)
               then match p_file p with Some h => h :: fs_defer x | None => fs_defer x end
               else fs_defer x)
    end
  | None => (fs_st x, F1, fs_defer x)
  end.

(* store port p at d; own: the form owns its file *)
Definition install (T1 : table) (F2 : list fop) (df : list handle) (d : nat)
    (p : port) (own : bool) (s' : st) : fstate :=
  mkFs (list_upd T1 d (Some p))
       (if own then list_upd F2 d (mkFop true (fo_chan (nth d F2 fop0))) else F2) s' df.

(* the source of a redirection, evaluated against table T1 in state s1:
   the port to install and whether the form owns its file *)
Inductive sres := SPort (p : port) (own : bool) (s : st) | SExc (k : ekind) | SCrash.

Definition eval_src (fl : flavour) (objs : list obj) (T1 : table) (s1 : st) (r : redir) : sres :=
  match r_src r with
  | SClose => SPort closed_port false s1
  | SFd f =>
    match f with
    | FdBad => SExc EBadValue
    | _ =>
      let v := match f with FdNum z => z | FdName n => Z.of_nat n | FdBad => 0%Z end in
      if (v <? 0)%Z then
        (* -1 is what evalForFd returns for "-": the number -1 means close too
           (deliberate; both flavours).  Other negative fds: invalid (since fix
           fdddbae; was a panic) *)
        if (v =? -1)%Z then SPort closed_port false s1 else SExc EInvalidFD
      else match tget T1 (Z.to_nat v) with
           | None => SExc EInvalidFD
           | Some p => SPort p false s1
           end
    end
  | SFile pth =>
    match open_file s1 pth (makeFlag (r_mode r)) with
    | None => SExc EOpen
    | Some (i, s2) => SPort (fileRedirPort (r_mode r) (HOfd i)) true s2
    end
  | SObj k =>
    match nth_error objs k with
    | None => SExc EBadValue
    | Some (OFile h) => SPort (fileRedirPort (r_mode r) h) false s1
    | Some (OMap rd wr) =>
      match r_mode r with
      | MRead => match rd with Some h => SPort (fileRedirPort MRead h) false s1 | None => SExc EBadValue end
      | MWrite => match wr with Some h => SPort (fileRedirPort MWrite h) false s1 | None => SExc EBadValue end
      | _ => SExc EOpen         (* can only use < or > with maps: a plain error *)
      end
    end
  | SBad => SExc EBadValue
  end.

(* one redirection.  [objs]: environment of file objects / maps. *)
Definition exec_redir (fl : flavour) (objs : list obj) (x : fstate) (r : redir) : rres :=
  match eval_dst r with
  | None => RExc EBadValue x
  | Some dz =>
    if (dz <? 0)%Z then RExc EInvalidFD x   (* dst < 0 (since fix fdddbae; was a panic in growAccess) *)
    else
    let d := Z.to_nat dz in
    let T1 := grow None (fs_T x) d in
    let '(s1, F2, df) := release fl x d in
    match eval_src fl objs T1 s1 r with
    | SPort p own s2 => ROk (install T1 F2 df d p own s2)
    | SExc k => RExc k (mkFs T1 F2 s1 df)
    | SCrash => RCrash
    end
  end.

(* the redirection list, left to right; the first failure stops *)
Fixpoint exec_redirs (fl : flavour) (objs : list obj) (x : fstate) (rs : list redir) : rres :=
  match rs with
  | [] => ROk x
  | r :: rest =>
    match exec_redir fl objs x r with
    | ROk x' => exec_redirs fl objs x' rest
    | e => e
    end
  end.

(* form end: close what the form still owns (pipelineOp.exec: for i, fop := range fops) *)
Fixpoint close_fops (s : st) (T : table) (F : list fop) : st :=
  match F, T with
  | f :: F', p :: T' =>
    close_fops (match p with Some p => close_fop s f p | None => s end) T' F'
  | _, _ => s
  end.

Fixpoint close_handles (s : st) (hs : list handle) : st :=
  match hs with [] => s | h :: r => close_handles (close_handle s h) r end.

Definition form_end (x : fstate) (s : st) : st :=
  close_handles (close_fops s (fs_T x) (fs_fops x)) (fs_defer x).
