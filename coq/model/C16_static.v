(* C16, supporting model — why compiling never changes the caller's namespace.

   eval.compile starts with [g = g.clone()] and then lets the compiler add and
   delete names ([staticNs.add], [staticNs.del]) while it walks the code.  [del]
   writes [infos[i].deleted = true] INTO the backing array; [add] appends, which
   in Go writes in place when the slice has spare capacity.  ev.global.static()
   shares its backing array with ev.global.infos, so without the clone a
   compilation that ends in an error would already have deleted/shadowed global
   variables.  This file models Go slices over a heap of arrays (executable, no
   proofs); proofs/C16_static_proofs.v shows that with the clone no array that
   existed before is ever written, for every sequence of adds and deletes and
   every growth policy of append, and that without the clone it is. *)
From verif Require Import lib.Base.
Local Open Scope nat_scope.

Record info := mkInfo { i_name : bytes; i_ro : bool; i_del : bool }.

(* heap of arrays; a slice is (array, len); its capacity is the array's length *)
Definition heap := list (list info).
Record slice := mkSlice { s_arr : nat; s_len : nat }.

Fixpoint upd {A} (l : list A) (i : nat) (x : A) : list A :=
  match l, i with
  | [], _ => []
  | _ :: r, O => x :: r
  | y :: r, S j => y :: upd r j x
  end.

Definition arr (h : heap) (a : nat) : list info := nth a h [].
Definition view (h : heap) (s : slice) : list info := firstn (s_len s) (arr h (s_arr s)).

Definition dummy : info := mkInfo [] false true.

(* staticNs.lookup: first entry with that name that is not deleted *)
Fixpoint lookup_from (l : list info) (k : bytes) (i : nat) : option nat :=
  match l with
  | [] => None
  | x :: r => if bytes_eqb (i_name x) k && negb (i_del x) then Some i else lookup_from r k (S i)
  end.
Definition lookup (h : heap) (s : slice) (k : bytes) : option nat := lookup_from (view h s) k 0.

(* staticNs.del: ns.infos[i].deleted = true *)
Definition del (h : heap) (s : slice) (k : bytes) : heap :=
  match lookup h s k with
  | Some i =>
    let a := arr h (s_arr s) in
    let x := nth i a dummy in
    upd h (s_arr s) (upd a i (mkInfo (i_name x) (i_ro x) true))
  | None => h
  end.

(* append(s, x): in place when len < cap, else a new array with [slack] spare cells *)
Definition append (slack : nat) (h : heap) (s : slice) (x : info) : heap * slice :=
  let a := arr h (s_arr s) in
  if Nat.ltb (s_len s) (length a)
  then (upd h (s_arr s) (upd a (s_len s) x), mkSlice (s_arr s) (S (s_len s)))
  else (h ++ [firstn (s_len s) a ++ x :: repeat dummy slack], mkSlice (length h) (S (s_len s))).

(* staticNs.add: ns.del(k); ns.infos = append(ns.infos, staticVarInfo{k, false, false}) *)
Definition add (slack : nat) (h : heap) (s : slice) (k : bytes) : heap * slice :=
  append slack (del h s k) s (mkInfo k false false).

(* staticNs.clone: append([]staticVarInfo(nil), ns.infos...) *)
Definition clone (slack : nat) (h : heap) (s : slice) : heap * slice :=
  (h ++ [view h s ++ repeat dummy slack], mkSlice (length h) (s_len s)).

Inductive sop := OAdd (k : bytes) | ODel (k : bytes).

(* what the compiler does to its scope while walking the code; [slacks] is the
   spare capacity chosen by each allocation (any growth policy) *)
Fixpoint run_ops (slacks : list nat) (h : heap) (s : slice) (ops : list sop) : heap * slice :=
  match ops with
  | [] => (h, s)
  | ODel k :: r => run_ops slacks (del h s k) s r
  | OAdd k :: r =>
    let '(h1, s1) := add (hd 0 slacks) h s k in run_ops (tl slacks) h1 s1 r
  end.

(* compile's treatment of the global static namespace, with or without the clone *)
Definition compile_ns (with_clone : bool) (slacks : list nat) (h : heap) (g : slice) (ops : list sop) : heap * slice :=
  if with_clone
  then let '(h1, g1) := clone (hd 0 slacks) h g in run_ops (tl slacks) h1 g1 ops
  else run_ops slacks h g ops.
