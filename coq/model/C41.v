(* C41 -- string and regex builtins (pkg/mods/str/str.go, pkg/mods/re/re.go).
   Executable Gallina only, no proofs.

   Part 1: Go strings primitives on byte lists (HasPrefix, HasSuffix, Index,
           SplitN with explode, Join, Replace, Repeat, TrimPrefix, TrimSuffix,
           TrimLeft, TrimRight, Trim, TrimSpace, Map) and utf8.DecodeLastRune.
   Part 2: the Elvish wrappers (argument handling: max option, join type check,
           from-codepoints validity range, to-codepoints, utf8-bytes, repeat
           overflow checks).
   Part 3: regexp.QuoteMeta, the literal fragment of the regex syntax with its
           semantics, and Split / ReplaceAll / Expand expressed over an abstract
           match list (what FindAllSubmatchIndex returned).
   Part 4: independent specifications (the oracle side).
   Part 5: the case type and the judge. *)
From verif Require Import lib.Base lib.Utf8.
Open Scope nat_scope.

(* ================================================================== *)
(* Part 1 -- Go strings primitives                                     *)
(* ================================================================== *)

Definition slice (s : bytes) (a b : nat) : bytes := firstn (b - a) (skipn a s).

Definition is_nil {A} (l : list A) : bool := match l with [] => true | _ => false end.

(* strings.HasPrefix *)
Fixpoint has_prefix (s p : bytes) {struct p} : bool :=
  match p with
  | [] => true
  | b :: p' => match s with [] => false | c :: s' => N.eqb c b && has_prefix s' p' end
  end.

(* strings.HasSuffix *)
Definition has_suffix (s p : bytes) : bool := has_prefix (rev s) (rev p).

(* strings.TrimPrefix / TrimSuffix *)
Definition trim_prefix (s p : bytes) : bytes := if has_prefix s p then skipn (length p) s else s.
Definition trim_suffix (s p : bytes) : bytes :=
  if has_suffix s p then firstn (length s - length p) s else s.

(* strings.Index: offset of the first occurrence *)
Fixpoint index (s sub : bytes) : option nat :=
  if has_prefix s sub then Some 0 else
  match s with
  | [] => None
  | _ :: r => option_map S (index r sub)
  end.

Definition index_z (s sub : bytes) : Z :=
  match index s sub with Some i => Z.of_nat i | None => (-1)%Z end.

(* remaining count: None = unbounded *)
Definition dec (k : option nat) : option nat := option_map pred k.
Definition is_zero (k : option nat) : bool := match k with Some O => true | _ => false end.

(* strings.genSplit with a non-empty separator; k = number of cuts still
   allowed.  Out of fuel returns the rest uncut (excluded by splitn_fuel_enough) *)
Fixpoint splitn_fuel (fuel : nat) (k : option nat) (sep s : bytes) : list bytes :=
  match fuel with
  | O => [s]
  | S f =>
    if is_zero k then [s] else
    match index s sep with
    | None => [s]
    | Some m => firstn m s :: splitn_fuel f (dec k) sep (skipn (m + length sep) s)
    end
  end.

(* strings.explode: one piece per decoded rune (an invalid byte is a piece of
   one byte), the last allowed piece takes the rest *)
Fixpoint explode_fuel (fuel : nat) (k : option nat) (s : bytes) : list bytes :=
  match s with
  | [] => []
  | _ :: _ =>
    match fuel with
    | O => [s]
    | S f =>
      if is_zero k then [s] else
      let w := snd (decode_rune s) in
      firstn w s :: explode_fuel f (dec k) (skipn w s)
    end
  end.

(* strings.Join *)
Fixpoint join (sep : bytes) (l : list bytes) : bytes :=
  match l with
  | [] => []
  | x :: r => match r with [] => x | _ => x ++ sep ++ join sep r end
  end.

(* strings.Replace, old non-empty; k = replacements still allowed *)
Fixpoint replace_fuel (fuel : nat) (k : option nat) (old new s : bytes) : bytes :=
  match fuel with
  | O => s
  | S f =>
    if is_zero k then s else
    match index s old with
    | None => s
    | Some m => firstn m s ++ new ++ replace_fuel f (dec k) old new (skipn (m + length old) s)
    end
  end.

(* strings.Replace with old = "": new is inserted at the start and after every
   rune, k times at most *)
Fixpoint ins_fuel (fuel : nat) (k : option nat) (new s : bytes) : bytes :=
  if is_zero k then s else
  match s with
  | [] => new
  | _ :: _ =>
    match fuel with
    | O => s
    | S f => let w := snd (decode_rune s) in
             new ++ firstn w s ++ ins_fuel f (dec k) new (skipn w s)
    end
  end.

(* strings.Repeat for a count that fits *)
Fixpoint repeat_n (n : nat) (s : bytes) : bytes :=
  match n with O => [] | S k => s ++ repeat_n k s end.

(* utf8.DecodeLastRune: a byte below 0x80 is itself; otherwise back up over at
   most three bytes to the nearest rune start, decode there, and accept only
   when the decoded sequence ends exactly at the end *)
Fixpoint find_start (l : bytes) (k : nat) : option nat :=
  match l with
  | [] => None
  | b :: r => if rune_start b then Some k else find_start r (S k)
  end.

Definition decode_last (s : bytes) : N * nat :=
  match rev s with
  | [] => (RuneError, 0)
  | l :: rest =>
    if (l <? 128)%N then (l, 1) else
    match find_start (firstn 3 rest) 0 with
    | None => (RuneError, 1)
    | Some k =>
      let n := k + 2 in
      let '(r, w) := decode_rune (skipn (length s - n) s) in
      if Nat.eqb w n then (r, w) else (RuneError, 1)
    end
  end.

(* strings.TrimLeftFunc / trimLeftUnicode: drop leading runes satisfying f *)
Fixpoint trim_left_fuel (fuel : nat) (f : N -> bool) (s : bytes) : bytes :=
  match fuel with
  | O => s
  | S k =>
    match s with
    | [] => []
    | _ :: _ => let '(r, w) := decode_rune s in
                if f r then trim_left_fuel k f (skipn w s) else s
    end
  end.
Definition trim_left_by (f : N -> bool) (s : bytes) : bytes := trim_left_fuel (length s) f s.

(* strings.TrimRightFunc / trimRightUnicode *)
Fixpoint trim_right_fuel (fuel : nat) (f : N -> bool) (s : bytes) : bytes :=
  match fuel with
  | O => s
  | S k =>
    match s with
    | [] => []
    | _ :: _ => let '(r, w) := decode_last s in
                if f r then trim_right_fuel k f (firstn (length s - w) s) else s
    end
  end.
Definition trim_right_by (f : N -> bool) (s : bytes) : bytes := trim_right_fuel (length s) f s.

(* strings.ContainsRune(cutset, r): r is among the runes cutset decodes to (an
   invalid byte of the cutset decodes to RuneError and so stands for it) *)
Definition contains_rune (cut : bytes) (r : N) : bool := existsb (N.eqb r) (decode_all cut).

Definition trim_left (s cut : bytes) : bytes := trim_left_by (contains_rune cut) s.
Definition trim_right (s cut : bytes) : bytes := trim_right_by (contains_rune cut) s.
Definition trim (s cut : bytes) : bytes := trim_right (trim_left s cut) cut.

(* unicode.IsSpace: the White_Space property *)
Definition is_space (r : N) : bool :=
  ((9 <=? r) && (r <=? 13) || (r =? 32) || (r =? 133) || (r =? 160) || (r =? 5760)
   || (8192 <=? r) && (r <=? 8202) || (r =? 8232) || (r =? 8233) || (r =? 8239)
   || (r =? 8287) || (r =? 12288))%N.

Definition trim_space (s : bytes) : bytes := trim_right_by is_space (trim_left_by is_space s).

(* strings.Map with a mapping given as a finite table (runes not listed map to
   themselves); an invalid byte decodes to RuneError and is written as U+FFFD *)
Definition lookup (tbl : list (N * N)) (r : N) : N :=
  match find (fun p => N.eqb (fst p) r) tbl with Some p => snd p | None => r end.
Definition map_runes (tbl : list (N * N)) (s : bytes) : bytes :=
  encode_all (map (lookup tbl) (decode_all s)).

(* ================================================================== *)
(* Part 2 -- the Elvish wrappers in pkg/mods/str                       *)
(* ================================================================== *)

Inductive res :=
| ROk (b : bytes)
| ROutOfRange          (* errs.OutOfRange *)
| RBadValue            (* errs.BadValue *)
| RPanic               (* a Go panic escaped the builtin (observations only) *)
| ROther.              (* any other failure the harness saw *)

Definition res_eqb (a b : res) : bool :=
  match a, b with
  | ROk x, ROk y => bytes_eqb x y
  | ROutOfRange, ROutOfRange | RBadValue, RBadValue | RPanic, RPanic | ROther, ROther => true
  | _, _ => false
  end.

(* the max option of str:split (SplitN count): pieces = cuts + 1 *)
Definition cuts_of (max : Z) : option nat :=
  if (max <? 0)%Z then None else Some (Z.to_nat (max - 1)).
(* the max option of str:replace (Replace count) *)
Definition repls_of (max : Z) : option nat :=
  if (max <? 0)%Z then None else Some (Z.to_nat max).

(* str:split &max=max sep s *)
Definition str_split (max : Z) (sep s : bytes) : list bytes :=
  if (max =? 0)%Z then [] else
  match sep with
  | [] => explode_fuel (length s) (cuts_of max) s
  | _ :: _ => splitn_fuel (S (length s)) (cuts_of max) sep s
  end.

(* str:join sep inputs; an input that is not a string is None *)
Fixpoint all_strings (l : list (option bytes)) : option (list bytes) :=
  match l with
  | [] => Some []
  | Some x :: r => option_map (cons x) (all_strings r)
  | None :: _ => None
  end.
Definition str_join (sep : bytes) (items : list (option bytes)) : res :=
  match all_strings items with Some l => ROk (join sep l) | None => RBadValue end.

(* str:replace &max=max old new s *)
Definition str_replace (max : Z) (old new s : bytes) : bytes :=
  match old with
  | [] => ins_fuel (length s) (repls_of max) new s
  | _ :: _ => replace_fuel (S (length s)) (repls_of max) old new s
  end.

(* str:repeat: the wrapper rejects n < 0 and every n with len(s)*n > MaxInt (the
   test n > MaxInt/len(s) cannot itself overflow), so strings.Repeat is only
   called with a product that fits and never panics *)
Definition two63 : Z := 9223372036854775808%Z.
Definition maxInt : Z := (two63 - 1)%Z.
Definition str_repeat (s : bytes) (n : Z) : res :=
  let len := Z.of_nat (length s) in
  if (n <? 0)%Z then RBadValue
  else if (0 <? len)%Z && (maxInt / len <? n)%Z then RBadValue
  else if is_nil s then ROk []
  else ROk (repeat_n (Z.to_nat n) s).

(* str:to-codepoints / str:from-codepoints *)
Definition to_codepoints (s : bytes) : list Z := map Z.of_N (decode_all s).
Fixpoint from_codepoints (nums : list Z) : res :=
  match nums with
  | [] => ROk []
  | n :: r =>
    if ((n <? 0) || (Z.of_N MaxRune <? n))%Z then ROutOfRange
    else if negb (valid_rune (Z.to_N n)) then RBadValue
    else match from_codepoints r with
         | ROk b => ROk (encode_rune (Z.to_N n) ++ b)
         | e => e
         end
  end.

(* str:to-utf8-bytes / str:from-utf8-bytes *)
Definition to_utf8_bytes (s : bytes) : list Z := map Z.of_N s.
Definition from_utf8_bytes (nums : list Z) : res :=
  if existsb (fun n => ((n <? 0) || (255 <? n))%Z) nums then ROutOfRange
  else let b := map Z.to_N nums in
       if valid b then ROk b else RBadValue.

(* ================================================================== *)
(* Part 3 -- pkg/mods/re                                               *)
(* ================================================================== *)

(* regexp.QuoteMeta: the bytes \.+*?()|[]{}^$ get a backslash *)
Definition is_meta (b : N) : bool :=
  existsb (N.eqb b) [92; 46; 43; 42; 63; 40; 41; 124; 91; 93; 123; 125; 94; 36]%N.
Definition quote_meta (s : bytes) : bytes :=
  flat_map (fun b => if is_meta b then [92%N; b] else [b]) s.

(* the literal fragment of the regex syntax: a sequence of plain bytes (no
   metacharacter) and backslash-escaped metacharacters *)
Inductive item := IChar (b : N) | IEsc (b : N).

Fixpoint parse_lit (p : bytes) : option (list item) :=
  match p with
  | [] => Some []
  | b :: r =>
    if N.eqb b 92 then
      match r with
      | c :: r' => if is_meta c then option_map (cons (IEsc c)) (parse_lit r') else None
      | [] => None
      end
    else if is_meta b then None
    else option_map (cons (IChar b)) (parse_lit r)
  end.

(* the one string a fragment pattern denotes *)
Definition item_byte (i : item) : N := match i with IChar b => b | IEsc b => b end.
Definition denote (r : list item) : bytes := map item_byte r.

(* regexp.Compile rejects a pattern that is not valid UTF-8 *)
Definition compiles_lit (p : bytes) : bool := valid p.

(* all leftmost non-overlapping occurrences of a non-empty literal *)
Fixpoint occ_fuel (fuel off : nat) (w t : bytes) : list (nat * nat) :=
  match fuel with
  | O => []
  | S f =>
    match index t w with
    | None => []
    | Some m => (off + m, off + m + length w)
                :: occ_fuel f (off + m + length w) w (skipn (m + length w) t)
    end
  end.
(* the empty literal matches at every rune boundary *)
Fixpoint bounds_fuel (fuel off : nat) (t : bytes) : list (nat * nat) :=
  (off, off) ::
  match t with
  | [] => []
  | _ :: _ =>
    match fuel with
    | O => []
    | S f => let w := snd (decode_rune t) in bounds_fuel f (off + w) (skipn w t)
    end
  end.
Definition lit_matches (w t : bytes) : list (nat * nat) :=
  match w with
  | [] => bounds_fuel (length t) 0 t
  | _ :: _ => occ_fuel (S (length t)) 0 w t
  end.

(* FindAllIndex(s, n) for n >= 0 is the first n matches *)
Definition firstn_max {A} (max : Z) (l : list A) : list A :=
  if (max <? 0)%Z then l else firstn (Z.to_nat max) l.

(* Regexp.Split(s, n) as a loop over the match list, as the Go code has it:
   state beg, end, number of pieces so far *)
Fixpoint re_split_loop (lim : option nat) (s : bytes) (ms : list (nat * nat))
         (beg en cnt : nat) : list bytes :=
  let finish := if Nat.eqb en (length s) then [] else [skipn beg s] in
  match ms with
  | [] => finish
  | (a, b) :: r =>
    if (match lim with Some n => Nat.eqb cnt (n - 1) | None => false end) then finish
    else if Nat.eqb b 0 then re_split_loop lim s r b a cnt
    else slice s beg a :: re_split_loop lim s r b a (S cnt)
  end.

(* re:split &max=max p s, given the engine's full match list ms *)
Definition re_split (max : Z) (p s : bytes) (ms : list (nat * nat)) : list bytes :=
  if (max =? 0)%Z then []
  else if negb (is_nil p) && is_nil s then [[]]
  else re_split_loop (if (max <? 0)%Z then None else Some (Z.to_nat max)) s
                     (firstn_max max ms) 0 0 0.

(* Regexp.ReplaceAll as a loop: copy the gap, then the replacement *)
Fixpoint re_replace_loop (s : bytes) (ms : list (nat * nat * bytes)) (last : nat) : bytes :=
  match ms with
  | [] => skipn last s
  | (a, b, rp) :: r => slice s last a ++ rp ++ re_replace_loop s r b
  end.

(* Regexp.Expand for templates with ASCII names and no named groups *)
Definition is_digit (b : N) : bool := ((48 <=? b) && (b <=? 57))%N.
Definition is_word (b : N) : bool :=
  (is_digit b || (65 <=? b) && (b <=? 90) || (97 <=? b) && (b <=? 122) || (b =? 95))%N.
Fixpoint take_word (s : bytes) : bytes * bytes :=
  match s with
  | b :: r => if is_word b then let '(w, t) := take_word r in (b :: w, t) else ([], s)
  | [] => ([], [])
  end.
(* regexp.extract: the name after a dollar sign, and the rest *)
Definition extract (t : bytes) : option (bytes * bytes) :=
  match t with
  | [] => None
  | b :: t' =>
    if N.eqb b 123 then
      let '(w, r) := take_word t' in
      match w, r with
      | _ :: _, c :: r' => if N.eqb c 125 then Some (w, r') else None
      | _, _ => None
      end
    else
      let '(w, r) := take_word t in
      match w with [] => None | _ :: _ => Some (w, r) end
  end.
(* a name made of digits without a leading zero is a group number *)
Definition name_index (name : bytes) : option nat :=
  if forallb is_digit name && Nat.leb (length name) 9
     && (Nat.eqb (length name) 1 || negb (N.eqb (hd 0%N name) 48))
  then Some (N.to_nat (fold_left (fun acc d => (acc * 10 + (d - 48))%N) name 0%N))
  else None.
Definition group_text (s : bytes) (groups : list (Z * Z)) (name : bytes) : bytes :=
  match name_index name with
  | None => []
  | Some i =>
    match nth_error groups i with
    | Some (a, b) => if (a <? 0)%Z then [] else slice s (Z.to_nat a) (Z.to_nat b)
    | None => []
    end
  end.
Fixpoint expand_fuel (fuel : nat) (tpl s : bytes) (groups : list (Z * Z)) : bytes :=
  match fuel with
  | O => tpl
  | S f =>
    match tpl with
    | [] => []
    | b :: r =>
      if negb (N.eqb b 36) then b :: expand_fuel f r s groups else
      match r with
      | c :: r' =>
        if N.eqb c 36 then 36%N :: expand_fuel f r' s groups else
        match extract r with
        | None => 36%N :: expand_fuel f r s groups
        | Some (name, rest) => group_text s groups name ++ expand_fuel f rest s groups
        end
      | [] => [36%N]
      end
    end
  end.
Definition expand (tpl s : bytes) (groups : list (Z * Z)) : bytes :=
  expand_fuel (S (length tpl)) tpl s groups.

(* one match as re:find reports it *)
Record rmatch := mkM {
  m_s : nat; m_e : nat;          (* start, end of the whole match *)
  m_text : bytes;                (* its text field *)
  m_groups : list (Z * Z) }.     (* start/end of every group, group 0 first; -1 = absent *)

Definition pos_of (m : rmatch) : nat * nat := (m_s m, m_e m).

(* re:replace with a literal replacement / with a template *)
Definition re_replace_lit (repl s : bytes) (ms : list rmatch) : bytes :=
  re_replace_loop s (map (fun m => (m_s m, m_e m, repl)) ms) 0.
Definition re_replace_tpl (tpl s : bytes) (ms : list rmatch) : bytes :=
  re_replace_loop s (map (fun m => (m_s m, m_e m, expand tpl s (m_groups m))) ms) 0.

(* ================================================================== *)
(* Part 4 -- independent specifications (what the oracle demands)      *)
(* ================================================================== *)

(* prefix / suffix by slicing *)
Definition is_prefix_spec (s p : bytes) : bool := bytes_eqb (firstn (length p) s) p.
Definition is_suffix_spec (s p : bytes) : bool :=
  Nat.leb (length p) (length s) && bytes_eqb (skipn (length s - length p) s) p.
Definition trim_prefix_spec (s p : bytes) : bytes :=
  if is_prefix_spec s p then skipn (length p) s else s.
Definition trim_suffix_spec (s p : bytes) : bytes :=
  if is_suffix_spec s p then firstn (length s - length p) s else s.

(* trimming on the code point sequence *)
Fixpoint drop_while {A} (f : A -> bool) (l : list A) : list A :=
  match l with
  | [] => []
  | x :: r => if f x then drop_while f r else l
  end.
Definition trim_left_spec (f : N -> bool) (s : bytes) : bytes :=
  encode_all (drop_while f (decode_all s)).
Definition trim_right_spec (f : N -> bool) (s : bytes) : bytes :=
  encode_all (rev (drop_while f (rev (decode_all s)))).
Definition trim_both_spec (f : N -> bool) (s : bytes) : bytes :=
  encode_all (rev (drop_while f (rev (drop_while f (decode_all s))))).
Definition in_cutset (cut : bytes) (r : N) : bool := existsb (N.eqb r) (decode_all cut).

(* the match-list contract of FindAllIndex: inside the text, start <= end,
   in order, not overlapping, and no empty match right at the end of the
   previous match *)
Fixpoint wf_from (n : nat) (prev : option nat) (ms : list (nat * nat)) : bool :=
  match ms with
  | [] => true
  | (a, b) :: r =>
    Nat.leb a b && Nat.leb b n
    && match prev with
       | None => true
       | Some e => Nat.leb e a && negb (Nat.eqb a b && Nat.eqb a e)
       end
    && wf_from n (Some b) r
  end.
Definition wf_matches (s : bytes) (ms : list (nat * nat)) : bool := wf_from (length s) None ms.

(* the stretches of s between consecutive matches *)
Fixpoint gaps (s : bytes) (ms : list (nat * nat)) (from : nat) : list bytes :=
  match ms with
  | [] => [skipn from s]
  | (a, b) :: r => slice s from a :: gaps s r b
  end.
(* g0 r1 g1 r2 g2 ... *)
Fixpoint weave (gs rs : list bytes) : bytes :=
  match gs with
  | [] => []
  | g :: gs' => g ++ match rs with [] => concat gs' | r :: rs' => r ++ weave gs' rs' end
  end.

(* split, declaratively: of the matches FindAll(s, max) returns, those that do
   not end at offset 0, at most max-1 of them; the pieces are the gaps; the
   last piece is left out when the last used match starts at the end of s *)
Definition ends_at_zero (m : nat * nat) : bool := Nat.eqb (snd m) 0.
Definition re_split_spec (max : Z) (p s : bytes) (ms : list (nat * nat)) : list bytes :=
  if (max =? 0)%Z then []
  else if negb (is_nil p) && is_nil s then [[]]
  else
    let found := filter (fun m => negb (ends_at_zero m)) (firstn_max max ms) in
    let used := if (max <? 0)%Z then found else firstn (Z.to_nat max - 1) found in
    let en := match rev used with [] => 0 | m :: _ => fst m end in
    let pieces := gaps s used 0 in
    if Nat.eqb en (length s) then removelast pieces else pieces.

(* replace, declaratively: the gaps interleaved with the replacements *)
Definition re_replace_spec (s : bytes) (ms : list (nat * nat)) (repls : list bytes) : bytes :=
  weave (gaps s ms 0) repls.

(* ================================================================== *)
(* Part 5 -- cases and the judge                                       *)
(* ================================================================== *)

Definition list_bytes_eqb : list bytes -> list bytes -> bool := list_eqb bytes_eqb.
Definition pos_eqb (a b : nat * nat) : bool := Nat.eqb (fst a) (fst b) && Nat.eqb (snd a) (snd b).
Definition poss_eqb : list (nat * nat) -> list (nat * nat) -> bool := list_eqb pos_eqb.
Definition listZ_eqb : list Z -> list Z -> bool := list_eqb Z.eqb.

Definition texts_ok (t : bytes) (ms : list rmatch) : bool :=
  forallb (fun m => bytes_eqb (m_text m) (slice t (m_s m) (m_e m))) ms.

(* ---- one re: call of a sequence ----
   The result of a call is a function of its own arguments and of the match
   list a freshly compiled engine (exactly the requested flags) gives for its
   own pattern and subject; nothing an earlier call did can enter. *)
Inductive rop := OpFind | OpSplit | OpReplaceLit | OpReplaceTpl | OpMatch.
Record rcall := mkCall {
  rc_op : rop; rc_p : bytes; rc_t : bytes;   (* builtin, pattern, subject *)
  rc_max : Z; rc_repl : bytes;                (* max option (find, split); replacement *)
  rc_longest : bool; rc_posix : bool }.       (* the longest and posix options *)
Inductive rresult :=
| XMatches (ms : list rmatch) | XPieces (l : list bytes) | XString (b : bytes) | XBool (b : bool)
| XFail                (* the pattern does not compile *)
| XOther.              (* anything else the harness saw *)

(* fresh = None: the pattern does not compile with the requested flags *)
Definition run_call (c : rcall) (fresh : option (list rmatch)) : rresult :=
  match fresh with
  | None => XFail
  | Some ms =>
    match rc_op c with
    | OpFind => XMatches (firstn_max (rc_max c) ms)
    | OpSplit => XPieces (re_split (rc_max c) (rc_p c) (rc_t c) (map pos_of ms))
    | OpReplaceLit => XString (re_replace_lit (rc_repl c) (rc_t c) ms)
    | OpReplaceTpl => XString (re_replace_tpl (rc_repl c) (rc_t c) ms)
    | OpMatch => XBool (negb (is_nil ms))
    end
  end.

(* the same with the declarative split / replace *)
Definition spec_call (c : rcall) (fresh : option (list rmatch)) : rresult :=
  match fresh with
  | None => XFail
  | Some ms =>
    match rc_op c with
    | OpFind => XMatches (firstn_max (rc_max c) ms)
    | OpSplit => XPieces (re_split_spec (rc_max c) (rc_p c) (rc_t c) (map pos_of ms))
    | OpReplaceLit =>
      XString (re_replace_spec (rc_t c) (map pos_of ms) (map (fun _ => rc_repl c) ms))
    | OpReplaceTpl =>
      XString (re_replace_spec (rc_t c) (map pos_of ms)
                 (map (fun m => expand (rc_repl c) (rc_t c) (m_groups m)) ms))
    | OpMatch => XBool (negb (is_nil ms))
    end
  end.

(* a sequence of calls against an engine: every call is answered on its own *)
Section Seq.
  Variable engine : bytes -> bool -> bool -> bytes -> option (list rmatch).
  Definition fresh_of (c : rcall) : option (list rmatch) :=
    engine (rc_p c) (rc_longest c) (rc_posix c) (rc_t c).
  Definition run_seq (cs : list rcall) : list rresult :=
    map (fun c => run_call c (fresh_of c)) cs.
End Seq.

Definition groups_eqb : list (Z * Z) -> list (Z * Z) -> bool :=
  list_eqb (fun a b => Z.eqb (fst a) (fst b) && Z.eqb (snd a) (snd b)).
Definition rmatch_eqb (a b : rmatch) : bool :=
  Nat.eqb (m_s a) (m_s b) && Nat.eqb (m_e a) (m_e b) && bytes_eqb (m_text a) (m_text b)
  && groups_eqb (m_groups a) (m_groups b).
Definition rresult_eqb (a b : rresult) : bool :=
  match a, b with
  | XMatches x, XMatches y => list_eqb rmatch_eqb x y
  | XPieces x, XPieces y => list_bytes_eqb x y
  | XString x, XString y => bytes_eqb x y
  | XBool x, XBool y => Bool.eqb x y
  | XFail, XFail | XOther, XOther => true
  | _, _ => false
  end.

(* one step of an observed sequence: the call, what a fresh engine finds for
   it, what the implementation answered *)
Record rstep := mkStep { st_call : rcall; st_fresh : option (list rmatch); st_obs : rresult }.

Definition fresh_ok (c : rcall) (fresh : option (list rmatch)) : bool :=
  match fresh with
  | Some ms => wf_matches (rc_t c) (map pos_of ms) && texts_ok (rc_t c) ms
  | None => true
  end.
Definition step_oracle (st : rstep) : bool :=
  fresh_ok (st_call st) (st_fresh st)
  && rresult_eqb (st_obs st) (spec_call (st_call st) (st_fresh st)).
Definition step_corr (st : rstep) : bool :=
  rresult_eqb (st_obs st) (run_call (st_call st) (st_fresh st)).

Inductive case :=
(* str:split &max=max sep s  and  str:join sep [(str:split &max=max sep s)] *)
| CSplit (max : Z) (sep s : bytes) (out : list bytes) (joined : res)
(* str:join sep items *)
| CJoin (sep : bytes) (items : list (option bytes)) (out : res)
(* str:replace &max=max old new s *)
| CReplace (max : Z) (old new s out : bytes)
(* str:repeat s n *)
| CRepeat (s : bytes) (n : Z) (out : res)
(* has-prefix, has-suffix, trim-prefix, trim-suffix, index of (s, p) *)
| CAffix (s p : bytes) (hasp hass : bool) (trimp trims : bytes) (idx : Z)
(* trim-left, trim-right, trim of (s, cut), trim-space s *)
| CTrim (s cut l r b sp : bytes)
(* to-upper, to-lower, to-title with Go's unicode tables for the runes of s *)
| CCase (s : bytes) (up lo ti : list (N * N)) (oup olo oti : bytes)
(* to-codepoints s and from-codepoints of that output *)
| CCodepoints (s : bytes) (cps : list Z) (back : res)
(* from-codepoints nums, and to-codepoints of the result when there is one *)
| CFromCp (nums : list Z) (out : res) (fwd : list Z)
(* to-utf8-bytes s and from-utf8-bytes of that output *)
| CBytes (s : bytes) (bs : list Z) (back : res)
| CFromBytes (nums : list Z) (out : res)
(* q = re:quote s; fnd = positions re:find $q t reports (None: the pattern did
   not compile) *)
| CQuote (s q t : bytes) (fnd : option (list (nat * nat)))
(* pattern p on text t: re:find (all), re:find &max, re:split, re:split &max,
   re:replace &literal repl, re:replace tpl *)
| CRegex (p t : bytes) (max : Z) (repl tpl : bytes)
         (full : list rmatch) (fmax : list (nat * nat))
         (split_all split_max : list bytes) (rep_lit rep_tpl : bytes)
(* a sequence of re: calls evaluated one after the other in one process *)
| CSeq (steps : list rstep).

(* ---- the oracle: exactly the laws of the property, on observations ---- *)
Definition is_ok (r : res) (b : bytes) : bool := res_eqb r (ROk b).


Definition oracle (c : case) : bool :=
  match c with
  | CSplit max sep s out joined =>
    (* joining a split with the same separator gives back the original
       (something must have been output: max <> 0; per-rune split for valid UTF-8) *)
    if (max =? 0)%Z then true
    else if is_nil sep && negb (valid s) then true
    else is_ok joined s
  | CJoin _ _ _ => true
  | CReplace _ _ _ _ _ => true
  | CRepeat s n out =>
    (* n copies, or a refusal; never a crash *)
    match out with
    | ROk b => (0 <=? n)%Z
               && bytes_eqb b (if is_nil s then [] else concat (repeat s (Z.to_nat n)))
    | RBadValue => true
    | _ => false
    end
  | CAffix s p hasp hass trimp trims idx =>
    Bool.eqb hasp (is_prefix_spec s p) && Bool.eqb hass (is_suffix_spec s p)
    && bytes_eqb trimp (trim_prefix_spec s p) && bytes_eqb trims (trim_suffix_spec s p)
  | CTrim s cut l r b sp =>
    if valid s then
      bytes_eqb l (trim_left_spec (in_cutset cut) s)
      && bytes_eqb r (trim_right_spec (in_cutset cut) s)
      && bytes_eqb b (trim_both_spec (in_cutset cut) s)
      && bytes_eqb sp (trim_both_spec is_space s)
    else true
  | CCase s up lo ti oup olo oti =>
    if valid s then
      bytes_eqb oup (map_runes up s) && bytes_eqb olo (map_runes lo s)
      && bytes_eqb oti (map_runes ti s)
    else true
  | CCodepoints s cps back => if valid s then is_ok back s else true
  | CFromCp nums out fwd =>
    match out with ROk _ => listZ_eqb fwd nums | _ => true end
  | CBytes s bs back => if valid s then is_ok back s else true
  | CFromBytes nums out => true
  | CQuote s q t fnd =>
    (* the quoted pattern matches exactly the literal text *)
    if valid s then
      match fnd with Some ms => poss_eqb ms (lit_matches s t) | None => false end
    else true
  | CRegex p t max repl tpl full fmax split_all split_max rep_lit rep_tpl =>
    let ms := map pos_of full in
    wf_matches t ms && texts_ok t full
    && poss_eqb fmax (firstn_max max ms)
    && list_bytes_eqb split_all (re_split_spec (-1) p t ms)
    && list_bytes_eqb split_max (re_split_spec max p t ms)
    && bytes_eqb rep_lit (re_replace_spec t ms (map (fun _ => repl) full))
    && bytes_eqb rep_tpl (re_replace_spec t ms (map (fun m => expand tpl t (m_groups m)) full))
    && match parse_lit p with
       | Some r => poss_eqb ms (lit_matches (denote r) t)
       | None => true
       end
  | CSeq steps =>
    (* every call answers as a fresh engine would: no call depends on an earlier one *)
    forallb step_oracle steps
  end.

(* ---- correspondence: the model run on the same inputs ---- *)
Definition corr (c : case) : bool :=
  match c with
  | CSplit max sep s out joined =>
    list_bytes_eqb out (str_split max sep s) && res_eqb joined (ROk (join sep (str_split max sep s)))
  | CJoin sep items out => res_eqb out (str_join sep items)
  | CReplace max old new s out => bytes_eqb out (str_replace max old new s)
  | CRepeat s n out => res_eqb out (str_repeat s n)
  | CAffix s p hasp hass trimp trims idx =>
    Bool.eqb hasp (has_prefix s p) && Bool.eqb hass (has_suffix s p)
    && bytes_eqb trimp (trim_prefix s p) && bytes_eqb trims (trim_suffix s p)
    && Z.eqb idx (index_z s p)
  | CTrim s cut l r b sp =>
    bytes_eqb l (trim_left s cut) && bytes_eqb r (trim_right s cut)
    && bytes_eqb b (trim s cut) && bytes_eqb sp (trim_space s)
  | CCase s up lo ti oup olo oti =>
    bytes_eqb oup (map_runes up s) && bytes_eqb olo (map_runes lo s)
    && bytes_eqb oti (map_runes ti s)
  | CCodepoints s cps back =>
    listZ_eqb cps (to_codepoints s) && res_eqb back (from_codepoints (to_codepoints s))
  | CFromCp nums out fwd =>
    res_eqb out (from_codepoints nums)
    && match from_codepoints nums with ROk b => listZ_eqb fwd (to_codepoints b) | _ => is_nil fwd end
  | CBytes s bs back =>
    listZ_eqb bs (to_utf8_bytes s) && res_eqb back (from_utf8_bytes (to_utf8_bytes s))
  | CFromBytes nums out => res_eqb out (from_utf8_bytes nums)
  | CQuote s q t fnd =>
    bytes_eqb q (quote_meta s)
    && match fnd with
       | Some ms => compiles_lit (quote_meta s) && poss_eqb ms (lit_matches s t)
       | None => negb (compiles_lit (quote_meta s))
       end
  | CRegex p t max repl tpl full fmax split_all split_max rep_lit rep_tpl =>
    let ms := map pos_of full in
    list_bytes_eqb split_all (re_split (-1) p t ms)
    && list_bytes_eqb split_max (re_split max p t ms)
    && bytes_eqb rep_lit (re_replace_lit repl t full)
    && bytes_eqb rep_tpl (re_replace_tpl tpl t full)
  | CSeq steps => forallb step_corr steps
  end.

Definition judge1 (c : case) : N := code (oracle c) (corr c).

Definition judge := judge_with judge1.
