(* C33 — model of pkg/ui/styledown (executable definitions only, no proofs).

   Naming follows the Go package: [render] parses Styledown markup into a Text
   (styledown.Render), [derender] prints a Text as markup (styledown.Derender).

   The model works on runes: a text is a list of (style, runes) and markup is
   a list of runes.  (Go converts with []rune / string(r); for valid UTF-8 the
   two views are interchangeable — the runner only feeds valid UTF-8.)  A rune
   text has the same Coq type as C33's byte text, so Normal, the TextBuilder
   and Text.SplitByRune of model/C33.v are reused as they are.

   parseStyleCharDef (strings.Fields + ui.ParseStyling) is external: a Section
   variable [parse_def : line -> option (style char, styling atoms)].  For
   execution it is a table supplied by the runner for the lines that occur. *)
From verif Require Import lib.Base lib.Utf8 model.C34_width model.C33.
Open Scope Z_scope.

Inductive result (A : Type) := Ok (a : A) | Err.
Arguments Ok {A} a.
Arguments Err {A}.

Definition NL : N := 10%N.
Definition no_eol : list N := [110; 111; 45; 101; 111; 108]%N.      (* "no-eol" *)
Definition runes_eqb : list N -> list N -> bool := list_eqb N.eqb.

(* styledown.BuiltinStyleChars: ' ' reset, '*' bold, '_' underlined, '#' inverse *)
Definition builtin_chars : list (N * list styling) :=
  [(32%N, [SReset]); (42%N, [SOn FBold]); (95%N, [SOn FUnderlined]); (35%N, [SOn FInverse])].

Fixpoint lookup {A} (c : N) (l : list (N * A)) : option A :=
  match l with
  | [] => None
  | (k, v) :: r => if N.eqb k c then Some v else lookup c r
  end.

(* map[ui.Style]rune as an association list; the most recent binding wins *)
Fixpoint cfs_lookup (s : style) (l : list (style * N)) : option N :=
  match l with
  | [] => None
  | (k, c) :: r => if style_eqb k s then Some c else cfs_lookup s r
  end.

(* style(styling) = ApplyStyling(Style{}, styling) *)
Definition style_of (ats : list styling) : style := apply_styling style0 ats.

Fixpoint all_same (l : list N) : bool :=
  match l with
  | a :: ((b :: _) as r) => N.eqb a b && all_same r
  | _ => true
  end.

(* dedup keeping first occurrences *)
Fixpoint dedup (l : list N) (seen : list N) : list N :=
  match l with
  | [] => []
  | c :: r => if existsb (N.eqb c) seen then dedup r seen else c :: dedup r (c :: seen)
  end.

Section Styledown.
  Variable w : N -> Z.                                           (* wcwidth.OfRune *)
  Variable parse_def : list N -> option (N * list styling).      (* parseStyleCharDef *)

  Definition W (l : list N) : Z := width_runes w l.              (* wcwidth.Of *)
  Definition split_lines (s : list N) : list (list N) := split_bytes [NL] s.

  (* ---------------- Render: markup -> Text ---------------- *)

  (* for ; i+1 < len(lines) && Of(lines[i]) == Of(lines[i+1]); i += 2 {} *)
  Fixpoint pair_lines (ls : list (list N)) : list (list N * list N) * list (list N) :=
    match ls with
    | a :: b :: r =>
      if W a =? W b then let '(ps, rest) := pair_lines r in ((a, b) :: ps, rest)
      else ([], ls)
    | _ => ([], ls)
    end.

  (* parseConfig: (noEOL, style character definitions in order) *)
  Fixpoint parse_config (lines : list (list N)) (noeol : bool) (defs : list (N * list styling))
    : result (bool * list (N * list styling)) :=
    match lines with
    | [] => Ok (noeol, defs)
    | l :: r =>
      if is_nil l then parse_config r noeol defs
      else if runes_eqb l no_eol then parse_config r true defs
      else match parse_def l with
           | None => Err
           | Some (c, ats) =>
             match lookup c defs with
             | Some _ => Err                       (* duplicate style definition *)
             | None => parse_config r noeol (defs ++ [(c, ats)])
             end
           end
    end.

  (* the merged stylesheet: definitions first, then the builtin characters *)
  Definition sheet_lookup (defs : list (N * list styling)) (c : N) : option (list styling) :=
    match lookup c defs with Some a => Some a | None => lookup c builtin_chars end.

  (* one content line with its style line *)
  Fixpoint render_line (defs : list (N * list styling)) (tb : builder) (txt sty : list N)
    : result builder :=
    match txt with
    | [] => Ok tb
    | r :: txt' =>
      if w r =? 0 then Err                                  (* zero-width character *)
      else
        let k := Z.to_nat (w r) in
        if Nat.ltb (length sty) k then Err                  (* len(style) < w: style line too short *)
        else if negb (all_same (firstn k sty)) then Err     (* inconsistent style *)
        else match sty with
             | [] => Err
             | c :: _ =>
               match sheet_lookup defs c with
               | None => Err                                (* unknown style *)
               | Some ats => render_line defs (write_text tb (T [r] ats)) txt' (skipn k sty)
               end
             end
    end.

  Fixpoint render_pairs (defs : list (N * list styling)) (first : bool) (tb : builder)
           (ps : list (list N * list N)) : result builder :=
    match ps with
    | [] => Ok tb
    | (a, b) :: r =>
      let tb1 := if first then tb else write_text tb (T [NL] []) in
      match render_line defs tb1 a b with
      | Err => Err
      | Ok tb2 => render_pairs defs false tb2 r
      end
    end.

  Definition render (s : list N) : result text :=
    let '(ps, rest) := pair_lines (split_lines s) in
    let cfg := match rest with
               | [] => Ok []
               | x :: r => if is_nil x then Ok r else Err   (* text line without style line *)
               end in
    match cfg with
    | Err => Err
    | Ok cfg_lines =>
      match parse_config cfg_lines false [] with
      | Err => Err
      | Ok (noeol, defs) =>
        match render_pairs defs true b_empty ps with
        | Err => Err
        | Ok tb => Ok (b_result (if noeol then tb else write_text tb (T [NL] [])))
        end
      end
    end.

  (* ---------------- Derender: Text -> markup ---------------- *)

  (* charForStyle and charDef built from styleDefs *)
  Fixpoint build_table (lines : list (list N)) (cfs : list (style * N)) (user : list (N * list N))
    : result (list (style * N) * list (N * list N)) :=
    match lines with
    | [] => Ok (cfs, user)
    | l :: r =>
      if is_nil l then build_table r cfs user
      else match parse_def l with
           | None => Err
           | Some (c, ats) =>
             match cfs_lookup (style_of ats) cfs with
             | Some _ => Err                       (* defines the same style as another char *)
             | None =>
               match lookup c user with
               | Some _ => Err                     (* already defined *)
               | None => build_table r ((style_of ats, c) :: cfs) (user ++ [(c, l)])
               end
             end
           end
    end.

  (* builtin characters that were not redefined; they override equal styles *)
  Definition add_builtins (cfs : list (style * N)) (user : list (N * list N)) : list (style * N) :=
    fold_left (fun acc p =>
                 match lookup (fst p) user with
                 | Some _ => acc
                 | None => (style_of (snd p), fst p) :: acc
                 end) builtin_chars cfs.

  (* one line: (content, style line, characters used in order) *)
  Fixpoint derender_line (cfs : list (style * N)) (p : text)
    : result (list N * list N * list N) :=
    match p with
    | [] => Ok ([], [], [])
    | (s, x) :: r =>
      match cfs_lookup s cfs with
      | None => Err                                 (* style has no char defined *)
      | Some c =>
        match derender_line cfs r with
        | Err => Err
        | Ok (cl, sl, used) => Ok (x ++ cl, repeat c (Z.to_nat (W x)) ++ sl, c :: used)
        end
      end
    end.

  Fixpoint derender_lines (cfs : list (style * N)) (ps : list text)
    : result (list (list N * list N * list N)) :=
    match ps with
    | [] => Ok []
    | p :: r =>
      match derender_line cfs p, derender_lines cfs r with
      | Ok l, Ok ls => Ok (l :: ls)
      | _, _ => Err
      end
    end.

  Definition derender (t : text) (style_defs : list N) : result (list N) :=
    match build_table (split_lines style_defs) [] [] with
    | Err => Err
    | Ok (cfs0, user) =>
      let cfs := add_builtins cfs0 user in
      let parts := split_text [NL] t in
      let trailing_nl := match parts with [] => false | _ => is_nil (last parts []) end in
      let parts' := if trailing_nl then removelast parts else parts in
      match derender_lines cfs parts' with
      | Err => Err
      | Ok ls =>
        let used := flat_map (fun l => snd l) ls in
        let user_used := dedup (filter (fun c => match lookup c user with Some _ => true | None => false end) used) [] in
        let config :=
            (if trailing_nl then [] else no_eol ++ [NL])
            ++ flat_map (fun c => match lookup c user with Some l => l ++ [NL] | None => [] end) user_used in
        Ok (flat_map (fun l => fst (fst l) ++ [NL] ++ snd (fst l) ++ [NL]) ls
            ++ (if is_nil config then [] else NL :: config))
      end
    end.
End Styledown.

(* ------------------------------------------------------------------ *)
(* execution against the implementation: texts and markup come as UTF-8 bytes *)

Definition decode_text (t : text) : text := map (fun sg => (fst sg, runes_of (snd sg))) t.

(* parseStyleCharDef as observed by the runner for the lines that occur *)
Definition def_table := list (bytes * option (N * list styling)).
Fixpoint table_parse (tb : def_table) (l : list N) : option (N * list styling) :=
  match tb with
  | [] => None
  | (k, v) :: r => if runes_eqb (runes_of k) l then v else table_parse r l
  end.

(* the contract of parseStyleCharDef the theorems rely on, checked on every
   observed table: the style character is one column wide, occurs in its
   definition line, and "no-eol" is not a definition *)
Definition entry_ok (e : bytes * option (N * list styling)) : bool :=
  match snd e with
  | None => true
  | Some (c, _) =>
    (of_rune c =? 1) && existsb (N.eqb c) (runes_of (fst e))
    && negb (runes_eqb (runes_of (fst e)) no_eol)
  end.
Definition table_wf (tbl : def_table) : bool := forallb entry_ok tbl.

Inductive sd_back := BackOk (r : res) | BackErr | BackNone.

Definition text_eqb (a b : text) : bool := list_eqb seg_eqb a b.

Definition back_matches (m : result text) (b : sd_back) : bool :=
  match m, b with
  | Ok t, BackOk (flag, tb) => text_eqb (decode_text tb) t && Bool.eqb flag (is_nil t)
  | Err, BackErr => true
  | _, _ => false
  end.

Inductive sd_case :=
(* Derender(t, defs) = markup (None: error); then Render(markup) = back *)
| SDRound (t : text) (defs : bytes) (tbl : def_table) (markup : option bytes) (back : sd_back)
(* Render(markup) = back, on arbitrary markup *)
| SDParse (markup : bytes) (tbl : def_table) (back : sd_back).

(* oracle: when Derender succeeds, rendering its markup gives the same Text, in normal form *)
Definition check_round (t : text) (markup : option bytes) (back : sd_back) : bool :=
  match markup with
  | None => true
  | Some _ =>
    match back with
    | BackOk (flag, t') => text_eqb t' t && res_normal (flag, t')
    | _ => false
    end
  end.

Definition check_parse (back : sd_back) : bool :=
  match back with BackOk r => res_normal r | BackErr => true | BackNone => false end.

Definition sd_judge1 (c : sd_case) : N :=
  match c with
  | SDRound t defs tbl markup back =>
    let pd := table_parse tbl in
    let m := derender of_rune pd (decode_text t) (runes_of defs) in
    let corr1 := match m, markup with
                 | Err, None => true
                 | Ok x, Some y => runes_eqb x (runes_of y)
                 | _, _ => false
                 end in
    let corr2 := match markup with
                 | None => true
                 | Some y => back_matches (render of_rune pd (runes_of y)) back
                 end in
    code (check_round t markup back) (table_wf tbl && corr1 && corr2)
  | SDParse markup tbl back =>
    code (check_parse back)
         (table_wf tbl && back_matches (render of_rune (table_parse tbl) (runes_of markup)) back)
  end.

(* all C33 cases *)
Inductive case := COp (c : C33.case) | CSD (c : sd_case).
Definition judge1 (c : case) : N :=
  match c with COp c => C33.judge1 c | CSD c => sd_judge1 c end.
Definition judge := judge_with judge1.
