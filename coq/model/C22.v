(* C22 -- model of the module cache of pkg/eval (executable, no proofs):
   builtin_special.go use / useFromFile / evalModule over Evaler.modules,
   LibDirs and BundledModules; a model of filepath.Clean / Dir / Join for
   rooted paths; module bodies as lists of statements; the observable event
   trace; and the property oracle evaluated on the implementation's trace. *)
From verif Require Import lib.Base.
Open Scope N_scope.

(* ------------------------------------------------------------------ *)
(* paths (byte strings); all directories handed to the model are rooted *)
Definition SL : N := 47.
Definition DOT : N := 46.
Definition is_sl (c : N) : bool := c =? SL.

(* strings.Split(s, "/") *)
Fixpoint split_slash (s : bytes) : list bytes :=
  match s with
  | [] => [[]]
  | c :: r =>
    if is_sl c then [] :: split_slash r
    else match split_slash r with
         | seg :: segs => (c :: seg) :: segs
         | [] => [[c]]
         end
  end.

(* filepath.Clean on a rooted path: empty and "." elements vanish, ".." drops
   the previous element (and vanishes at the root).  The stack is reversed. *)
Definition clean_step (stk : list bytes) (seg : bytes) : list bytes :=
  if bytes_eqb seg [] || bytes_eqb seg [DOT] then stk
  else if bytes_eqb seg [DOT; DOT] then tl stk
  else seg :: stk.

Definition clean_segs (segs : list bytes) : list bytes :=
  rev (fold_left clean_step segs []).

Fixpoint render (segs : list bytes) : bytes :=
  match segs with
  | [] => []
  | s :: r => SL :: s ++ render r
  end.

Definition render_abs (segs : list bytes) : bytes :=
  match segs with [] => [SL] | _ => render segs end.

Definition clean_abs (p : bytes) : bytes := render_abs (clean_segs (split_slash p)).

(* filepath.Dir: everything up to the last slash, cleaned *)
Fixpoint dir_prefix (s : bytes) : bytes :=
  match s with
  | [] => []
  | c :: r => if existsb is_sl (c :: r) then c :: dir_prefix r else []
  end.
Definition dir_of (p : bytes) : bytes := clean_abs (dir_prefix p).

(* filepath.Join(dir, spec): empty elements are ignored, the rest is cleaned *)
Definition join_path (d s : bytes) : bytes :=
  match s with
  | [] => clean_abs d
  | _ => clean_abs (d ++ SL :: s)
  end.

(* strings.HasPrefix(spec, "./") || strings.HasPrefix(spec, "../") *)
Definition is_rel (s : bytes) : bool :=
  match s with
  | a :: b :: r =>
    ((a =? DOT) && (b =? SL))
    || ((a =? DOT) && (b =? DOT) && match r with c :: _ => c =? SL | [] => false end)
  | _ => false
  end.

Definition rooted (k : bytes) : bool :=
  match k with c :: _ => is_sl c | [] => false end.

(* ------------------------------------------------------------------ *)
(* association lists keyed by byte strings *)
Fixpoint lookup {A} (k : bytes) (l : list (bytes * A)) : option A :=
  match l with
  | [] => None
  | (k', v) :: r => if bytes_eqb k k' then Some v else lookup k r
  end.

Definition delete {A} (k : bytes) (l : list (bytes * A)) : list (bytes * A) :=
  filter (fun kv => negb (bytes_eqb k (fst kv))) l.

(* ------------------------------------------------------------------ *)
(* module bodies.  Every generated module first declares its identity and a
   per-evaluation counter variable (the EStart event, which is also the
   side-effect marker), then runs its statements, then reports EEnd. *)
Inductive stmt :=
| SUse (spec : bytes)       (* use spec;  then report what was seen *)
| STryUse (spec : bytes)    (* try { use spec; report } catch { report caught } *)
| SFailIf (k : N).          (* if flag k is set: fail *)

Record body := mkBody { b_id : N; b_stmts : list stmt }.

Record env := mkEnv {
  fs : list (bytes * body);        (* path without .elv  ->  module file *)
  bundled : list (bytes * body);   (* Evaler.BundledModules: spec -> code *)
  libdirs : list bytes }.          (* Evaler.LibDirs, in order *)

Inductive importer := IScript | IMod (m n : N).

Inductive event :=
| EStart (m n : N)                (* body of module m starts; n = fresh namespace id *)
| EEnd (m n : N)                  (* body ran to its end *)
| EFailed (m n : N)               (* evaluation n of module m failed *)
| ESeen (a : N) (imp : importer) (spec : bytes) (tm tn : N)
                                  (* in action a, importer's use spec returned namespace tn of module tm *)
| ECaught (m n : N)               (* evaluation n of m caught a failing use *)
| EResult (a : N) (r : N).        (* action a: 0 ok, 1 fail, 2 no such module *)

Inductive res (A : Type) :=
| Ok (x : A) | Err (kind : N) | OOF.
Arguments Ok {A} x.
Arguments Err {A} kind.
Arguments OOF {A}.

Definition K_FAIL : N := 1.
Definition K_NOMOD : N := 2.
Definition K_OOF : N := 99.

(* Evaler state: modules map (key -> (module, namespace id)), fresh-id counter,
   and the event trace, newest first *)
Record st := mkSt {
  cache : list (bytes * (N * N));
  next : N;
  rtrace : list event }.

Definition emit (e : event) (s : st) : st := mkSt (cache s) (next s) (e :: rtrace s).

(* per-action context *)
Record ctx := mkCtx { cx_a : N; cx_cwd : bytes; cx_flags : list N }.

Definition memN (k : N) (l : list N) : bool := existsb (N.eqb k) l.

Section Step.
  Context (E : env) (cx : ctx).
  (* the recursive occurrence of [use] (one unit of fuel less) *)
  Context (use_rec : option bytes -> bytes -> st -> st * res (N * N)).

  Fixpoint exec_stmts (m n : N) (org : option bytes) (l : list stmt) (s : st)
    : st * res unit :=
    match l with
    | [] => (s, Ok tt)
    | SUse spec :: r =>
      match use_rec org spec s with
      | (s1, Ok (tm, tn)) =>
        exec_stmts m n org r (emit (ESeen (cx_a cx) (IMod m n) spec tm tn) s1)
      | (s1, Err k) => (s1, Err k)
      | (s1, OOF) => (s1, OOF)
      end
    | STryUse spec :: r =>
      match use_rec org spec s with
      | (s1, Ok (tm, tn)) =>
        exec_stmts m n org r (emit (ESeen (cx_a cx) (IMod m n) spec tm tn) s1)
      | (s1, Err _) => exec_stmts m n org r (emit (ECaught m n) s1)
      | (s1, OOF) => (s1, OOF)
      end
    | SFailIf k :: r =>
      if memN k (cx_flags cx) then (s, Err K_FAIL) else exec_stmts m n org r s
    end.

  (* evalModule: install before executing; delete on failure *)
  Definition eval_module (key : bytes) (org : option bytes) (b : body) (s : st)
    : st * res (N * N) :=
    let m := b_id b in
    let n := next s in
    let s0 := mkSt ((key, (m, n)) :: cache s) (n + 1) (EStart m n :: rtrace s) in
    match exec_stmts m n org (b_stmts b) s0 with
    | (s1, Ok _) => (emit (EEnd m n) s1, Ok (m, n))
    | (s1, Err k) =>
      (mkSt (delete key (cache s1)) (next s1) (EFailed m n :: rtrace s1), Err k)
    | (s1, OOF) => (s1, OOF)
    end.

  (* useFromFile; None = NoSuchModule raised by this very lookup *)
  Definition use_file (path : bytes) (s : st) : option (st * res (N * N)) :=
    match lookup path (cache s) with
    | Some v => Some (s, Ok v)
    | None =>
      match lookup path (fs E) with
      | Some b => Some (eval_module path (Some (dir_of path)) b s)
      | None => None
      end
    end.

  Fixpoint use_libs (spec : bytes) (dirs : list bytes) (s : st) : st * res (N * N) :=
    match dirs with
    | [] => (s, Err K_NOMOD)
    | d :: r =>
      match use_file (join_path d spec) s with
      | Some x => x
      | None => use_libs spec r s
      end
    end.

  Definition rel_dir (org : option bytes) : bytes :=
    match org with Some d => d | None => cx_cwd cx end.

  Definition rel_path (org : option bytes) (spec : bytes) : bytes :=
    clean_abs (rel_dir org ++ SL :: spec).

  Definition use_step (org : option bytes) (spec : bytes) (s : st) : st * res (N * N) :=
    if is_rel spec then
      match use_file (rel_path org spec) s with
      | Some x => x
      | None => (s, Err K_NOMOD)
      end
    else
      match lookup spec (cache s) with
      | Some v => (s, Ok v)
      | None =>
        match lookup spec (bundled E) with
        | Some b => eval_module spec None b s
        | None => use_libs spec (libdirs E) s
        end
      end.
End Step.

Fixpoint use (E : env) (cx : ctx) (fuel : nat)
  : option bytes -> bytes -> st -> st * res (N * N) :=
  match fuel with
  | O => fun _ _ s => (s, OOF)
  | S f => use_step E cx (use E cx f)
  end.

(* ------------------------------------------------------------------ *)
(* top level: a sequence of actions on ONE evaler *)
Inductive origin := OCwd | OFile (path : bytes).

Inductive action :=
| AUse (cwd : bytes) (org : origin) (spec : bytes)
| ASetFlag (k : N) (b : bool).

Definition org_dir (org : origin) : option bytes :=
  match org with OCwd => None | OFile p => Some (dir_of p) end.

Definition set_flag (k : N) (b : bool) (fl : list N) : list N :=
  let fl' := filter (fun x => negb (x =? k)) fl in
  if b then k :: fl' else fl'.

(* enough fuel: one more than the number of evaluable keys (see
   C22_use_terminates) *)
Definition fuel_of (E : env) : nat := S (length (fs E) + length (bundled E)).

Definition run_act (E : env) (fuel : nat) (a : N) (act : action) (sf : st * list N)
  : st * list N :=
  let '(s, fl) := sf in
  match act with
  | AUse cwd org spec =>
    match use E (mkCtx a cwd fl) fuel (org_dir org) spec s with
    | (s1, Ok (m, n)) => (emit (EResult a 0) (emit (ESeen a IScript spec m n) s1), fl)
    | (s1, Err k) => (emit (EResult a k) s1, fl)
    | (s1, OOF) => (emit (EResult a K_OOF) s1, fl)
    end
  | ASetFlag k b => (s, set_flag k b fl)
  end.

Fixpoint run_from (E : env) (fuel : nat) (a : N) (acts : list action) (sf : st * list N)
  : st * list N :=
  match acts with
  | [] => sf
  | act :: r => run_from E fuel (a + 1) r (run_act E fuel a act sf)
  end.

Definition st0 : st := mkSt [] 0 [].

Definition run (E : env) (acts : list action) : st :=
  fst (run_from E (fuel_of E) 0 acts (st0, [])).

Definition trace_of (E : env) (acts : list action) : list event :=
  rev (rtrace (run E acts)).

(* ------------------------------------------------------------------ *)
(* the property oracle, on a trace given NEWEST FIRST *)
Definition pair_eqb (p q : N * N) : bool := (fst p =? fst q) && (snd p =? snd q).
Definition mem_pair (p : N * N) (l : list (N * N)) : bool := existsb (pair_eqb p) l.

(* evaluations that have started and not failed *)
Fixpoint live (r : list event) : list (N * N) :=
  match r with
  | [] => []
  | EStart m n :: r' => (m, n) :: live r'
  | EFailed m n :: r' => filter (fun p => negb (pair_eqb (m, n) p)) (live r')
  | _ :: r' => live r'
  end.

(* at most once unless failed: when a body starts, no earlier evaluation of
   the same module is unfailed *)
Fixpoint once_ok (r : list event) : bool :=
  match r with
  | [] => true
  | EStart m n :: r' => negb (existsb (fun p => fst p =? m) (live r')) && once_ok r'
  | _ :: r' => once_ok r'
  end.

Fixpoint failed (r : list event) : list (N * N) :=
  match r with
  | [] => []
  | EFailed m n :: r' => (m, n) :: failed r'
  | _ :: r' => failed r'
  end.

(* failed modules are not cached: no use returns the namespace of an
   evaluation that has already failed *)
Fixpoint nostale_ok (r : list event) : bool :=
  match r with
  | [] => true
  | ESeen _ _ _ tm tn :: r' => negb (mem_pair (tm, tn) (failed r')) && nostale_ok r'
  | _ :: r' => nostale_ok r'
  end.

Definition event_is_end (m n : N) (e : event) : bool :=
  match e with EEnd m' n' => (m =? m') && (n =? n') | _ => false end.

(* an importer still holds what it imported: scripts, and module evaluations
   that ran to their end *)
Definition imp_live (r : list event) (imp : importer) : bool :=
  match imp with
  | IScript => true
  | IMod m n => existsb (event_is_end m n) r
  end.

Definition seen_live (r : list event) : list (N * N) :=
  flat_map (fun e => match e with
                     | ESeen _ imp _ tm tn => if imp_live r imp then [(tm, tn)] else []
                     | _ => []
                     end) r.

(* all (surviving) importers of a module hold the same namespace *)
Definition samens_ok (r : list event) : bool :=
  let l := seen_live r in
  forallb (fun p => forallb (fun q => implb (fst p =? fst q) (snd p =? snd q)) l) l.

(* relative imports resolve against the importing file, or the working
   directory for code not from a file *)
Definition find_id (m : N) (l : list (bytes * body)) : option (bytes * body) :=
  find (fun kb => b_id (snd kb) =? m) l.

Definition imp_dir (E : env) (acts : list action) (a : N) (imp : importer) : option bytes :=
  match nth_error acts (N.to_nat a) with
  | Some (AUse cwd org _) =>
    match imp with
    | IScript => Some (match org with OCwd => cwd | OFile p => dir_of p end)
    | IMod m _ =>
      match find_id m (fs E) with
      | Some (k, _) => Some (dir_of k)
      | None => Some cwd
      end
    end
  | _ => None
  end.

Definition rel_ev_ok (E : env) (acts : list action) (e : event) : bool :=
  match e with
  | ESeen a imp spec tm tn =>
    if is_rel spec then
      match imp_dir E acts a imp with
      | Some d =>
        match lookup (clean_abs (d ++ SL :: spec)) (fs E) with
        | Some b => b_id b =? tm
        | None => false
        end
      | None => false
      end
    else true
  | _ => true
  end.

Definition rel_ok (E : env) (acts : list action) (r : list event) : bool :=
  forallb (rel_ev_ok E acts) r.

(* the whole property on a chronological trace *)
Definition check_C22 (E : env) (acts : list action) (tr : list event) : bool :=
  let r := rev tr in
  once_ok r && nostale_ok r && samens_ok r && rel_ok E acts r.

(* ------------------------------------------------------------------ *)
(* correspondence *)
Definition importer_eqb (a b : importer) : bool :=
  match a, b with
  | IScript, IScript => true
  | IMod m n, IMod m' n' => (m =? m') && (n =? n')
  | _, _ => false
  end.

Definition event_eqb (a b : event) : bool :=
  match a, b with
  | EStart m n, EStart m' n' => (m =? m') && (n =? n')
  | EEnd m n, EEnd m' n' => (m =? m') && (n =? n')
  | EFailed m n, EFailed m' n' => (m =? m') && (n =? n')
  | ECaught m n, ECaught m' n' => (m =? m') && (n =? n')
  | EResult x r, EResult x' r' => (x =? x') && (r =? r')
  | ESeen x i s m n, ESeen x' i' s' m' n' =>
    (x =? x') && importer_eqb i i' && bytes_eqb s s' && (m =? m') && (n =? n')
  | _, _ => false
  end.

Record case := mkCase {
  c_env : env;
  c_acts : list action;
  c_obs : list event }.      (* what the implementation did, oldest first *)

(* the harness writes all paths of one case relative to the case's root
   directory, once; this puts the root back *)
Definition act_root (root : bytes) (a : action) : action :=
  match a with
  | AUse cwd org spec =>
    AUse (root ++ cwd) (match org with OCwd => OCwd | OFile p => OFile (root ++ p) end) spec
  | ASetFlag k b => ASetFlag k b
  end.

Definition rooted_case (root : bytes) (fsl bdl : list (bytes * body)) (libs : list bytes)
    (acts : list action) (obs : list event) : case :=
  mkCase (mkEnv (map (fun kb => (root ++ fst kb, snd kb)) fsl) bdl (map (app root) libs))
         (map (act_root root) acts) obs.

(* well-formed environment (the domain of the theorems): every module body
   carries its own distinct identity, and bundled specs are not rooted paths *)
Fixpoint nodupN (l : list N) : bool :=
  match l with
  | [] => true
  | x :: r => negb (memN x r) && nodupN r
  end.

Definition all_ids (E : env) : list N := map (fun kb => b_id (snd kb)) (fs E ++ bundled E).

Definition wf_envb (E : env) : bool :=
  nodupN (all_ids E) && forallb (fun kb => negb (rooted (fst kb))) (bundled E).

Definition judge1 (c : case) : N :=
  code (check_C22 (c_env c) (c_acts c) (c_obs c))
       (wf_envb (c_env c)
        && list_eqb event_eqb (trace_of (c_env c) (c_acts c)) (c_obs c)).

Definition judge := judge_with judge1.
