(* C04 — repr output evaluates back to an equal value.  Executable model (no
   proofs) of
     pkg/eval/vals/repr.go          Repr / ReprPlain for nil, bool, string, the
                                    four number types, List, Map; reprMap with
                                    its sort by CmpTotal, ties broken by the key text
     pkg/eval/vals/repr_helpers.go  ListReprBuilder / MapReprBuilder (buffer,
                                    separators, indentation, tab after =, [&])
   reusing, read-only, the finished models of
     model/C03.v        parse.Quote and the string/variable part of the parser
     model/C05.v        number to string (formatFloat64 ...) and ParseNum
     model/C08_Value.v  the value type, Equal, Hash, CmpTotal
   and of exactly the part of the parser + evaluator that reads what repr
   prints: list and map literals (Primary.lbracket, MapPair.parse, the white
   space loops), an output capture holding one form (num X), the variables
   nil / true / false, string words (through C03.read_compound), list and map
   construction (compile_value.go listOp / mapOp: sequential Assoc).
   Anything else makes the reader answer ROther, on which the judge abstains.

   Go -> model dictionary
     indent int                 Z; ReprPlain passes math.MinInt, here any
                                negative number (MinInt + depth never reaches 0)
     bytes.Buffer of a builder  the byte list written so far
     sort.Slice(pairs, less)    [isort]: for at most 12 elements Go runs
                                insertionSortLessFunc, which is this stable
                                insertion sort; longer slices go through
                                pdqsort, which is NOT modelled (the same result
                                whenever no two keys tie)
     map iteration order        part of the input: VMap holds the entries in the
                                order the hash map iterator yields them
     order of Go type descriptors (CmpTotal typeOf)   [rk], observed by the
                                harness through vals.CmpTotal on one
                                representative per type
     unicode.IsPrint, strconv   Section variables, instantiated per case from
                                Go's own answers (as in C03 / C05) *)
From verif Require Import lib.Base lib.Utf8 model.C03 model.C08_Value.
From verif Require model.C05.
From Coq Require Import QArith.
Close Scope Q_scope.
Open Scope N_scope.

(* ------------------------------------------------------------------ *)
(* fixed texts *)
Definition sNil : bytes := [36; 110; 105; 108].              (* $nil *)
Definition sTrue : bytes := [36; 116; 114; 117; 101].        (* $true *)
Definition sFalse : bytes := [36; 102; 97; 108; 115; 101].   (* $false *)
Definition sNumOpen : bytes := [40; 110; 117; 109; 32].      (* (num  *)
Definition nNum : bytes := [110; 117; 109].                  (* num *)
Definition nNil : bytes := [110; 105; 108].
Definition nTrue : bytes := [116; 114; 117; 101].
Definition nFalse : bytes := [102; 97; 108; 115; 101].
Definition sEmptyList : bytes := [91; 93].                   (* [] *)
Definition sEmptyMap : bytes := [91; 38; 93].                (* [&] *)
Definition sOpaque : bytes := [60; 111; 62].                 (* <o>: outside the property *)

(* the number inside a value, in C05's representation *)
Definition num_of (v : value) : option C05.num :=
  match v with
  | VInt z => Some (C05.NInt z)
  | VBig z => Some (C05.NBig z)
  | VRat q => Some (C05.NRat (Qnum q) (Zpos (Qden q)))
  | VFloat b => Some (C05.NFloat b)
  | _ => None
  end.
Definition value_of_num (n : C05.num) : value :=
  match n with
  | C05.NInt z => VInt z
  | C05.NBig z => VBig z
  | C05.NRat n d => VRat (Qmake n (Z.to_pos d))
  | C05.NFloat b => VFloat b
  end.

(* ------------------------------------------------------------------ *)
(* repr_helpers.go *)
Definition spaces (n : Z) : bytes := repeat 32 (Z.to_nat n).

(* ListReprBuilder.WriteElem on the buffer *)
Definition lb_write (ind : Z) (buf v : bytes) : bytes :=
  let buf1 := match buf with [] => [91] | _ => buf end in
  let buf2 := if (0 <=? ind)%Z then buf1 ++ 10 :: spaces (ind + 1)
              else if Nat.ltb 1 (length buf1) then buf1 ++ [32] else buf1 in
  buf2 ++ v.
(* ListReprBuilder.String *)
Definition lb_string (ind : Z) (buf : bytes) : bytes :=
  match buf with
  | [] => sEmptyList
  | _ => (if (0 <=? ind)%Z then buf ++ 10 :: spaces ind else buf) ++ [93]
  end.
(* the text MapReprBuilder.WritePair hands to WriteElem *)
Definition mb_pair (k : bytes) (ind2 : Z) (v : bytes) : bytes :=
  38 :: k ++ 61 :: (if (0 <? ind2)%Z then [9] else []) ++ v.
(* MapReprBuilder.String *)
Definition mb_string (ind : Z) (buf : bytes) : bytes :=
  let s := lb_string ind buf in if bytes_eqb s sEmptyList then sEmptyMap else s.

(* insertion sort as Go's insertionSortLessFunc: each element moves left while
   it is less than its left neighbour.  [racc] is the sorted prefix reversed. *)
Section Sort.
  Context {A : Type}.
  Variable lt : A -> A -> bool.
  Fixpoint ins_rev (x : A) (racc : list A) : list A :=
    match racc with
    | [] => [x]
    | y :: r => if lt x y then y :: ins_rev x r else x :: racc
    end.
  Definition isort (l : list A) : list A := rev (fold_left (fun racc x => ins_rev x racc) l []).
End Sort.

(* the reader's map construction: m = m.Assoc(k, v) per pair, a key being found
   when its hash and Equal agree (C08_Value.hm_match) *)
Fixpoint m_assoc (k v : value) (m : list (value * value)) : list (value * value) :=
  match m with
  | [] => [(k, v)]
  | (k', v') :: m' => if hm_match k k' then (k, v) :: m' else (k', v') :: m_assoc k v m'
  end.
Definition rebuild (es : list (value * value)) : list (value * value) :=
  fold_left (fun acc e => m_assoc (fst e) (snd e) acc) es [].

(* white space *)
Definition is_ws (c : N) : bool := (c =? 32) || (c =? 9) || (c =? 10) || (c =? 13).
Definition is_inline_ws (c : N) : bool := (c =? 32) || (c =? 9).
Fixpoint skip_while (p : N -> bool) (s : bytes) : bytes :=
  match s with c :: r => if p c then skip_while p r else s | [] => [] end.
Definition skip_ws : bytes -> bytes := skip_while is_ws.
Definition skip_inline : bytes -> bytes := skip_while is_inline_ws.
(* a comment or a line continuation where white space may stand: outside the model *)
Definition ws_other (s : bytes) : bool :=
  match s with c :: _ => (c =? 35) || (c =? 94) | [] => false end.

Inductive rres := ROk (v : value) (rest : bytes) | RErr | ROther | RFuel.
Inductive item := IElem (v : value) | IPair (k v : value) | ILone.
Inductive ires := IOk (items : list item) (rest : bytes) | IErr | IOther | IFuel.

Definition is_elem (i : item) : bool := match i with IElem _ => true | _ => false end.
Fixpoint elems_of (l : list item) : list value :=
  match l with IElem v :: r => v :: elems_of r | _ :: r => elems_of r | [] => [] end.
Fixpoint pairs_of (l : list item) : list (value * value) :=
  match l with IPair k v :: r => (k, v) :: pairs_of r | _ :: r => pairs_of r | [] => [] end.
(* Primary.lbracket's decision and listOp / mapOp; None = errBothElementsAndPairs *)
Definition build (l : list item) : option value :=
  if forallb is_elem l then Some (VList false (elems_of l))
  else if existsb is_elem l then None
  else Some (VMap (rebuild (pairs_of l))).

Section Model.
Variable is_print : N -> bool.          (* unicode.IsPrint *)
Variable pf : bytes -> option N.        (* strconv.ParseFloat(s, 64) *)
Variable fmtF fmtE : N -> bytes.        (* strconv.FormatFloat(f, 'f' / 'e', -1, 64) *)
Variable rk : N -> Z.                   (* order of the Go type descriptors *)

(* the less function reprMap hands to sort.Slice: CmpTotal on the keys, ties
   broken by the text already printed for the keys (Go string comparison) *)
Definition key_lt {X} (a b : value * (bytes * X)) : bool :=
  match cmp_total rk (fst a) (fst b) with
  | OLt => true
  | OEq => match bytes_cmp (fst (snd a)) (fst (snd b)) with OLt => true | _ => false end
  | _ => false
  end.

(* -------------------------------- repr.go -------------------------------- *)
Definition repr_num (n : C05.num) : bytes := sNumOpen ++ C05.to_string fmtF fmtE n ++ [41].

Fixpoint repr (v : value) (ind : Z) {struct v} : bytes :=
  match v with
  | VNil => sNil
  | VBool b => if b then sTrue else sFalse
  | VStr s => Quote is_print s
  | VInt z => repr_num (C05.NInt z)
  | VBig z => repr_num (C05.NBig z)
  | VRat q => repr_num (C05.NRat (Qnum q) (Zpos (Qden q)))
  | VFloat b => repr_num (C05.NFloat b)
  | VList _ l =>
    lb_string ind (fold_left (fun buf e => lb_write ind buf (repr e (ind + 1))) l [])
  | VMap m =>
    let texts := map (fun e => (fst e, (repr (fst e) (ind + 1), repr (snd e) (ind + 2)))) m in
    mb_string ind
      (fold_left (fun buf e => lb_write ind buf (mb_pair (fst (snd e)) (ind + 2) (snd (snd e))))
                 (isort key_lt texts) [])
  | VOpaque _ _ => sOpaque
  end.

Definition minInt : Z := (- 2 ^ 63)%Z.
Definition ReprPlain (v : value) : bytes := repr v minInt.

(* ------------------------- the reader / evaluator ------------------------- *)

(* after a bracketed or captured primary: a following primary or an index would
   make a longer compound (outside the model) *)
Definition finish (ctx : ectx) (v : value) (rest : bytes) : rres :=
  match peek rest with
  | Some r => if starts_primary is_print r ctx then ROther else ROk v rest
  | None => ROk v rest
  end.

(* a word read by C03's reader: a string, or one of the three variables *)
Definition from_compound (c : cres) : rres :=
  match c with
  | COk ws rest =>
    match ws with
    | [(TVar, name)] =>
      if bytes_eqb name nNil then ROk VNil rest
      else if bytes_eqb name nTrue then ROk (VBool true) rest
      else if bytes_eqb name nFalse then ROk (VBool false) rest
      else ROther
    | _ => match eval_compound ws with Some s => ROk (VStr s) rest | None => ROther end
    end
  | CErr => RErr
  | COther => ROther
  | CFuel => RFuel
  end.

(* after the opening parenthesis: Chunk -> Pipeline -> Form with head num and
   exactly one string argument, then the closing parenthesis *)
Definition read_capture (ctx : ectx) (src : bytes) : rres :=
  match src with
  | [] => RErr
  | c :: _ =>
    if is_ws c || (c =? 59) || ws_other src then ROther else
    match read_compound is_print CCmd src with
    | COk ws rest =>
      match string_literal ws with
      | Some h =>
        if negb (bytes_eqb h nNum) then ROther else
        let rest1 := skip_inline rest in
        if ws_other rest1 then ROther else
        match peek rest1 with
        | Some r1 =>
          if negb (starts_primary is_print r1 CNormal) then ROther else
          match read_compound is_print CNormal rest1 with
          | COk ws2 rest2 =>
            match eval_compound ws2 with
            | Some x =>
              match skip_inline rest2 with
              | 41 :: rest3 =>
                match C05.parse_num pf x with
                | C05.PNum n => finish ctx (value_of_num n) rest3
                | C05.PNil => ROther
                end
              | _ => ROther
              end
            | None => ROther
            end
          | CErr => RErr
          | COther => ROther
          | CFuel => RFuel
          end
        | None => RErr
        end
      | None => ROther
      end
    | CErr => RErr
    | COther => ROther
    | CFuel => RFuel
    end
  end.

Definition lift_r (r : rres) : ires :=
  match r with ROk _ _ => IOther | RErr => IErr | ROther => IOther | RFuel => IFuel end.

(* read_val: one Compound made of one primary, in context ctx.
   read_items: the items loop of Primary.lbracket, at a position after white space. *)
Fixpoint read_val (fuel : nat) (ctx : ectx) (src : bytes) {struct fuel} : rres :=
  match fuel with
  | O => RFuel
  | S f =>
    match src with
    | [] => ROther
    | c :: src1 =>
      if c =? 91 then
        match read_items f (skip_ws src1) with
        | IOk items rest =>
          if ws_other rest then ROther else
          match rest with
          | 93 :: rest' =>
            match build items with
            | Some v => finish ctx v rest'
            | None => RErr
            end
          | _ => RErr
          end
        | IErr => RErr
        | IOther => ROther
        | IFuel => RFuel
        end
      else if c =? 40 then read_capture ctx src1
      else from_compound (read_compound is_print ctx src)
    end
  end
with read_items (fuel : nat) (src : bytes) {struct fuel} : ires :=
  match fuel with
  | O => IFuel
  | S f =>
    if ws_other src then IOther else
    match peek src with
    | None => IOk [] src
    | Some r =>
      if r =? 38 then
        let src1 := tl src in
        if match peek src1 with Some r1 => starts_primary is_print r1 CLHS | None => false end then
          match read_val f CLHS src1 with
          | ROk k rest =>
            match rest with
            | 61 :: rest1 =>
              let rest2 := skip_ws rest1 in
              if ws_other rest2 then IOther else
              match peek rest2 with
              | Some r2 =>
                if starts_primary is_print r2 CNormal then
                  match read_val f CNormal rest2 with
                  | ROk v rest3 =>
                    match read_items f (skip_ws rest3) with
                    | IOk items rest4 => IOk (IPair k v :: items) rest4
                    | e => e
                    end
                  | e => lift_r e
                  end
                else IOther
              | None => IOther
              end
            | _ => IOther
            end
          | e => lift_r e
          end
        else IOk [ILone] (skip_ws src1)
      else if starts_primary is_print r CNormal then
        match read_val f CNormal src with
        | ROk v rest =>
          match read_items f (skip_ws rest) with
          | IOk items rest' => IOk (IElem v :: items) rest'
          | e => e
          end
        | e => lift_r e
        end
      else IOk [] src
    end
  end.

(* the argument of [put TEXT]: one value and nothing left *)
Inductive eres := EVal (v : value) | EParseErr | EAbstain | EFuel.
Definition read_expr (src : bytes) : eres :=
  match read_val (2 * length src + 2) CNormal src with
  | ROk v [] => EVal v
  | ROk _ _ => EAbstain
  | RErr => EParseErr
  | ROther => EAbstain
  | RFuel => EFuel
  end.

(* what the reader makes of repr's output (printed at indent ind): lists become
   plain lists, map entries come in printed (sorted) order and are re-inserted,
   a NaN becomes the NaN that ParseFloat returns *)
Fixpoint norm (v : value) (ind : Z) {struct v} : value :=
  match v with
  | VFloat b =>
    if C05.is_nan b then match pf C05.sNaN with Some b' => VFloat b' | None => VFloat b end
    else VFloat b
  | VList _ l => VList false (map (fun e => norm e (ind + 1)) l)
  | VMap m =>
    VMap (rebuild (map (fun x => snd (snd x))
      (isort key_lt (map (fun e => (fst e, (repr (fst e) (ind + 1),
                                            (norm (fst e) (ind + 1), norm (snd e) (ind + 2))))) m))))
  | _ => v
  end.

End Model.

(* ------------------------------------------------------------------ *)
(* the property on observables *)

(* every NaN replaced by one token that is Equal to itself only: eq with
   NaN compared by kind is Equal after this replacement *)
Fixpoint denan (v : value) : value :=
  match v with
  | VFloat b => if f_is_nan b then VOpaque 0 0 else v
  | VList s l => VList s (map denan l)
  | VMap m => VMap (map (fun e => (denan (fst e), denan (snd e))) m)
  | _ => v
  end.
Definition eqn (a b : value) : bool := equal (denan a) (denan b).

(* the domain of the property: nil, booleans, strings, typed numbers in
   canonical representation, lists and maps of these *)
Fixpoint okv (v : value) : bool :=
  match v with
  | VNil | VBool _ => true
  | VStr s => forallb (fun b => b <? 256) s
  | VInt z => C05.canonical (C05.NInt z)
  | VBig z => C05.canonical (C05.NBig z)
  | VRat q => C05.canonical (C05.NRat (Qnum q) (Zpos (Qden q)))
  | VFloat b => b <? 2 ^ 64
  | VList _ l => forallb okv l
  | VMap m => forallb (fun e => okv (fst e) && okv (snd e)) m
  | VOpaque _ _ => false
  end.

(* result kinds of evaluating [put TEXT] *)
Definition resValue : N := 0.      (* exactly one value *)
Definition resParseErr : N := 1.
Definition resException : N := 2.
Definition resOther : N := 3.      (* no or several values *)

(* v: the original; res/back: what evaluating the printed text gave; go_eq:
   vals.Equal(original, back); text: the printed text; alts: the texts printed
   for the same value with every map rebuilt in other insertion orders *)
Definition check_C04 (v : value) (res : N) (back : value) (go_eq : bool)
                     (text : bytes) (alts : list bytes) : bool :=
  (res =? resValue) && eqn v back && (has_nan v || go_eq)
  && forallb (bytes_eqb text) alts.

(* ------------------------------------------------------------------ *)
(* case files: values and tables travel as byte strings (fast to parse) *)
Definition be (bs : bytes) : N := fold_left (fun a b => a * 256 + b) bs 0.
Definition take (n : nat) (s : bytes) : option (bytes * bytes) :=
  if Nat.leb n (length s) then Some (firstn n s, skipn n s) else None.
Definition signedZ (sg : N) (m : bytes) : Z := if sg =? 1 then (- Z.of_N (be m))%Z else Z.of_N (be m).
(* a field: two length bytes, then the content *)
Definition take_field (s : bytes) : option (bytes * bytes) :=
  match take 2 s with Some (l, r) => take (N.to_nat (be l)) r | None => None end.

Fixpoint pair_up (l : list value) : list (value * value) :=
  match l with k :: v :: r => (k, v) :: pair_up r | _ => [] end.

(* tags: 0 nil, 1 false, 2 true, 3 string (field), 4 int (sign, field),
   5 big int (sign, field), 6 rational (sign, field, field), 7 float (8 bytes),
   8 list (sub flag, 2 count bytes, elements), 9 map (2 count bytes, key value ...) *)
Fixpoint dec_value (fuel : nat) (s : bytes) {struct fuel} : option (value * bytes) :=
  match fuel with
  | O => None
  | S f =>
    match s with
    | [] => None
    | t :: r =>
      if t =? 0 then Some (VNil, r)
      else if t =? 1 then Some (VBool false, r)
      else if t =? 2 then Some (VBool true, r)
      else if t =? 3 then
        match take_field r with Some (x, r1) => Some (VStr x, r1) | None => None end
      else if (t =? 4) || (t =? 5) then
        match r with
        | sg :: r0 =>
          match take_field r0 with
          | Some (x, r1) => Some ((if t =? 4 then VInt else VBig) (signedZ sg x), r1)
          | None => None
          end
        | [] => None
        end
      else if t =? 6 then
        match r with
        | sg :: r0 =>
          match take_field r0 with
          | Some (x, r1) =>
            match take_field r1 with
            | Some (y, r2) => Some (VRat (mkrat (signedZ sg x) (Z.of_N (be y))), r2)
            | None => None
            end
          | None => None
          end
        | [] => None
        end
      else if t =? 7 then
        match take 8 r with Some (x, r1) => Some (VFloat (be x), r1) | None => None end
      else if t =? 8 then
        match r with
        | sub :: r0 =>
          match take 2 r0 with
          | Some (cn, r1) =>
            match dec_many f (N.to_nat (be cn)) r1 with
            | Some (l, r2) => Some (VList (sub =? 1) l, r2)
            | None => None
            end
          | None => None
          end
        | [] => None
        end
      else if t =? 9 then
        match take 2 r with
        | Some (cn, r1) =>
          match dec_many f (2 * N.to_nat (be cn)) r1 with
          | Some (l, r2) => Some (VMap (pair_up l), r2)
          | None => None
          end
        | None => None
        end
      else None
    end
  end
with dec_many (fuel : nat) (n : nat) (s : bytes) {struct fuel} : option (list value * bytes) :=
  match fuel with
  | O => None
  | S f =>
    match n with
    | O => Some ([], s)
    | S n' =>
      match dec_value f s with
      | Some (v, r) =>
        match dec_many f n' r with
        | Some (l, r') => Some (v :: l, r')
        | None => None
        end
      | None => None
      end
    end
  end.
Definition decode (s : bytes) : option value :=
  match dec_value (2 * length s + 2) s with Some (v, []) => Some v | _ => None end.

Fixpoint fields (fuel : nat) (s : bytes) : list bytes :=
  match fuel with
  | O => []
  | S f => match take_field s with Some (x, r) => x :: fields f r | None => [] end
  end.
Definition all_fields (s : bytes) : list bytes := fields (length s) s.

(* IsPrint table: fields of 4 rune bytes + 1 flag byte *)
Definition tbl_of (s : bytes) : list (N * bool) :=
  map (fun x => (be (firstn 4 x), nth 4 x 0 =? 1)) (all_fields s).
(* FormatFloat table: fields in threes: 8 pattern bytes, 'f' text, 'e' text *)
Fixpoint ftab_of (l : list bytes) : list (N * (bytes * bytes)) :=
  match l with b :: ff :: fe :: r => (be b, (ff, fe)) :: ftab_of r | _ => [] end.
Fixpoint ftab_get (t : list (N * (bytes * bytes))) (b : N) : bytes * bytes :=
  match t with
  | [] => ([], [])
  | (k, v) :: r => if k =? b then v else ftab_get r b
  end.
(* ParseFloat table: fields in twos: text, result (empty = error, else 8 bytes) *)
Fixpoint pftab_of (l : list bytes) : C05.pftab :=
  match l with
  | s :: x :: r => (s, match x with [] => None | _ => Some (be x) end) :: pftab_of r
  | _ => []
  end.
Definition rk_of (s : bytes) (t : N) : Z := Z.of_N (nth (N.to_nat t) s 99).

(* structural comparison of the model's reading with the observed one: numbers
   by representation and bits, maps as sets of entries *)
Fixpoint same (a b : value) {struct a} : bool :=
  match a, b with
  | VNil, VNil => true
  | VBool x, VBool y => Bool.eqb x y
  | VInt x, VInt y => Z.eqb x y
  | VBig x, VBig y => Z.eqb x y
  | VRat x, VRat y => Z.eqb (Qnum x) (Qnum y) && Pos.eqb (Qden x) (Qden y)
  | VFloat x, VFloat y => N.eqb x y
  | VStr x, VStr y => bytes_eqb x y
  | VList s x, VList s' y =>
    Bool.eqb s s' &&
    (fix go (x y : list value) {struct x} : bool :=
       match x, y with
       | [], [] => true
       | p :: x', q :: y' => same p q && go x' y'
       | _, _ => false
       end) x y
  | VMap x, VMap y =>
    Nat.eqb (length x) (length y) &&
    (fix sub (x : list (value * value)) : bool :=
       match x with
       | [] => true
       | (k, vx) :: x' => existsb (fun e => same k (fst e) && same vx (snd e)) y && sub x'
       end) x
  | _, _ => false
  end.

Record case := mkCase {
  c_ind : Z;            (* indent given to vals.Repr (negative: ReprPlain) *)
  c_rk : bytes;         (* rank of the type of nil, bool, number, string, list, map (C08_Value.tag) *)
  c_tbl : bytes;        (* unicode.IsPrint of the non-ASCII runes around *)
  c_ftab : bytes;       (* strconv.FormatFloat of the floats around *)
  c_pftab : bytes;      (* strconv.ParseFloat of the texts the model asks about *)
  c_val : bytes;        (* the value, maps in iteration order *)
  c_text : bytes;       (* vals.Repr(value, indent) *)
  c_res : N;            (* kind of result of Eval("put " + text) *)
  c_back : bytes;       (* the one value it wrote, when c_res = 0 *)
  c_goeq : bool;        (* vals.Equal(value, back) *)
  c_alts : list (bytes * bytes)   (* the value with maps rebuilt in shuffled orders, and its text *)
}.

Definition decode_alts (l : list (bytes * bytes)) : option (list (value * bytes)) :=
  fold_right (fun e acc =>
    match decode (fst e), acc with
    | Some v, Some r => Some ((v, snd e) :: r)
    | _, _ => None
    end) (Some []) l.

Definition judge1 (c : case) : N :=
  let pr := mk_is_print (tbl_of (c_tbl c)) in
  let ft := ftab_of (all_fields (c_ftab c)) in
  let fF := fun b => fst (ftab_get ft b) in
  let fE := fun b => snd (ftab_get ft b) in
  let pf := C05.tab_pf (pftab_of (all_fields (c_pftab c))) in
  let rk := rk_of (c_rk c) in
  match decode (c_val c), decode_alts (c_alts c),
        (if c_res c =? resValue then decode (c_back c) else Some VNil) with
  | Some v, Some alts, Some back =>
    let read := read_expr pr pf (c_text c) in
    code (check_C04 v (c_res c) back (c_goeq c) (c_text c) (map snd alts))
         (okv v
          && bytes_eqb (repr pr fF fE rk v (c_ind c)) (c_text c)
          && forallb (fun a => bytes_eqb (repr pr fF fE rk (fst a) (c_ind c)) (snd a)) alts
          && match read with
             | EVal m => (c_res c =? resValue) && same m back
             | EParseErr => c_res c =? resParseErr
             | EAbstain => true
             | EFuel => false
             end
          && (if c_res c =? resValue
              then (has_nan v || Bool.eqb (equal v back) (c_goeq c))
              else true))
  | _, _, _ => 1
  end.

Definition judge := judge_with judge1.
