(* C26 — concurrent clients of the daemon see a linearizable history
   (executable, no proofs).

   A history is a list of calls; a call's id is its index.  Each call records
   the client that issued it, the operation, the time of its invocation and,
   if it has returned, its result and the time of its response (times: one
   monotonic clock; an invocation time is taken before the request is sent, a
   response time after the reply was received).  Call a precedes call b in
   real time when a's response time is smaller than b's invocation time.

   The sequential specification is C24's (model/C24_StoreSpec.v).
   [check_witness st0 h order] validates a proposed linearization: [order]
   lists call ids without repetition, contains every returned call, never
   places a call before one that precedes it in real time, and replaying the
   operations in that order on the specification yields every returned result.

   The server model [sv_step]: requests are invoked, executed and answered in
   any interleaving; the execution of a request is one atomic step of the
   specification somewhere between its invocation and its response (what
   db.Update / db.View give to the daemon's service methods). *)
From verif Require Import lib.Base model.C24_F64 model.C24_StoreSpec.
From Coq Require Import Floats.SpecFloat.
Open Scope N_scope.

Record call := mkCall {
  k_client : N;                  (* connection / goroutine that issued the call *)
  k_op : op;
  k_inv : N;                     (* invocation time *)
  k_ret : option (res * N) }.    (* result and response time, if returned *)

Definition history := list call.

(* monomorphic constructors for the generated case files (terms without
   implicit arguments elaborate much faster) *)
Definition kc (cl : N) (o : op) (inv : N) (r : res) (ret : N) : call := mkCall cl o inv (Some (r, ret)).
(* a call that ended with a transport error: no result is claimed *)
Definition kp (cl : N) (o : op) (inv : N) : call := mkCall cl o inv None.
Definition pz (t : bytes) (z : Z) : bytes * Z := (t, z).
Definition pd (p : bytes) (s : f64) : dir := (p, s).

(* ------------------------------------------------------------------ *)
(* validation of a witness order *)
Fixpoint nodupb (l : list nat) : bool :=
  match l with
  | [] => true
  | x :: r => negb (existsb (Nat.eqb x) r) && nodupb r
  end.

Definition returned_in (h : history) (order : list nat) : bool :=
  forallb (fun i => match nth_error h i with
                    | Some c => match k_ret c with
                                | Some _ => existsb (Nat.eqb i) order
                                | None => true
                                end
                    | None => true
                    end) (seq 0 (length h)).

(* [m] = the largest invocation time among the calls placed so far: the next
   call must not have responded before it *)
Fixpoint rt_walk (h : history) (m : N) (order : list nat) : bool :=
  match order with
  | [] => true
  | i :: r =>
    match nth_error h i with
    | None => false
    | Some c =>
      (match k_ret c with Some (_, t) => m <=? t | None => true end)
      && rt_walk h (N.max m (k_inv c)) r
    end
  end.

Fixpoint replay (h : history) (st : sstate) (order : list nat) : bool :=
  match order with
  | [] => true
  | i :: r =>
    match nth_error h i with
    | None => false
    | Some c =>
      let '(st', e) := spec_step isort_desc st (k_op c) in
      (match k_ret c with Some (o, _) => res_match e o | None => true end)
      && replay h st' r
    end
  end.

Definition check_witness (st0 : sstate) (h : history) (order : list nat) : bool :=
  nodupb order && returned_in h order && rt_walk h 0 order && replay h st0 order.

(* ------------------------------------------------------------------ *)
(* the server model *)
Inductive action :=
| AInvoke (cl : N) (o : op)    (* a client sends a request *)
| AExec (i : nat)              (* the service method of request i runs its transaction *)
| ARespond (i : nat).          (* the reply to request i reaches the client *)

Record sv := mkSv {
  v_st : sstate;                 (* the database *)
  v_clock : N;
  v_hist : history;
  v_lin : list nat;              (* requests in the order they were executed *)
  v_res : list (nat * res) }.    (* results of the executed requests *)

Fixpoint lookup (i : nat) (l : list (nat * res)) : option res :=
  match l with
  | [] => None
  | (j, r) :: t => if Nat.eqb i j then Some r else lookup i t
  end.

Fixpoint set_ret (h : history) (i : nat) (v : res * N) : history :=
  match h, i with
  | [], _ => []
  | c :: r, O => mkCall (k_client c) (k_op c) (k_inv c) (Some v) :: r
  | c :: r, S i' => c :: set_ret r i' v
  end.

Section Server.
  (* the sort routine of Dirs (contract: C24.sort_contract) *)
  Variable sortf : list dir -> list dir.

  (* actions that are not enabled leave the state unchanged *)
  Definition sv_step (s : sv) (a : action) : sv :=
    match a with
    | AInvoke cl o =>
      mkSv (v_st s) (v_clock s + 1) (v_hist s ++ [mkCall cl o (v_clock s) None]) (v_lin s) (v_res s)
    | AExec i =>
      match nth_error (v_hist s) i, lookup i (v_res s) with
      | Some c, None =>
        let '(st', r) := spec_step sortf (v_st s) (k_op c) in
        mkSv st' (v_clock s + 1) (v_hist s) (v_lin s ++ [i]) ((i, r) :: v_res s)
      | _, _ => s
      end
    | ARespond i =>
      match nth_error (v_hist s) i, lookup i (v_res s) with
      | Some c, Some r =>
        match k_ret c with
        | None => mkSv (v_st s) (v_clock s + 1) (set_ret (v_hist s) i (r, v_clock s)) (v_lin s) (v_res s)
        | Some _ => s
        end
      | _, _ => s
      end
    end.

  Definition sv_init (st0 : sstate) : sv := mkSv st0 0 [] [] [].

  Definition sv_run (st0 : sstate) (acts : list action) : sv := fold_left sv_step acts (sv_init st0).
End Server.

(* ------------------------------------------------------------------ *)
(* the case: the recorded history of a run against a real daemon and the
   witness order found by the harness's search (empty if none was found) *)
Record case := mkCase { c_hist : history; c_order : list N }.   (* ids as binary numbers *)

(* recorded times are sane: a response is not earlier than its invocation *)
Definition times_ok (h : history) : bool :=
  forallb (fun c => match k_ret c with Some (_, t) => k_inv c <=? t | None => true end) h.

Definition judge1 (c : case) : N :=
  code (check_witness (spec_init 0) (c_hist c) (map N.to_nat (c_order c))) (times_ok (c_hist c)).

Definition judge := judge_with judge1.
