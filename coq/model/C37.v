(* C37 — model of pkg/diag/context.go:getContextDetails (executable, no proofs)
   plus the independent line/column specification and the oracle used on the
   implementation's observations. *)
From verif Require Import lib.Base.
Open Scope nat_scope.

Definition NL : N := 10%N.
Definition is_nl (c : N) : bool := N.eqb c NL.

(* strings.Count(s, "\n") *)
Fixpoint count_nl (s : bytes) : nat :=
  match s with
  | [] => 0
  | c :: r => (if is_nl c then 1 else 0) + count_nl r
  end.

(* firstLine: s up to (excluding) the first newline, or all of s *)
Fixpoint first_line (s : bytes) : bytes :=
  match s with
  | [] => []
  | c :: r => if is_nl c then [] else c :: first_line r
  end.

(* lastLine: s after the last newline, or all of s.  The Go code slices from
   LastIndexByte+1; here: scan keeping the text since the most recent newline *)
Fixpoint last_line_acc (acc s : bytes) : bytes :=
  match s with
  | [] => rev acc
  | c :: r => if is_nl c then last_line_acc [] r else last_line_acc (c :: acc) r
  end.
Definition last_line (s : bytes) : bytes := last_line_acc [] s.

(* strings.HasSuffix(body, "\n") *)
Definition ends_with_nl (s : bytes) : bool :=
  match rev s with c :: _ => is_nl c | [] => false end.

Record details := mkDetails {
  startLine : Z; startCol : Z; endLine : Z; endCol : Z;
  body : bytes; head : bytes; tail : bytes }.

Definition getContextDetails (src : bytes) (from to : nat) : details :=
  let before := firstn from src in
  let body0 := firstn (to - from) (skipn from src) in
  let after := skipn to src in
  let hd := last_line before in
  let '(bd, tl) :=
     if ends_with_nl body0 then (removelast body0, []) else (body0, first_line after) in
  let sl := (Z.of_nat (count_nl before) + 1)%Z in
  let sc := (1 + Z.of_nat (length hd))%Z in
  let el := (sl + Z.of_nat (count_nl bd))%Z in
  let ec := if Z.eqb sl el then (sc + Z.of_nat (length bd) - 1)%Z
            else Z.of_nat (length (last_line bd)) in
  mkDetails sl sc el ec bd hd tl.

(* describeRange: which of the three printed forms is used, with its numbers *)
Inductive range_form :=
| FPoint (l c : Z)            (* name:l:c        *)
| FLine (l c1 c2 : Z)         (* name:l:c1-c2    *)
| FMulti (l1 c1 l2 c2 : Z).   (* name:l1:c1-l2:c2 *)

Definition describeRange (d : details) : range_form :=
  if Z.eqb (startLine d) (endLine d) then
    if Z.ltb (endCol d) (startCol d) then FPoint (startLine d) (startCol d)
    else FLine (startLine d) (startCol d) (endCol d)
  else FMulti (startLine d) (startCol d) (endLine d) (endCol d).

(* ------------------------------------------------------------------ *)
(* Independent specification: the lines of a text, and the byte offset of a
   1-based (line, column). *)
Fixpoint lines (s : bytes) : list bytes :=
  match s with
  | [] => [[]]
  | c :: r =>
    if is_nl c then [] :: lines r
    else match lines r with
         | l :: ls => (c :: l) :: ls
         | [] => [[c]]
         end
  end.

Fixpoint sum_lens (ls : list bytes) : nat :=
  match ls with [] => 0 | l :: r => length l + 1 + sum_lens r end.

(* offset of 1-based line [ln], 1-based column [col] (col may be 0: "one before
   the first column") *)
Definition offset_of (src : bytes) (ln col : Z) : Z :=
  (Z.of_nat (sum_lens (firstn (Z.to_nat (ln - 1)) (lines src))) + col - 1)%Z.

(* join lines with newlines *)
Fixpoint join_nl (ls : list bytes) : bytes :=
  match ls with
  | [] => []
  | [l] => l
  | l :: r => l ++ NL :: join_nl r
  end.

(* text of lines a..b (1-based, inclusive) *)
Definition lines_text (src : bytes) (a b : Z) : bytes :=
  join_nl (firstn (Z.to_nat (b - a + 1)%Z) (skipn (Z.to_nat (a - 1)%Z) (lines src))).

(* [to] after dropping one trailing newline of the range *)
Definition adj_to (src : bytes) (from to : nat) : nat :=
  if ends_with_nl (firstn (to - from) (skipn from src)) then to - 1 else to.

(* The property, as a decidable predicate on what was reported for (src, from, to). *)
Definition check_C37 (src : bytes) (from to : nat) (d : details) : bool :=
  let to' := adj_to src from to in
  (* start line/column identify the first byte of the range *)
  Z.eqb (offset_of src (startLine d) (startCol d)) (Z.of_nat from)
  && Z.leb 1 (startLine d) && Z.leb 1 (startCol d)
  (* end line/column identify the last byte, or endCol = startCol - 1 when empty *)
  && (if Nat.ltb from to'
      then Z.eqb (offset_of src (endLine d) (endCol d)) (Z.of_nat to' - 1)%Z
           && Z.leb (startLine d) (endLine d) && Z.leb 0 (endCol d)
      else Z.eqb (endLine d) (startLine d) && Z.eqb (endCol d) (startCol d - 1)%Z)
  (* body is the adjusted range; head ++ body ++ tail are the lines containing it *)
  && bytes_eqb (body d) (firstn (to' - from) (skipn from src))
  && bytes_eqb (head d ++ body d ++ tail d) (lines_text src (startLine d) (endLine d)).

Definition details_eqb (a b : details) : bool :=
  Z.eqb (startLine a) (startLine b) && Z.eqb (startCol a) (startCol b)
  && Z.eqb (endLine a) (endLine b) && Z.eqb (endCol a) (endCol b)
  && bytes_eqb (body a) (body b) && bytes_eqb (head a) (head b)
  && bytes_eqb (tail a) (tail b).

(* ---- correspondence case: what the implementation reported ---- *)
Record case := mkCase {
  c_src : bytes; c_from : nat; c_to : nat;
  c_obs : details;         (* diag.NewContext fields *)
  c_form : range_form      (* parsed from Context.describeRange via Show *) }.

Definition form_eqb (a b : range_form) : bool :=
  match a, b with
  | FPoint l c, FPoint l' c' => Z.eqb l l' && Z.eqb c c'
  | FLine l c d, FLine l' c' d' => Z.eqb l l' && Z.eqb c c' && Z.eqb d d'
  | FMulti a b c d, FMulti a' b' c' d' => Z.eqb a a' && Z.eqb b b' && Z.eqb c c' && Z.eqb d d'
  | _, _ => false
  end.

(* the printed form must be the documented function of the reported numbers *)
Definition check_form (d : details) (f : range_form) : bool := form_eqb (describeRange d) f.

Definition judge1 (c : case) : N :=
  let m := getContextDetails (c_src c) (c_from c) (c_to c) in
  code (check_C37 (c_src c) (c_from c) (c_to c) (c_obs c) && check_form (c_obs c) (c_form c))
       (details_eqb m (c_obs c)).

Definition judge := judge_with judge1.
