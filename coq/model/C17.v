(* C17 — no program can crash the interpreter.
   Executable models (no proofs) of the mechanisms named in the property's
   anchors, with an explicit [Panic] outcome wherever the Go code indexes,
   slices, divides, allocates, dereferences or asserts without a guard:

     A. pkg/eval/go_fn.go      NewGoFn, goFn.Call, scanOptions, reflect.Value.Call's
                               own argument checks, the return-value path
     B. pkg/eval/closure.go    Closure.Call: arity check, argument/rest slicing,
                               option defaults
     C. pkg/eval/compile_effect.go  growAccess, evalForFd, redirOp.exec, and the
                               end-of-form bookkeeping of pipelineOp.exec
     D. pkg/mods/math/math.go  pow with exact operands
     E. pkg/strutil/subseq.go  HasSubseq (edit:match-subseq)

   plus the case type and judge used on the implementation's observations. *)
From verif Require Import lib.Base lib.Utf8.
Open Scope Z_scope.

(* ------------------------------------------------------------------ *)
(* Go-level outcomes *)

Inductive panic_kind :=
| PIndex          (* index out of range *)
| PSlice          (* slice bounds out of range *)
| PMakeSlice      (* makeslice: len out of range / allocation beyond the limit *)
| PDivZero        (* big.Rat division by zero *)
| PNilDeref       (* nil pointer dereference *)
| PCloseClosed    (* close of closed channel *)
| PImpossible     (* panic("impossible") / panic("unreachable") *)
| PReflectCall    (* reflect: Call with wrong argument count or type *)
| PTypeAssert     (* failed x.(T) *)
| PInvalidArg.    (* a library function rejecting its argument by panicking (rand.Intn(n <= 0)) *)

Inductive err_kind :=
| EArity (lo hi actual : Z)   (* errs.ArityMismatch; hi = -1: no upper limit *)
| ENoOptAccepted
| EBadOption                  (* UnknownOption or a scan error from scanOptions *)
| EWrongArgType (i : Z)
| ENotIterable
| EFnError                    (* the wrapped function returned a non-nil error *)
| EUnsupportedOption
| EBadValue
| EInvalidFD
| EOpenFail
| EBadRedirMode.

Inductive res (A : Type) :=
| Ok (a : A)
| Err (e : err_kind)
| Panic (p : panic_kind).
Arguments Ok {A} a.
Arguments Err {A} e.
Arguments Panic {A} p.

Definition is_panic {A} (r : res A) : bool :=
  match r with Panic _ => true | _ => false end.

Definition bind {A B} (r : res A) (f : A -> res B) : res B :=
  match r with Ok a => f a | Err e => Err e | Panic p => Panic p end.

Definition zlen {A} (l : list A) : Z := Z.of_nat (length l).

(* Go's l[i]: None stands for the run-time panic *)
Definition go_index {A} (l : list A) (i : Z) : option A :=
  if (0 <=? i) && (i <? zlen l) then nth_error l (Z.to_nat i) else None.

(* Go's l[a:b] (capacity = length) *)
Definition go_slice {A} (l : list A) (a b : Z) : option (list A) :=
  if (0 <=? a) && (a <=? b) && (b <=? zlen l)
  then Some (firstn (Z.to_nat (b - a)) (skipn (Z.to_nat a) l)) else None.

(* l[i] = x *)
Fixpoint set_nth {A} (l : list A) (n : nat) (x : A) : list A :=
  match l, n with
  | [], _ => []
  | _ :: r, O => x :: r
  | y :: r, S k => y :: set_nth r k x
  end.

Definition go_store {A} (l : list A) (i : Z) (x : A) : option (list A) :=
  if (0 <=? i) && (i <? zlen l) then Some (set_nth l (Z.to_nat i) x) else None.

Definition idx {A} (l : list A) (i : Z) : res A :=
  match go_index l i with Some x => Ok x | None => Panic PIndex end.
Definition slc {A} (l : list A) (a b : Z) : res (list A) :=
  match go_slice l a b with Some x => Ok x | None => Panic PSlice end.
Definition sto {A} (l : list A) (i : Z) (x : A) : res (list A) :=
  match go_store l i x with Some x => Ok x | None => Panic PIndex end.

(* ================================================================== *)
(* A. goFn *)

(* Go parameter types of a wrapped function *)
Inductive gtype :=
| GFrame | GRawOpts | GOptsStruct | GInputs
| GString | GInt | GFloat | GNum | GAny | GList | GMap | GBool | GFn.

Definition gtype_eqb (a b : gtype) : bool :=
  match a, b with
  | GFrame, GFrame | GRawOpts, GRawOpts | GOptsStruct, GOptsStruct | GInputs, GInputs
  | GString, GString | GInt, GInt | GFloat, GFloat | GNum, GNum | GAny, GAny
  | GList, GList | GMap, GMap | GBool, GBool | GFn, GFn => true
  | _, _ => false
  end.

(* kinds of Elvish argument values, as far as vals.ScanToGo distinguishes them *)
Inductive vkind :=
| VStrInt    (* string accepted by strconv.ParseInt(s, 0, 0) *)
| VStrNum    (* string accepted by vals.ParseNum but not as a Go int *)
| VStrOther
| VInt | VBig | VFloat   (* typed numbers: int, *big.Int / *big.Rat, float64 *)
| VBool | VList | VMap | VFn | VNil | VOther.

(* vals.ScanToGo(arg, new(T)) == nil *)
Definition scan_ok (t : gtype) (v : vkind) : bool :=
  match t with
  | GInt => match v with VInt | VStrInt => true | _ => false end
  | GFloat | GNum =>
    match v with VInt | VBig | VFloat | VStrInt | VStrNum => true | _ => false end
  | GString => match v with VStrInt | VStrNum | VStrOther => true | _ => false end
  | GAny => true
  | GList => match v with VList | VNil => true | _ => false end
  | GMap => match v with VMap | VNil => true | _ => false end
  | GBool => match v with VBool => true | _ => false end
  | GFn => match v with VFn | VNil => true | _ => false end
  (* as ordinary parameters: pointer, Go map and func types accept only $nil;
     a struct accepts nothing the generator produces *)
  | GFrame | GRawOpts | GInputs => match v with VNil => true | _ => false end
  | GOptsStruct => false
  end.

Definition can_iterate (v : vkind) : bool :=
  match v with VStrInt | VStrNum | VStrOther | VList => true | _ => false end.

Record gofn := mkGoFn {
  g_frame : bool; g_rawopts : bool; g_opts : bool; g_inputs : bool;
  g_normal : list gtype; g_variadic : option gtype }.

(* the loop "for ; i < NumIn; i++" of NewGoFn over the remaining parameters *)
Fixpoint gofn_rest (ps : list gtype) (variadic : bool) : list gtype * option gtype * bool :=
  match ps with
  | [] => ([], None, false)
  | [p] =>
    if variadic then ([], Some p, false)
    else if gtype_eqb p GInputs then ([], None, true)
    else ([p], None, false)
  | p :: r =>
    let '(n, v, i) := gofn_rest r variadic in (p :: n, v, i)
  end.

(* In(i) of a variadic function's last parameter is a slice type and never
   equals *Frame / RawOptions / an options struct *)
Definition head_is (ps : list gtype) (variadic : bool) (t : gtype) : bool :=
  match ps with
  | [p] => negb variadic && gtype_eqb p t
  | p :: _ => gtype_eqb p t
  | [] => false
  end.

(* NewGoFn; None = the registration-time panic "declares both RawOptions and Options" *)
Definition new_gofn (ps : list gtype) (variadic : bool) : option gofn :=
  let fr := head_is ps variadic GFrame in
  let ps1 := if fr then tl ps else ps in
  let ro := head_is ps1 variadic GRawOpts in
  let ps2 := if ro then tl ps1 else ps1 in
  let op := head_is ps2 variadic GOptsStruct in
  if op && ro then None else
  let ps3 := if op then tl ps2 else ps2 in
  let '(n, v, i) := gofn_rest ps3 variadic in
  Some (mkGoFn fr ro op i n v).

(* what goFn.Call puts into the []reflect.Value, by Go type *)
Inductive slot := SIn (t : gtype).

(* scanOptions: raw options (distinct keys; value kind) against the struct's
   fields (key, type) *)
Definition key_in (k : N) (ks : list N) : bool := existsb (N.eqb k) ks.

Definition find_unknown_option (raw : list (N * vkind)) (keys : list N) : res unit :=
  if existsb (fun kv => negb (key_in (fst kv) keys)) raw then Err EBadOption
  else Panic PImpossible.

Fixpoint lookup_opt (k : N) (raw : list (N * vkind)) : option vkind :=
  match raw with
  | [] => None
  | (k', v) :: r => if N.eqb k k' then Some v else lookup_opt k r
  end.

Fixpoint scan_fields (fields : list (N * gtype)) (raw : list (N * vkind)) (used : Z) : res Z :=
  match fields with
  | [] => Ok used
  | (k, t) :: r =>
    match lookup_opt k raw with
    | None => scan_fields r raw used
    | Some v => if scan_ok t v then scan_fields r raw (used + 1) else Err EBadOption
    end
  end.

Definition scan_options (fields : list (N * gtype)) (raw : list (N * vkind)) : res unit :=
  let keys := map fst fields in
  if zlen raw >? zlen keys then find_unknown_option raw keys else
  bind (scan_fields fields raw 0) (fun used =>
  if zlen raw >? used then find_unknown_option raw keys else Ok tt).

(* the loop "for i, arg := range args" *)
Fixpoint conv_args (g : gofn) (args : list vkind) (i : nat) : res (list slot) :=
  match args with
  | [] => Ok []
  | a :: r =>
    let typ : res (option gtype) :=
      if Nat.ltb i (length (g_normal g)) then
        match nth_error (g_normal g) i with   (* b.normalArgs[i] *)
        | Some t => Ok (Some t)
        | None => Panic PIndex
        end
      else match g_variadic g with
           | Some t => Ok (Some t)
           | None => if g_inputs g then Ok None (* break *) else Panic PImpossible
           end in
    bind typ (fun ot =>
    match ot with
    | None => Ok []
    | Some t =>
      if scan_ok t a then bind (conv_args g r (S i)) (fun s => Ok (SIn t :: s))
      else Err (EWrongArgType (Z.of_nat i))
    end)
  end.

(* reflect.Value.Call's own checks: count and assignability *)
Fixpoint slots_match (ps : list gtype) (ss : list slot) : bool :=
  match ps, ss with
  | [], [] => true
  | p :: pr, SIn t :: sr => gtype_eqb p t && slots_match pr sr
  | _, _ => false
  end.

Definition reflect_call_ok (ps : list gtype) (variadic : bool) (ss : list slot) : bool :=
  if variadic then
    let nfix := (length ps - 1)%nat in
    match nth_error ps nfix with
    | None => false
    | Some vt =>
      Nat.leb nfix (length ss)
      && slots_match (firstn nfix ps) (firstn nfix ss)
      && forallb (fun s => match s with SIn t => gtype_eqb t vt end) (skipn nfix ss)
    end
  else slots_match ps ss.

(* return values *)
Inductive rtype := RString | RInt | RStrs (n : nat) | RNamed | RErrNil | RErr.
Definition is_err_type (r : rtype) : bool :=
  match r with RErrNil | RErr => true | _ => false end.

(* number of values written to the output, or the function's error *)
Definition process_rets (rets : list rtype) : res Z :=
  let n := zlen rets in
  let go (rs : list rtype) : Z :=
    fold_left (fun acc r => acc + match r with RStrs k => Z.of_nat k | _ => 1 end) rs 0 in
  if n >? 0 then
    bind (idx rets (n - 1)) (fun last =>
    if is_err_type last then
      match last with
      | RErr => Err EFnError
      | _ => bind (slc rets 0 (n - 1)) (fun rs => Ok (go rs))
      end
    else Ok (go rets))
  else Ok 0.

Record call_obs := mkCallObs { co_nvar : Z (* -1: not variadic *); co_nout : Z }.

Definition gofn_call (ps : list gtype) (variadic : bool) (fields : list (N * gtype))
    (rets : list rtype) (g : gofn) (args : list vkind) (opts : list (N * vkind))
    : res call_obs :=
  let na := zlen args in
  let nn := zlen (g_normal g) in
  let arity : res unit :=
    match g_variadic g with
    | Some _ => if na <? nn then Err (EArity nn (-1) na) else Ok tt
    | None =>
      if g_inputs g then
        if negb (na =? nn) && negb (na =? nn + 1) then Err (EArity nn (nn + 1) na) else Ok tt
      else if negb (na =? nn) then Err (EArity nn nn na) else Ok tt
    end in
  bind arity (fun _ =>
  if negb (g_rawopts g) && negb (g_opts g) && (zlen opts >? 0) then Err ENoOptAccepted else
  let in0 := (if g_frame g then [SIn GFrame] else [])
             ++ (if g_rawopts g then [SIn GRawOpts] else []) in
  bind (if g_opts g then bind (scan_options fields opts) (fun _ => Ok [SIn GOptsStruct]) else Ok [])
  (fun in1 =>
  bind (conv_args g args 0%nat) (fun in2 =>
  bind (if g_inputs g then
          if na =? nn then Ok [SIn GInputs]
          else bind (idx args (na - 1)) (fun it =>
               if can_iterate it then Ok [SIn GInputs] else Err ENotIterable)
        else Ok []) (fun in3 =>
  let ins := in0 ++ in1 ++ in2 ++ in3 in
  if negb (reflect_call_ok ps variadic ins) then Panic PReflectCall else
  bind (process_rets rets) (fun nout =>
  Ok (mkCallObs (match g_variadic g with Some _ => na - nn | None => -1 end) nout)))))).

(* ================================================================== *)
(* B. Closure.Call *)

Inductive binding (A : Type) := One (a : A) | Many (l : list A) | Unset.
Arguments One {A} a.
Arguments Many {A} l.
Arguments Unset {A}.

(* for i := lo; i < hi; i++ { slots[i] = args[i+off] } *)
Fixpoint bind_range {A} (fuel : nat) (i hi off : Z) (args : list A)
    (slots : list (binding A)) : res (list (binding A)) :=
  match fuel with
  | O => Ok slots
  | S f =>
    if i <? hi then
      bind (idx args (i + off)) (fun a =>
      bind (sto slots i (One a)) (fun s' => bind_range f (i + 1) hi off args s'))
    else Ok slots
  end.

(* options: names the closure declares, their defaults, names supplied *)
Fixpoint bind_opts {A} (fuel : nat) (i : Z) (optnames : list N) (defaults : list A)
    (given : list (N * A)) (offset : Z) (slots : list (binding A)) : res (list (binding A)) :=
  match fuel, optnames with
  | S f, name :: r =>
    let v : res A :=
      match find (fun kv => N.eqb (fst kv) name) given with
      | Some kv => Ok (snd kv)
      | None => idx defaults i
      end in
    bind v (fun a => bind (sto slots (offset + i) (One a)) (fun s' =>
      bind_opts f (i + 1) r defaults given offset s'))
  | _, _ => Ok slots
  end.

Definition closure_call {A} (nnames : Z) (rest : Z) (optnames : list N) (defaults : list A)
    (nnew : Z) (args : list A) (given : list (N * A)) : res (list (binding A)) :=
  let na := zlen args in
  let arity : res unit :=
    if negb (rest =? -1) then
      if na <? nnames - 1 then Err (EArity (nnames - 1) (-1) na) else Ok tt
    else if negb (na =? nnames) then Err (EArity nnames nnames na) else Ok tt in
  bind arity (fun _ =>
  if existsb (fun kv => negb (key_in (fst kv) optnames)) given then Err EUnsupportedOption else
  let local_size := nnames + zlen optnames + nnew in
  (* make([]vars.Var, localSize) *)
  if local_size <? 0 then Panic PMakeSlice else
  let slots0 := repeat (@Unset A) (Z.to_nat local_size) in
  let fuel := S (Z.to_nat nnames) in
  bind (if rest =? -1 then bind_range fuel 0 nnames 0 args slots0
        else
          bind (bind_range fuel 0 rest 0 args slots0) (fun s1 =>
          let rest_off := na - nnames in
          bind (slc args rest (rest + rest_off + 1)) (fun l =>
          bind (sto s1 rest (Many l)) (fun s2 =>
          bind_range fuel (rest + 1) nnames rest_off args s2))))
  (fun s3 => bind_opts (S (length optnames)) 0 optnames defaults given nnames s3)).

(* what a program can observe of the bindings: each parameter's value(s) *)
Definition binding_vals {A} (b : binding A) : list A :=
  match b with One a => [a] | Many l => l | Unset => [] end.

(* ================================================================== *)
(* C. port table *)

Inductive port :=
| POrig (k : N)      (* a port of the enclosing frame *)
| PPipeIn            (* reading end created by the pipeline for this form *)
| PPipeOut
| PFile (name : N)   (* opened by a file redirection *)
| PValue             (* from a file / pipe value *)
| PClosed.           (* the "closed" port of >&- *)

Definition port_eqb (a b : port) : bool :=
  match a, b with
  | POrig x, POrig y => N.eqb x y
  | PFile x, PFile y => N.eqb x y
  | PPipeIn, PPipeIn | PPipeOut, PPipeOut | PValue, PValue | PClosed, PClosed => true
  | _, _ => false
  end.

Record fop := mkFop { f_file : bool; f_chan : bool }.

(* growAccess: the grown slice; the caller then uses index i.
   [limit]: the largest length the allocator will satisfy. *)
Definition grow_access {T} (zero : T) (limit : Z) (s : list T) (i : Z) : res (list T) :=
  if i >=? zlen s then
    (* make([]T, i+1): i+1 wraps to a negative length for i = MaxInt64 *)
    if (i + 1 >? limit) then Panic PMakeSlice
    else Ok (s ++ repeat zero (Z.to_nat (i + 1 - zlen s)))
  else if i <? 0 then Panic PIndex
  else Ok s.

(* Frame.Port(i): "if i < 0 || i >= len(fm.ports) { return nil }; return fm.ports[i]" *)
Definition frame_port (ports : list (option port)) (i : Z) : res (option port) :=
  if (i <? 0) || (i >=? zlen ports) then Ok None else idx ports i.

(* what a redirection operand evaluates to *)
Inductive fdval :=
| FdNum (z : Z)     (* a value vals.ScanToGo converts to int *)
| FdName (k : Z)    (* stdin / stdout / stderr *)
| FdDash            (* "-" *)
| FdBad.

Definition eval_for_fd (v : fdval) (close_ok : bool) : res Z :=
  match v with
  | FdName k => Ok k
  | FdNum z => Ok z
  | FdDash => if close_ok then Ok (-1) else Err EBadValue
  | FdBad => Err EBadValue
  end.

Inductive rmode := MRead | MWrite | MReadWrite | MAppend.

Inductive rsrc :=
| SrcFd (v : fdval)
| SrcFileOk (name : N)   (* string; os.OpenFile succeeds *)
| SrcFileFail            (* string; os.OpenFile fails *)
| SrcFileVal             (* a file value, or a map with a usable r/w field *)
| SrcMapBadMode          (* a map used with >> or <> *)
| SrcBad.                (* any other value *)

Record redir := mkRedir { r_dst : option fdval; r_mode : rmode; r_src : rsrc }.

Definition pstate := (list (option port) * list fop)%type.

(* the destination fd: default by mode, or the evaluated left operand with
   "if dst < 0 { return InvalidFD }" *)
Definition dst_eval (r : redir) : res Z :=
  match r_dst r with
  | None => Ok (match r_mode r with MRead => 0 | _ => 1 end)
  | Some v => bind (eval_for_fd v false) (fun d => if d <? 0 then Err EInvalidFD else Ok d)
  end.

Definition redir_exec (limit : Z) (st : pstate) (r : redir) : res pstate :=
  let '(ports, fops) := st in
  bind (dst_eval r) (fun dst =>
  bind (grow_access (@None port) limit ports dst) (fun ports1 =>
  bind (grow_access (mkFop false false) limit fops dst) (fun fops1 =>
  bind (idx ports1 dst) (fun cur =>
  bind (match cur with
        | Some _ => sto fops1 dst (mkFop false false)
        | None => Ok fops1
        end) (fun fops2 =>
  match r_src r with
  | SrcFd v =>
    bind (eval_for_fd v true) (fun src =>
    if src =? -1 then bind (sto ports1 dst (Some PClosed)) (fun p => Ok (p, fops2))
    else if (src <? 0) || (src >=? zlen ports1) then Err EInvalidFD
    else bind (idx ports1 src) (fun sp =>
         match sp with
         | None => Err EInvalidFD
         | Some p => bind (sto ports1 dst (Some p)) (fun p' => Ok (p', fops2))
         end))
  | SrcFileOk name =>
    bind (sto ports1 dst (Some (PFile name))) (fun p =>
    bind (idx fops2 dst) (fun f =>
    bind (sto fops2 dst (mkFop true (f_chan f))) (fun f' => Ok (p, f'))))
  | SrcFileFail => Err EOpenFail
  | SrcFileVal =>
    match r_mode r with
    | MRead | MWrite => bind (sto ports1 dst (Some PValue)) (fun p => Ok (p, fops2))
    | _ => bind (sto ports1 dst (Some PValue)) (fun p => Ok (p, fops2))
    end
  | SrcMapBadMode => Err EBadRedirMode
  | SrcBad => Err EBadValue
  end))))).

Fixpoint redirs_exec (limit : Z) (st : pstate) (rs : list redir) : res pstate :=
  match rs with
  | [] => Ok st
  | r :: rest => bind (redir_exec limit st r) (fun st' => redirs_exec limit st' rest)
  end.

(* the ports and form-owned flags a form of a pipeline starts with *)
Definition form_start (input_is_pipe output_is_pipe : bool) : pstate :=
  ([Some (if input_is_pipe then PPipeIn else POrig 0);
    Some (if output_is_pipe then PPipeOut else POrig 1);
    Some (POrig 2)],
   if output_is_pipe then [mkFop input_is_pipe false; mkFop true true]
   else if input_is_pipe then [mkFop true false] else []).

(* end of the form in pipelineOp.exec:
     if inputIsPipe { input := newFm.ports[0]; *input.sendError = …;
                      close(input.sendStop); input.readerGone.Store(true) } *)
Definition form_finish (input_is_pipe : bool) (st : pstate) : res unit :=
  if input_is_pipe then
    bind (idx (fst st) 0) (fun p0 =>
    match p0 with
    | Some PPipeIn => Ok tt
    | Some PClosed => Panic PCloseClosed   (* sendStop is the shared, already closed channel *)
    | _ => Panic PNilDeref                 (* nil port, or a port without sendError *)
    end)
  else Ok tt.

(* a failing redirection ends the form with that exception; the end-of-form
   bookkeeping runs in either case, on the table as the redirections left it.
   The table after the failing redirection is not observable, so the model
   reports the finish step only for forms whose redirections all succeed or
   leave port 0 alone; see [form_exec]. *)
Fixpoint redirs_exec_partial (limit : Z) (st : pstate) (rs : list redir) : pstate * res unit :=
  match rs with
  | [] => (st, Ok tt)
  | r :: rest =>
    match redir_exec limit st r with
    | Ok st' => redirs_exec_partial limit st' rest
    | Err e =>
      (* the destination slot was grown and its owner flag reset before the
         source was evaluated; the port itself is unchanged *)
      (st, Err e)
    | Panic p => (st, Panic p)
    end
  end.

Definition form_exec (limit : Z) (input_is_pipe output_is_pipe : bool) (rs : list redir)
    : res pstate :=
  let '(st, r) := redirs_exec_partial limit (form_start input_is_pipe output_is_pipe) rs in
  match r with
  | Panic p => Panic p
  | Err e => bind (form_finish input_is_pipe st) (fun _ => Err e)
  | Ok _ => bind (form_finish input_is_pipe st) (fun _ => Ok st)
  end.

(* ================================================================== *)
(* D. math:pow with exact operands: base bn/bd (bd > 0; bd = 1: an integer), exponent e *)

Definition rat_inv (n d : Z) : res (Z * Z) :=
  if n =? 0 then Panic PDivZero
  else if n <? 0 then Ok (- d, - n) else Ok (d, n).

(* big.Rat.SetFrac(a, b): panics on b = 0; normalises *)
Definition set_frac (a b : Z) : res (Z * Z) :=
  if b =? 0 then Panic PDivZero else
  let g := Z.gcd a b in
  let s := if b <? 0 then -1 else 1 in
  Ok (s * (a / g), s * (b / g)).

Definition pow_exact (bn bd e : Z) : res (Z * Z) :=
  (* "if base == 0 && exp.Sign() < 0 { return ErrDivideByZero }" (a bad-value error) *)
  if (bn =? 0) && (e <? 0) then Err EBadValue
  else if e =? 0 then Ok (1, 1)
  else if e =? 1 then Ok (bn, bd)
  else if e =? -1 then rat_inv bn bd
  else if (bd =? 1) && (e >? 0) then Ok (Z.pow bn e, 1)
  else
    bind (if e <? 0 then rat_inv bn bd else Ok (bn, bd)) (fun b =>
    let e' := Z.abs e in
    set_frac (Z.pow (fst b) e') (Z.pow (snd b) e')).

(* ================================================================== *)
(* E. strutil.HasSubseq over bytes, runes decoded as Go's range loop does.
   [dec s] = Some (rune, width) for a non-empty s (width 1 and U+FFFD for an
   invalid sequence). *)
Section Subseq.
  (* utf8.DecodeRuneInString: (rune, width); width 0 only for the empty string *)
  Variable dec : bytes -> N * nat.

  (* strings.IndexRune(s, p): byte offset of the first position whose decoded
     rune equals p (for p = RuneError this includes invalid bytes) *)
  Fixpoint index_rune (fuel : nat) (s : bytes) (p : N) (off : nat) : option nat :=
    match fuel with
    | O => None
    | S f =>
      match s with
      | [] => None
      | _ =>
        let '(r, w) := dec s in
        if N.eqb r p then Some off
        else index_rune f (skipn (Nat.max w 1) s) p (off + Nat.max w 1)%nat
      end
    end.

  (* for _, p := range t { i := IndexRune(s, p); if i == -1 {return false}; s = s[i+size:] } *)
  Fixpoint has_subseq (fuel : nat) (s t : bytes) : res bool :=
    match fuel with
    | O => Ok true
    | S f =>
      match t with
      | [] => Ok true
      | _ =>
        let '(p, w) := dec t in
        match index_rune (S (length s)) s p 0 with
        | None => Ok false
        | Some i =>
          (* "_, size := utf8.DecodeRuneInString(s[i:]); s = s[i+size:]" *)
          bind (slc s (Z.of_nat i) (zlen s)) (fun si =>
          let '(_, size) := dec si in
          bind (slc s (Z.of_nat (i + size)) (zlen s)) (fun s' =>
          has_subseq f s' (skipn (Nat.max w 1) t)))
        end
      end
    end.
End Subseq.

(* ================================================================== *)
(* F. randint with two machine-int bounds (randIntSmallInt): which generator runs *)

Definition wrap64 (z : Z) : Z := (z + 2 ^ 63) mod 2 ^ 64 - 2 ^ 63.

(* rand.Intn panics unless n > 0 *)
Definition rand_intn (n : Z) : res unit := if n <=? 0 then Panic PInvalidArg else Ok tt.
(* big.Int.Rand(r, n) with n > 0 *)
Definition big_rand (n : Z) : res unit := if n <=? 0 then Panic PInvalidArg else Ok tt.

Definition randint_small (low high : Z) : res unit :=
  if high <=? low then Err EBadValue else
  let diff := wrap64 (high - low) in           (* machine subtraction *)
  if diff <=? 0 then big_rand (high - low)     (* the difference does not fit: exact arithmetic *)
  else rand_intn diff.

(* ================================================================== *)
(* cases and judge *)

(* what the harness saw *)
Inductive obs (A : Type) :=
| OOk (a : A)
| OErr (e : err_kind)
| OCrash.              (* Go panic / fatal error / hang *)
Arguments OOk {A} a.
Arguments OErr {A} e.
Arguments OCrash {A}.

Definition err_eqb (a b : err_kind) : bool :=
  match a, b with
  | EArity l h n, EArity l' h' n' => (l =? l') && (h =? h') && (n =? n')
  | ENoOptAccepted, ENoOptAccepted | EBadOption, EBadOption | ENotIterable, ENotIterable
  | EFnError, EFnError | EUnsupportedOption, EUnsupportedOption | EBadValue, EBadValue
  | EInvalidFD, EInvalidFD | EOpenFail, EOpenFail | EBadRedirMode, EBadRedirMode => true
  | EWrongArgType i, EWrongArgType j => i =? j
  | _, _ => false
  end.

(* correspondence: same outcome kind, same error kind, same projected value *)
Definition agree {A B} (eqv : A -> B -> bool) (m : res A) (o : obs B) : bool :=
  match m, o with
  | Ok a, OOk b => eqv a b
  | Err e, OErr e' => err_eqb e e'
  | Panic _, OCrash => true
  | _, _ => false
  end.

(* the property on an observation: evaluation ended normally or with an
   Elvish exception *)
Definition check_C17 {A} (o : obs A) : bool :=
  match o with OCrash => false | _ => true end.

Definition zlist_eqb := list_eqb Z.eqb.
Definition port_obs_eqb (a b : list (option port)) : bool := list_eqb (option_eqb port_eqb) a b.

Fixpoint pad_to {A} (n : nat) (d : A) (l : list A) : list A :=
  match n with
  | O => []
  | S k => match l with [] => d :: pad_to k d [] | x :: r => x :: pad_to k d r end
  end.

(* the instance of the test options struct: foo (string), bar (int) *)
Definition test_fields : list (N * gtype) := [(0%N, GString); (1%N, GInt)].

(* largest port-table length the harness's child can allocate: the child runs
   with a 3 GiB address-space limit and a table entry takes 8 bytes *)
Definition test_limit : Z := 2 ^ 28.

Inductive case :=
| CGoFn (ps : list gtype) (variadic : bool) (rets : list rtype)
        (args : list vkind) (opts : list (N * vkind)) (o : obs (Z * Z))
| CClosure (nnames rest : Z) (optnames : list N) (args : list N) (given : list N)
        (o : obs (list (list N)))
| CForm (input_is_pipe output_is_pipe : bool) (rs : list redir) (o : obs (list (option port)))
| CPow (bn bd e : Z) (o : obs (Z * Z))
| CSubseq (s t : bytes) (o : obs bool)
| CRandint (low high : Z) (o : obs Z).

Definition judge_gofn ps variadic rets args opts (o : obs (Z * Z)) : N :=
  match new_gofn ps variadic with
  | None => 0%N   (* not a registrable function; the harness does not emit these *)
  | Some g =>
    code (check_C17 o)
         (agree (fun (a : call_obs) (b : Z * Z) => (co_nvar a =? fst b) && (co_nout a =? snd b))
                (gofn_call ps variadic test_fields rets g args opts) o)
  end.

(* option values are numbered 100+name when given, 200+index as defaults *)
Definition judge_closure nnames rest optnames (args given : list N) (o : obs (list (list N))) : N :=
  let defaults := map (fun i => (200 + N.of_nat i)%N) (seq 0 (length optnames)) in
  let giv := map (fun k => (k, (100 + k)%N)) given in
  code (check_C17 o)
       (agree (fun (a : list (binding N)) (b : list (list N)) =>
                 list_eqb (list_eqb N.eqb) (map binding_vals a) b)
              (closure_call nnames rest optnames defaults 0 args giv) o).

Definition judge_form ip op rs (o : obs (list (option port))) : N :=
  code (check_C17 o)
       (agree (fun (a : pstate) (b : list (option port)) =>
                 port_obs_eqb (pad_to 12 None (fst a)) b)
              (form_exec test_limit ip op rs) o).

Definition judge_pow bn bd e (o : obs (Z * Z)) : N :=
  code (check_C17 o)
       (agree (fun (a b : Z * Z) => (fst a =? fst b) && (snd a =? snd b)) (pow_exact bn bd e) o).

Definition go_has_subseq (s t : bytes) : res bool :=
  has_subseq Utf8.decode_rune (S (length t)) s t.

Definition judge_subseq (s t : bytes) (o : obs bool) : N :=
  code (check_C17 o) (agree Bool.eqb (go_has_subseq s t) o).

(* the value must lie in [low, high) *)
Definition judge_randint (low high : Z) (o : obs Z) : N :=
  code (check_C17 o)
       (agree (fun (_ : unit) (v : Z) => (low <=? v) && (v <? high)) (randint_small low high) o).

Definition judge1 (c : case) : N :=
  match c with
  | CGoFn ps v rets args opts o => judge_gofn ps v rets args opts o
  | CClosure n r on args given o => judge_closure n r on args given o
  | CForm ip op rs o => judge_form ip op rs o
  | CPow bn bd e o => judge_pow bn bd e o
  | CSubseq s t o => judge_subseq s t o
  | CRandint low high o => judge_randint low high o
  end.

Definition judge := judge_with judge1.
