(* C11 — exact arithmetic is mathematically exact and canonical.
   The model of the commands is model/C11_Num.v (shared with C12).  This file
   holds the independent rational-arithmetic oracle [expect] (plain Q arithmetic,
   no representation, no normalisation), the decidable check on observations
   and the judge.  Executable Gallina only. *)
From Coq Require Import QArith Qabs Qround.
From verif Require Import lib.Base model.C11_Num.
Open Scope Z_scope.

(* what the property demands of one call *)
Inductive expect :=
| XVals (l : list Q)   (* exactly these mathematical values, each exact and canonical *)
| XRaise               (* an exception (not a value, not a crash) *)
| XAny.                (* the property does not speak about this call *)

Definition qsum (l : list Q) : Q := fold_right Qplus (0#1) l.
Definition qprod (l : list Q) : Q := fold_right Qmult (1#1) l.
Definition q_min (a b : Q) : Q := if q_lt b a then b else a.
Definition q_max (a b : Q) : Q := if q_lt a b then b else a.

(* start + k*step for k = 0, 1, ... while before the end *)
Definition range_count (s e st : Q) : Z := Qceiling ((e - s) / st)%Q.
Definition range_spec (s e st : Q) : list Q :=
  map (fun k => (s + (Z.of_nat k # 1) * st)%Q) (seq 0 (Z.to_nat (range_count s e st))).

Definition expect_range (s e : Q) (step : option Q) : expect :=
  if Qle_bool s e then
    match step with
    | None => XVals (range_spec s e (1#1))
    | Some st => if q_zero st then XAny else if q_lt st (0#1) then XRaise else XVals (range_spec s e st)
    end
  else
    match step with
    | None => XVals (range_spec s e (-1#1))
    | Some st => if q_zero st then XAny else if q_lt (0#1) st then XRaise else XVals (range_spec s e st)
    end.

(* all arguments exact: the mathematical result *)
Definition expect_exact (c : cmd) (a : list Q) (step : option Q) : expect :=
  match c, a with
  | CAdd, _ => XVals [qsum a]
  | CSub, [] => XAny
  | CSub, [x] => XVals [Qopp x]
  | CSub, x :: r => XVals [(x - qsum r)%Q]
  | CMul, _ => XVals [qprod a]
  | CDiv, [] => XAny
  (* "/ 0": the documentation is ambiguous (reciprocal, "equivalent to / 1 $x", vs. the
     exact-zero rule "$x-num exact 0 and no $y-num exact 0 gives exact 0", which read
     literally covers it); the implemented reading, the exact-zero rule, is accepted *)
  | CDiv, [x] => if q_zero x then XVals [0#1] else XVals [Qinv x]
  | CDiv, x :: r => if existsb q_zero r then XRaise else XVals [(x / qprod r)%Q]
  | CRem, [x; y] =>
    if q_isint x && q_isint y then
      if q_zero y then XRaise else XVals [Z.rem (q_toZ x) (q_toZ y) # 1]
    else XRaise
  | CRange, [e] => expect_range (0#1) e step
  | CRange, [s; e] => expect_range s e step
  | CAbs, [x] => XVals [Qabs x]
  | CCeil, [x] => XVals [Qceiling x # 1]
  | CFloor, [x] => XVals [Qfloor x # 1]
  | CTrunc, [x] => XVals [q_trunc x # 1]
  | CRound, [x] => XVals [q_round x # 1]
  | CRoundEven, [x] => XVals [q_round_even x # 1]
  | CMin, x :: r => XVals [fold_left q_min r x]
  | CMax, x :: r => XVals [fold_left q_max r x]
  | CPow, [b; e] =>
    if q_isint e then
      if q_zero b && (q_toZ e <? 0) then XRaise else XVals [Qpower b (q_toZ e)]
    else XAny
  | _, _ => XAny
  end.

(* some argument inexact: only the documented exact-zero rules of * and / *)
Definition expect_zero_rules (c : cmd) (args : list num) : expect :=
  match c, args with
  | CMul, _ => if existsb is_int0 args && negb (existsb is_inf args) then XVals [0#1] else XAny
  | CDiv, x :: r =>
    if existsb is_int0 r then XRaise
    else if is_int0 x then XVals [0#1] else XAny
  | _, _ => XAny
  end.

Definition expect_C11 (c : cmd) (args : list num) (step : option num) : expect :=
  if forallb is_exact args && match step with Some s => is_exact s | None => true end
  then expect_exact c (map qv args) (option_map qv step)
  else expect_zero_rules c args.

Definition val_ok (v : num) (q : Q) : bool := canon_ok v && Qeq_bool (qv v) q.

Fixpoint vals_ok (vs : list num) (qs : list Q) : bool :=
  match vs, qs with
  | [], [] => true
  | v :: vs', q :: qs' => val_ok v q && vals_ok vs' qs'
  | _, _ => false
  end.

Definition check_C11 (c : cmd) (args : list num) (step : option num) (obs : result) : bool :=
  match expect_C11 c args step with
  | XVals qs => match obs with RVals vs => vals_ok vs qs | _ => false end
  | XRaise => match obs with RErr _ => true | _ => false end
  | XAny => true
  end.

Definition judge1 (c : case) : N :=
  code (check_C11 (c_cmd c) (c_args c) (c_step c) (c_obs c))
       (result_eqb (call (c_cmd c) (c_args c) (c_step c)) (c_obs c)).

Definition judge := judge_with judge1.
