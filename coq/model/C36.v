(* C36 — the Markdown formatter (pkg/md/fmt.go): models of the escaping
   decisions that can be isolated (escapeText, escapeAmpersandBackslash,
   wrapAndEscapeLinkTitle, formatLinkTail, codeFences, escapeCodeFenceInfo) and
   of the greedy line breaking of paragraph reflow; the case type and judge.
   The parser kernels they are checked against live in model/C35_Inline.v.
   Executable, no proofs. *)
From verif Require Import lib.Base lib.Utf8 model.C35_Bal model.C35_Inline.
Open Scope N_scope.

(* ---------------- escapeAmpersandBackslash(s, set) ---------------- *)
Definition in_set (set : bytes) (c : N) : bool := existsb (fun x => x =? c) set.

Fixpoint esc_amp_bs (set : bytes) (s : bytes) : bytes :=
  match s with
  | [] => []
  | c :: r =>
    if (c =? 92) || in_set set c || negb (Nat.eqb (char_ref_len s) 0)
    then 92 :: c :: esc_amp_bs set r
    else c :: esc_amp_bs set r
  end.

Definition NEWLINE_ENT : bytes := [38;78;101;119;76;105;110;101;59].   (* &NewLine; *)
Definition escape_newlines (s : bytes) : bytes :=
  flat_map (fun c => if c =? 10 then NEWLINE_ENT else [c]) s.

Definition count_byte (b : N) (s : bytes) : nat := length (filter (fun c => c =? b) s).

(* wrapAndEscapeLinkTitle *)
Definition wrap_title (t : bytes) : bytes :=
  let dq := count_byte 34 t in
  let sq := count_byte 39 t in
  let pa := (count_byte 40 t + count_byte 41 t)%nat in
  if Nat.eqb dq 0 then 34 :: esc_amp_bs [] t ++ [34]
  else if Nat.eqb sq 0 then 39 :: esc_amp_bs [] t ++ [39]
  else if Nat.eqb pa 0 then 40 :: esc_amp_bs [] t ++ [41]
  else if Nat.leb dq sq && Nat.leb dq pa then 34 :: esc_amp_bs [34] t ++ [34]
  else if Nat.leb sq pa then 39 :: esc_amp_bs [39] t ++ [39]
  else 40 :: esc_amp_bs [40;41] t ++ [41].

Fixpoint balanced_parens (bal : nat) (s : bytes) : bool :=
  match s with
  | [] => Nat.eqb bal 0
  | c :: r =>
    if c =? 40 then balanced_parens (S bal) r
    else if c =? 41 then match bal with O => false | S b => balanced_parens b r end
    else balanced_parens bal r
  end.

(* forbiddenInRawLinkDest: ASCII control bytes and the space *)
Definition forbidden_raw (c : N) : bool := c <=? 32.

(* formatLinkTail *)
Definition format_link_tail (dest title : bytes) : bytes :=
  let d :=
    if existsb forbidden_raw dest || negb (balanced_parens 0 dest) then
      60 :: escape_newlines (esc_amp_bs [60;62] dest) ++ [62]
    else match dest, title with
         | [], _ :: _ => [60;62]
         | _, _ =>
           let e := esc_amp_bs [] dest in
           match e with 60 :: _ => 92 :: e | _ => e end
         end in
  let t := match title with [] => [] | _ => 32 :: escape_newlines (wrap_title title) end in
  40 :: d ++ t ++ [41].

(* ---------------- code fences ---------------- *)
(* lengths of the maximal runs of [ch] in a line (regexp ch+, FindAllString) *)
Fixpoint run_lens (ch : N) (cur : nat) (s : bytes) : list nat :=
  match s with
  | [] => match cur with O => [] | _ => [cur] end
  | c :: r =>
    if c =? ch then run_lens ch (S cur) r
    else match cur with O => run_lens ch 0 r | _ => cur :: run_lens ch 0 r end
  end.

Definition all_run_lens (ch : N) (lines : list bytes) : list nat :=
  flat_map (run_lens ch 0) lines.

Definition fence_len (lens : list nat) : nat := fold_right (fun x l => Nat.max l (S x)) 3%nat lens.

(* escapeCodeFenceInfo *)
Fixpoint esc_info (s : bytes) : bytes :=
  match s with
  | [] => []
  | c :: r =>
    if c =? 92 then 92 :: 92 :: esc_info r
    else if c =? 10 then NEWLINE_ENT ++ esc_info r
    else if (c =? 38) && negb (Nat.eqb (char_ref_len s) 0) then 92 :: 38 :: esc_info r
    else c :: esc_info r
  end.

Definition TILDE : N := 126.
(* codeFences(info, lines) = (start fence line, end fence line) *)
Definition code_fences (info : bytes) (lines : list bytes) : bytes * bytes :=
  let ch := if existsb is_bt info then TILDE else BT in
  let fence := repeat ch (fence_len (all_run_lens ch lines)) in
  let sep := if (ch =? TILDE) && match info with c :: _ => c =? TILDE | [] => false end then [32] else [] in
  (fence ++ sep ++ esc_info info, fence).

(* codeFenceCloserRegexp and the closer test of parseFencedCodeBlock:
   up to 3 spaces, a run of at least 3 fence bytes of the opener kind and at
   least as long as the opener, then only spaces and tabs *)
Fixpoint strip_spaces (n : nat) (s : bytes) : bytes :=
  match n, s with
  | S n', c :: r => if c =? 32 then strip_spaces n' r else s
  | _, _ => s
  end.
Definition is_closer (ch : N) (k : nat) (line : bytes) : bool :=
  let s := strip_spaces 3 line in
  let c := span (fun x => x =? ch) s in
  Nat.leb 3 c && Nat.leb k c && forallb (fun x => (x =? 32) || (x =? 9)) (skipn c s).

(* the safety property of a fence pair for a content, as a decidable check on
   the observed result *)
Definition fence_safe (info : bytes) (lines : list bytes) (startf endf : bytes) : bool :=
  match endf with
  | ch :: _ =>
    ((ch =? BT) || (ch =? TILDE))
    && forallb (fun x => x =? ch) endf
    && Nat.leb 3 (length endf)
    && forallb (fun l => negb (is_closer ch (length endf) l)) lines
    && has_prefix endf startf
    && (negb (ch =? BT) || negb (existsb is_bt (skipn (length endf) startf)))
  | [] => false
  end.

(* ---------------- escapeText on runes ----------------
   input: the runes of the text with the word predicate of fmt.go:isWord
   evaluated on each (Unicode tables are not modelled) *)
Definition NBSP : N := 160.
Definition NBSP_ENT : list N := [38;110;98;115;112;59].   (* &nbsp; *)

Fixpoint esc_text (prev_word : bool) (s : list (N * bool)) : list N :=
  match s with
  | [] => []
  | (c, w) :: r =>
    let next_word := match r with (_, w') :: _ => w' | [] => false end in
    let out :=
      if (c =? 91) || (c =? 93) || (c =? 42) || (c =? 96) || (c =? 92) || (c =? 60) then [92; c]
      else if c =? 95 then (if prev_word && next_word then [c] else [92; c])
      else if c =? 38 then (if Nat.eqb (char_ref_len (map fst s)) 0 then [c] else [92; c])
      else if c =? NBSP then NBSP_ENT
      else [c] in
    out ++ esc_text w r
  end.
Definition escape_text (s : list (N * bool)) : list N := esc_text false s.

(* removing the backslash escapes again (what the inline parser does with a
   backslash before ASCII punctuation) *)
Fixpoint unescape_bs (skip : bool) (s : list N) : list N :=
  match s with
  | [] => []
  | c :: r =>
    if skip then c :: unescape_bs false r
    else if (c =? 92) && match r with d :: _ => is_ascii_punct d | [] => false end
         then unescape_bs true r
         else c :: unescape_bs false r
  end.

(* the unescaped bytes of the always-active metacharacters that remain *)
Definition always_meta (c : N) : bool :=
  (c =? 91) || (c =? 93) || (c =? 42) || (c =? 96) || (c =? 92) || (c =? 60).
Fixpoint active_metas (skip : bool) (s : list N) : list N :=
  match s with
  | [] => []
  | c :: r =>
    if skip then active_metas false r
    else if (c =? 92) && match r with d :: _ => is_ascii_punct d | [] => false end
         then active_metas true r
         else (if always_meta c then [c] else []) ++ active_metas false r
  end.

Definition nbsp_expand (s : list N) : list N :=
  flat_map (fun c => if c =? NBSP then NBSP_ENT else [c]) s.

(* escapeText with the word flag of every output rune (inserted backslashes,
   ampersands and semicolons are no word runes, the letters of the entity are) *)
Fixpoint esc_text_w (prev_word : bool) (s : list (N * bool)) : list (N * bool) :=
  match s with
  | [] => []
  | (c, w) :: r =>
    let next_word := match r with (_, w') :: _ => w' | [] => false end in
    let out :=
      if (c =? 91) || (c =? 93) || (c =? 42) || (c =? 96) || (c =? 92) || (c =? 60) then [(92, false); (c, w)]
      else if c =? 95 then (if prev_word && next_word then [(c, w)] else [(92, false); (c, w)])
      else if c =? 38 then (if Nat.eqb (char_ref_len (map fst s)) 0 then [(c, w)] else [(92, false); (c, w)])
      else if c =? NBSP then [(38, false); (110, true); (98, true); (115, true); (112, true); (59, w)]
      else [(c, w)] in
    out ++ esc_text_w w r
  end.

(* Inertness of what stays unescaped, judged on the output alone (runes with
   their word flags): scanning as the inline parser does (a backslash before
   ASCII punctuation escapes it),
   - no always-active metacharacter is met unescaped,
   - an unescaped underscore has word runes on both sides, so that
     canOpenCloseEmphasis gives it neither the right to open nor to close,
   - an unescaped ampersand starts no character reference (leadingCharRef of the
     output text from there is empty), except the nbsp entity written on purpose. *)
Fixpoint inert_ok (skip prev_word : bool) (out : list (N * bool)) : bool :=
  match out with
  | [] => true
  | (c, w) :: r =>
    if skip then inert_ok false w r
    else if (c =? 92) && match r with (d, _) :: _ => is_ascii_punct d | [] => false end
         then inert_ok true false r
    else
      negb (always_meta c)
      && (negb (c =? 95) || (prev_word && match r with (_, w') :: _ => w' | [] => false end))
      && (negb (c =? 38) || Nat.eqb (char_ref_len (map fst out)) 0 || has_prefix NBSP_ENT (map fst out))
      && inert_ok false w r
  end.

(* word runes are never among the bytes escapeText treats specially (they are
   punctuation or space) *)
Definition special_rune (c : N) : bool :=
  always_meta c || (c =? 95) || (c =? 38) || (c =? NBSP).
Definition sane (s : list (N * bool)) : bool :=
  forallb (fun p => negb (snd p) || negb (special_rune (fst p))) s.

(* ---------------- reflow: greedy line breaking ----------------
   spans are written whole and separated by one space; [cur] is the current
   line (reversed), [curw] its width; a span fits while the line stays within
   maxw (the model covers lines whose start needs no escaping) *)
Fixpoint reflow (maxw : nat) (cur : list bytes) (curw : nat) (spans : list bytes) : list (list bytes) :=
  match spans with
  | [] => match cur with [] => [] | _ => [rev cur] end
  | s :: r =>
    let w := length s in
    match cur with
    | [] => reflow maxw [s] w r
    | _ => if Nat.leb (curw + 1 + w) maxw then reflow maxw (s :: cur) (curw + 1 + w) r
           else rev cur :: reflow maxw [s] w r
    end
  end.

Fixpoint join_sp (l : list bytes) : bytes :=
  match l with [] => [] | [x] => x | x :: r => x ++ 32 :: join_sp r end.
Definition line_width (l : list bytes) : nat := length (join_sp l).

(* ---------------- cases ---------------- *)
Inductive case :=
| KPreserve (h1 h2 : bytes)                      (* html(x), html(fmt(x)) *)
| KIdem (f1 f2 : bytes)                          (* fmt(x), fmt(fmt(x)) *)
| KReflow (h1 h2 : bytes)                        (* the two HTML renderings, whitespace-normalised *)
| KFits (w : nat) (ls : list (nat * bool))       (* per output line: width, breakable *)
| KFence (info : bytes) (lines : list bytes) (startf endf : bytes)
| KLinkTail (dest title obs : bytes)
| KEscText (s : list (N * bool)) (obs : list (N * bool))
| KReflowKernel (maxw : nat) (words : list bytes) (obs : list bytes)
| KReflowObs (maxw : nat) (obs : list bytes).     (* emitted lines, after escaping; ASCII only *)

Definition fits (w : nat) (ls : list (nat * bool)) : bool :=
  forallb (fun p => Nat.leb (fst p) w || negb (snd p)) ls.

Definition tail_roundtrip (dest title obs : bytes) : bool :=
  match parse_link_tail obs with
  | TailOk n d t => Nat.eqb n (length obs) && bytes_eqb d dest && bytes_eqb t title
  | _ => false
  end.

Definition esc_text_ok (s : list (N * bool)) (obs : list (N * bool)) : bool :=
  list_eqb N.eqb (unescape_bs false (map fst obs)) (nbsp_expand (map fst s))
  && match active_metas false (map fst obs) with [] => true | _ => false end
  && inert_ok false false obs.

(* every emitted line, as written (a leading backslash included), fits the
   width unless it has no break opportunity left *)
Definition lines_fit (maxw : nat) (obs : list bytes) : bool :=
  forallb (fun l => Nat.leb (length l) maxw || negb (existsb (fun c => c =? 32) l)) obs.

Definition judge1 (c : case) : N :=
  match c with
  | KPreserve h1 h2 => code (bytes_eqb h1 h2) true
  | KIdem f1 f2 => code (bytes_eqb f1 f2) true
  | KReflow h1 h2 => code (bytes_eqb h1 h2) true
  | KFits w ls => code (fits w ls) true
  | KFence info lines s e =>
    code (fence_safe info lines s e)
         (let '(ms, me) := code_fences info lines in bytes_eqb ms s && bytes_eqb me e)
  | KLinkTail dest title obs =>
    code (tail_roundtrip dest title obs) (bytes_eqb (format_link_tail dest title) obs)
  | KEscText s obs => code (esc_text_ok s obs) (list_eqb N.eqb (escape_text s) (map fst obs))
  | KReflowKernel maxw words obs =>
    code (bytes_eqb (join_sp obs) (join_sp words)
          && forallb (fun l => Nat.leb (length l) maxw || negb (existsb (fun c => c =? 32) l)) obs)
         (list_eqb bytes_eqb (map join_sp (reflow maxw [] 0 words)) obs)
  | KReflowObs maxw obs => code (lines_fit maxw obs) true
  end.

Definition judge := judge_with judge1.
