(* C06 — executable model of pkg/persistent/vector/vector.go (the persistent
   vector: tail buffer + 2^b-ary tree, sub-vector views, iterator), of the list
   entry points of pkg/eval/vals (index_list.go: adjustAndCheckIndex, slices),
   the independent specification on plain lists ("array copy"), and the judge
   for operation histories over a version store.  No proofs here. *)
From verif Require Import lib.Base gen.Consts.
Open Scope Z_scope.

(* Go's [any] as far as this package can see it: nil, a user value, or a node
   (node = *[nodeSize]any; tree slots and tail slots are all [any]). *)
Inductive any := ANil | AVal (a : Z) | ANode (cs : list any).

Inductive res (T : Type) := Ok (x : T) | Panic | OutOfFuel.
Arguments Ok {T} x. Arguments Panic {T}. Arguments OutOfFuel {T}.

(* m[k] = x on a fixed-size array (k is always masked, arrays have nodeSize slots) *)
Fixpoint upd {T} (k : nat) (x : T) (l : list T) : list T :=
  match l, k with
  | [], _ => []
  | _ :: r, O => x :: r
  | y :: r, S k' => y :: upd k' x r
  end.

Definition isNil (a : any) : bool := match a with ANil => true | _ => false end.

(* ---------------- operation histories over a version store ---------------- *)
Inductive op :=
| OConj (t : nat) (x : any)
| OConjRange (t : nat) (x0 k : Z)
| OPop (t : nat)
| OPopN (t : nat) (k : Z)
| OAssoc (t : nat) (i : Z) (x : any)
| OSub (t : nat) (i j : Z)
| OIndex (t : nat) (i : Z)
| OIter (t : nat)                (* Len + Iterator / MarshalJSON order *)
| OVIndex (t : nat) (i : Z)      (* vals.Index, int index *)
| OVSlice (t : nat) (i j : Z)    (* vals.Index, "i..j" *)
| OVAssoc (t : nat) (i : Z) (x : any).

Definition op_target (o : op) : nat :=
  match o with
  | OConj t _ | OConjRange t _ _ | OPop t | OPopN t _ | OAssoc t _ _ | OSub t _ _
  | OIndex t _ | OIter t | OVIndex t _ | OVSlice t _ _ | OVAssoc t _ _ => t
  end.

(* does the operation produce a new version (a slot in the store)? *)
Definition creates (o : op) : bool :=
  match o with OIndex _ _ | OIter _ | OVIndex _ _ => false | _ => true end.

(* outcome of one operation, generic in the representation of a list value *)
Inductive outcome (V : Type) :=
| XVec (v : V)                  (* a new list value *)
| XRejected                     (* nil Vector / error: no value *)
| XElem (e : option any)        (* Index: element or "not there" *)
| XRead (l : list any)          (* iteration *)
| XMissing                      (* target version does not exist *)
| XPanic | XFuel.
Arguments XVec {V} v. Arguments XRejected {V}. Arguments XElem {V} e. Arguments XRead {V} l.
Arguments XMissing {V}. Arguments XPanic {V}. Arguments XFuel {V}.


Section Trie.
Variable b : Z.                                   (* chunkBits *)

Definition nodeSize : Z := Z.shiftl 1 b.          (* 1 << chunkBits *)
Definition tailMaxLen : Z := nodeSize.
Definition chunkMask : Z := nodeSize - 1.
Definition B : nat := Z.to_nat nodeSize.

(* (i >> (h*chunkBits)) & chunkMask *)
Definition chunk (i : Z) (h : nat) : nat :=
  Z.to_nat (Z.land (Z.shiftr i (Z.of_nat h * b)) chunkMask).

Record vec := mkVec { count : Z; height : nat; root : any; tail : list any }.

Definition empty : vec := mkVec 0 0 ANil [].

Definition newNode : list any := repeat ANil B.
(* nodeFromSlice: copy(n[:], s) *)
Definition nodeFromSlice (s : list any) : any := ANode (firstn B (s ++ repeat ANil B)).

Definition treeSize (v : vec) : Z :=
  if count v <? tailMaxLen then 0 else Z.shiftl (Z.shiftr (count v - 1) b) b.

(* the loop shared by Index and sliceFor: walk down from the root to the leaf
   array holding index i.  None = Go panics (nil dereference / failed .(node)) *)
Fixpoint descend (h : nat) (n : any) (i : Z) : option (list any) :=
  match h with
  | O => match n with ANode cs => Some cs | _ => None end
  | S h' =>
    match n with
    | ANode cs =>
      match nth_error cs (chunk i (S h')) with
      | Some c => descend h' c i
      | None => None
      end
    | _ => None
    end
  end.

Definition index (v : vec) (i : Z) : res (option any) :=
  if (i <? 0) || (i >=? count v) then Ok None
  else if i >=? treeSize v then
    match nth_error (tail v) (chunk i 0) with Some x => Ok (Some x) | None => Panic end
  else
    match descend (height v) (root v) i with
    | Some cs => match nth_error cs (chunk i 0) with Some x => Ok (Some x) | None => Panic end
    | None => Panic
    end.

Definition sliceFor (v : vec) (i : Z) : option (list any) :=
  if i >=? treeSize v then Some (tail v) else descend (height v) (root v) i.

Fixpoint doAssoc (h : nat) (n : any) (i : Z) (x : any) {struct h} : option any :=
  match n with
  | ANode cs =>
    match h with
    | O => Some (ANode (upd (chunk i 0) x cs))
    | S h' =>
      let sub := chunk i (S h') in
      match nth_error cs sub with
      | Some c =>
        match doAssoc h' c i x with
        | Some c' => Some (ANode (upd sub c' cs))
        | None => None
        end
      | None => None
      end
    end
  | _ => None
  end.

(* newPath: left-branching tree of the given height above a leaf *)
Fixpoint newPath (h : nat) (leaf : any) : any :=
  match h with
  | O => leaf
  | S h' => ANode (upd 0 (newPath h' leaf) newNode)
  end.

(* pushTail; cnt = v.count *)
Fixpoint pushTail (cnt : Z) (h : nat) (n : any) (t : any) : option any :=
  match h with
  | O => Some t
  | S h' =>
    match n with
    | ANode cs =>
      let idx := chunk (cnt - 1) (S h') in
      match nth_error cs idx with
      | Some ANil => Some (ANode (upd idx (newPath h' t) cs))
      | Some (ANode _ as c) =>
        match pushTail cnt h' c t with
        | Some c' => Some (ANode (upd idx c' cs))
        | None => None
        end
      | _ => None
      end
    | _ => None
    end
  end.

Definition conj (v : vec) (x : any) : res vec :=
  if count v - treeSize v <? tailMaxLen then
    Ok (mkVec (count v + 1) (height v) (root v) (tail v ++ [x]))
  else
    let tailNode := nodeFromSlice (tail v) in
    if Z.shiftr (count v) b >? Z.shiftl 1 (Z.of_nat (height v) * b) then
      Ok (mkVec (count v + 1) (S (height v))
            (ANode (upd 1 (newPath (height v) tailNode) (upd 0 (root v) newNode))) [x])
    else
      match pushTail (count v) (height v) (root v) tailNode with
      | Some r => Ok (mkVec (count v + 1) (height v) r [x])
      | None => Panic
      end.

(* newTail[i&chunkMask] = val : panics when out of range *)
Definition set_nth (k : nat) (x : any) (l : list any) : option (list any) :=
  if (k <? length l)%nat then Some (upd k x l) else None.

Definition assoc (v : vec) (i : Z) (x : any) : res (option vec) :=
  if (i <? 0) || (i >? count v) then Ok None
  else if i =? count v then
    match conj v x with Ok w => Ok (Some w) | Panic => Panic | OutOfFuel => OutOfFuel end
  else if i >=? treeSize v then
    match set_nth (chunk i 0) x (tail v) with
    | Some t => Ok (Some (mkVec (count v) (height v) (root v) t))
    | None => Panic
    end
  else
    match doAssoc (height v) (root v) i x with
    | Some r => Ok (Some (mkVec (count v) (height v) r (tail v)))
    | None => Panic
    end.

(* popTail; cnt = v.count; Some ANil = the nil node *)
Fixpoint popTail (cnt : Z) (level : nat) (n : any) : option any :=
  let idx := chunk (cnt - 2) level in
  match level with
  | S (S l' as l1) =>
    match n with
    | ANode cs =>
      match nth_error cs idx with
      | Some (ANode _ as c) =>
        match popTail cnt l1 c with
        | Some newChild =>
          if isNil newChild && (idx =? 0)%nat then Some ANil
          else Some (ANode (upd idx newChild cs))
        | None => None
        end
      | _ => None
      end
    | _ => None
    end
  | _ =>
    if (idx =? 0)%nat then Some ANil
    else match n with ANode cs => Some (ANode (upd idx ANil cs)) | _ => None end
  end.

Definition pop (v : vec) : res (option vec) :=
  if count v =? 0 then Ok None
  else if count v =? 1 then Ok (Some empty)
  else if count v - treeSize v >? 1 then
    match tail v with
    | [] => Panic                                   (* make([]any, -1) *)
    | _ => Ok (Some (mkVec (count v - 1) (height v) (root v) (removelast (tail v))))
    end
  else
    match sliceFor v (count v - 2) with
    | None => Panic
    | Some newTail =>
      match popTail (count v) (height v) (root v) with
      | None => Panic
      | Some newRoot =>
        match height v with
        | O => Ok (Some (mkVec (count v - 1) O newRoot newTail))
        | S h' =>
          match newRoot with
          | ANode cs =>
            match nth_error cs 1 with
            | Some ANil =>
              match nth_error cs 0 with
              | Some (ANode _ as r0) => Ok (Some (mkVec (count v - 1) h' r0 newTail))
              | _ => Panic
              end
            | Some _ => Ok (Some (mkVec (count v - 1) (S h') newRoot newTail))
            | None => Panic
            end
          | _ => Panic
          end
        end
      end
    end.

(* ---------------- iterator ---------------- *)
Definition pathEntry := (any * nat)%type.
Record iter := mkIter { it_v : vec; it_ts : Z; it_index : Z; it_end : Z; it_path : list pathEntry }.

Definition current (e : pathEntry) : option any :=
  match fst e with ANode cs => nth_error cs (snd e) | _ => None end.

(* the path-building loop of newIteratorWithRange *)
Fixpoint mkpath (h : nat) (n : any) (i : Z) : option (list pathEntry) :=
  match h with
  | O => Some [(n, chunk i 0)]
  | S h' =>
    let idx := chunk i (S h') in
    match n with
    | ANode cs =>
      match nth_error cs idx with
      | Some (ANode _ as c) =>
        match mkpath h' c i with
        | Some p => Some ((n, idx) :: p)
        | None => None
        end
      | _ => None
      end
    | _ => None
    end
  end.

Definition newIteratorWithRange (v : vec) (bgn en : Z) : option iter :=
  let ts := treeSize v in
  if bgn >=? ts then Some (mkIter v ts bgn en [])
  else match mkpath (height v) (root v) bgn with
       | Some p => Some (mkIter v ts bgn en p)
       | None => None
       end.

Definition it_hasElem (it : iter) : bool := it_index it <? it_end it.

Definition it_elem (it : iter) : option any :=
  if it_index it >=? it_ts it then nth_error (tail (it_v it)) (Z.to_nat (it_index it - it_ts it))
  else match rev (it_path it) with e :: _ => current e | [] => None end.

(* Next's two loops: find the deepest level that can be advanced, advance it,
   re-populate all deeper levels (written recursively from the top of the path) *)
Inductive adv := AdvOk (p : list pathEntry) | AdvNo | AdvPanic.

Fixpoint refill (cur : option any) (rest : list pathEntry) : option (list pathEntry) :=
  match rest with
  | [] => Some []
  | _ :: rest' =>
    match cur with
    | Some (ANode cs as c) =>
      match refill (nth_error cs 0) rest' with
      | Some r => Some ((c, O) :: r)
      | None => None
      end
    | _ => None
    end
  end.

Fixpoint advance (p : list pathEntry) : adv :=
  match p with
  | [] => AdvNo
  | (n, k) :: rest =>
    match advance rest with
    | AdvOk rest' => AdvOk ((n, k) :: rest')
    | AdvPanic => AdvPanic
    | AdvNo =>
      if (S k <? B)%nat then                       (* e.index+1 < len(e.node) *)
        match refill (current (n, S k)) rest with
        | Some r => AdvOk ((n, S k) :: r)
        | None => AdvPanic
        end
      else AdvNo
    end
  end.

Definition it_next (it : iter) : option iter :=
  if it_index it + 1 >=? it_ts it then
    Some (mkIter (it_v it) (it_ts it) (it_index it + 1) (it_end it) (it_path it))
  else
    match advance (it_path it) with
    | AdvOk p => Some (mkIter (it_v it) (it_ts it) (it_index it + 1) (it_end it) p)
    | _ => None                                    (* panic("cannot advance") or nil deref *)
    end.

(* for it := ...; it.HasElem(); it.Next() { acc = append(acc, it.Elem()) } *)
Fixpoint it_run (fuel : nat) (it : iter) (acc : list any) : res (list any) :=
  if it_hasElem it then
    match fuel with
    | O => OutOfFuel
    | S f =>
      match it_elem it with
      | None => Panic
      | Some x =>
        match it_next it with
        | None => Panic
        | Some it' => it_run f it' (x :: acc)
        end
      end
    end
  else Ok (rev acc).

Definition iterate_range (v : vec) (bgn en : Z) : res (list any) :=
  match newIteratorWithRange v bgn en with
  | None => Panic
  | Some it => it_run (Z.to_nat (en - bgn)) it []
  end.

(* ---------------- the Vector interface: *vector and *subVector ---------------- *)
Inductive vv := Vec (v : vec) | Sub (v : vec) (bgn en : Z).

Definition vec_sub (v : vec) (bgn en : Z) : option vv :=
  if (bgn <? 0) || (bgn >? en) || (en >? count v) then None else Some (Sub v bgn en).

Definition v_len (x : vv) : Z :=
  match x with Vec v => count v | Sub _ bgn en => en - bgn end.

Definition v_index (x : vv) (i : Z) : res (option any) :=
  match x with
  | Vec v => index v i
  | Sub v bgn en => if (i <? 0) || (bgn + i >=? en) then Ok None else index v (bgn + i)
  end.

Definition lift_vec (r : res (option vec)) : res (option vv) :=
  match r with
  | Ok (Some w) => Ok (Some (Vec w)) | Ok None => Ok None
  | Panic => Panic | OutOfFuel => OutOfFuel
  end.

(* s.v.Assoc(k, val).SubVector(bgn, en): a nil from Assoc makes the method call panic *)
Definition assoc_then_sub (v : vec) (k : Z) (x : any) (bgn en : Z) : res (option vv) :=
  match assoc v k x with
  | Ok (Some w) => Ok (vec_sub w bgn en)
  | Ok None => Panic
  | Panic => Panic | OutOfFuel => OutOfFuel
  end.

Definition v_conj (x : vv) (a : any) : res (option vv) :=
  match x with
  | Vec v => match conj v a with Ok w => Ok (Some (Vec w)) | Panic => Panic | OutOfFuel => OutOfFuel end
  | Sub v bgn en => assoc_then_sub v en a bgn (en + 1)
  end.

Definition v_assoc (x : vv) (i : Z) (a : any) : res (option vv) :=
  match x with
  | Vec v => lift_vec (assoc v i a)
  | Sub v bgn en =>
    if (i <? 0) || (bgn + i >? en) then Ok None
    else if bgn + i =? en then v_conj x a
    else assoc_then_sub v (bgn + i) a bgn en
  end.

Definition v_pop (x : vv) : res (option vv) :=
  match x with
  | Vec v => lift_vec (pop v)
  | Sub v bgn en =>
    if en - bgn =? 0 then Ok None
    else if en - bgn =? 1 then Ok (Some (Vec empty))
    else Ok (vec_sub v bgn (en - 1))
  end.

(* subVector.SubVector: the bounds are tested against the slice itself, then
   the request is forwarded to the underlying vector *)
Definition v_sub (x : vv) (i j : Z) : option vv :=
  match x with
  | Vec v => vec_sub v i j
  | Sub v bgn en =>
    if (i <? 0) || (i >? j) || (j >? en - bgn) then None
    else vec_sub v (bgn + i) (bgn + j)
  end.

Definition v_iter (x : vv) : res (list any) :=
  match x with
  | Vec v => iterate_range v 0 (count v)
  | Sub v bgn en => iterate_range v bgn en
  end.

(* Conj x0, x0+1, ..., x0+k-1 *)
Fixpoint conj_range (k : nat) (x : vv) (x0 : Z) : res (option vv) :=
  match k with
  | O => Ok (Some x)
  | S k' =>
    match v_conj x (AVal x0) with
    | Ok (Some y) => conj_range k' y (x0 + 1)
    | r => r
    end
  end.

Fixpoint pop_n (k : nat) (x : vv) : res (option vv) :=
  match k with
  | O => Ok (Some x)
  | S k' =>
    match v_pop x with
    | Ok (Some y) => pop_n k' y
    | r => r
    end
  end.

(* ---------------- pkg/eval/vals list entry points ---------------- *)
(* adjustAndCheckIndex; None = OutOfRange error *)
Definition adjustAndCheckIndex (i n : Z) (includeN : bool) : option Z :=
  if i <? 0 then (if i <? - n then None else Some (i + n))
  else if includeN then (if i >? n then None else Some i)
  else (if i >=? n then None else Some i).

(* vals.Index(l, i) with an int index *)
Definition vals_index (x : vv) (i : Z) : res (option any) :=
  match adjustAndCheckIndex i (v_len x) false with
  | None => Ok None
  | Some k => v_index x k
  end.

(* vals.Index(l, "i..j") *)
Definition vals_slice (x : vv) (i j : Z) : option vv :=
  match adjustAndCheckIndex i (v_len x) true with
  | None => None
  | Some i' =>
    match adjustAndCheckIndex j (v_len x) true with
    | None => None
    | Some j' => if j' <? i' then None else v_sub x i' j'
    end
  end.

(* vals.Assoc(l, i, v) with an int index *)
Definition vals_assoc (x : vv) (i : Z) (a : any) : res (option vv) :=
  match adjustAndCheckIndex i (v_len x) false with
  | None => Ok None
  | Some k => v_assoc x k a
  end.

Definition of_vres (r : res (option vv)) : outcome vv :=
  match r with
  | Ok (Some y) => XVec y | Ok None => XRejected | Panic => XPanic | OutOfFuel => XFuel
  end.
Definition of_eres (r : res (option any)) : outcome vv :=
  match r with Ok e => XElem e | Panic => XPanic | OutOfFuel => XFuel end.
Definition of_opt {V} (r : option V) : outcome V :=
  match r with Some y => XVec y | None => XRejected end.

Definition m_apply (x : vv) (o : op) : outcome vv :=
  match o with
  | OConj _ a => of_vres (v_conj x a)
  | OConjRange _ x0 k => of_vres (conj_range (Z.to_nat k) x x0)
  | OPop _ => of_vres (v_pop x)
  | OPopN _ k => of_vres (pop_n (Z.to_nat k) x)
  | OAssoc _ i a => of_vres (v_assoc x i a)
  | OSub _ i j => of_opt (v_sub x i j)
  | OIndex _ i => of_eres (v_index x i)
  | OIter _ => match v_iter x with Ok l => XRead l | Panic => XPanic | OutOfFuel => XFuel end
  | OVIndex _ i => of_eres (vals_index x i)
  | OVSlice _ i j => of_opt (vals_slice x i j)
  | OVAssoc _ i a => of_vres (vals_assoc x i a)
  end.

End Trie.

(* ------------------------------------------------------------------ *)
(* Independent specification: the same operations on a plain list. *)
Definition zlen (l : list any) : Z := Z.of_nat (length l).

Definition l_index (l : list any) (i : Z) : option any :=
  if (0 <=? i) && (i <? zlen l) then nth_error l (Z.to_nat i) else None.

Definition l_assoc (l : list any) (i : Z) (x : any) : option (list any) :=
  if (0 <=? i) && (i <? zlen l) then Some (upd (Z.to_nat i) x l)
  else if i =? zlen l then Some (l ++ [x])
  else None.

Definition l_pop (l : list any) : option (list any) :=
  match l with [] => None | _ => Some (removelast l) end.

Definition l_sub (l : list any) (i j : Z) : option (list any) :=
  if (0 <=? i) && (i <=? j) && (j <=? zlen l)
  then Some (firstn (Z.to_nat (j - i)) (skipn (Z.to_nat i) l)) else None.

Fixpoint zrange (k : nat) (x0 : Z) : list any :=
  match k with O => [] | S k' => AVal x0 :: zrange k' (x0 + 1) end.

Definition l_pop_n (k : nat) (l : list any) : option (list any) :=
  if (k <=? length l)%nat then Some (firstn (length l - k) l) else None.

(* Elvish index normalisation: a negative index counts from the end *)
Definition norm_index (i n : Z) : Z := if i <? 0 then i + n else i.

Definition s_apply (l : list any) (o : op) : outcome (list any) :=
  match o with
  | OConj _ a => XVec (l ++ [a])
  | OConjRange _ x0 k => XVec (l ++ zrange (Z.to_nat k) x0)
  | OPop _ => of_opt (l_pop l)
  | OPopN _ k => of_opt (l_pop_n (Z.to_nat k) l)
  | OAssoc _ i a => of_opt (l_assoc l i a)
  | OSub _ i j => of_opt (l_sub l i j)
  | OIndex _ i => XElem (l_index l i)
  | OIter _ => XRead l
  | OVIndex _ i => XElem (l_index l (norm_index i (zlen l)))
  | OVSlice _ i j => of_opt (l_sub l (norm_index i (zlen l)) (norm_index j (zlen l)))
  | OVAssoc _ i a =>
    let k := norm_index i (zlen l) in
    if (0 <=? k) && (k <? zlen l) then XVec (upd (Z.to_nat k) a l) else XRejected
  end.

(* generic store machine: every creating operation appends one slot (None when
   no value was produced), so version numbers are the same on all sides *)
Section Run.
Context {V : Type}.
Variable apply : V -> op -> outcome V.

Definition step (st : list (option V)) (o : op) : list (option V) * outcome V :=
  let r := match nth_error st (op_target o) with
           | Some (Some x) => apply x o
           | _ => XMissing
           end in
  (if creates o then st ++ [match r with XVec y => Some y | _ => None end] else st, r).

Fixpoint run (st : list (option V)) (ops : list op) : list (outcome V) :=
  match ops with
  | [] => []
  | o :: r => let '(st', x) := step st o in x :: run st' r
  end.
End Run.

(* ------------------------------------------------------------------ *)
(* Observations of the implementation and the judge. *)
Definition cb : Z := pkg_persistent_vector.chunkBits.

(* elements as printed by the harness: value >= 0, -1 = Go nil, -2 = anything else *)
Definition enc (a : any) : Z := match a with AVal z => z | ANil => -1 | ANode _ => -2 end.

(* uint64 arithmetic: h = h*1000003 + (x+3), wrapping *)
Definition hashMask : Z := 18446744073709551615.
Definition hash_list (l : list Z) : Z :=
  fold_left (fun acc x => Z.land (acc * 1000003 + (x + 3)) hashMask) l 7.

(* what the harness reports about a list value: Len(); and, unless the value is
   large and the harness skipped the full read, the hash of the elements in
   iteration order and (when short) the elements themselves *)
Record vobs := mkVobs { vo_len : Z; vo_hash : option Z; vo_full : option (list Z) }.

Inductive robs :=
| RVec (o : vobs)              (* non-nil Vector (observed through Len and Iterator) *)
| RNil                         (* nil Vector / error *)
| RElem (e : option Z)         (* Index: Some element / None *)
| RPanic.

Definition zlist_eqb : list Z -> list Z -> bool := list_eqb Z.eqb.

(* store slot used by the judge: the value, its length, and its elements in
   iteration order with their hash.  For values up to [cacheMax] elements the
   elements are computed once when the version is created (a re-read compares
   with them); for larger values they are recomputed each time they are asked for *)
Record slot (V : Type) := mkSlot { sl_val : V; sl_len : Z; sl_elems : unit -> res (list Z * Z) }.
Arguments mkSlot {V}. Arguments sl_val {V}. Arguments sl_len {V}. Arguments sl_elems {V}.

Definition cacheMax : Z := 2100.

Definition elems_of {V} (elems : V -> res (list any)) (x : V) : res (list Z * Z) :=
  match elems x with
  | Ok l => let e := map enc l in Ok (e, hash_list e)
  | Panic => Panic | OutOfFuel => OutOfFuel
  end.

Definition mk_slot {V} (len : V -> Z) (elems : V -> res (list any)) (x : V) : slot V :=
  let n := len x in
  if n <=? cacheMax then let e := elems_of elems x in mkSlot x n (fun _ => e)
  else mkSlot x n (fun _ => elems_of elems x).

Definition slot_matches {V} (s : slot V) (o : vobs) : bool :=
  Z.eqb (vo_len o) (sl_len s)
  && match vo_hash o, vo_full o with
     | None, None => true
     | h, f =>
       match sl_elems s tt with
       | Ok (l, hl) =>
         Z.eqb (Z.of_nat (length l)) (vo_len o)
         && match h with Some h' => Z.eqb h' hl | None => true end
         && match f with Some f' => zlist_eqb f' l | None => true end
       | _ => false
       end
     end.

(* one judged step: does the observation agree with the outcome computed on this side? *)
Section Judge.
Context {V : Type}.
Variable apply : V -> op -> outcome V.
Variable len : V -> Z.
Variable elems : V -> res (list any).

Definition jstep (st : list (option (slot V))) (o : op) (ob : robs)
  : list (option (slot V)) * bool :=
  match nth_error st (op_target o) with
  | Some (Some s) =>
    match o with
    | OIter _ =>
      (* re-read of an existing version: compare with its elements *)
      (st, match ob with RVec vo => slot_matches s vo | _ => false end)
    | _ =>
      match apply (sl_val s) o with
      | XVec y =>
        let ns := mk_slot len elems y in
        (st ++ [Some ns], match ob with RVec vo => slot_matches ns vo | _ => false end)
      | XRejected => (st ++ [None], match ob with RNil => true | _ => false end)
      | XElem e =>
        (st, match ob with RElem e' => option_eqb Z.eqb (option_map enc e) e' | _ => false end)
      | XPanic => (if creates o then st ++ [None] else st, match ob with RPanic => true | _ => false end)
      | _ => (if creates o then st ++ [None] else st, false)
      end
    end
  | _ => (if creates o then st ++ [None] else st, false)
  end.

Fixpoint jrun (st : list (option (slot V))) (steps : list (op * robs)) : bool :=
  match steps with
  | [] => true
  | (o, ob) :: r => let '(st', ok) := jstep st o ob in ok && jrun st' r
  end.
End Judge.

Record case := mkCase { c_steps : list (op * robs) }.

(* the property oracle: every observation equals the result of the same
   operation on plain lists, starting from the empty list (version 0) *)
Definition check_C06 (steps : list (op * robs)) : bool :=
  jrun s_apply zlen (fun l => Ok l) [Some (mk_slot zlen (fun l => Ok l) [])] steps.

(* the model of the code, started from vector.Empty *)
Definition model_agrees (steps : list (op * robs)) : bool :=
  jrun (m_apply cb) v_len (v_iter cb) [Some (mk_slot v_len (v_iter cb) (Vec empty))] steps.

Definition judge1 (c : case) : N :=
  code (check_C06 (c_steps c)) (model_agrees (c_steps c)).

Definition judge := judge_with judge1.
