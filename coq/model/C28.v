(* C28 — model of the editor buffer commands (pkg/edit/buffer_builtins.go) and of
   the code area's key / bracketed-paste handling (pkg/cli/tk/codearea.go).
   Executable Gallina only, no proofs.

   Buffers are rune lists, the dot is a rune index.  Go's byte view is
   [encode_all content] with the dot at [byte_off content dot] (the sum of the
   encoded widths of the runes before the dot).  The model is faithful for
   buffers of valid UTF-8 (the property's domain).

   Unicode tables (unicode.IsSpace/IsLetter/IsNumber/IsMark/IsGraphic/IsPrint)
   and wcwidth.OfRune are parameters (record [uni]); every theorem holds for
   all of them.  For execution they are instantiated from a table that the
   harness fills with Go's own answers for the runes of the case. *)
From verif Require Import lib.Base lib.Utf8 gen.Consts.
Open Scope nat_scope.

Record uni := mkUni {
  is_space : N -> bool; is_letter : N -> bool; is_number : N -> bool;
  is_mark : N -> bool; is_graphic : N -> bool; is_print : N -> bool;
  wcw : N -> Z }.

Record buffer := mkBuf { content : list N; dot : nat }.

(* ---------------- list helpers ---------------- *)
Fixpoint count_while {A} (f : A -> bool) (l : list A) : nat :=
  match l with
  | [] => 0
  | x :: t => if f x then S (count_while f t) else 0
  end.

Definition slice {A} (l : list A) (i j : nat) : list A := firstn (j - i) (skipn i l).

Definition runes_eqb : list N -> list N -> bool := list_eqb N.eqb.

(* strings.HasSuffix on rune lists (equivalent to the byte test for valid UTF-8) *)
Definition has_suffix (l a : list N) : bool :=
  (length a <=? length l) && runes_eqb (skipn (length l - length a) l) a.

(* len(s) in bytes *)
Definition blen (l : list N) : nat := length (encode_all l).

(* byte offset of rune index d *)
Definition byte_off (rs : list N) (d : nat) : nat := blen (firstn d rs).

(* ---------------- pure movers ---------------- *)
Definition NL : N := 10%N.
Definition not_nl (r : N) : bool := negb (N.eqb r NL).

(* strutil.FindFirstEOL / FindLastSOL *)
Definition find_first_eol (l : list N) : nat := count_while not_nl l.
Definition find_last_sol (l : list N) : nat := length l - count_while not_nl (rev l).

Definition move_left (rs : list N) (d : nat) : nat := Nat.pred d.
Definition move_right (rs : list N) (d : nat) : nat := if d <? length rs then S d else d.
Definition move_sol (rs : list N) (d : nat) : nat := find_last_sol (firstn d rs).
Definition move_eol (rs : list N) (d : nat) : nat := d + find_first_eol (skipn d rs).

Section Width.
  Variable wc : N -> Z.

  (* wcwidth.Of *)
  Fixpoint wsum (l : list N) : Z :=
    match l with [] => 0%Z | r :: t => (wc r + wsum t)%Z end.

  (* len(wcwidth.Trim(s, wmax)) in runes, started with accumulated width w *)
  Fixpoint trim_len (w wmax : Z) (l : list N) : nat :=
    match l with
    | [] => 0
    | r :: t => let w' := (w + wc r)%Z in
                if (wmax <? w')%Z then 0 else S (trim_len w' wmax t)
    end.

  Definition move_up (rs : list N) (d : nat) : nat :=
    let sol := find_last_sol (firstn d rs) in
    if sol =? 0 then d else
    let prevEOL := sol - 1 in
    let prevSOL := find_last_sol (firstn prevEOL rs) in
    let width := wsum (slice rs sol d) in
    prevSOL + trim_len 0 width (slice rs prevSOL prevEOL).

  Definition move_down (rs : list N) (d : nat) : nat :=
    let eol := d + find_first_eol (skipn d rs) in
    if eol =? length rs then d else
    let nextSOL := eol + 1 in
    let nextEOL := nextSOL + find_first_eol (skipn nextSOL rs) in
    let sol := find_last_sol (firstn d rs) in
    let width := wsum (slice rs sol d) in
    nextSOL + trim_len 0 width (slice rs nextSOL nextEOL).
End Width.

(* ---------------- word movers, categoriser as a parameter ---------------- *)
Section Words.
  Variable cat : N -> Z.   (* 0 = whitespace category *)

  Definition in_cat (c : Z) (r : N) : bool := Z.eqb (cat r) c.

  Definition skip_cat_left (c : Z) (rs : list N) (pos : nat) : nat :=
    pos - count_while (in_cat c) (rev (firstn pos rs)).
  Definition skip_cat_right (c : Z) (rs : list N) (pos : nat) : nat :=
    pos + count_while (in_cat c) (skipn pos rs).
  Definition skip_ws_left := skip_cat_left 0%Z.
  Definition skip_ws_right := skip_cat_right 0%Z.

  Definition skip_same_cat_left (rs : list N) (pos : nat) : nat :=
    if pos =? 0 then pos else skip_cat_left (cat (nth (pos - 1) rs 0%N)) rs pos.
  Definition skip_same_cat_right (rs : list N) (pos : nat) : nat :=
    if pos =? length rs then pos else skip_cat_right (cat (nth pos rs 0%N)) rs pos.

  Definition move_left_gw (rs : list N) (d : nat) : nat :=
    skip_same_cat_left rs (skip_ws_left rs d).

  Definition move_right_gw (rs : list N) (d : nat) : nat :=
    let pos := skip_ws_right rs d in
    if d <? pos then pos
    else skip_ws_right rs (skip_same_cat_right rs pos).

  (* buffer[:a] + buffer[c:e] + buffer[b:c] + buffer[a:b] + buffer[e:] *)
  Definition swap_words (rs : list N) (a b c e : nat) : list N :=
    firstn a rs ++ slice rs c e ++ slice rs b c ++ slice rs a b ++ skipn e rs.

  Definition transpose_gw (rs : list N) (d : nat) : list N * nat :=
    if forallb (in_cat 0%Z) rs then (rs, d) else
    let pos := skip_ws_right rs d in
    let rightEnd := if pos =? length rs then skip_ws_left rs pos
                    else skip_same_cat_right rs pos in
    let rightStart := skip_same_cat_left rs rightEnd in
    let leftEnd := skip_ws_left rs rightStart in
    if leftEnd =? 0 then
      let leftStart' := rightStart in
      let leftEnd' := rightEnd in
      let rightStart' := skip_ws_right rs leftEnd' in
      if rightStart' =? length rs then (rs, d) else
      let rightEnd' := skip_same_cat_right rs rightStart' in
      (swap_words rs leftStart' leftEnd' rightStart' rightEnd', rightEnd')
    else
      let leftStart := skip_same_cat_left rs leftEnd in
      (swap_words rs leftStart leftEnd rightStart rightEnd, rightEnd).
End Words.

(* makeKill *)
Definition make_kill (m : list N -> nat -> nat) (rs : list N) (d : nat) : list N * nat :=
  let nd := m rs d in
  if nd <? d then (firstn nd rs ++ skipn d rs, nd)
  else if d <? nd then (firstn d rs ++ skipn nd rs, d)
  else (rs, d).

(* transposeRunes *)
Definition transpose_runes (rs : list N) (d : nat) : list N * nat :=
  match rs with
  | [] => (rs, d)
  | _ =>
    if d =? 0 then
      match rs with
      | a :: b :: t => (b :: a :: t, 2)
      | _ => (rs, d)
      end
    else if d =? length rs then
      let n := length rs in
      if n =? 1 then (rs, d)
      else (firstn (n - 2) rs ++ [nth (n - 1) rs 0%N; nth (n - 2) rs 0%N], n)
    else
      (firstn (d - 1) rs ++ [nth d rs 0%N; nth (d - 1) rs 0%N] ++ skipn (d + 1) rs, d + 1)
  end.

(* ---------------- the table of builtins ---------------- *)
Inductive flavour := FWord | FSmall | FAlnum.

Inductive cmd :=
| MoveLeft | MoveRight | MoveLeftW (f : flavour) | MoveRightW (f : flavour)
| MoveSOL | MoveEOL | MoveUp | MoveDown
| KillRuneLeft | KillRuneRight | KillWLeft (f : flavour) | KillWRight (f : flavour)
| KillLineLeft | KillLineRight
| TransposeRune | TransposeW (f : flavour).

Section Builtins.
  Variable U : uni.

  Definition is_alnum (r : N) : bool := is_letter U r || is_number U r.

  (* categorizeWord, tk.CategorizeSmallWord, categorizeAlnum *)
  Definition cat_of (f : flavour) (r : N) : Z :=
    match f with
    | FWord => if is_space U r then 0%Z else 1%Z
    | FSmall => if is_space U r then 0%Z else if is_alnum r then 1%Z else 2%Z
    | FAlnum => if is_alnum r then 1%Z else 0%Z
    end.

  (* the pure mover behind a move-/kill- builtin *)
  Definition mover_of (c : cmd) : option (list N -> nat -> nat) :=
    match c with
    | MoveLeft | KillRuneLeft => Some move_left
    | MoveRight | KillRuneRight => Some move_right
    | MoveLeftW f | KillWLeft f => Some (move_left_gw (cat_of f))
    | MoveRightW f | KillWRight f => Some (move_right_gw (cat_of f))
    | MoveSOL | KillLineLeft => Some move_sol
    | MoveEOL | KillLineRight => Some move_eol
    | MoveUp => Some (move_up (wcw U))
    | MoveDown => Some (move_down (wcw U))
    | TransposeRune | TransposeW _ => None
    end.

  Definition is_kill (c : cmd) : bool :=
    match c with
    | KillRuneLeft | KillRuneRight | KillWLeft _ | KillWRight _ | KillLineLeft | KillLineRight => true
    | _ => false
    end.

  Definition is_transpose (c : cmd) : bool :=
    match c with TransposeRune | TransposeW _ => true | _ => false end.

  (* bufferBuiltinsData[name](&buf) *)
  Definition apply_cmd (c : cmd) (b : buffer) : buffer :=
    let rs := content b in
    let d := dot b in
    match c with
    | TransposeRune => let '(rs', d') := transpose_runes rs d in mkBuf rs' d'
    | TransposeW f => let '(rs', d') := transpose_gw (cat_of f) rs d in mkBuf rs' d'
    | _ =>
      match mover_of c with
      | Some m => if is_kill c then let '(rs', d') := make_kill m rs d in mkBuf rs' d'
                  else mkBuf rs (m rs d)
      | None => b
      end
    end.
End Builtins.

(* ---------------- parse.Quote (on valid UTF-8) ---------------- *)
Section Quote.
  Variable U : uni.
  Local Open Scope N_scope.

  Definition allowed_in_variable_name (r : N) : bool :=
    ((128 <=? r) && is_print U r) || ((48 <=? r) && (r <=? 57)) || ((97 <=? r) && (r <=? 122))
    || ((65 <=? r) && (r <=? 90)) || (r =? 45) || (r =? 95) || (r =? 58) || (r =? 126).

  (* allowedInBareword(r, strictExpr) *)
  Definition allowed_in_bareword (r : N) : bool :=
    allowed_in_variable_name r || (r =? 46) || (r =? 47) || (r =? 92) || (r =? 64)
    || (r =? 37) || (r =? 43) || (r =? 33).

  Definition double_unescape (r : N) : option N :=
    if r =? 7 then Some 97 else if r =? 8 then Some 98 else if r =? 12 then Some 102
    else if r =? 10 then Some 110 else if r =? 13 then Some 114 else if r =? 9 then Some 116
    else if r =? 11 then Some 118 else if r =? 92 then Some 92 else if r =? 34 then Some 34
    else if r =? 27 then Some 101 else None.

  Definition hex_digit (d : N) : N := if d <=? 9 then 48 + d else 97 + d - 10.
  (* rtohex(r, w) *)
  Fixpoint rtohex (r : N) (w : nat) : list N :=
    match w with
    | O => []
    | S w' => rtohex (r / 16) w' ++ [hex_digit (r mod 16)]
    end.

  Definition quote_double_rune (r : N) : list N :=
    match double_unescape r with
    | Some e => [92; e]
    | None =>
      if is_print U r && negb (r =? RuneError) then [r]
      else if r <=? 127 then [92; 120] ++ rtohex r 2
      else if r <=? 65535 then [92; 117] ++ rtohex r 4
      else [92; 85] ++ rtohex r 8
    end.

  Definition quote_double (s : list N) : list N := [34] ++ flat_map quote_double_rune s ++ [34].
  Definition quote_single (s : list N) : list N :=
    [39] ++ flat_map (fun r => if r =? 39 then [39; 39] else [r]) s ++ [39].

  Definition quote (s : list N) : list N :=
    match s with
    | [] => [39; 39]
    | r0 :: _ =>
      if existsb (fun r => (r =? RuneError) || negb (is_print U r)) s then quote_double s
      else if negb (r0 =? 126) && forallb allowed_in_bareword s then s
      else quote_single s
    end.
End Quote.

(* ---------------- the code area ---------------- *)
Record config := mkCfg {
  simple_abbrs : list (list N * list N);
  cmd_abbrs : list (list N * list N);
  sw_abbrs : list (list N * list N);
  quote_paste : bool }.

Record cstate := mkSt {
  st_buf : buffer;
  st_inserts : list N;
  st_last : buffer;          (* lastCodeBuffer *)
  st_pasting : bool;
  st_paste : list N }.       (* pasteBuffer *)

Inductive event :=
| EKey (r : Z) (md : Z)      (* term.KeyEvent{Rune, Mod} *)
| EPaste (start : bool)      (* term.PasteSetting *)
| ECmd (c : cmd)             (* a buffer builtin through MutateState *)
| ESet (rs : list N) (d : nat).   (* the buffer replaced from outside (MutateState), e.g. edit:replace-input *)

Definition buffer_eqb (a b : buffer) : bool :=
  runes_eqb (content a) (content b) && (dot a =? dot b).

Definition insert_at_dot (b : buffer) (text : list N) : buffer :=
  mkBuf (firstn (dot b) (content b) ++ text ++ skipn (dot b) (content b))
        (dot b + length text).

Definition reset_inserts (st : cstate) : cstate :=
  mkSt (st_buf st) [] (mkBuf [] 0) (st_pasting st) (st_paste st).

Definition set_buf (st : cstate) (b : buffer) : cstate :=
  mkSt b (st_inserts st) (st_last st) (st_pasting st) (st_paste st).

(* bytes.Buffer.WriteRune / string(rune): invalid runes become U+FFFD *)
Definition norm_rune (r : N) : N := if valid_rune r then r else RuneError.

Definition mem_rune (r : N) (l : list N) : bool := existsb (N.eqb r) l.

(* regexp \s *)
Definition is_re_space (r : N) : bool := mem_rune r [9; 10; 12; 13; 32]%N.
(* parse.IsWhitespace *)
Definition is_whitespace (r : N) : bool := mem_rune r [32; 9; 13; 10]%N.

Section CodeArea.
  Variable U : uni.
  Variable cfg : config.

  (* [\p{L}\p{M}\p{N}!%+,\-./:@\\_<>*] *)
  Definition is_cmd_char (r : N) : bool :=
    is_letter U r || is_mark U r || is_number U r
    || mem_rune r [33; 37; 43; 44; 45; 46; 47; 58; 64; 92; 95; 60; 62; 42]%N.

  (* commandRegex.FindStringSubmatch(content): Some (command, whitespace).
     The regexp is (?:^|[^^]\n|\||;|{\s|\()\s*(K+)(\s)$ ; the last rune is the
     whitespace, K+ is the whole maximal run of K before it (a shorter suffix
     would need a prefix alternative ending in a K rune; there is none), and
     the text before it must be  <alternative> \s*. *)
  Definition command_match (cont : list N) : option (list N * N) :=
    match rev cont with
    | [] => None
    | w :: rest =>
      if negb (is_re_space w) then None else
      let k := count_while is_cmd_char rest in
      if k =? 0 then None else
      let command := rev (firstn k rest) in
      let p := skipn k rest in                (* reversed text before the command *)
      let nws := count_while is_re_space p in
      let wsrun := firstn nws p in            (* reversed trailing \s run *)
      let p' := skipn nws p in
      let ok :=
        match p' with
        | [] => true                           (* ^\s* *)
        | c :: _ =>
          (c =? 124)%N || (c =? 59)%N || (c =? 40)%N      (* | ; ( *)
          || ((c =? 123)%N && (0 <? nws))                  (* {\s *)
          || existsb (N.eqb NL) (removelast wsrun)         (* \s\n : the rune before \n is a \s, so not ^ *)
          || (N.eqb (last wsrun 0%N) NL && (0 <? nws) && negb (c =? 94)%N)  (* [^^]\n at the start of the run *)
        end in
      if ok then Some (command, w) else None
    end.

  Definition expand_command_abbr (st : cstate) : cstate :=
    let b := st_buf st in
    if dot b <? length (content b) then st else
    match command_match (content b) with
    | None => st
    | Some (command, ws) =>
      let expansion :=
        fold_left (fun e (p : list N * list N) => if runes_eqb (fst p) command then snd p else e)
                  (cmd_abbrs cfg) [] in
      match expansion with
      | [] => st
      | _ =>
        let newc := firstn (dot b - length command - 1) (content b) ++ expansion ++ [ws] in
        reset_inserts (set_buf st (mkBuf newc (length newc)))
      end
    end.

  (* the longest abbreviation that is a suffix of the inserts (first one wins among equals) *)
  Definition find_simple (ins : list N) : list N * list N :=
    fold_left (fun (acc : list N * list N) (p : list N * list N) =>
                 if has_suffix ins (fst p) && (blen (fst acc) <? blen (fst p)) then p else acc)
              (simple_abbrs cfg) ([], []).

  Definition expand_simple_abbr (st : cstate) : cstate :=
    let '(abbr, full) := find_simple (st_inserts st) in
    match abbr with
    | [] => st
    | _ =>
      let b := st_buf st in
      let nb := mkBuf (firstn (dot b - length abbr) (content b) ++ full ++ skipn (dot b) (content b))
                      (dot b - length abbr + length full) in
      reset_inserts (set_buf st nb)
    end.

  Definition find_small_word (trigger : N) (ins' cont : list N) : list N * list N :=
    let cat := cat_of U FSmall in
    fold_left (fun (acc : list N * list N) (p : list N * list N) =>
                 let a := fst p in
                 if blen a <=? blen (fst acc) then acc
                 else if negb (has_suffix ins' a) then acc
                 else if Z.eqb (cat trigger) (cat (last a 0%N)) then acc
                 else if (blen a + rune_len trigger <? blen cont)
                         && Z.eqb (cat (nth (length cont - length a - 1 - 1) cont 0%N)) (cat (hd 0%N a))
                 then acc
                 else p)
              (sw_abbrs cfg) ([], []).

  Definition expand_small_word_abbr (trigger : N) (st : cstate) : cstate :=
    let b := st_buf st in
    if dot b <? length (content b) then st else
    if blen (st_inserts st) <=? rune_len trigger then st else
    let ins' := removelast (st_inserts st) in
    let '(abbr, full) := find_small_word trigger ins' (content b) in
    match abbr with
    | [] => st
    | _ =>
      let nb := mkBuf (firstn (dot b - length abbr - 1) (content b) ++ full ++ [trigger])
                      (dot b - length abbr + length full) in
      reset_inserts (set_buf st nb)
    end.

  Definition backspace (b : buffer) : buffer :=
    mkBuf (firstn (dot b - 1) (content b) ++ skipn (dot b) (content b)) (dot b - 1).

  Definition handle_key (st : cstate) (r md : Z) : cstate :=
    let func := negb (Z.eqb md 0) || (r <? 0)%Z in
    if st_pasting st then
      if func then st
      else mkSt (st_buf st) (st_inserts st) (st_last st) true (st_paste st ++ [norm_rune (Z.to_N r)])
    else if Z.eqb r 10 && Z.eqb md 0 then reset_inserts st
    else if (Z.eqb r pkg_ui.Backspace && Z.eqb md 0) || (Z.eqb r 72 && Z.eqb md pkg_ui.Ctrl) then
      let st1 := reset_inserts st in set_buf st1 (backspace (st_buf st1))
    else if func || negb (is_graphic U (Z.to_N r)) then reset_inserts st
    else
      let rn := Z.to_N r in
      let st1 := if buffer_eqb (st_last st) (st_buf st) then st else reset_inserts st in
      let b := insert_at_dot (st_buf st1) [rn] in
      let st2 := mkSt b (st_inserts st1 ++ [rn]) b (st_pasting st1) (st_paste st1) in
      let st3 := if is_whitespace rn then expand_command_abbr st2 else st2 in
      let st4 := expand_simple_abbr st3 in
      expand_small_word_abbr rn st4.

  Definition handle_paste (st : cstate) (start : bool) : cstate :=
    let st1 := reset_inserts st in
    if start then mkSt (st_buf st1) (st_inserts st1) (st_last st1) true (st_paste st1)
    else
      let text := if quote_paste cfg then quote U (st_paste st1) else st_paste st1 in
      mkSt (insert_at_dot (st_buf st1) text) (st_inserts st1) (st_last st1) false [].

  Definition step (st : cstate) (e : event) : cstate :=
    match e with
    | EKey r md => handle_key st r md
    | EPaste s => handle_paste st s
    | ECmd c => set_buf st (apply_cmd U c (st_buf st))
    | ESet rs d => set_buf st (mkBuf rs d)
    end.

  Definition run (st : cstate) (evs : list event) : cstate := fold_left step evs st.
End CodeArea.

Definition init_state (b : buffer) : cstate := mkSt b [] (mkBuf [] 0) false [].

(* ================================================================== *)
(* The property as a decidable oracle on observations (byte strings and byte
   offsets reported by the implementation).                            *)

(* rune index of byte offset d in s, walking the text the way Go decodes it;
   None when d is not a character boundary of s or lies beyond its end *)
Fixpoint rune_index_fuel (fuel : nat) (s : bytes) (d : nat) : option nat :=
  match d with
  | O => Some 0
  | _ =>
    match fuel with
    | O => None
    | S f =>
      match s with
      | [] => None
      | _ => let '(_, w) := decode_rune s in
             if w <=? d then option_map S (rune_index_fuel f (skipn w s) (d - w)) else None
      end
    end
  end.
Definition rune_index (s : bytes) (d : nat) : option nat := rune_index_fuel (length s) s d.

(* "the cursor is within the buffer and on a character boundary" *)
Definition at_boundary (s : bytes) (d : nat) : bool :=
  match rune_index s d with Some _ => true | None => false end.

(* word starts under a categoriser: a non-whitespace rune whose predecessor is
   absent or of a different category *)
Definition word_startb (cat : N -> Z) (rs : list N) (p : nat) : bool :=
  (p <? length rs) && negb (Z.eqb (cat (nth p rs 0%N)) 0)
  && ((p =? 0) || negb (Z.eqb (cat (nth (p - 1) rs 0%N)) (cat (nth p rs 0%N)))).

(* the greatest word start below d, 0 when there is none *)
Fixpoint last_ws_before (cat : N -> Z) (rs : list N) (d : nat) : nat :=
  match d with
  | O => 0
  | S d' => if word_startb cat rs d' then d' else last_ws_before cat rs d'
  end.

(* the least word start >= p among the next k positions, p + k when there is none *)
Fixpoint first_ws_from (cat : N -> Z) (rs : list N) (k p : nat) : nat :=
  match k with
  | O => p
  | S k' => if word_startb cat rs p then p else first_ws_from cat rs k' (S p)
  end.
(* the least word start above d, the buffer length when there is none *)
Definition first_ws_after (cat : N -> Z) (rs : list N) (d : nat) : nat :=
  if length rs <=? d then length rs else first_ws_from cat rs (length rs - S d) (S d).

(* "never add or drop characters": same multiset of runes *)
Fixpoint count_rune (r : N) (l : list N) : nat :=
  match l with [] => 0 | x :: t => (if N.eqb x r then 1 else 0) + count_rune r t end.
Definition perm_check (a b : list N) : bool :=
  forallb (fun r => count_rune r a =? count_rune r b) (a ++ b).

(* text between the old cursor d0 and the motion's target m removed; cursor at the lower end *)
Definition kill_check (rs0 : list N) (d0 m : nat) (rs1 : list N) (d1 : nat) : bool :=
  runes_eqb rs1 (firstn (Nat.min d0 m) rs0 ++ skipn (Nat.max d0 m) rs0) && (d1 =? Nat.min d0 m).

Definition word_flavour (c : cmd) : option (flavour * bool) :=   (* bool: true = left *)
  match c with
  | MoveLeftW f => Some (f, true)
  | MoveRightW f => Some (f, false)
  | _ => None
  end.

(* One step of a history as observed on the implementation: the event, the
   buffer before and after (bytes, byte offset) and, for kill commands, the
   byte offset at which the corresponding move command lands from the same
   state (observed on the implementation, too). *)
Definition check_step (U : uni) (e : event) (c0 : bytes) (d0 : nat) (c1 : bytes) (d1 : nat) (aux : nat) : bool :=
  at_boundary c1 d1 &&
  (* no character was cut in half: valid UTF-8 stays valid UTF-8 *)
  (negb (valid c0) || valid c1) &&
  match e with
  | ECmd c =>
    match rune_index c0 d0, rune_index c1 d1 with
    | Some i0, Some i1 =>
      let rs0 := decode_all c0 in
      let rs1 := decode_all c1 in
      (if is_kill c then
         match rune_index c0 aux with
         | Some m => kill_check rs0 i0 m rs1 i1
         | None => false
         end
       else true)
      && (if is_transpose c then perm_check rs0 rs1 else true)
      && (match word_flavour c with
          | Some (f, true) => i1 =? last_ws_before (cat_of U f) rs0 i0
          | Some (f, false) => i1 =? first_ws_after (cat_of U f) rs0 i0
          | None => true
          end)
    | _, _ => false
    end
  | _ => true
  end.

(* ================================================================== *)
(* Correspondence cases.                                               *)

(* rune ↦ (flags, width); flags: 1 space, 2 letter, 4 number, 8 mark, 16 graphic, 32 print *)
Definition table := list (N * N * Z).

Definition tab_lookup (t : table) (r : N) : N * Z :=
  match find (fun e => N.eqb (fst (fst e)) r) t with
  | Some e => (snd (fst e), snd e)
  | None => (0%N, 1%Z)
  end.

Definition uni_of_table (t : table) : uni :=
  let fl (i : N) (r : N) := N.testbit (fst (tab_lookup t r)) i in
  mkUni (fl 0%N) (fl 1%N) (fl 2%N) (fl 3%N) (fl 4%N) (fl 5%N) (fun r => snd (tab_lookup t r)).

Record obs := mkObs { o_content : bytes; o_dot : nat; o_aux : nat }.

Record case := mkCase {
  c_tab : table;
  c_cfg : config;
  c_init : list N;           (* initial buffer, runes *)
  c_dot : nat;               (* initial dot, rune index *)
  c_steps : list (event * obs) }.

(* walks the history; returns (oracle_ok, corr_ok) *)
Fixpoint judge_steps (U : uni) (cfg : config) (st : cstate) (pc : bytes) (pd : nat)
         (steps : list (event * obs)) : bool * bool :=
  match steps with
  | [] => (true, true)
  | (e, o) :: rest =>
    let st' := step U cfg st e in
    let b' := st_buf st' in
    let orc := check_step U e pc pd (o_content o) (o_dot o) (o_aux o) in
    let aux_ok :=
      match e with
      | ECmd c =>
        if is_kill c then
          match mover_of U c with
          | Some m => byte_off (content (st_buf st)) (m (content (st_buf st)) (dot (st_buf st))) =? o_aux o
          | None => true
          end
        else true
      | _ => true
      end in
    let corr := bytes_eqb (encode_all (content b')) (o_content o)
                && (byte_off (content b') (dot b') =? o_dot o) && aux_ok in
    let '(ro, rc) := judge_steps U cfg st' (o_content o) (o_dot o) rest in
    (orc && ro, corr && rc)
  end.

Definition judge1 (c : case) : N :=
  let U := uni_of_table (c_tab c) in
  let b0 := mkBuf (c_init c) (c_dot c) in
  let '(orc, corr) :=
    judge_steps U (c_cfg c) (init_state b0) (encode_all (c_init c)) (byte_off (c_init c) (c_dot c)) (c_steps c) in
  code orc corr.

Definition judge := judge_with judge1.
