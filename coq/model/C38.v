(* C38 — model of pkg/getopt/getopt.go (parse, parseShort, parseLong, findShort,
   Parse, Complete), executable, no proofs; plus the independent item-based
   specification of the getopt_long conventions and the oracle evaluated on the
   implementation's observations.

   A Go string is modelled as the list of its runes (valid UTF-8 is assumed;
   words with invalid UTF-8 are judged directly by the harness, see checks/C38.md).  Rune 0 is Go's
   "no short name", the empty list is "no long name". *)
From verif Require Import lib.Base gen.Consts.
From verif Require lib.Utf8.
Open Scope N_scope.

Definition str := list N.
(* the harness writes a string as its UTF-8 bytes: (u (hx "2d61")) *)
Definition u (b : bytes) : str := verif.lib.Utf8.decode_all b.
Definition str_eqb : str -> str -> bool := list_eqb N.eqb.
Definition DASH : N := 45.
Definition EQ : N := 61.

Inductive arity := NoArg | ReqArg | OptArg.
Definition arity_eqb (a b : arity) : bool :=
  match a, b with NoArg, NoArg | ReqArg, ReqArg | OptArg, OptArg => true | _, _ => false end.

(* getopt.OptionSpec *)
Record ospec := mkSpec { s_short : N; s_long : str; s_arity : arity }.
(* getopt.Option, with the spec by value *)
Record opt := mkOpt { o_spec : ospec; o_unknown : bool; o_long : bool; o_arg : str }.

Definition spec_eqb (a b : ospec) : bool :=
  N.eqb (s_short a) (s_short b) && str_eqb (s_long a) (s_long b) && arity_eqb (s_arity a) (s_arity b).
Definition opt_eqb (a b : opt) : bool :=
  spec_eqb (o_spec a) (o_spec b) && Bool.eqb (o_unknown a) (o_unknown b)
  && Bool.eqb (o_long a) (o_long b) && str_eqb (o_arg a) (o_arg b).

(* ================================================================== *)
(* Part 1: the model of the Go code                                    *)
(* ================================================================== *)

(* Config is a bit set; the bit values come from the current /repo tree *)
Definition has (c bits : Z) : bool := Z.eqb (Z.land c bits) bits.
Definition bitSADD : Z := pkg_getopt.StopAfterDoubleDash.
Definition bitSBFN : Z := pkg_getopt.StopBeforeFirstNonOption.
Definition bitLO : Z := pkg_getopt.LongOnly.

(* a zero Short means "no short form" and never matches *)
Fixpoint findShort (r : N) (specs : list ospec) : option ospec :=
  match specs with
  | [] => None
  | sp :: rest =>
    if negb (N.eqb (s_short sp) 0) && N.eqb r (s_short sp) then Some sp else findShort r rest
  end.

Definition is_nil {A} (l : list A) : bool := match l with [] => true | _ => false end.

(* parseShort: the argument without the leading dash.  The rest of the word
   after a rune is taken with the width the decoder used (s[i+size:]), i.e. the
   remaining runes. *)
Fixpoint parseShort (s : str) (specs : list ospec) : list opt * bool :=
  match s with
  | [] => ([], false)
  | r :: rest =>
    match findShort r specs with
    | Some sp =>
      match s_arity sp with
      | NoArg => let '(os, need) := parseShort rest specs in (mkOpt sp false false [] :: os, need)
      | a => ([mkOpt sp false false rest], is_nil rest && arity_eqb a ReqArg)
      end
    | None => ([mkOpt (mkSpec r [] OptArg) true false rest], false)
    end
  end.

(* strings.IndexRune *)
Fixpoint index_of (c : N) (s : str) : option nat :=
  match s with
  | [] => None
  | x :: r => if N.eqb x c then Some O else option_map S (index_of c r)
  end.

Fixpoint parseLong_loop (s : str) (eq : option nat) (specs : list ospec) : option (opt * bool) :=
  match specs with
  | [] => None
  | sp :: rest =>
    if is_nil (s_long sp) then parseLong_loop s eq rest   (* no long form: continue *)
    else
    if str_eqb s (s_long sp) then Some (mkOpt sp false true [], arity_eqb (s_arity sp) ReqArg)
    else match eq with
         | Some e =>
           if str_eqb (firstn e s) (s_long sp)
           then Some (mkOpt sp false true (skipn (S e) s), false)
           else parseLong_loop s eq rest
         | None => parseLong_loop s eq rest
         end
  end.

(* parseLong: the argument without the leading dashes *)
Definition parseLong (s : str) (specs : list ospec) : opt * bool :=
  let eq := index_of EQ s in
  match parseLong_loop s eq specs with
  | Some r => r
  | None =>
    match eq with
    | None => (mkOpt (mkSpec 0 s OptArg) true true [], false)
    | Some e => (mkOpt (mkSpec 0 (firstn e s) OptArg) true true (skipn (S e) s), false)
    end
  end.

Record pstate := mkSt {
  st_opts : list opt; st_non : list str; st_pend : option opt; st_stop : bool }.

Definition set_arg (o : opt) (a : str) : opt := mkOpt (o_spec o) (o_unknown o) (o_long o) a.
Definition dummy_opt : opt := mkOpt (mkSpec 0 [] NoArg) false false [].

(* strings.HasPrefix(arg, "--") / (arg, "-") *)
Definition prefix2 (w : str) : bool :=
  match w with a :: b :: _ => N.eqb a DASH && N.eqb b DASH | _ => false end.
Definition prefix1 (w : str) : bool :=
  match w with a :: _ => N.eqb a DASH | _ => false end.
Definition DD : str := [DASH; DASH].
Definition D1 : str := [DASH].

Definition after_long (st : pstate) (r : opt * bool) : pstate :=
  let '(o, need) := r in
  if need then mkSt (st_opts st) (st_non st) (Some o) (st_stop st)
  else mkSt (st_opts st ++ [o]) (st_non st) None (st_stop st).

(* one iteration of the loop in parse *)
Definition step (cfg : Z) (specs : list ospec) (st : pstate) (arg : str) : pstate :=
  match st_pend st with
  | Some o => mkSt (st_opts st ++ [set_arg o arg]) (st_non st) None (st_stop st)
  | None =>
    if st_stop st then mkSt (st_opts st) (st_non st ++ [arg]) None (st_stop st)
    else if has cfg bitSADD && str_eqb arg DD then mkSt (st_opts st) (st_non st) None true
    else if prefix2 arg && negb (str_eqb arg DD) then after_long st (parseLong (skipn 2 arg) specs)
    else if prefix1 arg && negb (str_eqb arg DD) && negb (str_eqb arg D1) then
      if has cfg bitLO then after_long st (parseLong (skipn 1 arg) specs)
      else
        let '(os, need) := parseShort (skipn 1 arg) specs in
        if need then mkSt (st_opts st ++ removelast os) (st_non st) (Some (last os dummy_opt)) (st_stop st)
        else mkSt (st_opts st ++ os) (st_non st) None (st_stop st)
    else mkSt (st_opts st) (st_non st ++ [arg]) None
              (if has cfg bitSBFN then true else st_stop st)
  end.

Definition st0 : pstate := mkSt [] [] None false.
Definition parse (cfg : Z) (specs : list ospec) (args : list str) : pstate :=
  fold_left (step cfg specs) args st0.

Inductive errkind := EMissing | EUnknown.
Definition errkind_eqb (a b : errkind) : bool :=
  match a, b with EMissing, EMissing | EUnknown, EUnknown => true | _, _ => false end.

(* getopt.Parse: options, non-option arguments, error kinds in the order in
   which errutil.Multi lists them *)
Definition errs_of (st : pstate) : list errkind :=
  (match st_pend st with Some _ => [EMissing] | None => [] end)
  ++ map (fun _ => EUnknown) (filter o_unknown (st_opts st)).
Definition Parse (cfg : Z) (specs : list ospec) (args : list str)
  : list opt * list str * list errkind :=
  let st := parse cfg specs args in (st_opts st, st_non st, errs_of st).

Inductive ctxtype :=
  OptionOrArgument | AnyOption | LongOption | ChainShortOption | OptionArgument | Argument.
Definition ctxtype_eqb (a b : ctxtype) : bool :=
  match a, b with
  | OptionOrArgument, OptionOrArgument | AnyOption, AnyOption | LongOption, LongOption
  | ChainShortOption, ChainShortOption | OptionArgument, OptionArgument | Argument, Argument => true
  | _, _ => false
  end.
Record context := mkCtx { x_type : ctxtype; x_opt : option opt; x_text : str }.
Definition context_eqb (a b : context) : bool :=
  ctxtype_eqb (x_type a) (x_type b) && option_eqb opt_eqb (x_opt a) (x_opt b)
  && str_eqb (x_text a) (x_text b).

Definition contains (c : N) (s : str) : bool :=
  match index_of c s with Some _ => true | None => false end.

(* getopt.Complete; None = the Go code panics (args[:len(args)-1] on an empty list) *)
Definition Complete (cfg : Z) (specs : list ospec) (args : list str)
  : option (list opt * list str * context) :=
  match args with
  | [] => None
  | _ =>
    let st := parse cfg specs (removelast args) in
    let arg := last args [] in
    let opts := st_opts st in
    let non := st_non st in
    Some
    match st_pend st with
    | Some o => (opts, non, mkCtx OptionArgument (Some (set_arg o arg)) [])
    | None =>
      if st_stop st then (opts, non, mkCtx Argument None arg)
      else if is_nil arg then (opts, non, mkCtx OptionOrArgument None [])
      else if str_eqb arg D1 then (opts, non, mkCtx AnyOption None [])
      else if prefix2 arg then
        if negb (contains EQ arg) then (opts, non, mkCtx LongOption None (skipn 2 arg))
        else (opts, non, mkCtx OptionArgument (Some (fst (parseLong (skipn 2 arg) specs))) [])
      else if prefix1 arg then
        if has cfg bitLO then
          if negb (contains EQ arg) then (opts, non, mkCtx LongOption None (skipn 1 arg))
          else (opts, non, mkCtx OptionArgument (Some (fst (parseLong (skipn 1 arg) specs))) [])
        else
          let os := fst (parseShort (skipn 1 arg) specs) in
          let l := last os dummy_opt in
          if arity_eqb (s_arity (o_spec l)) NoArg
          then (opts ++ os, non, mkCtx ChainShortOption None [])
          else (opts ++ removelast os, non, mkCtx OptionArgument (Some l) [])
      else (opts, non, mkCtx Argument None arg)
    end
  end.

(* ================================================================== *)
(* Part 2: the conventions, stated independently of the code           *)
(* ================================================================== *)

(* What a configuration selects. *)
Record conv := mkConv {
  cv_dd : bool;      (* "--" ends option parsing *)
  cv_sf : bool;      (* the first non-option ends option parsing (BSD/POSIX) *)
  cv_lo : bool       (* long options may start with one dash; no short options *) }.

(* how the harness names a configuration *)
Inductive cfgsel := CGNU | CBSD | CFlags (dd sf lo : bool).

(* the conventions behind the names: GNU getopt_long permutes, BSD stops *)
Definition conv_of (c : cfgsel) : conv :=
  match c with
  | CGNU => mkConv true false false
  | CBSD => mkConv true true false
  | CFlags dd sf lo => mkConv dd sf lo
  end.

(* the Config value the Go side passes for the same selection (from gen.Consts) *)
Definition bits_of (c : cfgsel) : Z :=
  match c with
  | CGNU => pkg_getopt.GNU
  | CBSD => pkg_getopt.BSD
  | CFlags dd sf lo =>
    Z.lor (if dd then bitSADD else 0%Z)
          (Z.lor (if sf then bitSBFN else 0%Z) (if lo then bitLO else 0%Z))
  end.

(* An argument list is a sequence of items. *)
Inductive send :=            (* how a word of short options ends *)
| EFlags                     (* -abc   : only options without argument *)
| EAtt (sp : ospec) (a : str)(* -aboARG: ARG attached (may be empty for an optional argument) *)
| EDet (sp : ospec) (a : str)(* -abo ARG : required argument in the next word *)
| EMiss (sp : ospec)         (* -abo at the very end: required argument missing *)
| EUnk (r : N) (a : str).    (* -abX…  : X is not an option; the rest of the word goes with it *)

Inductive larg :=            (* how a long option gets its argument *)
| LNone                      (* --long *)
| LEq (a : str)              (* --long=ARG *)
| LDet (a : str)             (* --long ARG (required argument) *)
| LMiss.                     (* --long at the very end, required argument missing *)

Inductive item :=
| IShorts (flags : list ospec) (e : send)
| ILong (d2 : bool) (sp : ospec) (a : larg)           (* d2: written with two dashes *)
| ILongUnk (d2 : bool) (name : str) (a : option str)  (* unknown long option *)
| IDD                                                 (* the "--" that ends the options *)
| INon (w : str)                                      (* a non-option word *)
| IRest (w : str).                                    (* a word after the options ended *)

(* ---- how items are written ---- *)
Definition dashes (d2 : bool) : str := if d2 then DD else D1.

Definition render_end (e : send) : str * list str :=
  match e with
  | EFlags => ([], [])
  | EAtt sp a => (s_short sp :: a, [])
  | EDet sp a => ([s_short sp], [a])
  | EMiss sp => ([s_short sp], [])
  | EUnk r a => (r :: a, [])
  end.

Definition render_item (it : item) : list str :=
  match it with
  | IShorts flags e =>
    let '(w, more) := render_end e in (DASH :: map s_short flags ++ w) :: more
  | ILong d2 sp LNone => [dashes d2 ++ s_long sp]
  | ILong d2 sp (LEq a) => [dashes d2 ++ s_long sp ++ EQ :: a]
  | ILong d2 sp (LDet a) => [dashes d2 ++ s_long sp; a]
  | ILong d2 sp LMiss => [dashes d2 ++ s_long sp]
  | ILongUnk d2 name None => [dashes d2 ++ name]
  | ILongUnk d2 name (Some a) => [dashes d2 ++ name ++ EQ :: a]
  | IDD => [DD]
  | INon w => [w]
  | IRest w => [w]
  end.

Definition render (items : list item) : list str := flat_map render_item items.

(* ---- what items mean ---- *)
Definition flag_opt (sp : ospec) : opt := mkOpt sp false false [].
Definition unk_short (r : N) (a : str) : opt := mkOpt (mkSpec r [] OptArg) true false a.
Definition unk_long (name : str) (a : str) : opt := mkOpt (mkSpec 0 name OptArg) true true a.

Definition item_opts (it : item) : list opt :=
  match it with
  | IShorts flags e =>
    map flag_opt flags ++
    match e with
    | EFlags => []
    | EAtt sp a | EDet sp a => [mkOpt sp false false a]
    | EMiss _ => []
    | EUnk r a => [unk_short r a]
    end
  | ILong _ sp LNone => [mkOpt sp false true []]
  | ILong _ sp (LEq a) | ILong _ sp (LDet a) => [mkOpt sp false true a]
  | ILong _ sp LMiss => []
  | ILongUnk _ name None => [unk_long name []]
  | ILongUnk _ name (Some a) => [unk_long name a]
  | _ => []
  end.

Definition item_non (it : item) : list str :=
  match it with INon w | IRest w => [w] | _ => [] end.

(* the option whose required argument is missing *)
Definition item_missing (it : item) : option opt :=
  match it with
  | IShorts _ (EMiss sp) => Some (mkOpt sp false false [])
  | ILong _ sp LMiss => Some (mkOpt sp false true [])
  | _ => None
  end.

Definition item_stops (cv : conv) (it : item) : bool :=
  match it with IDD => true | INon _ => cv_sf cv | IRest _ => true | _ => false end.

(* the meaning of an item sequence: options in order, non-options in order,
   the option with a missing argument (last item only), whether options ended *)
Definition missing_of (items : list item) : option opt :=
  match rev items with it :: _ => item_missing it | [] => None end.
Definition meaning (cv : conv) (items : list item) : pstate :=
  mkSt (flat_map item_opts items) (flat_map item_non items)
       (missing_of items) (existsb (item_stops cv) items).

(* ---- which item sequences are well-formed for a configuration ---- *)
Definition named_short (sp : ospec) : bool := negb (N.eqb (s_short sp) 0).
Definition named_long (sp : ospec) : bool := negb (is_nil (s_long sp)).
Definition in_specs (sp : ospec) (specs : list ospec) : bool := existsb (spec_eqb sp) specs.

(* lookup by name; "no name" (rune 0, empty string) never matches *)
Definition lookup_short (r : N) (specs : list ospec) : option ospec :=
  if N.eqb r 0 then None else find (fun sp => N.eqb (s_short sp) r) specs.
Definition lookup_long (name : str) (specs : list ospec) : option ospec :=
  if is_nil name then None else find (fun sp => str_eqb (s_long sp) name) specs.

Definition usable_short (specs : list ospec) (sp : ospec) : bool :=
  in_specs sp specs && named_short sp && negb (N.eqb (s_short sp) DASH).

Definition valid_end (specs : list ospec) (flags : list ospec) (e : send) : bool :=
  match e with
  | EFlags => negb (is_nil flags)
  | EAtt sp a =>
    usable_short specs sp &&
    match s_arity sp with NoArg => false | ReqArg => negb (is_nil a) | OptArg => true end
  | EDet sp _ | EMiss sp => usable_short specs sp && arity_eqb (s_arity sp) ReqArg
  | EUnk r a =>
    match lookup_short r specs with Some _ => false | None => true end
    && (negb (is_nil flags) || negb (N.eqb r DASH))
  end.

Definition valid_dashes (cv : conv) (d2 : bool) (name : str) : bool :=
  d2 || (cv_lo cv && negb (prefix1 name)).

Definition valid_item (cv : conv) (specs : list ospec) (it : item) : bool :=
  match it with
  | IShorts flags e =>
    negb (cv_lo cv)
    && forallb (fun sp => usable_short specs sp && arity_eqb (s_arity sp) NoArg) flags
    && valid_end specs flags e
  | ILong d2 sp a =>
    in_specs sp specs && named_long sp && negb (contains EQ (s_long sp))
    && valid_dashes cv d2 (s_long sp)
    && match a with
       | LNone => negb (arity_eqb (s_arity sp) ReqArg)
       | LEq _ => negb (arity_eqb (s_arity sp) NoArg)
       | LDet _ | LMiss => arity_eqb (s_arity sp) ReqArg
       end
  | ILongUnk d2 name a =>
    match lookup_long name specs with Some _ => false | None => true end
    && negb (contains EQ name)
    && valid_dashes cv d2 name
    && match a with None => negb (is_nil name) | Some _ => true end
  | IDD => cv_dd cv
  | INon w =>
    negb (prefix1 w) || str_eqb w D1 || (negb (cv_dd cv) && str_eqb w DD)
  | IRest _ => true
  end.

Definition is_rest (it : item) : bool := match it with IRest _ => true | _ => false end.
Definition is_missing (it : item) : bool :=
  match item_missing it with Some _ => true | None => false end.

(* sequencing: after the options ended only IRest; IRest only there; a missing
   argument only at the very end *)
Fixpoint valid_seq (cv : conv) (specs : list ospec) (stopped : bool) (items : list item) : bool :=
  match items with
  | [] => true
  | it :: rest =>
    (if stopped then is_rest it else negb (is_rest it) && valid_item cv specs it)
    && (negb (is_missing it) || is_nil rest)
    && valid_seq cv specs (stopped || item_stops cv it) rest
  end.
Definition valid (cv : conv) (specs : list ospec) (items : list item) : bool :=
  valid_seq cv specs false items.

(* "non-empty distinct names": names that exist are pairwise distinct, and no
   long name contains '=' *)
Fixpoint distinct_by {A} (eqb : A -> A -> bool) (l : list A) : bool :=
  match l with
  | [] => true
  | x :: r => negb (existsb (eqb x) r) && distinct_by eqb r
  end.
Definition specs_distinct (specs : list ospec) : bool :=
  distinct_by N.eqb (map s_short (filter named_short specs))
  && distinct_by str_eqb (map s_long (filter named_long specs)).
Definition longs_no_eq (specs : list ospec) : bool :=
  forallb (fun sp => negb (contains EQ (s_long sp))) specs.

(* ---- reading an arbitrary argument list as items (reference tokenizer) ---- *)
Inductive pend :=
| PFlags | PAtt (sp : ospec) (a : str) | PNeed (sp : ospec) | PUnk (r : N) (a : str).

(* a word of short options, without the dash *)
Fixpoint scan_shorts (specs : list ospec) (s : str) : list ospec * pend :=
  match s with
  | [] => ([], PFlags)
  | r :: rest =>
    match lookup_short r specs with
    | None => ([], PUnk r rest)
    | Some sp =>
      match s_arity sp with
      | NoArg => let '(fl, p) := scan_shorts specs rest in (sp :: fl, p)
      | ReqArg => if is_nil rest then ([], PNeed sp) else ([], PAtt sp rest)
      | OptArg => ([], PAtt sp rest)
      end
    end
  end.

(* name and "=ARG" part of a long option *)
Fixpoint split_eq (s : str) : str * option str :=
  match s with
  | [] => ([], None)
  | c :: r => if N.eqb c EQ then ([], Some r)
              else let '(n, a) := split_eq r in (c :: n, a)
  end.

Fixpoint tokenize (cv : conv) (specs : list ospec) (stopped : bool) (args : list str) : list item :=
  match args with
  | [] => []
  | w :: rest =>
    if stopped then IRest w :: tokenize cv specs true rest
    else if cv_dd cv && str_eqb w DD then IDD :: tokenize cv specs true rest
    else
      let long (d2 : bool) (body : str) :=
        let '(name, oa) := split_eq body in
        match lookup_long name specs with
        | None => ILongUnk d2 name oa :: tokenize cv specs false rest
        | Some sp =>
          match oa with
          | Some a => ILong d2 sp (LEq a) :: tokenize cv specs false rest
          | None =>
            if arity_eqb (s_arity sp) ReqArg then
              match rest with
              | a :: rest' => ILong d2 sp (LDet a) :: tokenize cv specs false rest'
              | [] => [ILong d2 sp LMiss]
              end
            else ILong d2 sp LNone :: tokenize cv specs false rest
          end
        end in
      if prefix2 w && negb (str_eqb w DD) then long true (skipn 2 w)
      else if prefix1 w && negb (str_eqb w DD) && negb (str_eqb w D1) then
        if cv_lo cv then long false (skipn 1 w)
        else
          let '(fl, p) := scan_shorts specs (skipn 1 w) in
          match p with
          | PFlags => IShorts fl EFlags :: tokenize cv specs false rest
          | PAtt sp a => IShorts fl (EAtt sp a) :: tokenize cv specs false rest
          | PUnk r a => IShorts fl (EUnk r a) :: tokenize cv specs false rest
          | PNeed sp =>
            match rest with
            | a :: rest' => IShorts fl (EDet sp a) :: tokenize cv specs false rest'
            | [] => [IShorts fl (EMiss sp)]
            end
          end
      else INon w :: tokenize cv specs (cv_sf cv) rest
  end.

(* the reference parser: read as items, take their meaning *)
Definition ref_parse (cv : conv) (specs : list ospec) (args : list str) : pstate :=
  meaning cv (tokenize cv specs false args).

(* errors to report: a missing argument (the last item lacks it), then one
   "unknown option" per unknown option, in order *)
Definition ref_errs (items : list item) : list errkind :=
  (match missing_of items with Some _ => [EMissing] | None => [] end)
  ++ map (fun _ => EUnknown) (filter o_unknown (flat_map item_opts items)).

(* the reference completion context, from the documentation of ContextType *)
Definition ref_complete (cv : conv) (specs : list ospec) (args : list str)
  : list opt * list str * context :=
  let r := ref_parse cv specs (removelast args) in
  let w := last args [] in
  let opts := st_opts r in
  let non := st_non r in
  let long (body : str) :=
    let '(name, oa) := split_eq body in
    match oa with
    | None => (opts, non, mkCtx LongOption None body)
    | Some a =>
      match lookup_long name specs with
      | Some sp => (opts, non, mkCtx OptionArgument (Some (mkOpt sp false true a)) [])
      | None => (opts, non, mkCtx OptionArgument (Some (unk_long name a)) [])
      end
    end in
  match st_pend r with
  | Some o => (opts, non, mkCtx OptionArgument (Some (set_arg o w)) [])
  | None =>
    if st_stop r then (opts, non, mkCtx Argument None w)
    else match w with
    | [] => (opts, non, mkCtx OptionOrArgument None [])
    | c :: body =>
      if negb (N.eqb c DASH) then (opts, non, mkCtx Argument None w)
      else match body with
      | [] => (opts, non, mkCtx AnyOption None [])
      | c2 :: body2 =>
        if N.eqb c2 DASH then long body2
        else if cv_lo cv then long body
        else
          let '(fl, p) := scan_shorts specs body in
          let opts' := opts ++ map flag_opt fl in
          match p with
          | PFlags => (opts', non, mkCtx ChainShortOption None [])
          | PAtt sp a => (opts', non, mkCtx OptionArgument (Some (mkOpt sp false false a)) [])
          | PNeed sp => (opts', non, mkCtx OptionArgument (Some (mkOpt sp false false [])) [])
          | PUnk r a => (opts', non, mkCtx OptionArgument (Some (unk_short r a)) [])
          end
      end
    end
  end.

(* ---- the oracle on observations ---- *)
Inductive obs :=
| ObsParse (opts : list opt) (non : list str) (errs : list errkind)
| ObsComplete (opts : list opt) (non : list str) (ctx : context)
| ObsPanic.

Definition opts_eqb := list_eqb opt_eqb.
Definition strs_eqb := list_eqb str_eqb.
Definition errs_eqb := list_eqb errkind_eqb.

(* The conventions speak about option names without '='; for other specs the
   oracle demands nothing (the correspondence with the model still applies). *)
Definition check_C38 (cs : cfgsel) (specs : list ospec) (args : list str) (o : obs) : bool :=
  if negb (longs_no_eq specs) then true else
  let cv := conv_of cs in
  match o with
  | ObsParse opts non errs =>
    let items := tokenize cv specs false args in
    opts_eqb opts (flat_map item_opts items)
    && strs_eqb non (flat_map item_non items)
    && errs_eqb errs (ref_errs items)
  | ObsComplete opts non ctx =>
    match args with
    | [] => false
    | _ =>
      let '(ropts, rnon, rctx) := ref_complete cv specs args in
      opts_eqb opts ropts && strs_eqb non rnon && context_eqb ctx rctx
    end
  | ObsPanic => is_nil args   (* Complete documents nothing for an empty list *)
  end.

(* what the model says for the same call *)
Inductive call := CallParse | CallComplete.
Definition model_obs (k : call) (cs : cfgsel) (specs : list ospec) (args : list str) : obs :=
  match k with
  | CallParse => let '(o, n, e) := Parse (bits_of cs) specs args in ObsParse o n e
  | CallComplete =>
    match Complete (bits_of cs) specs args with
    | Some (o, n, c) => ObsComplete o n c
    | None => ObsPanic
    end
  end.

Definition obs_eqb (a b : obs) : bool :=
  match a, b with
  | ObsParse o n e, ObsParse o' n' e' => opts_eqb o o' && strs_eqb n n' && errs_eqb e e'
  | ObsComplete o n c, ObsComplete o' n' c' => opts_eqb o o' && strs_eqb n n' && context_eqb c c'
  | ObsPanic, ObsPanic => true
  | _, _ => false
  end.

Definition call_matches (k : call) (o : obs) : bool :=
  match k, o with
  | CallParse, ObsParse _ _ _ => true
  | CallComplete, ObsComplete _ _ _ | CallComplete, ObsPanic => true
  | _, _ => false
  end.

Record case := mkCase {
  c_call : call; c_cfg : cfgsel; c_specs : list ospec; c_args : list str; c_obs : obs }.

Definition judge1 (c : case) : N :=
  code (call_matches (c_call c) (c_obs c)
        && check_C38 (c_cfg c) (c_specs c) (c_args c) (c_obs c))
       (obs_eqb (model_obs (c_call c) (c_cfg c) (c_specs c) (c_args c)) (c_obs c)).

Definition judge := judge_with judge1.
