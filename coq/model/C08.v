(* C08 — values that are eq are the same map key.
   Oracle on the implementation's observations + correspondence with the
   value model (model/C08_Value.v).  Executable Gallina only. *)
From verif Require Import lib.Base model.C08_Value.
Open Scope N_scope.

(* ---- observation of one pair (a, b) ---- *)
Record pair_obs := mkPairObs {
  p_eq_api : bool;      (* vals.Equal a b *)
  p_eq_bi : bool;       (* builtin: eq $a $b *)
  p_hash_a : N;         (* vals.Hash a *)
  p_hash_b : N }.       (* vals.Hash b *)

(* The property on a pair: eq ==> identical hash.  (Also: the builtin is the
   API function.) *)
Definition check_pair (o : pair_obs) : bool :=
  Bool.eqb (p_eq_api o) (p_eq_bi o) &&
  (if p_eq_api o then p_hash_a o =? p_hash_b o else true).

(* ---- observation of a pair used as keys of one map ----
   m = the map built by assoc'ing the history (from the empty map);
   ma = assoc m a v, mb = assoc m b v, da = dissoc m a, db = dissoc m b *)
Record map_obs := mkMapObs {
  o_eq : bool;                 (* eq $a $b *)
  o_len : N;                   (* count $m *)
  o_neq_a : N; o_neq_b : N;    (* number of keys of m that are eq to a / to b *)
  o_has_a : bool; o_has_b : bool;           (* has-key $m $a / $b *)
  o_idx_a : option Z; o_idx_b : option Z;   (* $m[$a] / $m[$b], None = no such key *)
  o_len_ma : N; o_len_mb : N;  (* count (assoc $m $a $v) / (assoc $m $b $v) *)
  o_eq_mab : bool;             (* eq (assoc $m $a $v) (assoc $m $b $v) *)
  o_has_ma_b : bool; o_has_mb_a : bool;     (* has-key (assoc $m $a $v) $b, and b/a *)
  o_idx_ma_b : option Z; o_idx_mb_a : option Z;
  o_len_da : N; o_len_db : N;  (* count (dissoc $m $a) / (dissoc $m $b) *)
  o_eq_dab : bool;             (* eq (dissoc $m $a) (dissoc $m $b) *)
  o_has_da_b : bool; o_has_db_a : bool }.   (* has-key (dissoc $m $a) $b, and b/a *)

Definition oz_eqb := option_eqb Z.eqb.

(* The property on a map and an eq pair: has-key, indexing, assoc and dissoc
   give identical results for a and b, and the map never holds two keys eq to
   each other.  Nothing is demanded when a and b are not eq. *)
Definition check_map (v : Z) (o : map_obs) : bool :=
  (o_neq_a o <=? 1) && (o_neq_b o <=? 1) &&
  (if o_eq o then
     Bool.eqb (o_has_a o) (o_has_b o)
     && oz_eqb (o_idx_a o) (o_idx_b o)
     && (o_len_ma o =? o_len_mb o) && o_eq_mab o
     && o_has_ma_b o && o_has_mb_a o
     && oz_eqb (o_idx_ma_b o) (Some v) && oz_eqb (o_idx_mb_a o) (Some v)
     && (o_len_da o =? o_len_db o) && o_eq_dab o
     && negb (o_has_da_b o) && negb (o_has_db_a o)
   else true).

(* ---- the model's prediction of the same observations ---- *)
Definition model_pair (a b : value) : pair_obs :=
  mkPairObs (equal a b) (equal a b) (hash a) (hash b).

Definition pair_obs_eqb (x y : pair_obs) : bool :=
  Bool.eqb (p_eq_api x) (p_eq_api y) && Bool.eqb (p_eq_bi x) (p_eq_bi y)
  && (p_hash_a x =? p_hash_a y) && (p_hash_b x =? p_hash_b y).

Definition count_eq (k : value) (m : amap) : N :=
  N.of_nat (length (filter (fun e => equal (fst e) k) m)).

(* equality of abstract maps as vals.Equal sees it: same size, every entry of
   one found in the other with the same value *)
Definition am_eq (x y : amap) : bool :=
  Nat.eqb (length x) (length y) &&
  forallb (fun e => oz_eqb (am_find (fst e) y) (Some (snd e))) x.

Definition nlen (m : amap) : N := N.of_nat (length m).

Definition model_map (hist : list (value * Z)) (a b : value) (v : Z) : map_obs :=
  let m := am_build hist in
  let ma := am_assoc a v m in let mb := am_assoc b v m in
  let da := am_dissoc a m in let db := am_dissoc b m in
  mkMapObs (equal a b) (nlen m) (count_eq a m) (count_eq b m)
    (am_has a m) (am_has b m) (am_find a m) (am_find b m)
    (nlen ma) (nlen mb) (am_eq ma mb) (am_has b ma) (am_has a mb)
    (am_find b ma) (am_find a mb)
    (nlen da) (nlen db) (am_eq da db) (am_has b da) (am_has a db).

Definition map_obs_eqb (x y : map_obs) : bool :=
  Bool.eqb (o_eq x) (o_eq y) && (o_len x =? o_len y)
  && (o_neq_a x =? o_neq_a y) && (o_neq_b x =? o_neq_b y)
  && Bool.eqb (o_has_a x) (o_has_a y) && Bool.eqb (o_has_b x) (o_has_b y)
  && oz_eqb (o_idx_a x) (o_idx_a y) && oz_eqb (o_idx_b x) (o_idx_b y)
  && (o_len_ma x =? o_len_ma y) && (o_len_mb x =? o_len_mb y)
  && Bool.eqb (o_eq_mab x) (o_eq_mab y)
  && Bool.eqb (o_has_ma_b x) (o_has_ma_b y) && Bool.eqb (o_has_mb_a x) (o_has_mb_a y)
  && oz_eqb (o_idx_ma_b x) (o_idx_ma_b y) && oz_eqb (o_idx_mb_a x) (o_idx_mb_a y)
  && (o_len_da x =? o_len_da y) && (o_len_db x =? o_len_db y)
  && Bool.eqb (o_eq_dab x) (o_eq_dab y)
  && Bool.eqb (o_has_da_b x) (o_has_da_b y) && Bool.eqb (o_has_db_a x) (o_has_db_a y).

Inductive case :=
| CPair (a b : value) (o : pair_obs)
| CMap (hist : list (value * Z)) (a b : value) (v : Z) (o : map_obs).

Definition judge1 (c : case) : N :=
  match c with
  | CPair a b o => code (check_pair o) (pair_obs_eqb (model_pair a b) o)
  | CMap hist a b v o => code (check_map v o) (map_obs_eqb (model_map hist a b v) o)
  end.

Definition judge := judge_with judge1.
