(* C20 / C19 -- transition-system model of pkg/eval/builtin_fn_flow.go: peach,
   each and runParallel (executable Gallina, no proofs).

   peach (Go)                               model
   -----------------------------------      ------------------------------------
   inputs(func(v) {                          dispatcher program counter [dpc]
     if broken != 0 { return }               DCheck i   (skip -> st i := Skipped)
     if sema != nil {
       if sema.Acquire(ctx,1) != nil {       DAcq i     (blocks while held = bound;
         broken = 1; return } }                          a cancelled ctx makes it FAIL:
                                                         no token, broken := 1, skip)
     if sema != nil && broken != 0 {         DRecheck i (broken set while waiting:
       sema.Release(1); return }                         token given back, skip)
     wg.Add(1); go func() {                  DSpawn i   (wg+1, st i := Spawned)
        ex := f.Call(...)                    worker: Spawned -> Running 0 -> ...
                                                     Running k emits output k
        Break: broken = 1                    Running (all emitted) -> Posted
        other: lock; err = Multi(err, ex);             (broken, errs updated)
               broken = 1
        wg.Done()                            Posted -> DoneWG (wg-1)
        if sema != nil { sema.Release(1) }   DoneWG -> Gone   (held-1; Release with
     }() })                                            held = 0 is the Go panic
   wg.Wait(); return err                     DWait -> DDone when wg = 0

   One step = one move of the dispatcher or of one worker (label), or the
   environment cancelling the context; the step relation therefore contains
   every goroutine schedule.  A callback is abstracted to its behaviour on input
   number i: the values it outputs and how it ends.

   The dispatcher has two switches, both ON in the code as it is now
   ([faithful]); they were added by the fix commits for the findings
   C20 peach1-break-before-last and C19 peach-bounded-cancel, and the general
   theorems are proved for every setting:
     fix_recheck : test [broken] again after Acquire returned (and give the token back)
     fix_acqerr  : honour the Acquire error (stop dispatching)                      *)
From verif Require Import lib.Base.
Open Scope nat_scope.

Inductive kind := KNormal | KCont | KBreak | KFail (e : N).
Record cbres := mkCb { cb_outs : list N; cb_kind : kind }.
Definition callback := nat -> cbres.

Definition is_breaker (k : kind) : bool :=
  match k with KBreak | KFail _ => true | _ => false end.
Definition fail_of (k : kind) : list N :=
  match k with KFail e => [e] | _ => [] end.

Inductive wstat :=
| Pending            (* not dispatched yet *)
| Skipped            (* dispatcher returned early for this input *)
| Spawned            (* goroutine exists, callback not entered *)
| Running (k : nat)  (* callback entered, k outputs written *)
| Posted             (* callback returned, broken/err recorded *)
| DoneWG             (* wg.Done() executed *)
| Gone.              (* Release executed, goroutine finished *)

Inductive dpc :=
| DCheck (i : nat) | DAcq (i : nat) | DRecheck (i : nat) | DSpawn (i : nat)
| DWait | DDone.

Record config := mkCfg { bound : option nat; fix_recheck : bool; fix_acqerr : bool }.

(* the code as it is: both repairs in *)
Definition faithful (b : option nat) : config := mkCfg b true true.

Record state := mkSt {
  pc : dpc;
  st : nat -> wstat;
  held : nat;            (* semaphore: tokens currently held *)
  wg : nat;              (* WaitGroup counter *)
  broken : bool;
  errs : list N;         (* ids of the failures appended to err *)
  out : list N;          (* values written to the shared output, in order *)
  calls : nat -> nat;    (* how many times the callback was entered for input i *)
  cancelled : bool;
  panicked : bool        (* Release below zero / negative WaitGroup counter *)
}.

Definition upd {A} (f : nat -> A) (i : nat) (v : A) : nat -> A :=
  fun j => if Nat.eqb j i then v else f j.

Definition init : state :=
  mkSt (DCheck 0) (fun _ => Pending) 0 0 false [] [] (fun _ => 0) false false.

Definition set_pc (s : state) (p : dpc) : state :=
  mkSt p (st s) (held s) (wg s) (broken s) (errs s) (out s) (calls s) (cancelled s) (panicked s).
Definition set_st (s : state) (i : nat) (w : wstat) : state :=
  mkSt (pc s) (upd (st s) i w) (held s) (wg s) (broken s) (errs s) (out s) (calls s) (cancelled s) (panicked s).
Definition set_held (s : state) (h : nat) : state :=
  mkSt (pc s) (st s) h (wg s) (broken s) (errs s) (out s) (calls s) (cancelled s) (panicked s).
Definition set_wg (s : state) (w : nat) : state :=
  mkSt (pc s) (st s) (held s) w (broken s) (errs s) (out s) (calls s) (cancelled s) (panicked s).
Definition set_broken (s : state) (b : bool) : state :=
  mkSt (pc s) (st s) (held s) (wg s) b (errs s) (out s) (calls s) (cancelled s) (panicked s).
Definition set_errs (s : state) (e : list N) : state :=
  mkSt (pc s) (st s) (held s) (wg s) (broken s) e (out s) (calls s) (cancelled s) (panicked s).
Definition set_out (s : state) (o : list N) : state :=
  mkSt (pc s) (st s) (held s) (wg s) (broken s) (errs s) o (calls s) (cancelled s) (panicked s).
Definition set_calls (s : state) (c : nat -> nat) : state :=
  mkSt (pc s) (st s) (held s) (wg s) (broken s) (errs s) (out s) c (cancelled s) (panicked s).
Definition set_cancelled (s : state) : state :=
  mkSt (pc s) (st s) (held s) (wg s) (broken s) (errs s) (out s) (calls s) true (panicked s).
Definition set_panicked (s : state) : state :=
  mkSt (pc s) (st s) (held s) (wg s) (broken s) (errs s) (out s) (calls s) (cancelled s) true.

Inductive label := LDisp | LWork (i : nat) | LCancel.

(* the dispatcher: the body of the closure passed to inputs(), then wg.Wait() *)
Definition step_disp (c : config) (n : nat) (s : state) : option state :=
  match pc s with
  | DCheck i =>
      if i <? n then
        if broken s then Some (set_pc (set_st s i Skipped) (DCheck (S i)))
        else Some (set_pc s (DAcq i))
      else Some (set_pc s DWait)
  | DAcq i =>
      match bound c with
      | None => Some (set_pc s (DSpawn i))
      | Some b =>
          if cancelled s then
            (* Acquire returns ctx.Err() and leaves the semaphore unchanged *)
            if fix_acqerr c
            then Some (set_pc (set_broken (set_st s i Skipped) true) (DCheck (S i)))
            else Some (set_pc s (DSpawn i))
          else if held s <? b then
            Some (set_pc (set_held s (S (held s)))
                         (if fix_recheck c then DRecheck i else DSpawn i))
          else None
      end
  | DRecheck i =>
      if broken s
      then Some (set_pc (set_held (set_st s i Skipped) (held s - 1)) (DCheck (S i)))
      else Some (set_pc s (DSpawn i))
  | DSpawn i => Some (set_pc (set_wg (set_st s i Spawned) (S (wg s))) (DCheck (S i)))
  | DWait => if wg s =? 0 then Some (set_pc s DDone) else None
  | DDone => None
  end.

(* worker number i *)
Definition step_work (c : config) (cb : callback) (n : nat) (s : state) (i : nat) : option state :=
  if n <=? i then None else
  match st s i with
  | Spawned => Some (set_calls (set_st s i (Running 0)) (upd (calls s) i (S (calls s i))))
  | Running k =>
      match nth_error (cb_outs (cb i)) k with
      | Some v => Some (set_out (set_st s i (Running (S k))) (out s ++ [v]))
      | None =>
          let kd := cb_kind (cb i) in
          Some (set_errs (set_broken (set_st s i Posted) (broken s || is_breaker kd))
                         (errs s ++ fail_of kd))
      end
  | Posted =>
      if wg s =? 0 then Some (set_panicked s)
      else Some (set_wg (set_st s i DoneWG) (wg s - 1))
  | DoneWG =>
      match bound c with
      | None => Some (set_st s i Gone)
      | Some _ =>
          if held s =? 0 then Some (set_panicked (set_st s i Gone))
          else Some (set_held (set_st s i Gone) (held s - 1))
      end
  | _ => None
  end.

Definition step (c : config) (cb : callback) (n : nat) (s : state) (l : label) : option state :=
  if panicked s then None else
  match l with
  | LDisp => step_disp c n s
  | LWork i => step_work c cb n s i
  | LCancel => if cancelled s then None else Some (set_cancelled s)
  end.

(* ---- a variant used only to characterise WHY the order matters ----
   The worker of the code records its result (broken, err) BEFORE it gives the
   slot back.  [step_work_swapped] is the worker with the two swapped: when the
   callback has returned it first releases the slot, then records the result,
   then calls wg.Done.  The statuses are reused with this reading:
     Posted = slot released, result not yet recorded;  DoneWG = result recorded;
     Gone   = wg.Done executed.                                                  *)
Definition step_work_swapped (c : config) (cb : callback) (n : nat) (s : state) (i : nat) : option state :=
  if n <=? i then None else
  match st s i with
  | Spawned => Some (set_calls (set_st s i (Running 0)) (upd (calls s) i (S (calls s i))))
  | Running k =>
      match nth_error (cb_outs (cb i)) k with
      | Some v => Some (set_out (set_st s i (Running (S k))) (out s ++ [v]))
      | None =>
          match bound c with
          | None => Some (set_st s i Posted)
          | Some _ =>
              if held s =? 0 then Some (set_panicked (set_st s i Posted))
              else Some (set_held (set_st s i Posted) (held s - 1))
          end
      end
  | Posted =>
      let kd := cb_kind (cb i) in
      Some (set_errs (set_broken (set_st s i DoneWG) (broken s || is_breaker kd))
                     (errs s ++ fail_of kd))
  | DoneWG =>
      if wg s =? 0 then Some (set_panicked s)
      else Some (set_wg (set_st s i Gone) (wg s - 1))
  | _ => None
  end.

Definition step_swapped (c : config) (cb : callback) (n : nat) (s : state) (l : label) : option state :=
  if panicked s then None else
  match l with
  | LDisp => step_disp c n s
  | LWork i => step_work_swapped c cb n s i
  | LCancel => if cancelled s then None else Some (set_cancelled s)
  end.

Fixpoint exec_swapped (c : config) (cb : callback) (n : nat) (s : state) (ls : list label) : option state :=
  match ls with
  | [] => Some s
  | l :: r => match step_swapped c cb n s l with Some s' => exec_swapped c cb n s' r | None => None end
  end.

(* run a schedule (used for the refutation witnesses) *)
Fixpoint exec (c : config) (cb : callback) (n : nat) (s : state) (ls : list label) : option state :=
  match ls with
  | [] => Some s
  | l :: r => match step c cb n s l with Some s' => exec c cb n s' r | None => None end
  end.

(* ---- derived quantities ---- *)
Fixpoint countf {A} (p : A -> bool) (f : nat -> A) (n : nat) : nat :=
  match n with
  | 0 => 0
  | S m => countf p f m + (if p (f m) then 1 else 0)
  end.

Definition is_running (w : wstat) : bool := match w with Running _ => true | _ => false end.
Definition pre_done (w : wstat) : bool :=
  match w with Spawned | Running _ | Posted => true | _ => false end.
Definition holder (w : wstat) : bool :=
  match w with Spawned | Running _ | Posted | DoneWG => true | _ => false end.
Definition started (w : wstat) : bool :=
  match w with Running _ | Posted | DoneWG | Gone => true | _ => false end.
Definition posted (w : wstat) : bool :=
  match w with Posted | DoneWG | Gone => true | _ => false end.
Definition finished (w : wstat) : bool :=
  match w with Skipped | DoneWG | Gone => true | _ => false end.

(* callbacks running at once *)
Definition running (n : nat) (s : state) : nat := countf is_running (st s) n.

(* what worker i has written so far *)
Definition emitted (cb : callback) (w : wstat) (i : nat) : list N :=
  match w with
  | Running k => firstn k (cb_outs (cb i))
  | Posted | DoneWG | Gone => cb_outs (cb i)
  | _ => []
  end.
Definition reported (cb : callback) (w : wstat) (i : nat) : list N :=
  if posted w then fail_of (cb_kind (cb i)) else [].

(* ---- each: the sequential loop ---- *)
Record eacc := mkE { e_out : list N; e_errs : list N; e_broken : bool; e_m : nat (* callbacks run *) }.

Fixpoint each_pre (cb : callback) (k : nat) : eacc :=
  match k with
  | 0 => mkE [] [] false 0
  | S k' =>
      let a := each_pre cb k' in
      if e_broken a then a
      else let r := cb k' in
           mkE (e_out a ++ cb_outs r) (e_errs a ++ fail_of (cb_kind r))
               (is_breaker (cb_kind r)) (S k')
  end.
Definition each_calls (cb : callback) (n : nat) (i : nat) : nat :=
  if i <? e_m (each_pre cb n) then 1 else 0.

(* ---- run-parallel ---- *)
Inductive rstat := RPending | RSpawned | RRunning (k : nat) | RStored | RFinished.
Inductive rpc := RAdd | RSpawn (i : nat) | RWait | RDone.
Record rstate := mkR {
  r_pc : rpc; r_st : nat -> rstat; r_wg : nat;
  r_exc : nat -> option kind;      (* exceptions[i] *)
  r_out : list N; r_calls : nat -> nat; r_panicked : bool }.

Definition rinit : rstate := mkR RAdd (fun _ => RPending) 0 (fun _ => None) [] (fun _ => 0) false.

Inductive rlabel := RLDisp | RLWork (i : nat).

Definition exc_of (k : kind) : option kind :=
  match k with KNormal => None | _ => Some k end.

Definition rstep (cb : callback) (n : nat) (s : rstate) (l : rlabel) : option rstate :=
  if r_panicked s then None else
  match l with
  | RLDisp =>
      match r_pc s with
      | RAdd => Some (mkR (RSpawn 0) (r_st s) n (r_exc s) (r_out s) (r_calls s) false)
      | RSpawn i =>
          if i <? n
          then Some (mkR (RSpawn (S i)) (upd (r_st s) i RSpawned) (r_wg s) (r_exc s) (r_out s) (r_calls s) false)
          else Some (mkR RWait (r_st s) (r_wg s) (r_exc s) (r_out s) (r_calls s) false)
      | RWait => if r_wg s =? 0
                 then Some (mkR RDone (r_st s) (r_wg s) (r_exc s) (r_out s) (r_calls s) false)
                 else None
      | RDone => None
      end
  | RLWork i =>
      if n <=? i then None else
      match r_st s i with
      | RSpawned => Some (mkR (r_pc s) (upd (r_st s) i (RRunning 0)) (r_wg s) (r_exc s) (r_out s)
                              (upd (r_calls s) i (S (r_calls s i))) false)
      | RRunning k =>
          match nth_error (cb_outs (cb i)) k with
          | Some v => Some (mkR (r_pc s) (upd (r_st s) i (RRunning (S k))) (r_wg s) (r_exc s)
                                (r_out s ++ [v]) (r_calls s) false)
          | None => Some (mkR (r_pc s) (upd (r_st s) i RStored) (r_wg s)
                              (upd (r_exc s) i (exc_of (cb_kind (cb i)))) (r_out s) (r_calls s) false)
          end
      | RStored =>
          if r_wg s =? 0
          then Some (mkR (r_pc s) (r_st s) (r_wg s) (r_exc s) (r_out s) (r_calls s) true)
          else Some (mkR (r_pc s) (upd (r_st s) i RFinished) (r_wg s - 1) (r_exc s) (r_out s) (r_calls s) false)
      | _ => None
      end
  end.

Definition r_pre_done (w : rstat) : bool :=
  match w with RFinished => false | _ => true end.
Definition r_emitted (cb : callback) (w : rstat) (i : nat) : list N :=
  match w with
  | RRunning k => firstn k (cb_outs (cb i))
  | RStored | RFinished => cb_outs (cb i)
  | _ => []
  end.
