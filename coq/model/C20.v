(* C20 -- peach and run-parallel run each task once; one-worker peach equals each.
   The transition-system model is model/C20_Peach.v; this file has the case
   record (what the Go runner observed), the property oracle [check_*] evaluated
   on the implementation's observations, and the model's acceptor [accepts_*]
   (which observations some schedule of the faithful model can produce).
   Executable Gallina only. *)
From verif Require Import lib.Base model.C20_Peach.
Open Scope nat_scope.

Definition cb_of (l : list cbres) : callback := fun i => nth i l (mkCb [] KNormal).

(* what the runner measured for one run of peach / each / run-parallel *)
Record pobs := mkObs {
  o_calls : list nat;   (* per input: how many times the callback was entered *)
  o_maxrun : nat;       (* maximum number of callbacks inside enter..leave at once *)
  o_out : list N;       (* values received on the output, in order *)
  o_errs : list N;      (* ids of the reported fail exceptions *)
  o_late : bool         (* a callback was still running when the command returned *)
}.

(* ---- multisets of N as lists ---- *)
Definition count_N (x : N) (l : list N) : nat := count_occ N.eq_dec l x.
Definition ms_eqb (a b : list N) : bool :=
  forallb (fun x => count_N x a =? count_N x b) (a ++ b).

Definition called (calls : list nat) (i : nat) : bool := negb (nth i calls 0 =? 0).

(* outputs / failures of the callbacks that ran *)
Definition outs_of_called (cbs : list cbres) (calls : list nat) : list N :=
  flat_map (fun i => if called calls i then cb_outs (cb_of cbs i) else []) (seq 0 (length cbs)).
Definition fails_of_called (cbs : list cbres) (calls : list nat) : list N :=
  flat_map (fun i => if called calls i then fail_of (cb_kind (cb_of cbs i)) else []) (seq 0 (length cbs)).

Definition no_breaker (cbs : list cbres) : bool :=
  forallb (fun r => negb (is_breaker (cb_kind r))) cbs.

Definition nat_list_eqb : list nat -> list nat -> bool := list_eqb Nat.eqb.

(* ---- the property, on observations ---- *)
(* peach with worker bound [b] ([None] = +inf) over inputs 0..n-1 with callback
   behaviours [cbs]; [eo] = what [each] did on the same callbacks (given for bound 1) *)
Definition check_peach (b : option nat) (cbs : list cbres) (o : pobs) (eo : option pobs) : bool :=
  let n := length cbs in
  (length (o_calls o) =? n)
  (* at most once per input *)
  && forallb (fun i => nth i (o_calls o) 0 <=? 1) (seq 0 n)
  (* exactly once when no callback breaks or fails *)
  && (if no_breaker cbs then forallb (fun i => nth i (o_calls o) 0 =? 1) (seq 0 n) else true)
  (* never more callbacks at once than the bound *)
  && match b with Some k => o_maxrun o <=? k | None => true end
  (* outputs are exactly the union of the outputs of the callbacks that ran *)
  && ms_eqb (o_out o) (outs_of_called cbs (o_calls o))
  (* returns only after every started callback has finished *)
  && negb (o_late o)
  (* every callback exception is reported *)
  && ms_eqb (o_errs o) (fails_of_called cbs (o_calls o))
  (* with a bound of 1: exactly like each *)
  && match b, eo with
     | Some 1, Some e =>
         nat_list_eqb (o_calls o) (o_calls e) && list_eqb N.eqb (o_out o) (o_out e)
         && ms_eqb (o_errs o) (o_errs e)
     | _, _ => true
     end.

(* run-parallel over functions with behaviours [fs] *)
Definition check_runpar (fs : list cbres) (o : pobs) : bool :=
  let n := length fs in
  (length (o_calls o) =? n)
  && forallb (fun i => nth i (o_calls o) 0 =? 1) (seq 0 n)
  && ms_eqb (o_errs o) (flat_map (fun r => fail_of (cb_kind r)) fs)
  && negb (o_late o).

(* ---- the model's acceptor: observations some schedule of the faithful model
   (both repairs in, no cancellation) can end with ---- *)
Definition breakers (cbs : list cbres) : nat :=
  length (filter (fun r => is_breaker (cb_kind r)) cbs).

Definition accepts_peach (b : option nat) (cbs : list cbres) (o : pobs) : bool :=
  let n := length cbs in
  let m := list_sum (o_calls o) in
  (* the started inputs are a prefix 0..m-1 *)
  (m <=? n)
  && nat_list_eqb (o_calls o) (repeat 1 m ++ repeat 0 (n - m))
  (* an input is skipped only after a started callback broke or failed *)
  && ((n <=? m) || negb (no_breaker (firstn m cbs)))
  (* the dispatcher saw broken = 0 for the last started input after Acquire had
     succeeded for it: among the m-1 callbacks before it fewer than [bound] may
     be breakers (they must still hold their tokens) *)
  && match b with
     | Some k => (breakers (firstn (m - 1) cbs) <? k) && (o_maxrun o <=? k)
     | None => true
     end
  && (o_maxrun o <=? m)
  && ms_eqb (o_out o) (flat_map cb_outs (firstn m cbs))
  && match b with
     | Some 1 => list_eqb N.eqb (o_out o) (flat_map cb_outs (firstn m cbs))
     | _ => true
     end
  && ms_eqb (o_errs o) (flat_map (fun r => fail_of (cb_kind r)) (firstn m cbs))
  && negb (o_late o).

(* each is a function: the observation must be the model's *)
Definition accepts_each (cbs : list cbres) (e : pobs) : bool :=
  let n := length cbs in
  let a := each_pre (cb_of cbs) n in
  nat_list_eqb (o_calls e) (map (each_calls (cb_of cbs) n) (seq 0 n))
  && list_eqb N.eqb (o_out e) (e_out a)
  && list_eqb N.eqb (o_errs e) (e_errs a)
  && (o_maxrun e <=? 1) && negb (o_late e).

Definition accepts_runpar (fs : list cbres) (o : pobs) : bool :=
  check_runpar fs o
  && ms_eqb (o_out o) (flat_map cb_outs fs)
  && (o_maxrun o <=? length fs).

(* ---- cases ---- *)
Inductive case :=
| CPeach (b : option nat) (cbs : list cbres) (o : pobs) (eo : option pobs)
| CEach (cbs : list cbres) (e : pobs)
| CRunPar (fs : list cbres) (o : pobs).

Definition judge1 (c : case) : N :=
  match c with
  | CPeach b cbs o eo =>
      code (check_peach b cbs o eo)
           (accepts_peach b cbs o
            && match eo with Some e => accepts_each cbs e | None => true end)
  | CEach cbs e => code true (accepts_each cbs e)
  | CRunPar fs o => code (check_runpar fs o) (accepts_runpar fs o)
  end.

Definition judge := judge_with judge1.
