(* C21 — tmp, with and defer restore and clean up on every exit path.
   Model: the C15 interpreter in faithful mode (model/C15_Interp.v: call_closure,
   run_defers, do_assign MTmp/MWith, apply_restores).  The oracle reads the event
   log the generated program wrote with `put` (executable, no proofs).

   Events are lists:  [B fr kind]      a closure body (frame fr, kind fn|lam) begins
                      [R fr k]         deferred callback k registered in frame fr
                      [S fr k ...]     body event of frame fr
                      [Q fr]           the body of frame fr completed normally
                      [Bx fr kind]     frame fr is about to be left by fail/break/continue,
                                       or (kind return) the fn frame fr by return
                      [D fr k ...]     deferred callback k of frame fr runs
                      [Df fr k]        ... and is about to fail with content d<k>
                      [E c v...] [X c v...]  tracked variables before / after statement c
                      [O j e]          outcome of top-level call j ($ok or the exception) *)
From verif Require Import lib.Base model.C15_Syntax model.C15_Values model.C15_Interp.
Open Scope N_scope.

Definition tag_B : bytes := [66].
Definition tag_R : bytes := [82].
Definition tag_S : bytes := [83].
Definition tag_Q : bytes := [81].
Definition tag_Bx : bytes := [66; 120].
Definition tag_D : bytes := [68].
Definition tag_Df : bytes := [68; 102].
Definition tag_E : bytes := [69].
Definition tag_X : bytes := [88].
Definition tag_O : bytes := [79].
Definition kind_fn : bytes := [102; 110].
Definition kind_return : bytes := [114; 101; 116; 117; 114; 110].

Inductive event :=
| EvB (fr : bytes) (isfn : bool)
| EvR (fr k : bytes)
| EvBody (fr : bytes)                  (* S, or Bx of a non-return kind *)
| EvQ (fr : bytes)
| EvRet (fr : bytes)                   (* Bx fr return *)
| EvD (fr k : bytes)
| EvDf (fr k : bytes)
| EvE (c : bytes) (vals : list value)
| EvX (c : bytes) (vals : list value)
| EvO (j : bytes) (e : value)
| EvOther.

Definition parse_event (v : value) : event :=
  match v with
  | VList (VStr t :: VStr a :: rest) =>
    if bytes_eqb t tag_B then
      EvB a (match rest with VStr k :: _ => bytes_eqb k kind_fn | _ => false end)
    else if bytes_eqb t tag_R then match rest with VStr k :: _ => EvR a k | _ => EvOther end
    else if bytes_eqb t tag_S then EvBody a
    else if bytes_eqb t tag_Q then EvQ a
    else if bytes_eqb t tag_Bx then
      match rest with
      | VStr k :: _ => if bytes_eqb k kind_return then EvRet a else EvBody a
      | _ => EvOther
      end
    else if bytes_eqb t tag_D then match rest with VStr k :: _ => EvD a k | _ => EvOther end
    else if bytes_eqb t tag_Df then match rest with VStr k :: _ => EvDf a k | _ => EvOther end
    else if bytes_eqb t tag_E then EvE a rest
    else if bytes_eqb t tag_X then EvX a rest
    else if bytes_eqb t tag_O then match rest with e :: _ => EvO a e | _ => EvOther end
    else EvOther
  | _ => EvOther
  end.

Definition frame_of (e : event) : option bytes :=
  match e with
  | EvB fr _ | EvR fr _ | EvBody fr | EvQ fr | EvRet fr | EvD fr _ | EvDf fr _ => Some fr
  | _ => None
  end.

(* ---- rule 1: per activation, the deferred callbacks run exactly once, in
   reverse registration order, after every body event of the activation ---- *)

(* one activation of a frame: events tagged with it from one B to the next *)
Record activation := mkAct {
  a_fn : bool;
  a_regs : list bytes;        (* registered, in order *)
  a_ran : list bytes;         (* ran, in order *)
  a_late : bool;              (* a body event or registration after a deferred callback ran *)
  a_success : bool;           (* last body event is Q, or Ret in a fn frame *)
  a_dfail : list bytes        (* deferred callbacks that announced their failure *)
}.

Definition act_step (a : activation) (e : event) : activation :=
  let started := match a_ran a with [] => false | _ => true end in
  match e with
  | EvR _ k => mkAct (a_fn a) (a_regs a ++ [k]) (a_ran a) (a_late a || started) false (a_dfail a)
  | EvBody _ => mkAct (a_fn a) (a_regs a) (a_ran a) (a_late a || started) false (a_dfail a)
  | EvQ _ => mkAct (a_fn a) (a_regs a) (a_ran a) (a_late a || started) true (a_dfail a)
  | EvRet _ => mkAct (a_fn a) (a_regs a) (a_ran a) (a_late a || started) (a_fn a) (a_dfail a)
  | EvD _ k => mkAct (a_fn a) (a_regs a) (a_ran a ++ [k]) (a_late a) (a_success a) (a_dfail a)
  | EvDf _ k => mkAct (a_fn a) (a_regs a) (a_ran a) (a_late a) (a_success a) (a_dfail a ++ [k])
  | _ => a
  end.

(* activations of frame fr, in order *)
Fixpoint activations (fr : bytes) (log : list event) (cur : option activation) : list activation :=
  match log with
  | [] => match cur with Some a => [a] | None => [] end
  | e :: r =>
    match frame_of e with
    | Some f =>
      if bytes_eqb f fr then
        match e with
        | EvB _ isfn =>
          (match cur with Some a => [a] | None => [] end)
          ++ activations fr r (Some (mkAct isfn [] [] false false []))
        | _ => activations fr r (match cur with Some a => Some (act_step a e) | None => None end)
        end
      else activations fr r cur
    | None => activations fr r cur
    end
  end.

Definition list_bytes_eqb := list_eqb bytes_eqb.

Definition act_ok (a : activation) : bool :=
  list_bytes_eqb (a_ran a) (rev (a_regs a)) && negb (a_late a).

Fixpoint frames_of (log : list event) (seen : list bytes) : list bytes :=
  match log with
  | [] => rev seen
  | EvB fr _ :: r => if existsb (bytes_eqb fr) seen then frames_of r seen else frames_of r (fr :: seen)
  | _ :: r => frames_of r seen
  end.

Definition rule_defers (log : list event) : bool :=
  forallb (fun fr => forallb act_ok (activations fr log None)) (frames_of log []).

(* ---- rule 2: the tracked variables after a bracketed statement equal their
   values before it ---- *)
Fixpoint rule_restore (log : list event) (stack : list (bytes * list value)) : bool :=
  match log with
  | [] => match stack with [] => true | _ => false end
  | EvE c vs :: r => rule_restore r ((c, vs) :: stack)
  | EvX c vs :: r =>
    match stack with
    | (c', vs') :: st => bytes_eqb c c' && list_eqb value_eqb vs vs' && rule_restore r st
    | [] => false
    end
  | _ :: r => rule_restore r stack
  end.

(* ---- rule 3: a deferred callback's exception is the outcome only if the body
   of its frame succeeded ---- *)
Definition dfail_content (k : bytes) : value := VStr (100 :: k).      (* d<k> *)

Definition masked_ok (log : list event) (e : value) : bool :=
  match e with
  | VExc KFail [VStr (100 :: k)] =>
    (* every activation in which callback k announced that failure had a successful body *)
    forallb (fun fr =>
      forallb (fun a => negb (existsb (bytes_eqb k) (a_dfail a)) || a_success a)
              (activations fr log None))
      (frames_of log [])
  | _ => true
  end.

Definition rule_masking (log : list event) : bool :=
  forallb (fun e => match e with EvO _ x => masked_ok log x | _ => true end) log.

Definition check_C21 (out : list value) : bool :=
  let log := map parse_event out in
  rule_defers log && rule_restore log [] && rule_masking log.

Record case := mkCase {
  c_prog : chunk;
  c_out : list value;
  c_exc : value
}.

Definition judge1 (c : case) : N :=
  let r := run_program default_fuel true (c_prog c) in
  code (check_C21 (c_out c))
       (negb (finished r) || (vals_match (outputs r) (c_out c) && val_match (final_exc r) (c_exc c))).

Definition judge := judge_with judge1.
