(* C15 — the reference interpreter: a fuel-indexed big-step evaluator for the
   core language, written from website/ref/language.md (executable, no proofs).

   Structure: [step run t s] performs one level of evaluation of task [t] and
   uses [run] for every sub-evaluation that is not structurally smaller;
   [eval (S n) = step (eval n)] and [eval 0] answers OutOfFuel.  All inspection
   of sub-results goes through [bind] / [settle], which propagate OutOfFuel and
   Unsupported, so that more fuel never changes a finished result.

   Pipelines of value-stream builtins are evaluated stage by stage (every
   non-first stage drains its input; DESIGN C18).  Every { } block of a special
   command is a closure call: new scope, own defer list (language.md: "the body
   blocks introduce new scopes because they are lambdas"). *)
From verif Require Import lib.Base model.C15_Syntax model.C15_Values.
Open Scope N_scope.

Inductive task :=
| TExpr (e : expr)
| TCmd (c : cmd) (inp : list value)
| TChunk (c : chunk)
| TCall (f : value) (args : list value) (opts : list (N * value)) (inp : list value)
| TWhile (cond : expr) (body : chunk) (els : option chunk) (iterated : bool).

Definition runner := task -> state -> res.

(* ---- result combinators ---- *)
Definition ret (s : state) (vs : list value) : res := (s, Done vs).
Definition throw (s : state) (k : exkind) (p : list value) : res := (s, Exc k p).
Definition unsup (s : state) : res := (s, Unsupported).

Definition bind (r : res) (k : state -> list value -> res) : res :=
  match r with
  | (s, Done vs) => k s vs
  | _ => r
  end.

(* continue after a finished evaluation, whether it completed or raised *)
Definition settle (r : res) (k : state -> outcome -> res) : res :=
  match r with
  | (s, Done vs) => k s (Done vs)
  | (s, Exc e p) => k s (Exc e p)
  | _ => r
  end.

Definition lift {A} (s : state) (p : pres A) (k : A -> res) : res :=
  match p with
  | POk a => k a
  | PErr e => throw s e []
  | PUnsup => unsup s
  end.

(* a command's outcome carries no values *)
Definition norm (o : outcome) : outcome := match o with Done _ => Done [] | x => x end.

Definition cell (s : state) (a : nat) : value := nth a (st_store s) VNil.
Definition store_at (s : state) (a : nat) (v : value) : state :=
  set_store s (upd_nth (st_store s) a v).

(* ---- expression lists ---- *)
Fixpoint eval_list (run : runner) (es : list expr) (s : state) (acc : list value) : res :=
  match es with
  | [] => ret s acc
  | e :: r => bind (run (TExpr e) s) (fun s' vs => eval_list run r s' (acc ++ vs))
  end.

(* one VList per expression *)
Fixpoint eval_groups (run : runner) (es : list expr) (s : state) (acc : list value) : res :=
  match es with
  | [] => ret s acc
  | e :: r => bind (run (TExpr e) s) (fun s' vs => eval_groups run r s' (acc ++ [VList vs]))
  end.

(* expressions that must each yield exactly one value *)
Fixpoint eval_singles (run : runner) (es : list expr) (s : state) (acc : list value)
         (k : state -> list value -> res) : res :=
  match es with
  | [] => k s acc
  | e :: r => bind (run (TExpr e) s) (fun s' vs =>
                match vs with
                | [v] => eval_singles run r s' (acc ++ [v]) k
                | _ => throw s' KOther []
                end)
  end.

Fixpoint eval_opts (run : runner) (opts : list (N * expr)) (s : state) (acc : list (N * value))
         (k : state -> list (N * value) -> res) : res :=
  match opts with
  | [] => k s acc
  | (x, e) :: r => bind (run (TExpr e) s) (fun s' vs =>
                     match vs with
                     | [v] => eval_opts run r s' (acc ++ [(x, v)]) k
                     | _ => unsup s'
                     end)
  end.

(* ---- compounding: outer product, leftmost varies slowest ---- *)
Fixpoint concat_all (a : value) (bs : list value) : pres (list value) :=
  match bs with
  | [] => POk []
  | b :: r => pbind (concat2 a b) (fun x => pbind (concat_all a r) (fun y => POk (x :: y)))
  end.

Fixpoint product (acc bs : list value) : pres (list value) :=
  match acc with
  | [] => POk []
  | a :: r => pbind (concat_all a bs) (fun x => pbind (product r bs) (fun y => POk (x ++ y)))
  end.

Fixpoint compound (groups : list value) (acc : list value) : pres (list value) :=
  match groups with
  | [] => POk acc
  | VList g :: r => pbind (product acc g) (fun acc' => compound r acc')
  | _ => PUnsup
  end.

(* ---- indexing: every indexee with every index, first indexee first ---- *)
Fixpoint index_each (v : value) (ixs : list value) : pres (list value) :=
  match ixs with
  | [] => POk []
  | i :: r => pbind (index_value v i) (fun x => pbind (index_each v r) (fun y => POk (x :: y)))
  end.

Fixpoint index_all (vs ixs : list value) : pres (list value) :=
  match vs with
  | [] => POk []
  | v :: r => pbind (index_each v ixs) (fun x => pbind (index_all r ixs) (fun y => POk (x ++ y)))
  end.

Fixpoint map_of_pairs (ks vs : list value) (m : list (value * value)) : pres (list (value * value)) :=
  match ks, vs with
  | [], [] => POk m
  | k :: ks', v :: vs' => if plain k then map_of_pairs ks' vs' (map_assoc m k v) else PUnsup
  | _, _ => PErr KOther       (* n keys but m values *)
  end.

(* ---- distributing values over lvalues / parameters ---- *)
Fixpoint find_rest (rs : list bool) : option nat :=
  match rs with
  | [] => None
  | true :: _ => Some O
  | false :: r => match find_rest r with Some i => Some (S i) | None => None end
  end.

(* n slots, slot [rest] (if any) takes a list of the surplus values *)
Definition distribute (rest : option nat) (n : nat) (vals : list value) : option (list value) :=
  match rest with
  | None => if Nat.eqb n (length vals) then Some vals else None
  | Some r =>
    if Nat.ltb (length vals) (n - 1) then None
    else let k := (length vals - (n - 1))%nat in
         Some (firstn r vals ++ [VList (firstn k (skipn r vals))] ++ skipn (r + k) vals)
  end.

(* ---- assignment targets ---- *)
Record target := mkTarget {
  t_addr : nat;            (* the variable's cell *)
  t_ixs : list value;      (* element path; [] for a plain variable *)
  t_snap : value           (* the variable's value when the lvalue was evaluated *)
}.

Fixpoint eval_lvalues (run : runner) (lvs : list lvalue) (s : state) (acc : list target)
         (k : state -> list target -> res) : res :=
  match lvs with
  | [] => k s acc
  | ((_, x), ixs) :: r =>
    match lookup (st_env s) x with
    | None => unsup s
    | Some a =>
      eval_singles run ixs s [] (fun s' ivs =>
        let cur := cell s' a in
        lift s' (check_path cur ivs) (fun _ =>
          eval_lvalues run r s' (acc ++ [mkTarget a ivs cur]) k))
    end
  end.

(* The new value of the variable: the nested assoc of its current value —
   or, in faithful mode, of the value read when the lvalue was evaluated. *)
Definition assign_target (s : state) (t : target) (v : value) : pres state :=
  match t_ixs t with
  | [] => POk (store_at s (t_addr t) v)
  | ixs =>
    let base := if st_stale s then t_snap t else cell s (t_addr t) in
    pbind (nested_assoc base ixs v) (fun nv => POk (store_at s (t_addr t) nv))
  end.

(* assign left to right; collect one restore per successful assignment
   (most recent first); stop at the first failure *)
Fixpoint assign_all (s : state) (ts : list target) (vs : list value) (rs : list deferred)
  : state * list deferred * pres unit :=
  match ts, vs with
  | t :: ts', v :: vs' =>
    let old := cell s (t_addr t) in
    match assign_target s t v with
    | POk s' => assign_all s' ts' vs' (DRestore (t_addr t) old :: rs)
    | PErr e => (s, rs, PErr e)
    | PUnsup => (s, rs, PUnsup)
    end
  | _, _ => (s, rs, POk tt)
  end.

Inductive amode := MSet | MTmp | MWith.

Definition register (m : amode) (s : state) (rs : list deferred) : state :=
  match m with
  | MSet => s
  | MTmp => emit (set_defers s (rs ++ st_defers s)) (map (GReg (g_frame (st_ghost s))) rs)
  | MWith => emit (set_wrest s (rs ++ st_wrest s)) (map (GWAssign (g_wid (st_ghost s))) rs)
  end.

(* lvalues (with their indices) first, then the right-hand side, then the
   assignments in order *)
Definition do_assign (run : runner) (m : amode) (lvs : list lvalue) (rhs : list expr)
           (s : state) : res :=
  eval_lvalues run lvs s [] (fun s1 ts =>
    bind (eval_list run rhs s1 []) (fun s2 vs =>
      match distribute (find_rest (map (fun lv => fst (fst lv)) lvs)) (length lvs) vs with
      | None => throw s2 KArity []
      | Some vs' =>
        let '(s3, rs, st) := assign_all s2 ts vs' [] in
        let s4 := register m s3 rs in
        lift s4 st (fun _ => ret s4 [])
      end)).

(* undo: the list is most recent first, so this is reverse assignment order *)
Fixpoint apply_restores (s : state) (rs : list deferred) : state :=
  match rs with
  | [] => s
  | DRestore a v :: r => apply_restores (store_at s a v) r
  | DCall _ :: r => apply_restores s r
  end.

Fixpoint with_assigns (run : runner)
         (assigns : list (list lvalue * list expr)) (s : state) : res :=
  match assigns with
  | [] => ret s []
  | (lvs, rhs) :: r => bind (do_assign run MWith lvs rhs s) (fun s' _ => with_assigns run r s')
  end.

(* ---- closures ---- *)
Definition block (body : chunk) (s : state) : value := VClos [] None [] body (st_env s) false.

Fixpoint alloc_all (s : state) (bs : list (N * value)) (e : env) : state * env :=
  match bs with
  | [] => (s, e)
  | (x, v) :: r => let '(s', a) := alloc s v in alloc_all s' r ((x, a) :: e)
  end.

Fixpoint opt_lookup (l : list (N * value)) (x : N) : option value :=
  match l with
  | [] => None
  | (y, v) :: r => if N.eqb x y then Some v else opt_lookup r x
  end.

Definition bind_opts (declared supplied : list (N * value)) : option (list (N * value)) :=
  if forallb (fun sv => match opt_lookup declared (fst sv) with Some _ => true | None => false end)
             supplied
  then Some (map (fun d => (fst d, match opt_lookup (rev supplied) (fst d) with
                                   | Some v => v | None => snd d end)) declared)
  else None.

(* deferred work of a frame, most recent first; the first exception is kept *)
Fixpoint run_defers (run : runner) (fid : nat) (ds : list deferred) (s : state)
         (first : option (exkind * list value)) : res :=
  match ds with
  | [] => match first with None => ret s [] | Some (k, p) => throw s k p end
  | DRestore a v :: r => run_defers run fid r (emit (store_at s a v) [GRun fid (DRestore a v)]) first
  | DCall f :: r =>
    settle (run (TCall f [] [] []) (emit s [GRun fid (DCall f)])) (fun s' o =>
      run_defers run fid r s'
        match first, o with
        | None, Exc k p => Some (k, p)      (* a callback that succeeds contributes nothing *)
        | _, _ => first
        end)
  end.

Definition call_closure (run : runner) (args : list N) (rest : option nat)
           (opts : list (N * value)) (body : chunk) (cenv : env) (isfn : bool)
           (vals : list value) (sopts : list (N * value)) (s : state) : res :=
  match distribute rest (length args) vals with
  | None => throw s KArity []
  | Some vals' =>
    match bind_opts opts sopts with
    | None => throw s KBadOpt []
    | Some obs =>
      let '(s1, e1) := alloc_all s (combine args vals' ++ obs) cenv in
      let fid := g_next (st_ghost s1) in
      let s2 := enter_frame (set_frame s1 e1 [] true) in
      settle (run (TChunk body) s2) (fun s3 o =>
        (* `fn` captures return *)
        let o1 := match o with
                  | Exc KReturn _ => if isfn then Done [] else o
                  | _ => norm o
                  end in
        settle (run_defers run fid (st_defers s3) (set_defers s3 []) None) (fun s4 o' =>
          (leave_frame (set_frame s4 (st_env s) (st_defers s) (st_infn s)) fid (g_frame (st_ghost s)),
           match o1 with
           | Done _ => norm o'        (* a deferred exception shows only if the body succeeded *)
           | _ => o1
           end)))
    end
  end.

Definition call_block (run : runner) (body : chunk) (s : state) : res :=
  run (TCall (block body s) [] [] []) s.

(* ---- loops over a finite list of items ---- *)
Fixpoint for_loop (run : runner) (a : nat) (items : list value) (body : chunk)
         (els : option chunk) (iterated : bool) (s : state) : res :=
  match items with
  | [] => if iterated then ret s []
          else match els with Some e => call_block run e s | None => ret s [] end
  | v :: r =>
    let s1 := store_at s a v in
    settle (call_block run body s1) (fun s2 o =>
      match o with
      | Exc KBreak _ => ret s2 []
      | Exc KContinue _ | Done _ => for_loop run a r body els true s2
      | _ => (s2, o)
      end)
  end.

Fixpoint each_loop (run : runner) (f : value) (items : list value) (s : state) : res :=
  match items with
  | [] => ret s []
  | v :: r =>
    settle (run (TCall f [v] [] []) s) (fun s2 o =>
      match o with
      | Exc KBreak _ => ret s2 []
      | Exc KContinue _ | Done _ => each_loop run f r s2
      | _ => (s2, o)
      end)
  end.

(* ---- and / or / coalesce ---- *)
Fixpoint scan_stop (stop : value -> bool) (vs : list value) (last : value) : value * bool :=
  match vs with
  | [] => (last, false)
  | v :: r => if stop v then (v, true) else scan_stop stop r v
  end.

Fixpoint short_circuit (run : runner) (stop : value -> bool) (keep_last : bool)
         (es : list expr) (last : value) (s : state) : res :=
  match es with
  | [] => ret (put_out s [last]) []
  | e :: r => bind (run (TExpr e) s) (fun s' vs =>
                let '(v, stopped) := scan_stop stop vs last in
                if stopped then ret (put_out s' [v]) []
                else short_circuit run stop keep_last r (if keep_last then v else last) s')
  end.

(* ---- builtin commands ---- *)
Fixpoint nums_of (vs : list value) : pres (list Z) :=
  match vs with
  | [] => POk []
  | v :: r => pbind (to_num v) (fun z => pbind (nums_of r) (fun zs => POk (z :: zs)))
  end.

Fixpoint chain (rel : Z -> Z -> bool) (zs : list Z) : bool :=
  match zs with
  | a :: ((b :: _) as r) => rel a b && chain rel r
  | _ => true
  end.

Fixpoint chain_v (rel : value -> value -> bool) (vs : list value) : bool :=
  match vs with
  | a :: ((b :: _) as r) => rel a b && chain_v rel r
  | _ => true
  end.

Fixpoint range_up (n : nat) (a : Z) : list value :=
  match n with O => [] | S n' => VNum a :: range_up n' (a + 1)%Z end.
Fixpoint range_down (n : nat) (a : Z) : list value :=
  match n with O => [] | S n' => VNum a :: range_down n' (a - 1)%Z end.

Definition out1 (s : state) (v : value) : res := ret (put_out s [v]) [].

Definition inputs_of (rest : list value) (inp : list value) (s : state)
           (k : list value -> res) : res :=
  match rest with
  | [] => k inp
  | [c] => lift s (iterate_value c) k
  | _ => throw s KArity []
  end.

Definition compare (s : state) (rel : Z -> Z -> bool) (args : list value) : res :=
  lift s (nums_of args) (fun zs => out1 s (VBool (chain rel zs))).

Definition apply_builtin (run : runner) (b : builtin) (args : list value)
           (opts : list (N * value)) (inp : list value) (s : state) : res :=
  match opts, b with
  | _ :: _, BNop => ret s []
  | _ :: _, BRange => unsup s
  | _ :: _, _ => throw s KOther []         (* function does not accept any options *)
  | [], _ =>
    match b with
    | BPut => ret (put_out s args) []
    | BNop => ret s []
    | BFail =>
      match args with
      | [VExc k p] => throw s k p           (* fail with an exception rethrows it *)
      | [VOpaque] => unsup s
      | [v] => throw s KFail [v]
      | _ => throw s KArity []
      end
    | BBreak => match args with [] => throw s KBreak [] | _ => throw s KArity [] end
    | BContinue => match args with [] => throw s KContinue [] | _ => throw s KArity [] end
    | BReturn => match args with [] => throw s KReturn [] | _ => throw s KArity [] end
    | BAdd => lift s (nums_of args) (fun zs => out1 s (VNum (fold_left Z.add zs 0%Z)))
    | BMul => lift s (nums_of args) (fun zs => out1 s (VNum (fold_left Z.mul zs 1%Z)))
    | BSub =>
      match args with
      | [] => throw s KArity []
      | _ => lift s (nums_of args) (fun zs =>
               match zs with
               | [a] => out1 s (VNum (- a)%Z)
               | a :: r => out1 s (VNum (fold_left Z.sub r a))
               | [] => throw s KArity []
               end)
      end
    | BMod =>
      match args with
      | [_; _] => lift s (nums_of args) (fun zs =>
                    match zs with
                    | [a; d] =>
                      if negb (fits_int a && fits_int d) then unsup s
                      else if (d =? 0)%Z then throw s KBadValue []
                      else out1 s (VNum (Z.rem a d))
                    | _ => throw s KArity []
                    end)
      | _ => throw s KArity []
      end
    | BLt => compare s Z.ltb args
    | BLe => compare s Z.leb args
    | BEq => compare s Z.eqb args
    | BGt => compare s Z.gtb args
    | BGe => compare s Z.geb args
    | BNe => match args with
             | [_; _] => compare s (fun a b => negb (Z.eqb a b)) args
             | _ => throw s KArity []
             end
    | BValEq => if forallb plain args
                then out1 s (VBool (match args with
                                    | [] => true
                                    | a :: r => forallb (value_eqb a) r
                                    end))
                else unsup s
    | BNotEq => if forallb plain args
                then out1 s (VBool (chain_v (fun a b => negb (value_eqb a b)) args))
                else unsup s
    | BNot => match args with [v] => out1 s (VBool (negb (truthy v))) | _ => throw s KArity [] end
    | BEach =>
      match args with
      | f :: rest =>
        match rest with
        | _ :: _ :: _ => throw s KArity []
        | _ =>
          match f with
          | VClos _ _ _ _ _ _ => inputs_of rest inp s (fun items => each_loop run f items s)
          | VOpaque => unsup s
          | _ => throw s KArgType []
          end
        end
      | [] => throw s KArity []
      end
    | BTake | BDrop =>
      match args with
      | n :: rest =>
        match rest with
        | _ :: _ :: _ => throw s KArity []
        | _ =>
          lift s (to_num n) (fun z =>
            if negb (fits_int z) then unsup s else
            inputs_of rest inp s (fun items =>
              ret (put_out s (match b with
                              | BTake => firstn (Z.to_nat z) items
                              | _ => skipn (Z.to_nat z) items
                              end)) []))
        end
      | [] => throw s KArity []
      end
    | BCount =>
      match args with
      | [] => out1 s (VNum (Z.of_nat (length inp)))
      | [VList l] => out1 s (VNum (Z.of_nat (length l)))
      | [VMap m] => out1 s (VNum (Z.of_nat (length m)))
      | [VStr t] => if ascii_only t then out1 s (VNum (Z.of_nat (length t))) else unsup s
      | [VOpaque] | [VExc _ _] | [VClos _ _ _ _ _ _] => unsup s
      | [_] => throw s KOther []
      | _ => throw s KArity []
      end
    | BAll => inputs_of args inp s (fun items => ret (put_out s items) [])
    | BKeys =>
      (* the keys of a map, in an unspecified order (here: the model's) *)
      match args with
      | [VMap m] => ret (put_out s (map fst m)) []
      | [VOpaque] | [VExc _ _] | [VClos _ _ _ _ _ _] => unsup s
      | [_] => throw s KOther []
      | _ => throw s KArity []
      end
    | BRange =>
      match args with
      | [_] | [_; _] =>
        lift s (nums_of args) (fun zs =>
          let '(a, e) := match zs with [e] => (0%Z, e) | [a; e] => (a, e) | _ => (0%Z, 0%Z) end in
          if (1000 <? Z.abs (e - a))%Z then unsup s
          else if (a <=? e)%Z then ret (put_out s (range_up (Z.to_nat (e - a)) a)) []
          else ret (put_out s (range_down (Z.to_nat (a - e)) a)) [])
      | _ => throw s KArity []
      end
    | BDefer =>
      match args with
      | [f] =>
        match f with
        | VClos _ _ _ _ _ _ =>
          if st_infn s
          then ret (emit (set_defers s (DCall f :: st_defers s)) [GReg (g_frame (st_ghost s)) (DCall f)]) []
          else throw s KOther []          (* defer must be called from within a closure *)
        | VOpaque => unsup s
        | _ => throw s KArgType []
        end
      | _ => throw s KArity []
      end
    end
  end.

(* ---- special commands that walk a list ---- *)
Fixpoint if_chain (run : runner) (branches : list (expr * chunk)) (els : option chunk)
         (s : state) : res :=
  match branches with
  | [] => match els with Some e => call_block run e s | None => ret s [] end
  | (c, b) :: r =>
    bind (run (TExpr c) s) (fun s1 vs =>
      if forallb truthy vs then call_block run b s1 else if_chain run r els s1)
  end.

Fixpoint del_targets (run : runner) (ts : list (N * list expr)) (s : state) : res :=
  match ts with
  | [] => ret s []
  | (x, []) :: r => del_targets run r (set_env s (remove_first (st_env s) x))
  | (x, ixs) :: r =>
    match lookup (st_env s) x with
    | None => unsup s
    | Some a =>
      eval_singles run ixs s [] (fun s' ivs =>
        lift s' (nested_dissoc (cell s' a) ivs) (fun nv =>
          del_targets run r (store_at s' a nv)))
    end
  end.

Fixpoint declare_all (s : state) (xs : list N) (vs : list value) : state :=
  match xs, vs with
  | x :: xs', v :: vs' =>
    let '(s', a) := alloc s v in declare_all (set_env s' ((x, a) :: st_env s')) xs' vs'
  | _, _ => s
  end.

(* ---- pipelines: stage by stage ---- *)
Definition exc_of (o : outcome) : list value :=
  match o with Exc k p => [VExc k p] | _ => [] end.

Definition finish_pipe (s : state) (excs : list value) : res :=
  match excs with
  | [] => ret s []
  | [VExc k p] => throw s k p
  | l => throw s KPipe l
  end.

Fixpoint run_stages (run : runner) (stages : list cmd) (inp : list value) (s : state)
         (excs : list value) : res :=
  match stages with
  | [] => finish_pipe s excs
  | [c] => settle (run (TCmd c inp) s) (fun s1 o => finish_pipe s1 (excs ++ exc_of o))
  | c :: r =>
    let saved := st_out s in
    settle (run (TCmd c inp) (set_out s [])) (fun s1 o =>
      let produced := rev (st_out s1) in
      if Nat.ltb 30 (length produced) then unsup s1      (* beyond the channel buffer *)
      else run_stages run r produced (set_out s1 saved) (excs ++ exc_of o))
  end.

Fixpoint run_chunk (run : runner) (c : chunk) (s : state) : res :=
  match c with
  | [] => ret s []
  | p :: r => bind (run_stages run p [] s []) (fun s' _ => run_chunk run r s')
  end.

(* ---- one level of evaluation ---- *)
Definition step_expr (run : runner) (e : expr) (s : state) : res :=
  match e with
  | EStr b => ret s [VStr b]
  | EVar x => match lookup (st_env s) x with
              | Some a => ret s [cell s a]
              | None => unsup s
              end
  | EExplode x => match lookup (st_env s) x with
                  | Some a => lift s (iterate_value (cell s a)) (fun l => ret s l)
                  | None => unsup s
                  end
  | EList es => bind (eval_list run es s []) (fun s' vs => ret s' [VList vs])
  | EMap kvs =>
    bind (eval_groups run (map fst kvs) s []) (fun s1 kgs =>
    bind (eval_groups run (map snd kvs) s1 []) (fun s2 vgs =>
      (* each pair: its keys and values must match in number *)
      (fix go (kgs vgs : list value) (m : list (value * value)) : res :=
         match kgs, vgs with
         | VList ks :: kr, VList vs :: vr =>
           lift s2 (map_of_pairs ks vs m) (fun m' => go kr vr m')
         | [], [] => ret s2 [VMap m]
         | _, _ => unsup s2
         end) kgs vgs []))
  | ELam args rest opts body =>
    eval_opts run opts s [] (fun s' ovs => ret s' [VClos args rest ovs body (st_env s') false])
  | ECapture c =>
    let saved := st_out s in
    settle (run (TChunk c) (set_out s [])) (fun s' o =>
      let got := rev (st_out s') in
      let s'' := set_out s' saved in
      match o with
      | Done _ => ret s'' got
      | _ => (s'', o)
      end)
  | EExcCapture c =>
    settle (run (TChunk c) s) (fun s' o =>
      match o with
      | Exc k p => ret s' [VExc k p]
      | _ => ret s' [VOk]
      end)
  | EBraced es => eval_list run es s []
  | EIndex e ixs =>
    bind (run (TExpr e) s) (fun s1 vs =>
    bind (eval_list run ixs s1 []) (fun s2 ivs =>
      lift s2 (index_all vs ivs) (fun r => ret s2 r)))
  | ECompound es =>
    bind (eval_groups run es s []) (fun s' gs =>
      match gs with
      | VList g :: r => lift s' (compound r g) (fun vs => ret s' vs)
      | _ => unsup s'
      end)
  end.

Definition step_cmd (run : runner) (c : cmd) (inp : list value) (s : state) : res :=
  match c with
  | CCall h args opts =>
    bind (run (TExpr h) s) (fun s1 hv =>
      match hv with
      | [f] =>
        bind (eval_list run args s1 []) (fun s2 avs =>
          eval_opts run opts s2 [] (fun s3 ovs => run (TCall f avs ovs inp) s3))
      | _ => unsup s1
      end)
  | CCmd x args opts =>
    match lookup (st_env s) x with
    | None => unsup s
    | Some a =>
      bind (eval_list run args s []) (fun s2 avs =>
        eval_opts run opts s2 [] (fun s3 ovs => run (TCall (cell s3 a) avs ovs inp) s3))
    end
  | CBuiltin b args opts =>
    bind (eval_list run args s []) (fun s2 avs =>
      eval_opts run opts s2 [] (fun s3 ovs => apply_builtin run b avs ovs inp s3))
  | CVar lvs rhs =>
    match rhs with
    | None =>
      if existsb fst lvs then unsup s
      else ret (declare_all s (map snd lvs) (map (fun _ => VNil) lvs)) []
    | Some es =>
      (* the right-hand side still sees the variables being shadowed *)
      bind (eval_list run es s []) (fun s1 vs =>
        match distribute (find_rest (map fst lvs)) (length lvs) vs with
        | None => throw s1 KArity []
        | Some vs' => ret (declare_all s1 (map snd lvs) vs') []
        end)
    end
  | CSet lvs rhs => do_assign run MSet lvs rhs s
  | CTmp lvs rhs => if st_infn s then do_assign run MTmp lvs rhs s else unsup s
  | CWith assigns body =>
    let saved := st_wrest s in
    let w := g_next (st_ghost s) in
    settle (with_assigns run assigns (enter_with (set_wrest s []))) (fun s1 o =>
      let rs := st_wrest s1 in
      let s2 := leave_with (set_wrest s1 saved) (g_wid (st_ghost s)) in
      let undo (s' : state) := emit (apply_restores s' rs) (rev (map (GWRestore w) rs)) in
      match o with
      | Done _ =>
        settle (call_block run body s2) (fun s3 o' => (undo s3, norm o'))
      | _ => (undo s2, o)      (* a failed assignment: undo the earlier ones *)
      end)
  | CDel ts => del_targets run ts s
  | CIf branches els => if_chain run branches els s
  | CWhile cond body els => run (TWhile cond body els false) s
  | CFor decl x e body els =>
    let s0 := if decl then let '(s', a) := alloc s VNil in set_env s' ((x, a) :: st_env s')
              else s in
    match lookup (st_env s0) x with
    | None => unsup s0
    | Some a =>
      bind (run (TExpr e) s0) (fun s1 vs =>
        match vs with
        | [v] => lift s1 (iterate_value v) (fun items => for_loop run a items body els false s1)
        | _ => throw s1 KArity []
        end)
    end
  | CTry body catch els fin =>
    let s0 := match catch with
              | Some (Some (true, x), _) =>
                let '(s', a) := alloc s VNil in set_env s' ((x, a) :: st_env s')
              | _ => s
              end in
    let r1 :=
      settle (call_block run body s0) (fun s1 o =>
        match o with
        | Exc k p =>
          match catch with
          | Some (cv, cb) =>
            match cv with
            | Some (_, x) =>
              match lookup (st_env s1) x with
              | Some a => call_block run cb (store_at s1 a (VExc k p))
              | None => unsup s1
              end
            | None => call_block run cb s1
            end
          | None => (s1, o)
          end
        | _ =>
          match els with
          | Some e => call_block run e s1
          | None => ret s1 []
          end
        end) in
    match fin with
    | None => settle r1 (fun s2 o => (s2, norm o))
    | Some f =>
      (* the finally block runs after every finished outcome; its own
         exception replaces the pending one *)
      settle r1 (fun s2 o =>
        settle (call_block run f s2) (fun s3 o' =>
          match o' with
          | Exc _ _ => (s3, o')
          | _ => (s3, norm o)
          end))
    end
  | CFn f args rest opts body =>
    let '(s1, a) := alloc s VNil in
    let s2 := set_env s1 ((f, a) :: st_env s1) in
    eval_opts run opts s2 [] (fun s3 ovs =>
      ret (store_at s3 a (VClos args rest ovs body (st_env s3) true)) [])
  | CAnd es => short_circuit run (fun v => negb (truthy v)) true es (VBool true) s
  | COr es => short_circuit run truthy true es (VBool false) s
  | CCoalesce es =>
    short_circuit run (fun v => match v with VNil => false | _ => true end) false es VNil s
  end.

Definition step (run : runner) (t : task) (s : state) : res :=
  match t with
  | TExpr e => step_expr run e s
  | TCmd c inp => step_cmd run c inp s
  | TChunk c => run_chunk run c s
  | TCall f args opts inp =>
    match f with
    | VClos a r o body cenv isfn => call_closure run a r o body cenv isfn args opts s
    | VOpaque => unsup s
    | _ => throw s KBadValue []      (* command must be callable *)
    end
  | TWhile cond body els iterated =>
    bind (run (TExpr cond) s) (fun s1 vs =>
      if forallb truthy vs then
        settle (call_block run body s1) (fun s2 o =>
          match o with
          | Exc KBreak _ => ret s2 []
          | Exc KContinue _ | Done _ => run (TWhile cond body els true) s2
          | _ => (s2, o)
          end)
      else if iterated then ret s1 []
      else match els with Some e => call_block run e s1 | None => ret s1 [] end)
  end.

Fixpoint eval (fuel : nat) (t : task) (s : state) : res :=
  match fuel with
  | O => (s, OutOfFuel)
  | S n => step (eval n) t s
  end.

(* fuel bounds the nesting depth of evaluation (loops use one level per
   iteration), not the amount of work *)
Definition default_fuel : nat := N.to_nat 1500.

(* $true $false $nil $ok are variables of the builtin namespace *)
Definition const_env : env := [(3000, 0%nat); (3001, 1%nat); (3002, 2%nat); (3003, 3%nat)].
Definition const_store : list value := [VBool true; VBool false; VNil; VOk].
Definition start_state (stale : bool) : state :=
  mkState const_env const_store [] [] false [] ghost0 stale.

Definition run_program (fuel : nat) (stale : bool) (p : chunk) : res :=
  eval fuel (TChunk p) (start_state stale).

Definition outputs (r : res) : list value := rev (st_out (fst r)).

(* the exception that ended a run, as a value ($ok if none) *)
Definition final_exc (r : res) : value :=
  match snd r with Exc k p => VExc k p | _ => VOk end.

Definition finished (r : res) : bool :=
  match snd r with Done _ | Exc _ _ => true | _ => false end.
