(* C09 — eq is an equivalence, compare a consistent total preorder.
   Independent specification of the documented orders, oracle on the
   implementation's observations over a triple, correspondence with the value
   model (model/C08_Value.v).  Executable Gallina only. *)
From verif Require Import lib.Base model.C08_Value.
From Coq Require Import QArith.
Close Scope Q_scope.
Open Scope N_scope.

(* ---- the documented orders, stated independently of cmp ---- *)
(* a number's mathematical value: NaN, -Inf, finite rational, +Inf *)
Inductive xnum := XNaN | XNegInf | XFin (q : Q) | XPosInf.

Definition num_val (v : value) : option xnum :=
  match v with
  | VInt z | VBig z => Some (XFin (Qmake z 1))
  | VRat q => Some (XFin q)
  | VFloat b =>
    Some (if f_is_nan b then XNaN
          else if f_mag b =? f_inf_mag then (if f_sign b then XNegInf else XPosInf)
          else XFin (f_to_Q b))
  | _ => None
  end.

(* NaN equal to NaN and below all other numbers; otherwise by value *)
Definition xnum_cmp (a b : xnum) : ordering :=
  match a, b with
  | XNaN, XNaN => OEq
  | XNaN, _ => OLt
  | _, XNaN => OGt
  | XNegInf, XNegInf => OEq
  | XNegInf, _ => OLt
  | _, XNegInf => OGt
  | XPosInf, XPosInf => OEq
  | XPosInf, _ => OGt
  | _, XPosInf => OLt
  | XFin p, XFin q => of_comparison (Qcompare p q)
  end.

(* Some o = the documented answer of compare; None = nothing documented for
   this pair (maps, functions, values of different types) *)
Fixpoint spec_cmp (a b : value) {struct a} : option ordering :=
  match a, b with
  | VBool x, VBool y => Some (if Bool.eqb x y then OEq else if x then OGt else OLt)
  | VInt _, _ | VBig _, _ | VRat _, _ | VFloat _, _ =>
    match num_val a, num_val b with
    | Some p, Some q => Some (xnum_cmp p q)
    | _, _ => None
    end
  | VStr x, VStr y => Some (bytes_cmp x y)
  | VList _ x, VList _ y =>
    (fix go (x y : list value) {struct x} : option ordering :=
       match x, y with
       | p :: x', q :: y' =>
         match spec_cmp p q with
         | Some OEq => go x' y'
         | r => r
         end
       | [], [] => Some OEq
       | [], _ :: _ => Some OLt
       | _ :: _, [] => Some OGt
       end) x y
  | _, _ => None
  end.

(* ---- observations over a triple: for every ordered pair (x, y) of
   {a, b, c}, row-major: eq, compare, compare &total, through the Go API and
   through the builtins ---- *)
Record pobs := mkPobs {
  e_api : bool; c_api : ordering; t_api : ordering;
  e_bi : bool; c_bi : ordering; t_bi : ordering }.

Definition nth_obs (l : list pobs) (i j : nat) : pobs :=
  nth (3 * i + j) l (mkPobs false OUn OUn false OUn OUn).

Definition le_o (o : ordering) : bool := match o with OLt | OEq => true | _ => false end.
Definition idx3 : list nat := [0; 1; 2]%nat.
Definition all3 (f : nat -> bool) : bool := forallb f idx3.

(* transitivity of an observed comparison matrix at (i, j, k) *)
Definition trans_at (C : nat -> nat -> ordering) (i j k : nat) : bool :=
  if le_o (C i j) && le_o (C j k) then
    le_o (C i k) &&
    (if ordering_eqb (C i j) OLt || ordering_eqb (C j k) OLt
     then ordering_eqb (C i k) OLt else true)
  else true.

(* The property, for one projection (E, C, T) of the observations *)
Definition check_proj (rk : N -> Z) (vs : list value)
           (E : nat -> nat -> bool) (C T : nat -> nat -> ordering) : bool :=
  let v i := nth i vs VNil in
  (* eq: reflexive exactly on NaN-free values, symmetric, transitive *)
  all3 (fun i => Bool.eqb (E i i) (negb (has_nan (v i))))
  && all3 (fun i => all3 (fun j => Bool.eqb (E i j) (E j i)))
  && all3 (fun i => all3 (fun j => all3 (fun k =>
       if E i j && E j k then E i k else true)))
  (* compare: 0 for eq values, antisymmetric, transitive, documented orders *)
  && all3 (fun i => all3 (fun j => if E i j then ordering_eqb (C i j) OEq else true))
  && all3 (fun i => all3 (fun j => ordering_eqb (C i j) (flip (C j i))))
  && all3 (fun i => all3 (fun j => all3 (fun k => trans_at C i j k)))
  && all3 (fun i => all3 (fun j =>
       match spec_cmp (v i) (v j) with
       | Some o => ordering_eqb (C i j) o
       | None => true
       end))
  (* compare &total: total, antisymmetric, transitive, groups by type, agrees
     with compare where compare is defined *)
  && all3 (fun i => all3 (fun j => negb (ordering_eqb (T i j) OUn)))
  && all3 (fun i => all3 (fun j => ordering_eqb (T i j) (flip (T j i))))
  && all3 (fun i => all3 (fun j => all3 (fun k => trans_at T i j k)))
  && all3 (fun i => all3 (fun j =>
       if N.eqb (tag (v i)) (tag (v j)) then true
       else ordering_eqb (T i j) (of_comparison (Z.compare (rk (tag (v i))) (rk (tag (v j)))))))
  && all3 (fun i => all3 (fun j =>
       if ordering_eqb (C i j) OUn then true else ordering_eqb (T i j) (C i j))).

Definition check_C09 (rk : N -> Z) (vs : list value) (obs : list pobs) : bool :=
  check_proj rk vs (fun i j => e_api (nth_obs obs i j)) (fun i j => c_api (nth_obs obs i j))
             (fun i j => t_api (nth_obs obs i j))
  && check_proj rk vs (fun i j => e_bi (nth_obs obs i j)) (fun i j => c_bi (nth_obs obs i j))
             (fun i j => t_bi (nth_obs obs i j)).

(* ---- the model's prediction ---- *)
Definition model_pobs (rk : N -> Z) (x y : value) : pobs :=
  let e := equal x y in let c := cmp x y in let t := cmp_total rk x y in
  mkPobs e c t e c t.

Definition model_obs (rk : N -> Z) (vs : list value) : list pobs :=
  flat_map (fun x => map (fun y => model_pobs rk x y) vs) vs.

Definition pobs_eqb (a b : pobs) : bool :=
  Bool.eqb (e_api a) (e_api b) && ordering_eqb (c_api a) (c_api b)
  && ordering_eqb (t_api a) (t_api b) && Bool.eqb (e_bi a) (e_bi b)
  && ordering_eqb (c_bi a) (c_bi b) && ordering_eqb (t_bi a) (t_bi b).

(* rank of the type descriptors, as a table indexed by tag *)
Definition rank_of (tbl : list Z) (t : N) : Z := nth (N.to_nat t) tbl (Z.of_N t + 1000)%Z.

Record case := mkCase {
  c_ranks : list Z;        (* observed order of the type descriptors, by tag *)
  c_vals : list value;     (* the triple [a; b; c] *)
  c_obs : list pobs }.     (* 9 observations, row-major *)

Definition judge1 (c : case) : N :=
  let rk := rank_of (c_ranks c) in
  code (check_C09 rk (c_vals c) (c_obs c))
       (list_eqb pobs_eqb (model_obs rk (c_vals c)) (c_obs c)).

Definition judge := judge_with judge1.
