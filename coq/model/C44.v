(* C44 — model of pkg/lsp/server.go (executable, no proofs):
   walkString / lspPositionToIdx / lspPositionFromIdx / lspRangeFromRange over the
   runes of a byte string as Go's "for i, r := range s" sees them, the server as a
   state machine over its documents map, an independent specification of LSP
   positions (UTF-16 units, CRLF = one line break) and the oracle evaluated on what
   the implementation did. *)
From verif Require Import lib.Base lib.Utf8.
Open Scope Z_scope.

(* ------------------------------------------------------------------ *)
(* Positions (go-lsp Position{Line, Character int}) *)
Record pos := mkPos { pline : Z; pchar : Z }.

Definition pos_eqb (a b : pos) : bool :=
  Z.eqb (pline a) (pline b) && Z.eqb (pchar a) (pchar b).

(* p.Line < q.Line || (p.Line == q.Line && p.Character < q.Character) *)
Definition pos_lt (a b : pos) : bool :=
  Z.ltb (pline a) (pline b) || (Z.eqb (pline a) (pline b) && Z.ltb (pchar a) (pchar b)).

Definition CR : N := 13%N.
Definition LF : N := 10%N.

(* ------------------------------------------------------------------ *)
(* "for i, r := range s": the runes of s with their byte widths (invalid UTF-8
   yields (RuneError, 1)).  fuel = length s is always enough because every width
   is >= 1 (proved: [wsum_items_of]). *)
Definition item := (N * nat)%type.

Fixpoint items_fuel (fuel : nat) (s : bytes) : list item :=
  match fuel with
  | O => []
  | S f =>
    match s with
    | [] => []
    | _ :: _ => let rw := decode_rune s in rw :: items_fuel f (skipn (snd rw) s)
    end
  end.
Definition items_of (s : bytes) : list item := items_fuel (length s) s.

Definition runes (its : list item) : list N := map fst its.
Fixpoint wsum (its : list item) : nat :=
  match its with [] => O | it :: r => (snd it + wsum r)%nat end.

(* ------------------------------------------------------------------ *)
(* walkString: the loop state is (p, lastCR) *)
Record wstate := mkW { w_pos : pos; w_cr : bool }.
Definition st0 : wstate := mkW (mkPos 0 0) false.

(* one iteration of the loop body after the callback *)
Definition step (r : N) (st : wstate) : wstate :=
  let p := w_pos st in
  mkW (if N.eqb r CR then mkPos (pline p + 1) 0
       else if N.eqb r LF then
              (if w_cr st then p          (* \n of a \r\n pair: ignored *)
               else mkPos (pline p + 1) 0)
       else if N.leb r 65535 then mkPos (pline p) (pchar p + 1)
       else mkPos (pline p) (pchar p + 2))
      (N.eqb r CR).

(* walkString s f, with the callback's captured variable threaded as [acc]:
   f i p acc = (acc', continue?).  The \n of a \r\n pair is not visited. *)
Fixpoint walk {A} (its : list item) (i : nat) (st : wstate)
         (f : nat -> pos -> A -> A * bool) (acc : A) : A :=
  match its with
  | [] => fst (f i (w_pos st) acc)            (* the final f(len(s), p) *)
  | it :: rest =>
    if w_cr st && N.eqb (fst it) LF then walk rest (i + snd it) (step (fst it) st) f acc
    else
      let r := f i (w_pos st) acc in
      if snd r then walk rest (i + snd it) (step (fst it) st) f (fst r)
      else fst r
  end.

Definition to_idx_items (its : list item) (target : pos) : nat :=
  walk its O st0 (fun i p _ => (i, pos_lt p target)) O.

Definition from_idx_items (its : list item) (idx : Z) : pos :=
  walk its O st0 (fun i p _ => (p, Z.ltb (Z.of_nat i) idx)) (mkPos 0 0).

Definition lspPositionToIdx (s : bytes) (p : pos) : nat := to_idx_items (items_of s) p.
Definition lspPositionFromIdx (s : bytes) (idx : Z) : pos := from_idx_items (items_of s) idx.

Definition lrange := (pos * pos)%type.
Definition lspRangeFromRange (s : bytes) (r : Z * Z) : lrange :=
  (lspPositionFromIdx s (fst r), lspPositionFromIdx s (snd r)).

(* ------------------------------------------------------------------ *)
(* Independent specification of the LSP position of a rune prefix:
   line = number of line breaks in the prefix (\r\n, lone \r, lone \n each count
   once), character = UTF-16 code units after the last line-break character. *)
Definition units (r : N) : Z := if N.leb r 65535 then 1 else 2.
Fixpoint units_of (rs : list N) : Z :=
  match rs with [] => 0 | r :: rest => units r + units_of rest end.

Definition is_brk (r : N) : bool := N.eqb r CR || N.eqb r LF.
Definition has_brk (rs : list N) : bool := existsb is_brk rs.
Definition head_is_lf (rs : list N) : bool :=
  match rs with r :: _ => N.eqb r LF | [] => false end.

(* a rune ends a line break if it is \n, or \r not followed by \n *)
Fixpoint count_breaks (rs : list N) : Z :=
  match rs with
  | [] => 0
  | r :: rest =>
    (if N.eqb r LF || (N.eqb r CR && negb (head_is_lf rest)) then 1 else 0) + count_breaks rest
  end.

(* the runes after the last \r or \n *)
Fixpoint last_line (rs : list N) : list N :=
  match rs with
  | [] => []
  | r :: rest => if has_brk rest then last_line rest else if is_brk r then rest else r :: rest
  end.

Definition pos_of_prefix (rs : list N) : pos := mkPos (count_breaks rs) (units_of (last_line rs)).

Definition ends_cr (rs : list N) : bool :=
  match rev rs with r :: _ => N.eqb r CR | [] => false end.
Definition ends_crlf (rs : list N) : bool :=
  match rev rs with a :: b :: _ => N.eqb a LF && N.eqb b CR | _ => false end.
(* the boundary between [pre] and [post] lies between the \r and \n of a pair *)
Definition inside_crlf (pre post : list N) : bool := ends_cr pre && head_is_lf post.

(* all ways to cut a list in two *)
Fixpoint splits {A} (l : list A) : list (list A * list A) :=
  ([], l) :: match l with
             | [] => []
             | x :: r => map (fun ab => (x :: fst ab, snd ab)) (splits r)
             end.

(* ------------------------------------------------------------------ *)
(* Oracle for the position functions, on observations of the implementation.
   Demands exactly what the property states:
   - to-idx: the result is a rune boundary in [0, len]; and when the position is
     the exact position of a boundary that is not inside a CRLF pair, the result
     is that boundary (round trip);
   - from-idx: for an offset on a rune boundary not inside a CRLF pair, the result
     is the position of that prefix.  Nothing is demanded elsewhere. *)
Definition check_to_idx (s : bytes) (p : pos) (obs : Z) : bool :=
  let sp := splits (items_of s) in
  existsb (fun ab => Z.eqb (Z.of_nat (wsum (fst ab))) obs) sp
  && forallb (fun ab =>
       if negb (inside_crlf (runes (fst ab)) (runes (snd ab)))
          && pos_eqb (pos_of_prefix (runes (fst ab))) p
       then Z.eqb obs (Z.of_nat (wsum (fst ab))) else true) sp.

Definition check_from_idx (s : bytes) (idx : Z) (obs : pos) : bool :=
  forallb (fun ab =>
       if Z.eqb (Z.of_nat (wsum (fst ab))) idx
          && negb (inside_crlf (runes (fst ab)) (runes (snd ab)))
       then pos_eqb obs (pos_of_prefix (runes (fst ab))) else true)
    (splits (items_of s)).

(* The input class of the repaired finding (DESIGN section 7 item 16): the
   position is the exact position of a boundary right after a \r\n pair.  The
   harness emits one case of its own for each such position, so the grid case
   leaves them to that case. *)
Definition line_start_after_crlf (s : bytes) (p : pos) : bool :=
  existsb (fun ab => ends_crlf (runes (fst ab)) && pos_eqb (pos_of_prefix (runes (fst ab))) p)
          (splits (items_of s)).

(* ------------------------------------------------------------------ *)
(* The server as a state machine.  Parse errors are an input (observed from
   parse.Parse by the harness); hover/completion contents are not modelled. *)
Definition uri := bytes.
Record document := mkDoc { d_code : bytes; d_perrs : list (Z * Z) }.
Definition docs := list (uri * document).

Fixpoint lookup (u : uri) (m : docs) : option document :=
  match m with
  | [] => None
  | (k, d) :: r => if bytes_eqb k u then Some d else lookup u r
  end.
(* s.documents[uri] = ... *)
Definition store (u : uri) (d : document) (m : docs) : docs := (u, d) :: m.

Inductive ekind := InvalidParams | MethodNotFound | OtherError (* any other code; never produced by the model *).
Inductive reply := ROk | RErr (k : ekind).

Inductive request :=
| DidOpen (u : uri) (text : bytes) (perrs : list (Z * Z))
| DidChange (u : uri) (text : bytes) (perrs : list (Z * Z))
| Hover (u : uri) (p : pos)
| Completion (u : uri) (p : pos)
| Noop                 (* initialize, initialized, didClose, didChangeWatchedFiles *)
| BadParams            (* a routed method whose params do not unmarshal *)
| UnknownMethod.

Record outcome := mkOut {
  o_reply : reply;                          (* what HandlerWithError sends back for a call *)
  o_diags : option (uri * list lrange);     (* publishDiagnostics notification *)
  o_dot : option (bytes * nat) }.           (* (code, offset) handed to np.Find / complete.Complete *)

Definition diags_of (text : bytes) (perrs : list (Z * Z)) : list lrange :=
  map (lspRangeFromRange text) perrs.

Definition update (m : docs) (u : uri) (text : bytes) (perrs : list (Z * Z)) : docs * outcome :=
  (store u (mkDoc text perrs) m, mkOut ROk (Some (u, diags_of text perrs)) None).

Definition at_pos (m : docs) (u : uri) (p : pos) : docs * outcome :=
  match lookup u m with
  | None => (m, mkOut (RErr InvalidParams) None None)
  | Some d => (m, mkOut ROk None (Some (d_code d, lspPositionToIdx (d_code d) p)))
  end.

Definition handle (m : docs) (r : request) : docs * outcome :=
  match r with
  | DidOpen u t pe => update m u t pe
  | DidChange u t pe => update m u t pe
  | Hover u p => at_pos m u p
  | Completion u p => at_pos m u p
  | Noop => (m, mkOut ROk None None)
  | BadParams => (m, mkOut (RErr InvalidParams) None None)
  | UnknownMethod => (m, mkOut (RErr MethodNotFound) None None)
  end.

Fixpoint run_session (m : docs) (rs : list request) : docs * list outcome :=
  match rs with
  | [] => (m, [])
  | r :: rest =>
    let '(m1, o) := handle m r in
    let '(m2, os) := run_session m1 rest in (m2, o :: os)
  end.

(* ------------------------------------------------------------------ *)
(* What the harness observed for one message of a session *)
Record event := mkEv {
  e_req : request;
  e_call : bool;                                (* sent with an id (a request) or as a notification *)
  e_replies : list reply;                       (* every response that carried this id *)
  e_diags : list (uri * list lrange) }.         (* publishDiagnostics received before the next message *)

Definition ekind_eqb (a b : ekind) : bool :=
  match a, b with
  | InvalidParams, InvalidParams | MethodNotFound, MethodNotFound | OtherError, OtherError => true
  | _, _ => false
  end.
Definition reply_eqb (a b : reply) : bool :=
  match a, b with ROk, ROk => true | RErr x, RErr y => ekind_eqb x y | _, _ => false end.
Definition lrange_eqb (a b : lrange) : bool := pos_eqb (fst a) (fst b) && pos_eqb (snd a) (snd b).
Definition diag_eqb (a b : uri * list lrange) : bool :=
  bytes_eqb (fst a) (fst b) && list_eqb lrange_eqb (snd a) (snd b).

(* spec-level: the latest text of every document, from the history alone *)
Definition spec_docs := list (uri * (bytes * list (Z * Z))).
Fixpoint spec_lookup (u : uri) (m : spec_docs) : option (bytes * list (Z * Z)) :=
  match m with
  | [] => None
  | (k, d) :: r => if bytes_eqb k u then Some d else spec_lookup u r
  end.
Definition spec_after (m : spec_docs) (r : request) : spec_docs :=
  match r with
  | DidOpen u t pe | DidChange u t pe => (u, (t, pe)) :: m
  | _ => m
  end.

(* one end of a published range against one end of a parse error: demanded only
   where the property defines the conversion *)
Definition check_range (text : bytes) (pe : Z * Z) (obs : lrange) : bool :=
  check_from_idx text (fst pe) (fst obs) && check_from_idx text (snd pe) (snd obs).

(* published ranges = the parse errors' ranges converted, one per error: same
   number, and each side is covered by the other *)
Definition check_diag (text : bytes) (perrs : list (Z * Z)) (obs : list lrange) : bool :=
  Nat.eqb (length perrs) (length obs)
  && forallb (fun pe => existsb (check_range text pe) obs) perrs
  && forallb (fun o => existsb (fun pe => check_range text pe o) perrs) obs.

Definition is_update (r : request) : bool :=
  match r with DidOpen _ _ _ | DidChange _ _ _ => true | _ => false end.

Fixpoint check_events (m : spec_docs) (evs : list event) : bool :=
  match evs with
  | [] => true
  | e :: rest =>
    let m' := spec_after m (e_req e) in
    (* every request gets exactly one reply or error; a notification gets none *)
    Nat.eqb (length (e_replies e)) (if e_call e then 1 else 0)%nat
    (* every publication carries the ranges of that document's parse errors *)
    && forallb (fun d => match spec_lookup (fst d) m' with
                         | Some (t, pe) => check_diag t pe (snd d)
                         | None => false
                         end) (e_diags e)
    (* an open/change is followed by a publication for that document *)
    && (if is_update (e_req e) then negb (Nat.eqb (length (e_diags e)) 0) else true)
    && check_events m' rest
  end.

Definition check_session (evs : list event) (alive : bool) : bool :=
  alive && check_events [] evs.

(* correspondence: the handler model predicts reply kinds and publications *)
Fixpoint corr_events (m : docs) (evs : list event) : bool :=
  match evs with
  | [] => true
  | e :: rest =>
    let '(m', o) := handle m (e_req e) in
    list_eqb reply_eqb (e_replies e) (if e_call e then [o_reply o] else [])
    && list_eqb diag_eqb (e_diags e) (match o_diags o with Some d => [d] | None => [] end)
    && corr_events m' rest
  end.

(* ------------------------------------------------------------------ *)
(* Unawaited updates.  updateDocument publishes synchronously, inside the handler,
   and handlers run one at a time: the publications of updates that are handled
   back to back reach the client in the order of the updates. *)
Definition burst_pubs_in_order (u : uri) (ups : list (bytes * list (Z * Z))) : list (uri * list lrange) :=
  map (fun tp => (u, diags_of (fst tp) (snd tp))) ups.
Definition burst_orders (u : uri) (ups : list (bytes * list (Z * Z))) : list (list (uri * list lrange)) :=
  [burst_pubs_in_order u ups].

(* The property on a burst: what the client is left with — the last publication
   for the document — has the ranges of the document's (latest) parse errors. *)
Definition check_burst (u : uri) (ups : list (bytes * list (Z * Z))) (pubs : list (uri * list lrange)) : bool :=
  match rev pubs, rev ups with
  | (u', ds) :: _, (t, pe) :: _ => bytes_eqb u u' && check_diag t pe ds
  | _, _ => false
  end.

(* ------------------------------------------------------------------ *)
(* Cases *)
Inductive case :=
(* the exported position functions on one text: lspPositionToIdx on the grid
   lines l0..l0+nl-1 x characters c0..c0+nc-1 (row-major), lspPositionFromIdx on
   idx = -1 .. len+1.  The observations are packed one number per byte (texts are
   shorter than 255 bytes; the harness writes 255 for anything out of range, which
   is never a correct answer): [tos] the offsets, [froms] line, character pairs. *)
| CText (s : bytes) (l0 : Z) (nl : nat) (c0 : Z) (nc : nat) (tos : bytes) (froms : bytes)
(* a single lspPositionToIdx observation (used for the positions the grid's
   oracle leaves to the class to-idx-line-start-after-crlf) *)
| CToIdx (s : bytes) (p : pos) (obs : Z)
(* lspRangeFromRange on one range *)
| CRange (s : bytes) (r : Z * Z) (obs : lrange)
(* one JSON-RPC session *)
| CSession (evs : list event) (alive : bool)
(* full-text changes of one open document written back to back (not awaiting the
   publications in between), and the publications in the order they arrived *)
| CBurst (u : uri) (ups : list (bytes * list (Z * Z))) (pubs : list (uri * list lrange)).

Fixpoint zseq (a : Z) (n : nat) : list Z :=
  match n with O => [] | S k => a :: zseq (a + 1) k end.

Definition grid (l0 : Z) (nl : nat) (c0 : Z) (nc : nat) : list pos :=
  flat_map (fun l => map (fun c => mkPos l c) (zseq c0 nc)) (zseq l0 nl).

Fixpoint zip {A B} (a : list A) (b : list B) : list (A * B) :=
  match a, b with x :: a', y :: b' => (x, y) :: zip a' b' | _, _ => [] end.

Fixpoint unpack_pos (b : bytes) : list pos :=
  match b with
  | l :: c :: r => mkPos (Z.of_N l) (Z.of_N c) :: unpack_pos r
  | _ => []
  end.

Definition judge1 (c : case) : N :=
  match c with
  | CText s l0 nl c0 nc tos0 froms0 =>
    let tos := map Z.of_N tos0 in
    let froms := unpack_pos froms0 in
    let g := grid l0 nl c0 nc in
    let idxs := zseq (-1) (length s + 3) in
    let shape := Nat.eqb (length g) (length tos) && Nat.eqb (length idxs) (length froms) in
    code (shape
          && forallb (fun po => line_start_after_crlf s (fst po) || check_to_idx s (fst po) (snd po)) (zip g tos)
          && forallb (fun io => check_from_idx s (fst io) (snd io)) (zip idxs froms))
         (forallb (fun po => Z.eqb (Z.of_nat (lspPositionToIdx s (fst po))) (snd po)) (zip g tos)
          && forallb (fun io => pos_eqb (lspPositionFromIdx s (fst io)) (snd io)) (zip idxs froms))
  | CToIdx s p obs =>
    code (check_to_idx s p obs) (Z.eqb (Z.of_nat (lspPositionToIdx s p)) obs)
  | CRange s r obs =>
    code (check_range s r obs) (lrange_eqb (lspRangeFromRange s r) obs)
  | CSession evs alive =>
    code (check_session evs alive) (corr_events [] evs)
  | CBurst u ups pubs =>
    code (check_burst u ups pubs) (existsb (list_eqb diag_eqb pubs) (burst_orders u ups))
  end.

Definition judge := judge_with judge1.
