(* C31 — model of pkg/cli/term/read_rune.go:readRune and
   pkg/cli/term/reader_unix.go:readEvent (+ ctrlModify, parseCSI, xtermModify,
   mouseModify), executable Gallina only, plus the independent oracle used on
   the implementation's observations.

   The byte source is a finite list of [Byte b | Timeout] items.  A read
   issued with a non-negative timeout on a [Timeout] item consumes it and
   fails with errTimeout (a gap longer than the timeout); a read issued with
   a negative timeout ("no timeout") waits through gaps.  Reading past the
   end fails with EOF (any non-timeout reader error).  Every read is logged
   with the timeout it was issued with (nanoseconds; -1 = none). *)
From verif Require Import lib.Base lib.Utf8 gen.Consts gen.Tables.
Open Scope Z_scope.

(* ------------------------------------------------------------------ *)
(* byte source *)
Inductive item := Byte (b : N) | Timeout.
Definition stream := list item.

(* how the harness writes a stream: runs of bytes and gaps *)
Inductive chunk := Bs (b : bytes) | Gap.
Definition flatten (cs : list chunk) : stream :=
  flat_map (fun c => match c with Bs b => map Byte b | Gap => [Timeout] end) cs.

(* time.Duration values the code passes to ReadByteWithTimeout.  The two
   variables are `var x = 10 * time.Millisecond` in Go (not constants, so not
   in gen.Consts); the harness reports their current values and every logged
   read, so a change is a correspondence failure. *)
Definition noTimeout : Z := -1.
Definition keySeqTimeout : Z := 10000000.
Definition utf8SeqTimeout : Z := 10000000.

Record rstate := mkR { rs_in : stream; rs_log : list Z (* newest first *) }.

Inductive rres := RByte (b : N) | RTimeout | REOF.

Fixpoint take_byte (blocking : bool) (s : stream) : rres * stream :=
  match s with
  | [] => (REOF, [])
  | Byte b :: r => (RByte b, r)
  | Timeout :: r => if blocking then take_byte true r else (RTimeout, r)
  end.

(* state monad over the reader state *)
Definition M (A : Type) := rstate -> A * rstate.
Definition ret {A} (a : A) : M A := fun st => (a, st).
Definition bind {A B} (m : M A) (f : A -> M B) : M B :=
  fun st => let (a, st') := m st in f a st'.
Notation "x <- m ;; k" := (bind m (fun x => k))
  (at level 61, m at next level, right associativity).

(* rd.ReadByteWithTimeout(t) *)
Definition read_byte (t : Z) : M rres := fun st =>
  let (r, rest) := take_byte (t <? 0) (rs_in st) in (r, mkR rest (t :: rs_log st)).

(* ------------------------------------------------------------------ *)
(* read_rune.go:readRune.  Bytes are 0..255, so leader>>7 == 0 is b/128 = 0,
   leader&0x1f is b mod 32, b&0x3f is b mod 64 and r<<6 is r*64; the rune
   (int32) stays below 2^21, so no wrap is written.  Bytes that are neither
   ASCII nor a 2/3/4-byte leader (0x80..0xBF, 0xF8..0xFF) give r = 0 with no
   continuation — as coded; no validation of continuation bytes either. *)
Inductive rerr := ETimeout | EEOF.

Definition leader_class (b : N) : N * nat :=
  (if b / 128 =? 0 then (b, 0%nat)
   else if b / 32 =? 6 then (b mod 32, 1%nat)
   else if b / 16 =? 14 then (b mod 16, 2%nat)
   else if b / 8 =? 30 then (b mod 8, 3%nat)
   else (0, 0%nat))%N.

Fixpoint read_cont (n : nat) (r : N) : M (N + rerr) :=
  match n with
  | O => ret (inl r)
  | S n' =>
    x <- read_byte utf8SeqTimeout ;;
    match x with
    | RByte b => read_cont n' (r * 64 + b mod 64)%N
    | RTimeout => ret (inr ETimeout)
    | REOF => ret (inr EEOF)
    end
  end.

Definition readRune (t : Z) : M (N + rerr) :=
  x <- read_byte t ;;
  match x with
  | RByte b => let (r, p) := leader_class b in read_cont p r
  | RTimeout => ret (inr ETimeout)
  | REOF => ret (inr EEOF)
  end.

(* ------------------------------------------------------------------ *)
(* events *)
Record key := mkKey { k_rune : Z; k_mod : Z }.

Inductive event :=
| EKey (k : key)
| EMouse (line col : Z) (down : bool) (button : Z) (md : Z)
| ECursor (line col : Z)
| EPaste (start : bool).

Inductive seqmsg :=
| IncompleteMouse | IncompleteCSI | BadCPR | BadSGR | BadCSI | BadG3 | SeqOther.

Inductive errkind :=
| ErrTimeout            (* errTimeout *)
| ErrEOF                (* the reader's end-of-input error *)
| ErrSeq (m : seqmsg)   (* seqError, by message *)
| ErrOther.             (* only in observations: an error of unknown kind *)

(* ROutOfFuel is the model's "loop did not finish"; theorems exclude it *)
Inductive result := REvent (e : event) | RErr (e : errkind) | ROutOfFuel.

Definition Shift := pkg_ui.Shift.
Definition Alt := pkg_ui.Alt.
Definition Ctrl := pkg_ui.Ctrl.
Definition endOfSeq : Z := pkg_cli_term.runeEndOfSeq.

Definition K (r m : Z) : key := mkKey r m.
Definition key_or (k : key) (m : Z) : key := mkKey (k_rune k) (Z.lor (k_mod k) m).
Definition key_eqb (a b : key) : bool := (k_rune a =? k_rune b) && (k_mod a =? k_mod b).

(* the closure readRune := func() rune inside readEvent *)
Definition next_rune : M Z :=
  x <- readRune keySeqTimeout ;;
  ret (match x with inl r => Z.of_N r | inr _ => endOfSeq end).

Definition ctrlModify (r : Z) : key :=
  if r =? 0 then K 96 Ctrl
  else if r =? 30 then K 54 Ctrl
  else if r =? 31 then K 47 Ctrl
  else if (r =? pkg_ui.Tab) || (r =? pkg_ui.Enter) || (r =? pkg_ui.Backspace) then K r 0
  else if (1 <=? r) && (r <=? 29) then K (r + 64) Ctrl
  else K r 0.

(* literal tables.  g3Seq, csiSeqByLast and csiSeqTilde have call/selector
   expressions as values, which the translator cannot render: transcribed here
   and compared with the Go maps by the harness on every run (CTables case).
   csiSeqTilde27 comes from the translator. *)
Definition g3Seq : list (Z * key) :=
  [(65, K pkg_ui.Up 0); (66, K pkg_ui.Down 0); (67, K pkg_ui.Right 0); (68, K pkg_ui.Left 0);
   (72, K pkg_ui.Home 0); (70, K pkg_ui.End_ 0); (77, K pkg_ui.Insert 0);
   (97, K pkg_ui.Up Ctrl); (98, K pkg_ui.Down Ctrl); (99, K pkg_ui.Right Ctrl); (100, K pkg_ui.Left Ctrl);
   (80, K pkg_ui.F1 0); (81, K pkg_ui.F2 0); (82, K pkg_ui.F3 0); (83, K pkg_ui.F4 0)].

Definition csiSeqByLast : list (Z * key) :=
  [(65, K pkg_ui.Up 0); (66, K pkg_ui.Down 0); (67, K pkg_ui.Right 0); (68, K pkg_ui.Left 0);
   (97, K pkg_ui.Up Shift); (98, K pkg_ui.Down Shift); (99, K pkg_ui.Right Shift); (100, K pkg_ui.Left Shift);
   (72, K pkg_ui.Home 0); (70, K pkg_ui.End_ 0);
   (90, K pkg_ui.Tab Shift)].

Definition csiSeqTilde : list (Z * Z) :=
  [(1, pkg_ui.Home); (4, pkg_ui.End_); (2, pkg_ui.Insert); (3, pkg_ui.Delete);
   (5, pkg_ui.PageUp); (6, pkg_ui.PageDown); (7, pkg_ui.Home); (8, pkg_ui.End_);
   (11, pkg_ui.F1); (12, pkg_ui.F2); (13, pkg_ui.F3); (14, pkg_ui.F4);
   (15, pkg_ui.F5); (17, pkg_ui.F6); (18, pkg_ui.F7); (19, pkg_ui.F8);
   (20, pkg_ui.F9); (21, pkg_ui.F10); (23, pkg_ui.F11); (24, pkg_ui.F12)].

Definition csiSeqTilde27 : list (Z * Z) := term_csiSeqTilde27.

Fixpoint lookup {A} (k : Z) (t : list (Z * A)) : option A :=
  match t with
  | [] => None
  | (k', v) :: r => if k =? k' then Some v else lookup k r
  end.

Definition noKey : key := mkKey 0 0.      (* ui.Key{} *)

Definition xtermModify (k : key) (md : Z) : key :=
  if (md <? 0) || (16 <? md) then noKey
  else if md =? 0 then k
  else
    let f := md - 1 in
    let k := if Z.land f 1 =? 0 then k else key_or k Shift in
    let k := if Z.land f 2 =? 0 then k else key_or k Alt in
    let k := if Z.land f 4 =? 0 then k else key_or k Ctrl in
    let k := if Z.land f 8 =? 0 then k else key_or k Alt in
    k.

Definition mouseModify (n : Z) : Z :=
  Z.lor (Z.lor (if Z.land n 4 =? 0 then 0 else Shift)
               (if Z.land n 8 =? 0 then 0 else Alt))
        (if Z.land n 16 =? 0 then 0 else Ctrl).

Definition parseCSI (nums : list Z) (last : Z) : key :=
  match lookup last csiSeqByLast with
  | Some k =>
    match nums with
    | [] => k
    | [a; b] => if a =? 1 then xtermModify k b else noKey
    | _ => noKey
    end
  | None =>
    if last =? 126 (* ~ *) then
      match nums with
      | [a] => match lookup a csiSeqTilde with Some r => K r 0 | None => noKey end
      | [a; b] => match lookup a csiSeqTilde with Some r => xtermModify (K r 0) b | None => noKey end
      | [a; b; c] =>
        if a =? 27 then
          match lookup c csiSeqTilde27 with Some r => xtermModify (K r 0) b | None => noKey end
        else noKey
      | _ => noKey
      end
    else if (last =? 36) || (last =? 94) || (last =? 64) (* $ ^ @ *) then
      match nums with
      | [a] =>
        match lookup a csiSeqTilde with
        | Some r => K r (if last =? 36 then Shift else if last =? 94 then Ctrl else Z.lor Shift Ctrl)
        | None => noKey
        end
      | _ => noKey
      end
    else noKey
  end.

(* Go int is 64 bits: nums[cur]*10 + digit wraps *)
Definition wrap64 (z : Z) : Z := (z + 9223372036854775808) mod 18446744073709551616 - 9223372036854775808.

(* case 'M' after ESC [ : X10 mouse, three more runes *)
Definition read_x10 : M result :=
  cb <- next_rune ;;
  if cb =? endOfSeq then ret (RErr (ErrSeq IncompleteMouse)) else
  cx <- next_rune ;;
  if cx =? endOfSeq then ret (RErr (ErrSeq IncompleteMouse)) else
  cy <- next_rune ;;
  if cy =? endOfSeq then ret (RErr (ErrSeq IncompleteMouse)) else
  let b := Z.land cb 3 in
  ret (REvent (EMouse (cy - 32) (cx - 32) (negb (b =? 3)) (if b =? 3 then -1 else b) (mouseModify cb))).

(* the CSISeq loop; [nums] is kept reversed (head = current parameter) *)
Inductive csi_end := CsiTerm (last : Z) (nums_rev : list Z) | CsiIncomplete | CsiFuel.

Fixpoint csi_loop (fuel : nat) (r : Z) (nums : list Z) : M csi_end :=
  match fuel with
  | O => ret CsiFuel
  | S f =>
    if r =? 59 (* ; *) then
      r' <- next_rune ;; csi_loop f r' (0 :: nums)
    else if (48 <=? r) && (r <=? 57) then
      let nums' := match nums with
                   | [] => [wrap64 (0 * 10 + (r - 48))]
                   | c :: rest => wrap64 (c * 10 + (r - 48)) :: rest
                   end in
      r' <- next_rune ;; csi_loop f r' nums'
    else if r =? endOfSeq then ret CsiIncomplete
    else ret (CsiTerm r nums)
  end.

(* every iteration but the last reads a rune, i.e. consumes an item or hits
   the end: |input| + 2 iterations always suffice *)
Definition csi_loop_auto (r : Z) : M csi_end :=
  fun st => csi_loop (length (rs_in st) + 2) r [] st.

(* what follows the loop: CPR, SGR mouse, paste setting, function keys *)
Definition csi_finish (two : bool) (starter last : Z) (nums : list Z) : result :=
  if (starter =? 0) && (last =? 82) (* R *) then
    match nums with
    | [a; b] => REvent (ECursor a b)
    | _ => RErr (ErrSeq BadCPR)
    end
  else if (starter =? 60) && ((last =? 109) || (last =? 77)) (* m M *) then
    match nums with
    | [a; b; c] => REvent (EMouse c b (last =? 77) (Z.land a 3) (mouseModify a))
    | _ => RErr (ErrSeq BadSGR)
    end
  else if (last =? 126) && (match nums with [a] => (a =? 200) || (a =? 201) | _ => false end) then
    REvent (EPaste (match nums with [a] => a =? 200 | _ => false end))
  else
    let k := parseCSI nums last in
    if key_eqb k noKey then RErr (ErrSeq BadCSI)
    else REvent (EKey (if two then key_or k Alt else k)).

(* after ESC [ *)
Definition read_csi (two : bool) : M result :=
  r <- next_rune ;;
  if r =? endOfSeq then ret (REvent (EKey (K 91 Alt)))
  else if r =? 77 (* M *) then read_x10
  else
    sr <- (if r =? 60 (* < *) then r' <- next_rune ;; ret (60, r') else ret (0, r)) ;;
    e <- csi_loop_auto (snd sr) ;;
    match e with
    | CsiTerm last nums => ret (csi_finish two (fst sr) last (rev nums))
    | CsiIncomplete => ret (RErr (ErrSeq IncompleteCSI))
    | CsiFuel => ret ROutOfFuel
    end.

(* after ESC O *)
Definition read_g3 (two : bool) : M result :=
  r <- next_rune ;;
  if r =? endOfSeq then ret (REvent (EKey (K 79 Alt)))
  else match lookup r g3Seq with
       | Some k => ret (REvent (EKey (if two then key_or k Alt else k)))
       | None => ret (RErr (ErrSeq BadG3))
       end.

(* readEvent after its first readRune(rd, -1) returned [x] *)
Definition dispatch (x : N + rerr) : M result :=
  match x with
  | inr ETimeout => ret (RErr ErrTimeout)
  | inr EEOF => ret (RErr ErrEOF)
  | inl r0 =>
    let r := Z.of_N r0 in
    if r =? 27 then
      r2 <- next_rune ;;
      tr <- (if r2 =? 27 then r2' <- next_rune ;; ret (true, r2') else ret (false, r2)) ;;
      let two := fst tr in
      let r2 := snd tr in
      if r2 =? endOfSeq then ret (REvent (EKey (K 91 Ctrl)))
      else if r2 =? 91 then read_csi two
      else if r2 =? 79 then read_g3 two
      else ret (REvent (EKey (key_or (ctrlModify r2) Alt)))
    else ret (REvent (EKey (ctrlModify r)))
  end.

Definition readEvent : M result :=
  x <- readRune noTimeout ;; dispatch x.

(* ------------------------------------------------------------------ *)
(* decoding a whole stream: call readEvent (fresh log each time) until it
   reports the end of input.  Every call that does not report the end of
   input consumes at least one item, so |s| + 1 calls suffice. *)
Definition is_eof (r : result) : bool :=
  match r with RErr ErrEOF => true | _ => false end.

Fixpoint run_events (fuel : nat) (s : stream) : list (result * list Z) :=
  match fuel with
  | O => []
  | S f =>
    let (res, st') := readEvent (mkR s []) in
    (res, rev (rs_log st')) :: (if is_eof res then [] else run_events f (rs_in st'))
  end.

Definition run_all (s : stream) : list (result * list Z) := run_events (S (length s)) s.

(* ------------------------------------------------------------------ *)
(* Independent specification (oracle) on observations. *)

(* what was observed for one readEvent call *)
Inductive obs :=
| OEv (e : event)        (* event != nil, err == nil *)
| OErr (e : errkind)     (* event == nil, err != nil *)
| OBad.                  (* neither or both, or an event of unknown type *)

(* plain text: scalar values that are not control characters (a superset of
   the printable ones) *)
Definition plain_rune (r : N) : bool :=
  (valid_rune r && (32 <=? r) && negb (r =? 127))%N.

(* a text delivered character by character, each preceded by some gaps *)
Fixpoint text_stream (rs : list (nat * N)) : stream :=
  match rs with
  | [] => []
  | (g, r) :: t => repeat Timeout g ++ map Byte (encode_rune r) ++ text_stream t
  end.

Definition item_eqb (a b : item) : bool :=
  match a, b with
  | Byte x, Byte y => N.eqb x y
  | Timeout, Timeout => true
  | _, _ => false
  end.

Definition event_eqb (a b : event) : bool :=
  match a, b with
  | EKey k, EKey k' => key_eqb k k'
  | EMouse l c d bt m, EMouse l' c' d' bt' m' =>
    (l =? l') && (c =? c') && Bool.eqb d d' && (bt =? bt') && (m =? m')
  | ECursor l c, ECursor l' c' => (l =? l') && (c =? c')
  | EPaste b, EPaste b' => Bool.eqb b b'
  | _, _ => false
  end.

Definition seqmsg_eqb (a b : seqmsg) : bool :=
  match a, b with
  | IncompleteMouse, IncompleteMouse | IncompleteCSI, IncompleteCSI | BadCPR, BadCPR
  | BadSGR, BadSGR | BadCSI, BadCSI | BadG3, BadG3 | SeqOther, SeqOther => true
  | _, _ => false
  end.

Definition errkind_eqb (a b : errkind) : bool :=
  match a, b with
  | ErrTimeout, ErrTimeout | ErrEOF, ErrEOF | ErrOther, ErrOther => true
  | ErrSeq m, ErrSeq m' => seqmsg_eqb m m'
  | _, _ => false
  end.

Definition obs_eqb (a b : obs) : bool :=
  match a, b with
  | OEv e, OEv e' => event_eqb e e'
  | OErr e, OErr e' => errkind_eqb e e'
  | OBad, OBad => true
  | _, _ => false
  end.

Definition obs_wf (o : obs) : bool := match o with OBad => false | _ => true end.

(* every read after the first of a call carries a finite (non-negative) timeout *)
Definition log_ok (l : list Z) : bool :=
  match l with
  | [] => true
  | _ :: later => forallb (fun t => 0 <=? t) later
  end.

Definition text_expected (rs : list (nat * N)) : list obs :=
  map (fun gr => OEv (EKey (mkKey (Z.of_N (snd gr)) 0))) rs ++ [OErr ErrEOF].

(* The property on what the implementation did with stream [s]:
   - every call produced an event or an error,
   - no read after the first of a call was issued without a timeout,
   - if [s] is the UTF-8 text [txt] of non-control scalar values delivered
     character by character, the calls produced exactly one unmodified key
     event per character, in order, and then the end of input. *)
Definition check_C31 (s : stream) (txt : option (list (nat * N))) (o : list (obs * list Z)) : bool :=
  forallb (fun x => obs_wf (fst x)) o
  && forallb (fun x => log_ok (snd x)) o
  && match txt with
     | Some rs =>
       if forallb (fun gr => plain_rune (snd gr)) rs && list_eqb item_eqb (text_stream rs) s
       then list_eqb obs_eqb (map fst o) (text_expected rs)
       else true
     | None => true
     end.

(* ------------------------------------------------------------------ *)
(* correspondence cases *)
Definition obs_of_result (r : result) : obs :=
  match r with REvent e => OEv e | RErr e => OErr e | ROutOfFuel => OBad end.

Definition assoc_eqb {A} (eqb : A -> A -> bool) (a b : list (Z * A)) : bool :=
  Nat.eqb (length a) (length b)
  && forallb (fun kv => match lookup (fst kv) b with Some v => eqb (snd kv) v | None => false end) a.

Inductive case :=
| CStream (input : list chunk) (txt : option (list (nat * N))) (observed : list (obs * list Z))
| CTables (g3 bylast : list (Z * key)) (tilde tilde27 : list (Z * Z)) (keyseq utf8seq : Z).

Definition judge1 (c : case) : N :=
  match c with
  | CStream input txt o =>
    let s := flatten input in
    let m := map (fun x => (obs_of_result (fst x), snd x)) (run_all s) in
    code (check_C31 s txt o)
         (list_eqb (fun a b => obs_eqb (fst a) (fst b) && list_eqb Z.eqb (snd a) (snd b)) m o
          && match txt with
             | Some rs => list_eqb item_eqb (text_stream rs) s   (* the harness built what it says *)
             | None => true
             end)
  | CTables g3 bylast tilde tilde27 ks us =>
    code true
         (assoc_eqb key_eqb g3 g3Seq && assoc_eqb key_eqb bylast csiSeqByLast
          && assoc_eqb Z.eqb tilde csiSeqTilde && assoc_eqb Z.eqb tilde27 csiSeqTilde27
          && (ks =? keySeqTimeout) && (us =? utf8SeqTimeout))
  end.

Definition judge := judge_with judge1.
