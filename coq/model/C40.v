(* C40 -- finished evaluations leave no file descriptors or goroutines behind.
   A resource-ledger semantics of the constructs that create descriptors and
   goroutines: forms with file redirections (form-owned ports closed at form
   end), pipelines (one pipe and one goroutine per non-final stage), output
   capture (PipePort: a pipe and two goroutines), iteration over the inputs
   (Frame.IterateInputs: three goroutines), peach, run-parallel, try, failing
   commands and cancellation of the evaluation context.  Built on the port table
   and the os.File model of C42_Ports; the ledger is the state itself (open file
   descriptions, open pipe ends) plus spawn/join counters.  No proofs here. *)
From verif Require Import lib.Base model.C42_Ports.
Open Scope nat_scope.

Inductive stmt :=
| SNop                                     (* nop *)
| SFail                                    (* fail x *)
| SCancel                                  (* verif:cancel -- cancels the context *)
| SEcho (b : bytes)                        (* echo b  (to port 1) *)
| SRange (n : nat)                         (* range n (n values to port 1) *)
| SForm (rs : list redir) (body : list stmt)      (* { body } redirs *)
| SPipe (stages : list (list redir * list stmt))  (* { b1 } rs1 | { b2 } rs2 | ... *)
| SCapture (body : list stmt)              (* nop ( body ) *)
| SEachIn (body : list stmt)               (* each {|_| body } : one run per input *)
| SPeach (n : nat) (body : list stmt)      (* peach {|_| body } [n items] *)
| SRunPar (fs : list (list stmt))          (* run-parallel { f1 } { f2 } ... *)
| STry (body : list stmt).                 (* try { body } catch { } *)

Definition NLb : bytes := [10%N].

(* number of lines in what a reader gets (a last line without newline counts) *)
Fixpoint count_lines_acc (pending : bool) (b : bytes) : nat :=
  match b with
  | [] => if pending then 1 else 0
  | c :: r => if N.eqb c 10 then S (count_lines_acc false r) else count_lines_acc true r
  end.
Definition count_lines (b : bytes) : nat := count_lines_acc false b.

(* a value sent into a pipeline / capture channel: kept as a pseudo line of the
   pipe so that a reader's iteration count can be computed *)
Definition put_value (s : st) (c : chan) : res st :=
  match c with
  | ChVal k => Ok s
  | ChClosedIn => Crash
  | ChRaise => Exc EValueOut s
  | ChPipe j =>
    match nth_error (s_pipes s) j with
    | Some p => Ok (set_pipes s (list_upd (s_pipes s) j (mkPipe (pi_buf p ++ [118%N; 10%N]) (pi_r p) (pi_w p))))
    | None => Unmod
    end
  end.

Fixpoint put_values (n : nat) (s : st) (c : chan) : res st :=
  match n with
  | O => Ok s
  | S n' => match put_value s c with Ok s' => put_values n' s' c | r => r end
  end.

Definition bind {A B} (r : res A) (k : A -> res B) : res B :=
  match r with Ok a => k a | Exc e s => Exc e s | Crash => Crash | Unmod => Unmod end.

(* per-form epilogue of pipelineOp.exec (see C42.finish) *)
Definition finish40 (pin : option nat) (x : fstate) (r : res st) : res st :=
  let sig_ok :=
    match pin with
    | Some j => match tget (fs_T x) 0 with
                | Some p => chan_eqb (p_chan p) (ChPipe j)
                | None => false
                end
    | None => true
    end in
  match r with
  | Ok s => if sig_ok then Ok (form_end x s) else Crash
  | Exc k s => if sig_ok then Exc k (form_end x s) else Crash
  | Crash => Crash
  | Unmod => Unmod
  end.

(* combine the outcomes of concurrent branches run one after the other: the
   state is threaded, an exception in any branch makes the whole fail *)
Definition after_branch (acc : option ekind) (r : res st) : res (option ekind * st) :=
  match r with
  | Ok s => Ok (acc, s)
  | Exc k s => Ok (Some (match acc with Some _ => EMulti | None => k end), s)
  | Crash => Crash
  | Unmod => Unmod
  end.

Definition conclude (acc : option ekind) (s : st) : res st :=
  match acc with Some k => Exc k s | None => Ok s end.

Definition spawn (k : nat) (s : st) : st := set_led s (led_spawn k (s_led s)).
Definition join (k : nat) (s : st) : st := set_led s (led_join k (s_led s)).

Definition new_pipe (s : st) : nat * st :=
  let j := length (s_pipes s) in
  let s' := set_pipes s (s_pipes s ++ [mkPipe [] true true]) in
  (j, set_led s' (led_popen (s_led s'))).

Definition interrupted (s : st) : res st := Exc EInterrupted s.

(* The recursive structure is written with explicit combinators over the
   evaluation function [runf] of the next-smaller fuel, so that each construct
   has a lemma of its own. *)
Section Combinators.
Variable runf : table -> stmt -> st -> res st.

(* a chunk: pipelines in sequence (each checks the context on entry, see [run]);
   the chunk checks it once more at the end *)
Fixpoint chunk_of (T : table) (cs : list stmt) (s : st) : res st :=
  match cs with
  | [] => if s_cancel s then interrupted s else Ok s
  | c :: rest => bind (runf T c s) (chunk_of T rest)
  end.

(* formOp.exec of { body } rs with the given pre-owned ports, and its epilogue *)
Definition form_of (T : table) (F0 : list fop) (pin : option nat) (rs : list redir)
    (body : list stmt) (s : st) : res st :=
  match exec_redirs Impl [] (mkFs T F0 s []) rs with
  | RCrash => Crash
  | RExc k x => finish40 pin x (Exc k (fs_st x))
  | ROk x => finish40 pin x (chunk_of (fs_T x) body (fs_st x))
  end.

(* all pipes are created by the loop in pipelineOp.exec; every non-final stage
   runs in a goroutine of its own *)
Fixpoint stages_of (T : table) (sts : list (list redir * list stmt)) (inp : option nat)
    (acc : option ekind) (s : st) : res st :=
  match sts with
  | [] => conclude acc s
  | (rs, body) :: rest =>
    let Tin := match inp with
               | Some j => list_upd T 0 (Some (mkPort (Some (HPipeR j)) (ChPipe j)))
               | None => T
               end in
    let Fin := match inp with Some _ => [mkFop true false] | None => [] end in
    match rest with
    | [] =>
      bind (after_branch acc (form_of Tin Fin inp rs body s))
           (fun a => conclude (fst a) (snd a))
    | _ =>
      let j := fst (new_pipe s) in
      let s1 := spawn 1 (snd (new_pipe s)) in
      let Tst := list_upd Tin 1 (Some (mkPort (Some (HPipeW j)) (ChPipe j))) in
      let Fst := match inp with
                 | Some _ => [mkFop true false; mkFop true true]
                 | None => [fop0; mkFop true true]
                 end in
      bind (after_branch acc (form_of Tst Fst inp rs body s1))
           (fun a => stages_of T rest (Some j) (fst a) (join 1 (snd a)))
    end
  end.

(* ValueCapturePort / PipePort: os.Pipe, two goroutines; collect() closes the
   write end, the byte reader closes the read end, both are joined *)
Definition capture_of (T : table) (body : list stmt) (s : st) : res st :=
  let j := fst (new_pipe s) in
  let s1 := spawn 2 (snd (new_pipe s)) in
  let T' := list_upd T 1 (Some (mkPort (Some (HPipeW j)) (ChPipe j))) in
  let fin s := join 2 (close_handle (close_handle s (HPipeW j)) (HPipeR j)) in
  match chunk_of T' body s1 with
  | Ok s2 => Ok (fin s2)
  | Exc k s2 => Exc k (fin s2)
  | Crash => Crash
  | Unmod => Unmod
  end.

(* the callback of each, once per input; the three goroutines of IterateInputs
   end when both input bands are exhausted *)
Fixpoint each_iter (T : table) (body : list stmt) (n : nat) (s : st) : res st :=
  match n with
  | O => Ok (join 3 s)
  | S n' =>
    match chunk_of T body s with
    | Ok s' => each_iter T body n' s'
    | Exc k s' => Exc k (join 3 s')
    | Crash => Crash
    | Unmod => Unmod
    end
  end.

Definition each_of (T : table) (body : list stmt) (s : st) : res st :=
  match tget T 0 with
  | None => Unmod
  | Some pi =>
    let s1 := spawn 3 s in
    match read_all s1 (p_file pi) with
    | Ok (b, s2) => each_iter T body (count_lines b) s2
    | Exc _ s2 => each_iter T body 0 s2          (* a read error is logged, not raised *)
    | Crash => Crash
    | Unmod => Unmod
    end
  end.

Fixpoint peach_iter (T : table) (body : list stmt) (n : nat) (acc : option ekind) (s : st) : res st :=
  match n with
  | O => conclude acc s
  | S n' =>
    bind (after_branch acc (chunk_of T body (spawn 1 s)))
         (fun a => peach_iter T body n' (fst a) (join 1 (snd a)))
  end.

Fixpoint par_of (T : table) (fs : list (list stmt)) (acc : option ekind) (s : st) : res st :=
  match fs with
  | [] => conclude acc s
  | body :: rest =>
    bind (after_branch acc (chunk_of T body (spawn 1 s)))
         (fun a => par_of T rest (fst a) (join 1 (snd a)))
  end.

Definition try_of (T : table) (body : list stmt) (s : st) : res st :=
  match chunk_of T body s with
  | Exc _ s' => if s_cancel s' then interrupted s' else Ok s'   (* the empty catch block *)
  | r => r
  end.

Definition step (T : table) (c : stmt) (s : st) : res st :=
  if s_cancel s then interrupted s     (* pipelineOp.exec: fm.Canceled() *)
  else
  match c with
  | SNop => Ok s
  | SFail => Exc EFail s
  | SCancel => Ok (set_cancel s true)
  | SEcho b =>
    match tget T 1 with
    | Some p => bind (write_bytes s (p_file p) b) (fun s2 => write_bytes s2 (p_file p) NLb)
    | None => Unmod
    end
  | SRange n =>
    match tget T 1 with
    | Some p => put_values n s (p_chan p)
    | None => Unmod
    end
  | SForm rs body => form_of T [] None rs body s
  | SPipe stages => stages_of T stages None None s
  | SCapture body => capture_of T body s
  | SEachIn body => each_of T body s
  | SPeach n body =>
    peach_iter (list_upd T 0 (Some (mkPort (Some HNull) ChClosedIn))) body n None s
  | SRunPar fs => par_of T fs None s
  | STry body => try_of T body s
  end.
End Combinators.

Fixpoint run (fuel : nat) (T : table) (c : stmt) (s : st) {struct fuel} : res st :=
  match fuel with
  | O => Unmod
  | S fuel' => step (run fuel') T c s
  end.

(* a whole program: one chunk *)
Definition run_prog (fuel : nat) (T : table) (body : list stmt) (s : st) : res st :=
  chunk_of (run fuel) T body s.

(* ---------------------------------------------------------------- observation and judge *)
(* initial table of the runner: dummy input, one byte/value sink on 1 and 2 *)
Definition T0 : table :=
  [Some (mkPort (Some HNull) ChClosedIn); Some (mkPort (Some (HSink 0)) (ChVal 0));
   Some (mkPort (Some (HSink 1)) (ChVal 1))].

Definition s0 (fs0 : list (option bytes)) : st := mkSt fs0 [] [] [[]; []] [[]; []] led0 false.

Inductive outcome := OOk | OExc | OCrash.
Definition outcome_eqb (a b : outcome) : bool :=
  match a, b with OOk, OOk | OExc, OExc | OCrash, OCrash => true | _, _ => false end.

Record mobs := mkMobs { m_out : outcome; m_fds : Z; m_gor : Z; m_opened : nat; m_spawned : nat }.

(* the same with fd 2 holding the very port of fd 1 (as with the default dummy
   ports of Evaler.Eval, where stdout and stderr are one *Port) *)
Definition T0alias : table :=
  [Some (mkPort (Some HNull) ChClosedIn); Some (mkPort (Some (HSink 0)) (ChVal 0));
   Some (mkPort (Some (HSink 0)) (ChVal 0))].

Definition observe40 (alias : bool) (fs0 : list (option bytes)) (body : list stmt) : option mobs :=
  let s := s0 fs0 in
  let mk o s' := Some (mkMobs o (Z.of_nat (live_fds s') - Z.of_nat (live_fds s))%Z
                             (live_gor s' - live_gor s)%Z
                             (l_fopen (s_led s') + l_popen (s_led s')) (l_spawn (s_led s'))) in
  match run_prog 64 (if alias then T0alias else T0) body s with
  | Ok s' => mk OOk s'
  | Exc _ s' => mk OExc s'
  | Crash => Some (mkMobs OCrash 0 0 0 0)
  | Unmod => None
  end.

(* what the runner saw after running the program [c_reps] times in one process *)
Record case := mkCase {
  c_fs : list (option bytes);
  c_prog : list stmt;
  c_reps : nat;
  c_alias12 : bool;         (* ports 1 and 2 of the evaluation were one port object *)
  c_out : outcome;          (* outcome of every repetition (the runner reports a
                               Direct violation itself when they differ) *)
  c_fd_growth : Z;          (* open descriptors after - before, all repetitions *)
  c_gor_growth : Z }.       (* goroutines after (settled) - before *)

(* The property: nothing is left behind. *)
Definition check_C40 (c : case) : bool :=
  Z.leb (c_fd_growth c) 0 && Z.leb (c_gor_growth c) 0 && negb (outcome_eqb (c_out c) OCrash).

Definition judge1 (c : case) : N :=
  let corr :=
    match observe40 (c_alias12 c) (c_fs c) (c_prog c) with
    | Some m => outcome_eqb (m_out m) (c_out c)
                && (match m_out m with OCrash => true | _ => Z.eqb (m_fds m) 0 && Z.eqb (m_gor m) 0 end)
    | None => false
    end in
  code (check_C40 c) corr.

Definition judge := judge_with judge1.
