(* C11_Num — the number model shared by C11 (exact arithmetic) and C12
   (inexact arithmetic).  Executable Gallina only, no proofs.

   Models pkg/eval/vals/num.go (number tower, UnifyNums, Normalize*,
   ConvertToFloat64), pkg/eval/vals/conversion.go:FromGo,
   pkg/eval/builtin_fn_num.go (+ - * / % range exact-num inexact-num),
   pkg/mods/math/math.go (abs ceil floor round round-to-even trunc min max pow)
   and the arity test of pkg/eval/go_fn.go:goFn.Call.

   num := machine int | big int | rational | float, exactly Go's
   int | *big.Int | *big.Rat | float64.  Go's int is 64 bit (amd64); math/big is
   Z and reduced Q; float64 is Coq's SpecFloat binary64 (axiom-free, runs under
   vm_compute). *)
From verif Require Import lib.Base.
From Coq Require Import QArith Qabs Qround Floats.SpecFloat.
Open Scope Z_scope.

(* ------------------------------------------------------------------ *)
(* machine int *)
Definition min_int : Z := -9223372036854775808.
Definition max_int : Z := 9223372036854775807.
Definition two64 : Z := 18446744073709551616.
Definition in_int (z : Z) : bool := (min_int <=? z) && (z <=? max_int).
(* two's-complement wrap of a Go int computation *)
Definition wrap (z : Z) : Z := (z - min_int) mod two64 + min_int.

(* ------------------------------------------------------------------ *)
(* binary64 *)
Definition f64 := spec_float.
Definition prec : Z := 53.
Definition emax : Z := 1024.
Definition fadd : f64 -> f64 -> f64 := SFadd prec emax.
Definition fsub : f64 -> f64 -> f64 := SFsub prec emax.
Definition fmul : f64 -> f64 -> f64 := SFmul prec emax.
Definition fdiv : f64 -> f64 -> f64 := SFdiv prec emax.
Definition fopp : f64 -> f64 := SFopp.
Definition fabs : f64 -> f64 := SFabs.
Definition fzero : f64 := S754_zero false.
Definition fone : f64 := S754_finite false 4503599627370496 (-52).
Definition fvalid (f : f64) : bool := valid_binary prec emax f.

Definition f_eqb (a b : f64) : bool :=
  match a, b with
  | S754_zero s, S754_zero s' => Bool.eqb s s'
  | S754_infinity s, S754_infinity s' => Bool.eqb s s'
  | S754_nan, S754_nan => true
  | S754_finite s m e, S754_finite s' m' e' => Bool.eqb s s' && Pos.eqb m m' && Z.eqb e e'
  | _, _ => false
  end.

(* the harness passes floats as their IEEE bit pattern *)
Definition fb (b : Z) : f64 :=
  let s := Z.testbit b 63 in
  let ex := Z.land (Z.shiftr b 52) 2047 in
  let fr := Z.land b 4503599627370495 in
  if ex =? 2047 then (if fr =? 0 then S754_infinity s else S754_nan)
  else if ex =? 0 then match fr with Zpos m => S754_finite s m (-1074) | _ => S754_zero s end
  else match fr + 4503599627370496 with Zpos m => S754_finite s m (ex - 1075) | _ => S754_nan end.

(* an integer 0 <= q <= 2^53 with a sign, as the canonical float (exact) *)
Definition f_of_small (s : bool) (q : Z) : f64 :=
  match q with
  | Zpos p =>
    let d := 53 - Zdigits2 q in
    if d <? 0 then S754_finite s 4503599627370496 1   (* q = 2^53 *)
    else match Z.shiftl q d with Zpos m => S754_finite s m (- d) | _ => S754_zero s end
  | _ => S754_zero s
  end.

(* m*2^e with the trailing zero bits of m moved into the exponent (same value) *)
Fixpoint strip (m : positive) (e : Z) : positive * Z :=
  match m with xO p => strip p (e + 1) | _ => (m, e) end.

(* the double nearest to (-1)^s * m * 2^e, ties to even: SpecFloat's binary_round
   (= binary_normalize) on the stripped pair *)
Definition f_of_dyadic (s : bool) (m : positive) (e : Z) : f64 :=
  let '(m', e') := strip m e in binary_round prec emax s m' e'.

(* float64(int): round to nearest even *)
Definition of_Z (z : Z) : f64 :=
  match z with
  | Z0 => S754_zero false
  | Zpos p => f_of_dyadic false p 0
  | Zneg p => f_of_dyadic true p 0
  end.

(* big.Rat.Float64: the nearest double (ties to even) of n/d.  Scale so that the
   integer quotient has at least 56 bits, append a sticky bit, round once. *)
Definition of_Q (q : Q) : f64 :=
  let n := Qnum q in
  let d := Zpos (Qden q) in
  match n with
  | 0 => S754_zero false
  | _ =>
    let a := Z.abs n in
    let k := Z.max 0 (56 + Zdigits2 d - Zdigits2 a) in
    let '(qq, r) := Z.div_eucl (Z.shiftl a k) d in
    match 2 * qq + (if r =? 0 then 0 else 1) with
    | Zpos m => f_of_dyadic (n <? 0) m (- k - 1)
    | _ => S754_zero (n <? 0)
    end
  end.

(* exact value of a finite float, as a reduced rational (big.Rat.SetFloat64) *)
Definition f_to_Q (f : f64) : Q :=
  match f with
  | S754_finite s m e =>
    let sm := if s then Zneg m else Zpos m in
    if 0 <=? e then Qmake (sm * 2 ^ e) 1 else Qred (Qmake sm (Z.to_pos (2 ^ (- e))))
  | _ => Qmake 0 1
  end.
Definition f_is_finite (f : f64) : bool :=
  match f with S754_zero _ | S754_finite _ _ _ => true | _ => false end.
Definition f_is_nan (f : f64) : bool := match f with S754_nan => true | _ => false end.
Definition f_is_inf (f : f64) : bool := match f with S754_infinity _ => true | _ => false end.
Definition f_is_infs (s : bool) (f : f64) : bool :=
  match f with S754_infinity s' => Bool.eqb s s' | _ => false end.

(* math.Floor Ceil Trunc Round RoundToEven *)
Inductive rmode := RFloor | RCeil | RTrunc | RRound | RRoundEven.
Definition f_round (md : rmode) (f : f64) : f64 :=
  match f with
  | S754_finite s m e =>
    if 0 <=? e then f else
    let sh := - e in
    let q := Z.shiftr (Zpos m) sh in
    let r := Zpos m - Z.shiftl q sh in
    let half := Z.shiftl 1 (sh - 1) in
    let up := match md with
              | RFloor => s && negb (r =? 0)
              | RCeil => negb s && negb (r =? 0)
              | RTrunc => false
              | RRound => half <=? r
              | RRoundEven => (half <? r) || ((half =? r) && Z.odd q)
              end in
    f_of_small s (if up then q + 1 else q)
  | _ => f
  end.

(* math.Max / math.Min (Go's documented special cases) *)
Definition f_max (x y : f64) : f64 :=
  if f_is_infs false x || f_is_infs false y then S754_infinity false
  else if f_is_nan x || f_is_nan y then S754_nan
  else match x, y with
       | S754_zero sx, S754_zero _ => if sx then y else x
       | _, _ => if SFltb y x then x else y
       end.
Definition f_min (x y : f64) : f64 :=
  if f_is_infs true x || f_is_infs true y then S754_infinity true
  else if f_is_nan x || f_is_nan y then S754_nan
  else match x, y with
       | S754_zero sx, S754_zero _ => if sx then x else y
       | _, _ => if SFltb x y then x else y
       end.

(* ------------------------------------------------------------------ *)
(* numbers *)
Inductive num :=
| NInt (z : Z)      (* int *)
| NBig (z : Z)      (* *big.Int *)
| NRat (q : Q)      (* *big.Rat, always reduced *)
| NFloat (f : f64). (* float64 *)

Definition q_eqb (a b : Q) : bool := Z.eqb (Qnum a) (Qnum b) && Pos.eqb (Qden a) (Qden b).

Definition num_eqb (a b : num) : bool :=
  match a, b with
  | NInt x, NInt y => Z.eqb x y
  | NBig x, NBig y => Z.eqb x y
  | NRat x, NRat y => q_eqb x y
  | NFloat x, NFloat y => f_eqb x y
  | _, _ => false
  end.

(* canonical form of a value as Elvish holds it *)
Definition canonical (n : num) : bool :=
  match n with
  | NInt z => in_int z
  | NBig z => negb (in_int z)
  | NRat q => q_eqb (Qred q) q && negb (Pos.eqb (Qden q) 1)
  | NFloat f => fvalid f
  end.

Definition is_exact (n : num) : bool := match n with NFloat _ => false | _ => true end.
Definition is_exact_int (n : num) : bool := match n with NInt _ | NBig _ => true | _ => false end.
Definition is_int0 (n : num) : bool := match n with NInt 0 => true | _ => false end.  (* num == 0 *)
Definition is_inf (n : num) : bool := match n with NFloat f => f_is_inf f | _ => false end.

(* the mathematical value of an exact number *)
Definition qv (n : num) : Q :=
  match n with
  | NInt z | NBig z => Qmake z 1
  | NRat q => q
  | NFloat f => f_to_Q f
  end.

(* NormalizeBigInt / NormalizeBigRat / FromGo *)
Definition normalize_big (z : Z) : num := if in_int z then NInt z else NBig z.
Definition normalize_rat (q : Q) : num :=
  let r := Qred q in
  if Pos.eqb (Qden r) 1 then normalize_big (Qnum r) else NRat r.
Definition from_go (n : num) : num :=
  match n with
  | NBig z => normalize_big z
  | NRat q => normalize_rat q
  | _ => n
  end.

(* number types in promotion order *)
Inductive ntype := TInt | TBig | TRat | TFloat.
Definition rank (t : ntype) : Z := match t with TInt => 0 | TBig => 1 | TRat => 2 | TFloat => 3 end.
Definition tmax (a b : ntype) : ntype := if rank a <? rank b then b else a.
Definition num_type (n : num) : ntype :=
  match n with NInt _ => TInt | NBig _ => TBig | NRat _ => TRat | NFloat _ => TFloat end.

(* PromoteToBigInt, PromoteToBigRat, ConvertToFloat64 *)
Definition to_int (n : num) : Z := match n with NInt z => z | _ => 0 end.
Definition to_big (n : num) : Z := match n with NInt z | NBig z => z | _ => 0 end.
Definition to_rat (n : num) : Q :=
  match n with NInt z | NBig z => Qmake z 1 | NRat q => q | NFloat _ => Qmake 0 1 end.
Definition to_f64 (n : num) : f64 :=
  match n with
  | NInt z => of_Z z
  | NBig z => if in_int z then of_Z z else S754_infinity (z <? 0)
  | NRat q => of_Q q
  | NFloat f => f
  end.

Inductive numslice :=
| SInt (l : list Z) | SBig (l : list Z) | SRat (l : list Q) | SFloat (l : list f64).

Definition unify_type (l : list num) (typ : ntype) : ntype :=
  fold_left (fun t n => tmax t (num_type n)) l typ.
Definition unify (l : list num) (typ : ntype) : numslice :=
  match unify_type l typ with
  | TInt => SInt (map to_int l)
  | TBig => SBig (map to_big l)
  | TRat => SRat (map to_rat l)
  | TFloat => SFloat (map to_f64 l)
  end.

(* big.Rat operations keep the value reduced *)
Definition radd (a b : Q) : Q := Qred (Qplus a b).
Definition rsub (a b : Q) : Q := Qred (Qminus a b).
Definition rmul (a b : Q) : Q := Qred (Qmult a b).
Definition rquo (a b : Q) : Q := Qred (Qdiv a b).
Definition rinv (a : Q) : Q := Qred (Qinv a).
Definition rneg (a : Q) : Q := Qopp a.
Definition q0 : Q := Qmake 0 1.
Definition q1 : Q := Qmake 1 1.
Definition q_is0 (a : Q) : bool := Qnum a =? 0.
Definition q_ltb (a b : Q) : bool := match Qcompare a b with Lt => true | _ => false end.

(* ------------------------------------------------------------------ *)
(* commands and results *)
Inductive cmd :=
| CAdd | CSub | CMul | CDiv | CRem | CRange
| CAbs | CCeil | CFloor | CRound | CRoundEven | CTrunc | CMin | CMax | CPow
| CExactNum | CInexactNum.

Inductive err :=
| EArity        (* errs.ArityMismatch *)
| EDivZero      (* ErrDivideByZero: BadValue "divisor" *)
| ENotExactInt  (* BadValue "argument" must be exact integer *)
| EBadStep      (* BadValue "step" *)
| ENotFinite    (* exact-num of Inf/NaN *)
| EOther.

Inductive result :=
| RVals (l : list num)   (* values put on the output, after FromGo *)
| RErr (e : err)         (* the command raised an exception *)
| RPanic                 (* the Go code panics *)
| ROutOfFuel             (* model artefact; excluded by theorems *)
| RUnmodelled            (* outside the model (float pow, float range, non-number output) *)
| RCd.                   (* "/" without arguments is cd / *)

Definition err_eqb (a b : err) : bool :=
  match a, b with
  | EArity, EArity | EDivZero, EDivZero | ENotExactInt, ENotExactInt
  | EBadStep, EBadStep | ENotFinite, ENotFinite | EOther, EOther => true
  | _, _ => false
  end.
Definition result_eqb (a b : result) : bool :=
  match a, b with
  | RVals x, RVals y => list_eqb num_eqb x y
  | RErr x, RErr y => err_eqb x y
  | RPanic, RPanic | ROutOfFuel, ROutOfFuel | RUnmodelled, RUnmodelled | RCd, RCd => true
  | _, _ => false
  end.

(* ---- + ---- *)
Definition add (l : list num) : result :=
  match unify l TBig with
  | SBig zs => RVals [normalize_big (fold_left Z.add zs 0)]
  | SRat qs => RVals [normalize_rat (fold_left radd qs q0)]
  | SFloat fs => RVals [NFloat (fold_left fadd fs fzero)]
  | SInt _ => RPanic
  end.

(* ---- - ---- (returns the accumulator un-normalised; FromGo does it) *)
Definition sub (l : list num) : result :=
  match l with
  | [] => RErr EArity
  | _ =>
    match unify l TBig with
    | SBig [z] => RVals [NBig (- z)]
    | SBig (z :: r) => RVals [NBig (fold_left Z.sub r z)]
    | SRat [q] => RVals [NRat (rneg q)]
    | SRat (q :: r) => RVals [NRat (fold_left rsub r q)]
    | SFloat [f] => RVals [NFloat (fopp f)]
    | SFloat (f :: r) => RVals [NFloat (fold_left fsub r f)]
    | _ => RPanic
    end
  end.

(* ---- * ---- the scan loop stops at the first infinity *)
Fixpoint mul_scan (l : list num) (has0 : bool) : bool * bool :=
  match l with
  | [] => (has0, false)
  | n :: r =>
    let has0' := has0 || is_int0 n in
    if is_inf n then (has0', true) else mul_scan r has0'
  end.
Definition mul (l : list num) : result :=
  let '(has0, hasInf) := mul_scan l false in
  if has0 && negb hasInf then RVals [NInt 0] else
  match unify l TBig with
  | SBig zs => RVals [normalize_big (fold_left Z.mul zs 1)]
  | SRat qs => RVals [normalize_rat (fold_left rmul qs q1)]
  | SFloat fs => RVals [NFloat (fold_left fmul fs fone)]
  | SInt _ => RPanic
  end.

(* ---- / ---- *)
Definition div (l : list num) : result :=
  match l with
  | [] => RCd
  | a :: rest =>
    if existsb is_int0 rest then RErr EDivZero
    else if is_int0 a then RVals [NInt 0]
    else match unify l TRat with
         | SRat [q] => if q_is0 q then RPanic else RVals [NRat (rinv q)]
         | SRat (q :: r) => if existsb q_is0 r then RPanic else RVals [NRat (fold_left rquo r q)]
         | SFloat [f] => RVals [NFloat (fdiv fone f)]
         | SFloat (f :: r) => RVals [NFloat (fold_left fdiv r f)]
         | _ => RPanic
         end
  end.

(* ---- % ---- *)
Definition rem (l : list num) : result :=
  match l with
  | [a; b] =>
    if negb (is_exact_int a) then RErr ENotExactInt
    else if negb (is_exact_int b) then RErr ENotExactInt
    else if is_int0 b then RErr EDivZero
    else match a, b with
         | NInt x, NInt y => RVals [NInt (Z.rem x y)]      (* Go: MinInt % -1 = 0, no overflow *)
         | _, _ => if to_big b =? 0 then RPanic else RVals [NBig (Z.rem (to_big a) (to_big b))]
         end
  | _ => RErr EArity
  end.

(* ---- range ---- *)
(* rangeBuiltinNum[int]: cur += step wraps; the loop leaves when cur+step does
   not move in the direction of step *)
Fixpoint range_int_up (fuel : nat) (cur end_ step : Z) : option (list num) :=
  match fuel with
  | O => None
  | S fuel' =>
    if cur <? end_ then
      if wrap (cur + step) <=? cur then Some [NInt cur]
      else match range_int_up fuel' (wrap (cur + step)) end_ step with
           | Some r => Some (NInt cur :: r) | None => None end
    else Some []
  end.
Fixpoint range_int_down (fuel : nat) (cur end_ step : Z) : option (list num) :=
  match fuel with
  | O => None
  | S fuel' =>
    if end_ <? cur then
      if cur <=? wrap (cur + step) then Some [NInt cur]
      else match range_int_down fuel' (wrap (cur + step)) end_ step with
           | Some r => Some (NInt cur :: r) | None => None end
    else Some []
  end.
(* rangeBigNum: no wrap *)
Fixpoint range_q_up (fuel : nat) (mk : Q -> num) (cur end_ step : Q) : option (list num) :=
  match fuel with
  | O => None
  | S fuel' =>
    if q_ltb cur end_ then
      match range_q_up fuel' mk (radd cur step) end_ step with
      | Some r => Some (mk cur :: r) | None => None end
    else Some []
  end.
Fixpoint range_q_down (fuel : nat) (mk : Q -> num) (cur end_ step : Q) : option (list num) :=
  match fuel with
  | O => None
  | S fuel' =>
    if q_ltb end_ cur then
      match range_q_down fuel' mk (radd cur step) end_ step with
      | Some r => Some (mk cur :: r) | None => None end
    else Some []
  end.
(* enough iterations for every terminating run: ceil(|end-start| / |step|) + 1 *)
Definition range_fuel (start end_ step : Q) : nat :=
  Z.to_nat (Qceiling (Qdiv (Qabs (Qminus end_ start)) (Qabs step))) + 1.

Definition of_fuel (o : option (list num)) : result :=
  match o with Some l => RVals (map from_go l) | None => ROutOfFuel end.

Definition range_nums (l : list num) : result :=
  match unify l TInt with
  | SInt (start :: end_ :: st) =>
    if start <=? end_ then
      let step := match st with s :: _ => s | [] => 1 end in
      if step <=? 0 then RErr EBadStep
      else of_fuel (range_int_up (range_fuel (Qmake start 1) (Qmake end_ 1) (Qmake step 1)) start end_ step)
    else
      let step := match st with s :: _ => s | [] => -1 end in
      if 0 <=? step then RErr EBadStep
      else of_fuel (range_int_down (range_fuel (Qmake start 1) (Qmake end_ 1) (Qmake step 1)) start end_ step)
  | SBig (start :: end_ :: st) =>
    let mk := fun q : Q => NBig (Qnum q) in
    if start <=? end_ then
      let step := match st with s :: _ => s | [] => 1 end in
      if step <=? 0 then RErr EBadStep
      else of_fuel (range_q_up (range_fuel (Qmake start 1) (Qmake end_ 1) (Qmake step 1)) mk (Qmake start 1) (Qmake end_ 1) (Qmake step 1))
    else
      let step := match st with s :: _ => s | [] => -1 end in
      if 0 <=? step then RErr EBadStep
      else of_fuel (range_q_down (range_fuel (Qmake start 1) (Qmake end_ 1) (Qmake step 1)) mk (Qmake start 1) (Qmake end_ 1) (Qmake step 1))
  | SRat (start :: end_ :: st) =>
    if negb (q_ltb end_ start) then
      let step := match st with s :: _ => s | [] => q1 end in
      if negb (q_ltb q0 step) then RErr EBadStep
      else of_fuel (range_q_up (range_fuel start end_ step) NRat start end_ step)
    else
      let step := match st with s :: _ => s | [] => Qmake (-1) 1 end in
      if negb (q_ltb step q0) then RErr EBadStep
      else of_fuel (range_q_down (range_fuel start end_ step) NRat start end_ step)
  | SFloat _ => RUnmodelled
  | _ => RPanic
  end.

Definition range (l : list num) (step : option num) : result :=
  let opt := match step with Some s => [s] | None => [] end in
  match l with
  | [e] => range_nums (NInt 0 :: e :: opt)
  | [s; e] => range_nums (s :: e :: opt)
  | _ => RErr EArity
  end.

(* ---- math: ---- *)
Definition abs (n : num) : num :=
  match n with
  | NInt z => if z <? 0 then (if z =? min_int then NBig (Z.abs min_int) else NInt (wrap (- z))) else n
  | NBig z => if z <? 0 then NBig (Z.abs z) else n
  | NRat q => if Qnum q <? 0 then NRat (Qabs q) else n
  | NFloat f => NFloat (fabs f)
  end.

(* the rational branches, on numerator/denominator as math.go writes them *)
Definition rat_round (md : rmode) (q : Q) : Z :=
  let n := Qnum q in
  let d := Zpos (Qden q) in
  match md with
  | RCeil => n / d + 1                       (* big.Int.Div: Euclidean = floor for d > 0 *)
  | RFloor => n / d
  | RTrunc => Z.quot n d
  | RRound =>
    let qt := Z.quot n d in let m := 2 * Z.rem n d in
    if Z.abs m <? d then qt else if n <? 0 then qt - 1 else qt + 1
  | RRoundEven =>
    let qt := Z.quot n d in let m := 2 * Z.rem n d in
    if (Z.abs m <? d) || ((Z.abs m =? d) && Z.even qt) then qt
    else if n <? 0 then qt - 1 else qt + 1
  end.

Definition integerize (md : rmode) (n : num) : num :=
  match n with
  | NInt _ | NBig _ => n
  | NRat q => if Pos.eqb (Qden q) 1 then NBig (Qnum q) else NBig (rat_round md q)
  | NFloat f => NFloat (f_round md f)
  end.

Definition pick_z (lt : bool) (l : list Z) : Z :=     (* lt = true: min *)
  match l with
  | [] => 0
  | x :: r => fold_left (fun n y => if (if lt then y <? n else n <? y) then y else n) r x
  end.
Definition pick_q (lt : bool) (l : list Q) : Q :=
  match l with
  | [] => q0
  | x :: r => fold_left (fun n y => if (if lt then q_ltb y n else q_ltb n y) then y else n) r x
  end.
Definition pick_f (lt : bool) (l : list f64) : f64 :=
  match l with
  | [] => fzero
  | x :: r => fold_left (if lt then f_min else f_max) r x
  end.
Definition minmax (lt : bool) (l : list num) : result :=
  match l with
  | [] => RErr EArity
  | _ =>
    match unify l TInt with
    | SInt zs => RVals [NInt (pick_z lt zs)]
    | SBig zs => RVals [NBig (pick_z lt zs)]
    | SRat qs => RVals [NRat (pick_q lt qs)]
    | SFloat fs => RVals [NFloat (pick_f lt fs)]
    end
  end.

(* big.Int.Exp(x, y, nil) for y > 0: square and multiply (Z.pow itself iterates
   y times, which cannot run on the exponents the harness sends) *)
Fixpoint pow_pos_bin (z : Z) (p : positive) : Z :=
  match p with
  | xH => z
  | xO p' => let y := pow_pos_bin z p' in y * y
  | xI p' => let y := pow_pos_bin z p' in z * (y * y)
  end.
Definition zpow (z e : Z) : Z :=
  match e with 0 => 1 | Zpos p => pow_pos_bin z p | Zneg _ => 1 end.

(* SetFrac(a, b) with b > 0 *)
Definition setfrac (a b : Z) : Q := Qred (Qmake a (Z.to_pos b)).

Definition pow (b e : num) : result :=
  if is_exact b && is_exact_int e then
    (* base == 0 && exp.Sign() < 0: 0 has no reciprocal *)
    if is_int0 b && (to_big e <? 0) then RErr EDivZero else
    match e with
    | NInt 0 => RVals [NInt 1]
    | NInt 1 => RVals [b]
    | NInt (-1) =>
      let r := to_rat b in
      if q_is0 r then RPanic (* big.Rat.Inv: division by zero *) else RVals [NRat (rinv r)]
    | _ =>
      let ez := to_big e in
      if is_exact_int b && (0 <? ez) then RVals [NBig (zpow (to_big b) ez)]
      else
        let r := to_rat b in
        if ez <? 0 then
          if q_is0 r then RPanic (* big.Rat.Inv: division by zero *)
          else
            let r' := rinv r in
            let ez' := - ez in
            RVals [NRat (setfrac (zpow (Qnum r') ez') (zpow (Zpos (Qden r')) ez'))]
        else RVals [NRat (setfrac (zpow (Qnum r) ez) (zpow (Zpos (Qden r)) ez))]
    end
  else RUnmodelled.  (* math.Pow on floats: not part of C11/C12 *)

Definition exact_num (n : num) : result :=
  match n with
  | NFloat f => if f_is_finite f then RVals [NRat (f_to_Q f)] else RErr ENotFinite
  | _ => RVals [n]
  end.

Definition unary (f : num -> num) (l : list num) : result :=
  match l with [n] => RVals [f n] | _ => RErr EArity end.

Definition map_result (f : num -> num) (r : result) : result :=
  match r with RVals l => RVals (map f l) | _ => r end.

(* the raw Go return values *)
Definition call_raw (c : cmd) (args : list num) (step : option num) : result :=
  match c with
  | CAdd => add args
  | CSub => sub args
  | CMul => mul args
  | CDiv => div args
  | CRem => rem args
  | CRange => range args step
  | CAbs => unary abs args
  | CCeil => unary (integerize RCeil) args
  | CFloor => unary (integerize RFloor) args
  | CRound => unary (integerize RRound) args
  | CRoundEven => unary (integerize RRoundEven) args
  | CTrunc => unary (integerize RTrunc) args
  | CMin => minmax true args
  | CMax => minmax false args
  | CPow => match args with [b; e] => pow b e | _ => RErr EArity end
  | CExactNum => match args with [n] => exact_num n | _ => RErr EArity end
  | CInexactNum => unary (fun n => NFloat (to_f64 n)) args
  end.

(* what the command puts on its output: every value goes through vals.FromGo *)
Definition call (c : cmd) (args : list num) (step : option num) : result :=
  map_result from_go (call_raw c args step).

(* ------------------------------------------------------------------ *)
(* specification helpers on Q used by the C11 and C12 oracles (plain rational
   arithmetic; nothing here is used by the model above) *)
Definition q_zero (q : Q) : bool := Qeq_bool q (0#1).
Definition q_isint (q : Q) : bool := Pos.eqb (Qden (Qred q)) 1.
Definition q_toZ (q : Q) : Z := Qnum (Qred q).
Definition q_lt (a b : Q) : bool := negb (Qle_bool b a).

Definition q_trunc (q : Q) : Z := if Qle_bool (0#1) q then Qfloor q else Qceiling q.
(* round half away from zero *)
Definition q_round (q : Q) : Z :=
  if Qle_bool (0#1) q then Qfloor (q + (1#2))%Q else Qceiling (q - (1#2))%Q.
(* round half to even *)
Definition q_round_even (q : Q) : Z :=
  let f := Qfloor q in
  let d := (q - (f#1))%Q in
  if q_lt d (1#2) then f
  else if q_lt (1#2) d then f + 1
  else if Z.even f then f else f + 1.

(* exact and canonical by value: machine int iff it fits, big int otherwise,
   rational only when the value is not an integer *)
Definition canon_ok (v : num) : bool :=
  match v with
  | NInt z => in_int z
  | NBig z => negb (in_int z)
  | NRat q => negb (q_isint q)
  | NFloat _ => false
  end.

(* ------------------------------------------------------------------ *)
(* the observation record shared by the C11 and C12 judges *)
Record case := mkCase {
  c_cmd : cmd; c_args : list num; c_step : option num;
  c_obs : result }.
