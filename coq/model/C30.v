(* C30 -- model of pkg/edit/highlight (executable, no proofs):
     regions.go     region, the ordering used by fixRegions, overlap removal
     highlight.go   assembly of the styled segments from the fixed region list
                    (immediate text, text with no command lookup, late text)
     highlighter.go Highlighter as a transition system: Get under the cache
                    mutex, the late goroutine, the late callback with its
                    re-check of the cached code, the lates notification channel
   plus the decidable oracle (the shown text spells the code), the acceptor
   that judges recorded traces of a real Highlighter, and the case type.

   Not modelled: the parser and getRegions/emitRegions (the raw region list is
   an input of every case, observed from the real code through the hook), the
   theme colours (the style of each region type is an input, observed from
   stylingFor), tips. *)
From verif Require Import lib.Base gen.Consts.
Open Scope nat_scope.

(* ------------------------------------------------------------------ *)
(* regions.go *)

Inductive kind := Lexical | Semantic.

Definition kind_eqb (a b : kind) : bool :=
  match a, b with
  | Lexical, Lexical => true
  | Semantic, Semantic => true
  | _, _ => false
  end.

Record region := mkRegion {
  r_begin : nat; r_end : nat; r_kind : kind; r_type : bytes }.

Definition region_eqb (a b : region) : bool :=
  Nat.eqb (r_begin a) (r_begin b) && Nat.eqb (r_end a) (r_end b)
  && kind_eqb (r_kind a) (r_kind b) && bytes_eqb (r_type a) (r_type b).

Definition regions_eqb : list region -> list region -> bool := list_eqb region_eqb.

(* the less function given to sort.Slice in fixRegions: by begin position,
   semantic regions before lexical regions that begin at the same place *)
Definition less (a b : region) : bool :=
  if r_begin a <? r_begin b then true
  else if r_begin a =? r_begin b then
    match r_kind a, r_kind b with
    | Semantic, Lexical => true
    | _, _ => false
    end
  else false.

(* The loop of fixRegions after the sort: drop every region that begins before
   the end of the last region kept. *)
Fixpoint remove_overlaps (lastEnd : nat) (rs : list region) : list region :=
  match rs with
  | [] => []
  | r :: rest =>
    if r_begin r <? lastEnd then remove_overlaps lastEnd rest
    else r :: remove_overlaps (r_end r) rest
  end.

(* sort.Slice is external: any function that returns a permutation of its
   argument ordered by [less].  It is not stable, so regions that compare
   equal (same begin, same kind) may come out in any order. *)
Section FixRegions.
  Variable sort : list region -> list region.
  Definition fixRegions_with (rs : list region) : list region :=
    remove_overlaps 0 (sort rs).
End FixRegions.

(* the instance used for execution: insertion sort (stable) *)
Fixpoint insert (x : region) (l : list region) : list region :=
  match l with
  | [] => [x]
  | y :: r => if less y x then y :: insert x r else x :: y :: r
  end.
Definition isort (l : list region) : list region := fold_right insert [] l.
Definition fixRegions : list region -> list region := fixRegions_with isort.

(* Acceptor for an observed result [obs] of the real fixRegions on [raw]: is it
   remove_overlaps of SOME [less]-sorted permutation of raw?  The witness
   permutation is the stable sort of obs followed by the regions of raw that
   are not in obs (kept regions first among ties, in their observed order). *)
Fixpoint remove_one (x : region) (l : list region) : option (list region) :=
  match l with
  | [] => None
  | y :: r =>
    if region_eqb x y then Some r
    else match remove_one x r with Some r' => Some (y :: r') | None => None end
  end.

Fixpoint remove_all (xs l : list region) : option (list region) :=
  match xs with
  | [] => Some l
  | x :: xs' =>
    match remove_one x l with Some l' => remove_all xs' l' | None => None end
  end.

Definition fix_witness (obs rest : list region) : list region := isort (obs ++ rest).

Definition fix_accepts (raw obs : list region) : bool :=
  match remove_all obs raw with
  | Some rest => regions_eqb (remove_overlaps 0 (fix_witness obs rest)) obs
  | None => false
  end.

(* every region lies inside the code: 0 <= begin <= end <= len *)
Definition region_wf (len : nat) (r : region) : bool :=
  (r_begin r <=? r_end r) && (r_end r <=? len).
Definition regions_wf (len : nat) (rs : list region) : bool := forallb (region_wf len) rs.

(* ------------------------------------------------------------------ *)
(* highlight.go: segment assembly *)

(* a styled segment: its text and the rendering of its style (empty = unstyled) *)
Record seg := mkSeg { s_text : bytes; s_style : bytes }.
Definition text := list seg.

Definition seg_eqb (a b : seg) : bool :=
  bytes_eqb (s_text a) (s_text b) && bytes_eqb (s_style a) (s_style b).
Definition text_eqb : text -> text -> bool := list_eqb seg_eqb.

(* what the editor shows: the concatenation of the segment texts *)
Definition spell (t : text) : bytes := flat_map s_text t.

(* code[a:b] *)
Definition slice (a b : nat) (code : bytes) : bytes := firstn (b - a) (skipn a code).

(* stylingFor, stylingForGoodCommand, stylingForBadCommand (inputs) *)
Record theme := mkTheme {
  th_table : list (bytes * bytes); th_good : bytes; th_bad : bytes }.

Fixpoint lookup (k : bytes) (tb : list (bytes * bytes)) : bytes :=
  match tb with
  | [] => []
  | (k', v) :: r => if bytes_eqb k k' then v else lookup k r
  end.

(* how command regions are styled:
   NoLookup  cfg.HasCommand == nil: every command is a good command
   Pending   cfg.HasCommand != nil, immediate text: command regions unstyled
   Looked f  the late text: good or bad according to f (command text) *)
Inductive cmd_mode := NoLookup | Pending | Looked (f : bytes -> bool).

Definition is_command (r : region) : bool :=
  bytes_eqb (r_type r) pkg_edit_highlight.commandRegion.

Definition style_of (th : theme) (m : cmd_mode) (r : region) (rc : bytes) : bytes :=
  if is_command r then
    match m with
    | NoLookup => th_good th
    | Pending => []
    | Looked f => if f rc then th_good th else th_bad th
    end
  else lookup (r_type r) (th_table th).

(* the loop over the fixed regions and the tail after the last region *)
Fixpoint assemble (th : theme) (m : cmd_mode) (code : bytes) (lastEnd : nat)
    (rs : list region) : text :=
  match rs with
  | [] =>
    if lastEnd <? length code then [mkSeg (slice lastEnd (length code) code) []] else []
  | r :: rest =>
    let rc := slice (r_begin r) (r_end r) code in
    (if lastEnd <? r_begin r then [mkSeg (slice lastEnd (r_begin r) code) []] else [])
    ++ mkSeg rc (style_of th m r rc) :: assemble th m code (r_end r) rest
  end.

Definition has_command_region (rs : list region) : bool := existsb is_command rs.

(* highlight from the raw region list (regions of the tree ++ error regions) *)
Section Highlight.
  Variable sort : list region -> list region.
  Definition highlight_with (th : theme) (m : cmd_mode) (code : bytes) (raw : list region) : text :=
    assemble th m code 0 (fixRegions_with sort raw).
End Highlight.

(* ------------------------------------------------------------------ *)
(* highlighter.go: the Highlighter as a transition system.

   [now_of c]   what highlight returns for c when it does not wait for the
                command lookups (command regions unstyled)
   [late_of c]  the text produced by the late goroutine
   [has_late c] whether highlight starts the late goroutine at all
                (cfg.HasCommand != nil and c has command regions) *)
Definition lates_cap : nat := Z.to_nat pkg_edit_highlight.latesBufferSize.

Record hstate := mkH {
  h_code : bytes;                   (* cache.code *)
  h_styled : text;                  (* cache.styledCode *)
  h_pend : list (bytes * text);     (* late callbacks not yet run: the code their
                                       Get was called with, the late text *)
  h_sending : nat;                  (* callbacks past the unlock, blocked or about
                                       to send on lates *)
  h_lates : nat }.                  (* tokens in the lates channel *)

Definition h_init : hstate := mkH [] [] [] 0 0.

Inductive action :=
| AGet (c : bytes) (fast : bool)   (* Get(c); fast: the late text arrived within
                                      maxBlockForLate *)
| ALate (i : nat)                  (* the i-th pending late callback runs *)
| ASend                            (* a callback completes its send on lates *)
| ARecv                            (* the editor receives from LateUpdates() *)
| AInvalidate.                     (* InvalidateCache *)

Inductive obs :=
| OGet (c : bytes) (t : text)      (* Get(c) returned t *)
| ONotify                          (* a token was received from LateUpdates() *)
| OInv.                            (* InvalidateCache was called *)

Fixpoint remove_nth {A} (i : nat) (l : list A) : list A :=
  match l, i with
  | [], _ => []
  | _ :: r, O => r
  | x :: r, S i' => x :: remove_nth i' r
  end.

Section Highlighter.
  Variable now_of late_of : bytes -> text.
  Variable has_late : bytes -> bool.

  Definition step (s : hstate) (a : action) : option (hstate * list obs) :=
    match a with
    | AGet c fast =>
      if bytes_eqb c (h_code s) then Some (s, [OGet c (h_styled s)])
      else if has_late c then
        if fast then
          Some (mkH c (late_of c) (h_pend s) (h_sending s) (h_lates s), [OGet c (late_of c)])
        else
          Some (mkH c (now_of c) (h_pend s ++ [(c, late_of c)]) (h_sending s) (h_lates s),
                [OGet c (now_of c)])
      else Some (mkH c (now_of c) (h_pend s) (h_sending s) (h_lates s), [OGet c (now_of c)])
    | ALate i =>
      match nth_error (h_pend s) i with
      | None => None
      | Some (c, t) =>
        if bytes_eqb (h_code s) c then
          (* the code is still current: install, unlock, go on to send *)
          Some (mkH (h_code s) t (remove_nth i (h_pend s)) (S (h_sending s)) (h_lates s), [])
        else
          (* the code has changed: drop the late result *)
          Some (mkH (h_code s) (h_styled s) (remove_nth i (h_pend s)) (h_sending s) (h_lates s), [])
      end
    | ASend =>
      match h_sending s with
      | O => None
      | S k =>
        if h_lates s <? lates_cap
        then Some (mkH (h_code s) (h_styled s) (h_pend s) k (S (h_lates s)), [])
        else None    (* channel full: the sender stays blocked *)
      end
    | ARecv =>
      match h_lates s with
      | O => None
      | S k => Some (mkH (h_code s) (h_styled s) (h_pend s) (h_sending s) k, [ONotify])
      end
    | AInvalidate =>
      Some (mkH [] [] (h_pend s) (h_sending s) (h_lates s), [OInv])
    end.

  (* run a schedule; None when some action is not enabled *)
  Fixpoint run (s : hstate) (acts : list action) : option (hstate * list obs) :=
    match acts with
    | [] => Some (s, [])
    | a :: r =>
      match step s a with
      | None => None
      | Some (s1, o1) =>
        match run s1 r with
        | None => None
        | Some (s2, o2) => Some (s2, o1 ++ o2)
        end
      end
    end.

  (* ---- the acceptor for recorded traces of the real Highlighter.
     It follows the cache through the observable events; the late callbacks
     are not observable, so a Get that hits the cache may return the late text
     of the cached code when a callback for that code is outstanding. *)
  Record astate := mkA {
    a_code : bytes; a_styled : text;
    a_pend : list bytes;     (* codes of the Gets that left a late callback behind *)
    a_slow : nat;            (* number of such Gets *)
    a_notes : nat }.         (* number of notifications received *)

  Definition a_init : astate := mkA [] [] [] 0 0.

  Fixpoint mem (c : bytes) (l : list bytes) : bool :=
    match l with [] => false | x :: r => bytes_eqb c x || mem c r end.

  Fixpoint drop_one (c : bytes) (l : list bytes) : list bytes :=
    match l with
    | [] => []
    | x :: r => if bytes_eqb c x then r else x :: drop_one c r
    end.

  Definition acc_step (s : astate) (e : obs) : option astate :=
    match e with
    | OGet c t =>
      if bytes_eqb c (a_code s) then
        if text_eqb t (a_styled s) then Some s
        else if text_eqb t (late_of c) && mem c (a_pend s)
        then Some (mkA c t (drop_one c (a_pend s)) (a_slow s) (a_notes s))
        else None
      else if has_late c then
        if text_eqb t (now_of c)
        then Some (mkA c t (c :: a_pend s) (S (a_slow s)) (a_notes s))
        else if text_eqb t (late_of c)
        then Some (mkA c t (a_pend s) (a_slow s) (a_notes s))
        else None
      else if text_eqb t (now_of c)
      then Some (mkA c t (a_pend s) (a_slow s) (a_notes s))
      else None
    | OInv => Some (mkA [] [] (a_pend s) (a_slow s) (a_notes s))
    | ONotify =>
      if a_notes s <? a_slow s
      then Some (mkA (a_code s) (a_styled s) (a_pend s) (a_slow s) (S (a_notes s)))
      else None
    end.

  Fixpoint accepts_from (s : astate) (tr : list obs) : bool :=
    match tr with
    | [] => true
    | e :: r => match acc_step s e with Some s' => accepts_from s' r | None => false end
    end.

  Definition accepts (tr : list obs) : bool := accepts_from a_init tr.
End Highlighter.

(* The property on a recorded trace: every text returned by Get spells the
   code it was requested for. *)
Definition obs_ok (e : obs) : bool :=
  match e with
  | OGet c t => bytes_eqb (spell t) c
  | _ => true
  end.
Definition check_C30_trace (tr : list obs) : bool := forallb obs_ok tr.

(* The property on one call of highlight: the returned text, and the late text
   if one is delivered, spell the code. *)
Definition check_C30 (code : bytes) (ret : text) (late : option text) : bool :=
  bytes_eqb (spell ret) code
  && match late with Some t => bytes_eqb (spell t) code | None => true end.

(* ------------------------------------------------------------------ *)
(* cases *)

Inductive hl_mode :=
| MNoLookup    (* cfg.HasCommand == nil *)
| MFast        (* lookups answer at once, highlight waits for them *)
| MSlow.       (* lookups are held back until highlight has returned *)

Definition good_fn (good : list bytes) (name : bytes) : bool := mem name good.

Definition expected_ret (th : theme) (m : hl_mode) (good : list bytes) (code : bytes)
    (fixed : list region) : text :=
  match m with
  | MNoLookup => assemble th NoLookup code 0 fixed
  | MFast =>
    if has_command_region fixed then assemble th (Looked (good_fn good)) code 0 fixed
    else assemble th Pending code 0 fixed
  | MSlow => assemble th Pending code 0 fixed
  end.

Definition expected_late (th : theme) (m : hl_mode) (good : list bytes) (code : bytes)
    (fixed : list region) : option text :=
  match m with
  | MSlow =>
    if has_command_region fixed then Some (assemble th (Looked (good_fn good)) code 0 fixed)
    else None
  | _ => None
  end.

(* codes of a scenario with their fixed regions *)
Fixpoint pool_regions (pool : list (bytes * list region)) (c : bytes) : list region :=
  match pool with
  | [] => []
  | (c', rs) :: r => if bytes_eqb c c' then rs else pool_regions r c
  end.

(* compact trace events: Get (index of the code in the pool, index of the
   returned text in the table of distinct texts), notification, invalidation *)
Inductive tev := EGet (ci ti : nat) | ENotify | EInv.

Definition decode_ev (pool : list (bytes * list region)) (texts : list text) (e : tev) : obs :=
  match e with
  | EGet ci ti => OGet (fst (nth ci pool ([], []))) (nth ti texts [])
  | ENotify => ONotify
  | EInv => OInv
  end.

Inductive case :=
(* one call of highlight: the code, the theme entries, the raw region list and
   what the real fixRegions made of it, the lookup mode and the good command
   names; observed: the returned text and the late text *)
| CHl (code : bytes) (th : theme) (raw fixed : list region) (m : hl_mode)
      (good : list bytes) (ret : text) (late : option text)
(* the real fixRegions on a synthetic region list inside a code of length len *)
| CFix (len : nat) (raw fixed : list region)
(* a recorded trace of a real Highlighter: the codes used with their fixed
   regions, the distinct texts returned, and the events referring to both by
   index *)
| CTrace (th : theme) (pool : list (bytes * list region)) (good : list bytes)
         (texts : list text) (evs : list tev).

Definition judge1 (c : case) : N :=
  match c with
  | CHl src th raw fixed m good ret late =>
    code (check_C30 src ret late)
         (regions_wf (length src) raw && fix_accepts raw fixed
          && text_eqb ret (expected_ret th m good src fixed)
          && option_eqb text_eqb late (expected_late th m good src fixed))
  | CFix len raw fixed =>
    (* what highlight would show for a code of that length with these regions *)
    let src := repeat 97%N len in
    code (bytes_eqb (spell (assemble (mkTheme [] [] []) NoLookup src 0 fixed)) src)
         (fix_accepts raw fixed)
  | CTrace th pool good texts evs =>
    let tr := map (decode_ev pool texts) evs in
    let regs := pool_regions pool in
    let now_of c := assemble th Pending c 0 (regs c) in
    let late_of c := assemble th (Looked (good_fn good)) c 0 (regs c) in
    let has_late c := has_command_region (regs c) in
    code (check_C30_trace tr) (accepts now_of late_of has_late tr)
  end.

(* ---- compact syntax of the generated case files.  Every byte string is a
   list of Init.Byte constructors and every small number (offsets, indexes;
   all below 256) a single Byte constructor: these parse about a hundred
   times faster than string or number literals.  Region types and styles are
   written once per case in two tables and referred to by index. ---- *)
Definition bs (l : list Init.Byte.byte) : bytes := map Coq.Strings.Byte.to_N l.
Definition bn (b : Init.Byte.byte) : nat := Coq.Strings.Byte.to_nat b.

Record cregion := CR { cr_b : Init.Byte.byte; cr_e : Init.Byte.byte; cr_k : kind; cr_t : Init.Byte.byte }.
Record cseg := CS { cs_text : list Init.Byte.byte; cs_style : Init.Byte.byte }.
Record thent := TE { te_type : Init.Byte.byte; te_style : Init.Byte.byte }.
Record tables := mkTables {
  t_types : list (list Init.Byte.byte); t_styles : list (list Init.Byte.byte);
  t_theme : list thent; t_good : Init.Byte.byte; t_bad : Init.Byte.byte }.

Definition tb_type (tb : tables) (i : Init.Byte.byte) : bytes := bs (nth (bn i) (t_types tb) []).
Definition tb_style (tb : tables) (i : Init.Byte.byte) : bytes := bs (nth (bn i) (t_styles tb) []).

Definition dec_region (tb : tables) (r : cregion) : region :=
  mkRegion (bn (cr_b r)) (bn (cr_e r)) (cr_k r) (tb_type tb (cr_t r)).
Definition dec_seg (tb : tables) (s : cseg) : seg :=
  mkSeg (bs (cs_text s)) (tb_style tb (cs_style s)).
Definition dec_text (tb : tables) (t : list cseg) : text := map (dec_seg tb) t.
Definition dec_theme (tb : tables) : theme :=
  mkTheme (map (fun e => (tb_type tb (te_type e), tb_style tb (te_style e))) (t_theme tb))
          (tb_style tb (t_good tb)) (tb_style tb (t_bad tb)).

Inductive ctev := KGet (ci ti : Init.Byte.byte) | KNotify | KInv.
Definition dec_ev (e : ctev) : tev :=
  match e with
  | KGet ci ti => EGet (bn ci) (bn ti)
  | KNotify => ENotify
  | KInv => EInv
  end.

Inductive ccase :=
| KHl (tb : tables) (code : list Init.Byte.byte) (raw fixed : list cregion) (m : hl_mode)
      (good : list (list Init.Byte.byte)) (ret : list cseg) (late : option (list cseg))
| KFix (len : Init.Byte.byte) (tb : tables) (raw fixed : list cregion)
| KTrace (tb : tables) (pool : list (list Init.Byte.byte * list cregion))
         (good : list (list Init.Byte.byte)) (texts : list (list cseg)) (evs : list ctev).

Definition decode_case (k : ccase) : case :=
  match k with
  | KHl tb src raw fixed m good ret late =>
    CHl (bs src) (dec_theme tb) (map (dec_region tb) raw) (map (dec_region tb) fixed) m
        (map bs good) (dec_text tb ret) (option_map (dec_text tb) late)
  | KFix len tb raw fixed => CFix (bn len) (map (dec_region tb) raw) (map (dec_region tb) fixed)
  | KTrace tb pool good texts evs =>
    CTrace (dec_theme tb) (map (fun p => (bs (fst p), map (dec_region tb) (snd p))) pool)
           (map bs good) (map (dec_text tb) texts) (map dec_ev evs)
  end.

Definition judge := judge_with (fun k => judge1 (decode_case k)).
