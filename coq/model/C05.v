(* C05 — typed numbers <-> strings.  Executable model (no proofs) of
     pkg/eval/vals/num.go      ParseNum, NormalizeBigInt, NormalizeBigRat
     pkg/eval/vals/string.go   ToString (number cases), formatFloat64
   together with the parts of math/big they rest on (nat.scan in base 0,
   Int.SetString(s, 0), Rat.SetString for the a/b form, Int.String, Rat.String)
   re-implemented over N/Z, and strconv.ParseFloat / FormatFloat as Section
   functions [pf], [fmtF], [fmtE] (contract S, see proofs/C05_proofs.v), which
   are instantiated for execution from Go's own results carried in each case.
   Second half: the independent specification — documented literals as
   structured data with a [render] function and a value, the correctly rounded
   binary64 of a decimal ([rne_bits]), the non-number grammar, the oracles and
   the judge. *)
From verif Require Import lib.Base.
Open Scope N_scope.

(* ------------------------------------------------------------------ *)
(* bytes used below *)
Definition cPlus : N := 43.   Definition cMinus : N := 45.
Definition cDot : N := 46.    Definition cSlash : N := 47.
Definition c0 : N := 48.      Definition cUnd : N := 95.
Definition c_e : N := 101.    Definition c_E : N := 69.

Definition sPoint0 : bytes := [46; 48].                 (* ".0" *)
Definition sSmall : bytes := [48; 46; 48; 48; 48; 48].  (* "0.0000" *)
Definition sPInf : bytes := [43; 73; 110; 102].         (* "+Inf" *)
Definition sNInf : bytes := [45; 73; 110; 102].         (* "-Inf" *)
Definition sNaN : bytes := [78; 97; 78].                (* "NaN" *)

(* run-length helpers used by the generated case files to keep long runs of
   one byte (the zeros of a %f text) short *)
Definition rep (c n : N) : bytes := repeat c (N.to_nat n).
Definition cat (l : list bytes) : bytes := concat l.

(* numbers in the case files are written as big-endian byte strings (Coq's
   numeral notations are slow to parse; string literals are not) *)
Definition beN (bs : bytes) : N := fold_left (fun a b => a * 256 + b) bs 0.
Definition hZ (neg : bool) (bs : bytes) : Z := if neg then (- Z.of_N (beN bs))%Z else Z.of_N (beN bs).

Definition has_byte (c : N) (s : bytes) : bool := existsb (N.eqb c) s.

Fixpoint has_prefix (p s : bytes) : bool :=
  match p, s with
  | [], _ => true
  | a :: p', b :: s' => (a =? b) && has_prefix p' s'
  | _ :: _, [] => false
  end.

(* ------------------------------------------------------------------ *)
(* numbers: int (64 bit), *big.Int, *big.Rat, float64 (as its 64-bit pattern) *)
Inductive num :=
| NInt (z : Z)
| NBig (z : Z)
| NRat (n d : Z)
| NFloat (b : N).

Inductive pres := PNum (v : num) | PNil.   (* result of ParseNum: a number or nil *)

Definition minInt : Z := (- 2 ^ 63)%Z.
Definition maxInt : Z := (2 ^ 63 - 1)%Z.
Definition in_int (z : Z) : bool := (minInt <=? z)%Z && (z <=? maxInt)%Z.

(* NormalizeBigInt / getInt *)
Definition normalize_int (z : Z) : num := if in_int z then NInt z else NBig z.
(* NormalizeBigRat on a value already reduced by big.Rat *)
Definition normalize_rat (q : Z * Z) : num :=
  let '(n, d) := q in if (d =? 1)%Z then normalize_int n else NRat n d.
(* big.Rat.norm: lowest terms, positive denominator (d > 0 on entry) *)
Definition rat_norm (n d : Z) : Z * Z :=
  let g := Z.gcd n d in ((n / g)%Z, (d / g)%Z).

(* ------------------------------------------------------------------ *)
(* math/big nat.scan(r, base = 0, fracOk = false) *)

(* value of a byte as a digit; 63 = MaxBase+1 for bytes that are no digit.
   (the actual base is at most 16 <= maxBaseSmall here, so upper case = lower case) *)
Definition digit_val (ch : N) : N :=
  if (48 <=? ch) && (ch <=? 57) then ch - 48
  else if (97 <=? ch) && (ch <=? 122) then ch - 97 + 10
  else if (65 <=? ch) && (ch <=? 90) then ch - 65 + 10
  else 63.

Inductive prevk := PDot | PDig | PUnd.   (* '.', '0', '_' in the Go code *)
Definition is_dig (p : prevk) : bool := match p with PDig => true | _ => false end.
Definition is_und (p : prevk) : bool := match p with PUnd => true | _ => false end.

(* the digit loop; returns (value, count, prev, invalSep, unread rest) *)
Fixpoint scan_loop (b acc count : N) (prev : prevk) (inval : bool) (s : bytes)
  : N * N * prevk * bool * bytes :=
  match s with
  | [] => (acc, count, prev, inval, [])
  | ch :: r =>
    if ch =? cUnd then scan_loop b acc count PUnd (inval || negb (is_dig prev)) r
    else
      let d := digit_val ch in
      if b <=? d then (acc, count, prev, inval, s)      (* UnreadByte; break *)
      else scan_loop b (acc * b + d) (count + 1) PDig inval r
  end.

Definition is_bB (c : N) := (c =? 98) || (c =? 66).
Definition is_oO (c : N) := (c =? 111) || (c =? 79).
Definition is_xX (c : N) := (c =? 120) || (c =? 88).

(* base, "prefix is the legacy 0", initial prev, initial count, text for the loop *)
Definition scan_prefix (s : bytes) : N * bool * prevk * N * bytes :=
  match s with
  | [] => (10, false, PDot, 0, [])
  | ch0 :: r0 =>
    if ch0 =? c0 then
      match r0 with
      | [] => (10, false, PDig, 1, [])
      | ch :: r =>
        if is_bB ch then (2, false, PDig, 0, r)
        else if is_oO ch then (8, false, PDig, 0, r)
        else if is_xX ch then (16, false, PDig, 0, r)
        else (8, true, PDig, 0, r0)
      end
    else (10, false, PDot, 0, s)
  end.

(* None = any error (errInvalSep, errNoDigits); Some (value, unread rest) *)
Definition nat_scan (s : bytes) : option (N * bytes) :=
  let '(b, legacy0, prev0, count0, body) := scan_prefix s in
  let '(acc, count, prev, inval, rest) := scan_loop b 0 count0 prev0 false body in
  if inval || is_und prev then None
  else if count =? 0 then (if legacy0 then Some (0, rest) else None)
  else Some (acc, rest).

(* big.Int.SetString(s, 0): sign, nat.scan, then the whole string must be used *)
Definition int_setstring0 (s : bytes) : option Z :=
  match s with
  | [] => None
  | c :: r =>
    let neg := c =? cMinus in
    let body := if (c =? cMinus) || (c =? cPlus) then r else s in
    match nat_scan body with
    | Some (v, []) => Some (if neg then (- Z.of_N v)%Z else Z.of_N v)
    | _ => None
    end
  end.

(* strings.Index(s, "/") split *)
Fixpoint split_slash (s : bytes) : option (bytes * bytes) :=
  match s with
  | [] => None
  | c :: r =>
    if c =? cSlash then Some ([], r)
    else match split_slash r with
         | Some (a, b) => Some (c :: a, b)
         | None => None
         end
  end.

(* big.Rat.SetString for a string containing '/' *)
Definition rat_setstring (s : bytes) : option (Z * Z) :=
  match split_slash s with
  | None => None
  | Some (a, b) =>
    match int_setstring0 a with
    | None => None
    | Some n =>
      match nat_scan b with
      | Some (d, []) => if d =? 0 then None else Some (rat_norm n (Z.of_N d))
      | _ => None
      end
    end
  end.

(* ------------------------------------------------------------------ *)
(* decimal output: strconv.Itoa, big.Int.String, big.Rat.String *)
Fixpoint to_digits (fuel : nat) (n : N) : list N :=
  match fuel with
  | O => [n mod 10]
  | S f => if n <? 10 then [n] else to_digits f (n / 10) ++ [n mod 10]
  end.
Definition digits_of (n : N) : list N := to_digits (N.to_nat (N.size n)) n.
Definition dchar (d : N) : N := 48 + d.
Definition dec_N (n : N) : bytes := map dchar (digits_of n).
Definition dec_Z (z : Z) : bytes :=
  if (z <? 0)%Z then cMinus :: dec_N (Z.to_N (- z)) else dec_N (Z.to_N z).

(* ------------------------------------------------------------------ *)
(* float64 patterns *)
Definition f_expo (b : N) : N := (b / 2 ^ 52) mod 2 ^ 11.
Definition f_mant (b : N) : N := b mod 2 ^ 52.
Definition is_nan (b : N) : bool := (f_expo b =? 2047) && negb (f_mant b =? 0).
Definition is_inf (b : N) : bool := (f_expo b =? 2047) && (f_mant b =? 0).
Definition is_fin (b : N) : bool := negb (f_expo b =? 2047).
Definition bitsPInf : N := 2047 * 2 ^ 52.
Definition bitsNInf : N := 2 ^ 63 + 2047 * 2 ^ 52.

Section WithStrconv.
  (* strconv.ParseFloat(s, 64): None on any error (including ErrRange) *)
  Variable pf : bytes -> option N.
  (* strconv.FormatFloat(f, 'f', -1, 64) and (f, 'e', -1, 64) *)
  Variable fmtF fmtE : N -> bytes.

  Definition parse_num (s : bytes) : pres :=
    if has_byte cSlash s then
      match rat_setstring s with
      | Some q => PNum (normalize_rat q)
      | None => PNil
      end
    else
      match int_setstring0 s with
      | Some z => PNum (normalize_int z)
      | None =>
        match pf s with
        | Some b => PNum (NFloat b)
        | None => PNil
        end
      end.

  Definition formatFloat64 (b : N) : bytes :=
    let s := fmtF b in
    let noPoint := negb (has_byte cDot s) in
    if (noPoint && Nat.ltb 14 (length s) && (last s 0 =? c0)) || has_prefix sSmall s
    then fmtE b
    else if noPoint && negb (is_nan b) && negb (is_inf b) then s ++ sPoint0
    else s.

  Definition to_string (x : num) : bytes :=
    match x with
    | NInt z => dec_Z z
    | NBig z => dec_Z z
    | NRat n d => dec_Z n ++ cSlash :: dec_Z d
    | NFloat b => formatFloat64 b
    end.
End WithStrconv.

(* ================================================================== *)
(* Specification side                                                  *)
(* ================================================================== *)

(* canonical forms (the design note at the top of num.go) *)
Definition canonical (v : num) : bool :=
  match v with
  | NInt z => in_int z
  | NBig z => negb (in_int z)
  | NRat n d => (1 <? d)%Z && (Z.gcd n d =? 1)%Z
  | NFloat b => b <? 2 ^ 64
  end.

(* the canonical number denoting the integer z / the rational n/d (d > 0) *)
Definition canon_int (z : Z) : num := if in_int z then NInt z else NBig z.
Definition canon_rat (n d : Z) : num :=
  let g := Z.gcd n d in
  if (d / g =? 1)%Z then canon_int (n / g) else NRat (n / g) (d / g).

Definition num_eqb (a b : num) : bool :=
  match a, b with
  | NInt x, NInt y => (x =? y)%Z
  | NBig x, NBig y => (x =? y)%Z
  | NRat n d, NRat n' d' => (n =? n')%Z && (d =? d')%Z
  | NFloat x, NFloat y => x =? y
  | _, _ => false
  end.
Definition pres_eqb (a b : pres) : bool :=
  match a, b with
  | PNum x, PNum y => num_eqb x y
  | PNil, PNil => true
  | _, _ => false
  end.

(* "the same number with the same exactness": floats bit-identical, except
   that a NaN only needs to stay a NaN *)
Definition same_num (x y : num) : bool :=
  match x, y with
  | NFloat a, NFloat b => (a =? b) || (is_nan a && is_nan b)
  | _, _ => num_eqb x y
  end.
Definition check_roundtrip (x : num) (y : pres) : bool :=
  match y with PNum v => same_num x v | PNil => false end.

(* ---- correctly rounded binary64 of (-1)^neg * m * 10^e10, m >= 0 ---- *)
Definition sign_bits (neg : bool) : N := if neg then 2 ^ 63 else 0.
(* magnitude bits, computed in Z *)
Definition rne_mag (m e10 : Z) : Z :=
  (if (m =? 0) then 0
   else if (310 <? e10) then Z.of_N bitsPInf
   else if (e10 + Z.log2 m + 1 <? -1200) then 0
   else
     let '(nu, de) := if (0 <=? e10) then (m * 10 ^ e10, 1) else (m, 10 ^ (- e10)) in
     let k0 := Z.log2 nu - Z.log2 de in
     let ge := if (0 <=? k0) then (de * 2 ^ k0 <=? nu) else (de <=? nu * 2 ^ (- k0)) in
     let k := if ge then k0 else k0 - 1 in          (* 2^k <= nu/de < 2^(k+1) *)
     let E := Z.max (k - 52) (-1074) in
     let '(nn, dd) := if (0 <=? E) then (nu, de * 2 ^ E) else (nu * 2 ^ (- E), de) in
     let q := nn / dd in
     let r := nn mod dd in
     let m2 := if (2 * r <? dd) then q
               else if (dd <? 2 * r) then q + 1
               else if Z.even q then q else q + 1 in
     let bits := (E + 1074) * 2 ^ 52 + m2 in
     if (Z.of_N bitsPInf <=? bits) then Z.of_N bitsPInf else bits)%Z.
Definition rne_bits (neg : bool) (m e10 : Z) : N := sign_bits neg + Z.to_N (rne_mag m e10).
(* does the literal round to an infinity? *)
Definition overflows (m e10 : Z) : bool := is_inf (rne_bits false m e10).

(* ---- plain decimal float text (what FormatFloat prints): -?D+(.D+)?(e[+-]D+)? ---- *)
Definition is_dec (c : N) : bool := (48 <=? c) && (c <=? 57).
Fixpoint span_dec (s : bytes) : bytes * bytes :=
  match s with
  | c :: r => if is_dec c then let '(a, b) := span_dec r in (c :: a, b) else ([], s)
  | [] => ([], [])
  end.
Definition dec_val (ds : bytes) : Z := fold_left (fun a c => (a * 10 + Z.of_N (c - 48))%Z) ds 0%Z.

(* (neg, mantissa, exponent of ten) *)
Definition dec_parse (s : bytes) : option (bool * Z * Z) :=
  let '(neg, s1) := match s with c :: r => if c =? cMinus then (true, r) else (false, s) | [] => (false, s) end in
  let '(ip, s2) := span_dec s1 in
  match ip with [] => None | _ =>
    let '(fp, s3, okf) :=
      match s2 with
      | c :: r => if c =? cDot then let '(f, t) := span_dec r in (f, t, negb (Nat.eqb (length f) 0))
                  else ([], s2, true)
      | [] => ([], [], true)
      end in
    if negb okf then None else
    let m := dec_val (ip ++ fp) in
    let sh := (- Z.of_nat (length fp))%Z in
    match s3 with
    | [] => Some (neg, m, sh)
    | c :: r =>
      if c =? c_e then
        match r with
        | sg :: r' =>
          if (sg =? cPlus) || (sg =? cMinus) then
            let '(ed, t) := span_dec r' in
            match ed, t with
            | _ :: _, [] => Some (neg, m, if sg =? cMinus then (sh - dec_val ed)%Z else (sh + dec_val ed)%Z)
            | _, _ => None
            end
          else None
        | [] => None
        end
      else None
    end
  end.

(* shape of FormatFloat(f,'f',-1,64) for finite f: -?D+(.D+)? *)
Definition shape_f (s : bytes) : bool :=
  let s1 := match s with c :: r => if c =? cMinus then r else s | [] => s end in
  let '(ip, s2) := span_dec s1 in
  negb (Nat.eqb (length ip) 0) &&
  match s2 with
  | [] => true
  | c :: r => (c =? cDot) && let '(fp, t) := span_dec r in
              negb (Nat.eqb (length fp) 0) && Nat.eqb (length t) 0
  end.
(* shape of FormatFloat(f,'e',-1,64) for finite f: -?D(.D+)?e[+-]DD+ *)
Definition shape_e (s : bytes) : bool :=
  let s1 := match s with c :: r => if c =? cMinus then r else s | [] => s end in
  match s1 with
  | d :: s2 =>
    is_dec d &&
    let s3ok :=
      match s2 with
      | c :: r => if c =? cDot then let '(fp, t) := span_dec r in (t, negb (Nat.eqb (length fp) 0))
                  else (s2, true)
      | [] => (s2, true)
      end in
    snd s3ok &&
    match fst s3ok with
    | e :: sg :: ex => (e =? c_e) && ((sg =? cPlus) || (sg =? cMinus))
                       && forallb is_dec ex && Nat.leb 2 (length ex)
    | _ => false
    end
  | [] => false
  end.

(* ---- documented literals, as data ---- *)
(* a digit with its letter case (for a-f) and "an underscore stands before it"
   (ignored for the first digit of a group) *)
Record dig := mkDig { d_val : N; d_up : bool; d_sep : bool }.

(* one byte per digit in the case files: low nibble value, bit 4 upper case, bit 5 separator *)
Definition dg (b : N) : dig := mkDig (b mod 16) (N.odd (b / 16)) (N.odd (b / 32)).
Definition digs (bs : bytes) : list dig := map dg bs.

Definition dig_char (d : dig) : N :=
  if d_val d <? 10 then 48 + d_val d
  else if d_up d then 65 + (d_val d - 10) else 97 + (d_val d - 10).

Fixpoint render_tail (ds : list dig) : bytes :=
  match ds with
  | [] => []
  | d :: r => (if d_sep d then [cUnd] else []) ++ dig_char d :: render_tail r
  end.
Definition render_digits (ds : list dig) : bytes :=
  match ds with [] => [] | d :: r => dig_char d :: render_tail r end.

Definition digits_value (base : N) (ds : list dig) : N :=
  fold_left (fun a d => a * base + d_val d) ds 0.

(* integer without sign: base 10 (no prefix), or 16/8/2 with 0x/0o/0b; [up]: prefix letter case *)
Record natlit := mkNat { nl_base : N; nl_up : bool; nl_ds : list dig }.
Definition prefix_of (base : N) (up : bool) : bytes :=
  if base =? 16 then [c0; if up then 88 else 120]
  else if base =? 8 then [c0; if up then 79 else 111]
  else if base =? 2 then [c0; if up then 66 else 98]
  else [].
Definition render_nat (l : natlit) : bytes := prefix_of (nl_base l) (nl_up l) ++ render_digits (nl_ds l).
Definition nat_value (l : natlit) : N := digits_value (nl_base l) (nl_ds l).
Definition wf_nat (l : natlit) : bool :=
  ((nl_base l =? 10) || (nl_base l =? 16) || (nl_base l =? 8) || (nl_base l =? 2))
  && forallb (fun d => d_val d <? nl_base l) (nl_ds l)
  && match nl_ds l with
     | [] => false
     | d :: r => (* decimal: no leading zero unless the literal is "0" *)
       negb (nl_base l =? 10) || negb (d_val d =? 0) || Nat.eqb (length r) 0
     end.

Inductive special := SPInf | SNInf | SNaN.

Record floatlit := mkFloat {
  fl_neg : bool;
  fl_ip : list dig;                 (* integer part, decimal without leading zeros *)
  fl_fp : option (list dig);        (* digits after the point *)
  fl_ex : option (bool * N * list dig) (* upper-case E; sign 0 none / 1 '+' / 2 '-'; digits *) }.

Inductive lit :=
| LInt (neg : bool) (n : natlit)
| LRat (neg : bool) (n : natlit) (d : natlit)
| LFloat (f : floatlit)
| LSpecial (k : special) (ups : list bool).   (* letter case of each letter *)

Definition sign_bytes (neg : bool) : bytes := if neg then [cMinus] else [].

Definition render_float (f : floatlit) : bytes :=
  sign_bytes (fl_neg f) ++ render_digits (fl_ip f)
  ++ match fl_fp f with Some fp => cDot :: render_digits fp | None => [] end
  ++ match fl_ex f with
     | Some (up, sg, ed) =>
       (if up then c_E else c_e)
       :: (if sg =? 1 then [cPlus] else if sg =? 2 then [cMinus] else []) ++ render_digits ed
     | None => []
     end.

Definition case_letter (lower : N) (up : bool) : N := if up then lower - 32 else lower.
Fixpoint case_word (w : bytes) (ups : list bool) : bytes :=
  match w with
  | [] => []
  | c :: r => case_letter c (hd false ups) :: case_word r (tl ups)
  end.
Definition render_special (k : special) (ups : list bool) : bytes :=
  match k with
  | SPInf => cPlus :: case_word [105; 110; 102] ups
  | SNInf => cMinus :: case_word [105; 110; 102] ups
  | SNaN => case_word [110; 97; 110] ups
  end.

Definition render (l : lit) : bytes :=
  match l with
  | LInt neg n => sign_bytes neg ++ render_nat n
  | LRat neg n d => sign_bytes neg ++ render_nat n ++ cSlash :: render_nat d
  | LFloat f => render_float f
  | LSpecial k ups => render_special k ups
  end.

Definition dec10 (ds : list dig) : bool := forallb (fun d => d_val d <? 10) ds.
Definition wf_float (f : floatlit) : bool :=
  wf_nat (mkNat 10 false (fl_ip f))
  && match fl_fp f with Some fp => dec10 fp && negb (Nat.eqb (length fp) 0) | None => true end
  && match fl_ex f with
     | Some (_, sg, ed) => (sg <=? 2) && dec10 ed && negb (Nat.eqb (length ed) 0)
     | None => true
     end
  && match fl_fp f, fl_ex f with None, None => false | _, _ => true end.

Definition wf_lit (l : lit) : bool :=
  match l with
  | LInt _ n => wf_nat n
  | LRat _ n d => wf_nat n && wf_nat d && negb (nat_value d =? 0)
  | LFloat f => wf_float f
  | LSpecial _ _ => true
  end.

Definition signed (neg : bool) (n : N) : Z := if neg then (- Z.of_N n)%Z else Z.of_N n.

(* mantissa and power of ten of a float literal *)
Definition float_mant (f : floatlit) : Z :=
  Z.of_N (digits_value 10 (fl_ip f ++ match fl_fp f with Some fp => fp | None => [] end)).
Definition float_exp10 (f : floatlit) : Z :=
  ((match fl_ex f with
    | Some (_, sg, ed) => let e := Z.of_N (digits_value 10 ed) in if N.eqb sg 2 then - e else e
    | None => 0
    end)
   - Z.of_nat (length (match fl_fp f with Some fp => fp | None => [] end)))%Z.

(* what [num] must yield for a documented literal *)
Definition expected (l : lit) : pres :=
  match l with
  | LInt neg n => PNum (canon_int (signed neg (nat_value n)))
  | LRat neg n d => PNum (canon_rat (signed neg (nat_value n)) (Z.of_N (nat_value d)))
  | LFloat f => PNum (NFloat (rne_bits (fl_neg f) (float_mant f) (float_exp10 f)))
  | LSpecial SPInf _ => PNum (NFloat bitsPInf)
  | LSpecial SNInf _ => PNum (NFloat bitsNInf)
  | LSpecial SNaN _ => PNum (NFloat (2047 * 2 ^ 52 + 1))   (* any NaN; see check_literal *)
  end.

Definition check_literal (l : lit) (obs : pres) : bool :=
  match l, obs with
  | LSpecial SNaN _, PNum (NFloat b) => is_nan b
  | LSpecial SNaN _, _ => false
  | _, _ => pres_eqb (expected l) obs
  end.

(* a float literal whose correctly rounded value is an infinity lies outside the
   property's domain (the reference does not say what happens beyond the
   float64 range): nothing is demanded of it *)
Definition out_of_range (l : lit) : bool :=
  match l with
  | LFloat f => overflows (float_mant f) (float_exp10 f)
  | _ => false
  end.

(* ---- the stated grammar of non-numbers ----
   NN1  the empty string
   NN2  a string containing a byte outside [0-9A-Za-z_+-./]
   NN3  a string without any decimal digit that is not, ignoring case and one
        leading sign, "inf", "infinity" or "nan"
   NN4  a string with a '/' whose denominator part (after the first '/') is
        empty or contains a byte that is no letter, digit or underscore
        (a second '/', a sign, a point) *)
Definition in_alphabet (c : N) : bool :=
  is_dec c || ((65 <=? c) && (c <=? 90)) || ((97 <=? c) && (c <=? 122))
  || (c =? cUnd) || (c =? cPlus) || (c =? cMinus) || (c =? cDot) || (c =? cSlash).
Definition lower (c : N) : N := if (65 <=? c) && (c <=? 90) then c + 32 else c.
Definition strip_sign (s : bytes) : bytes :=
  match s with c :: r => if (c =? cPlus) || (c =? cMinus) then r else s | [] => s end.
Definition is_special_word (s : bytes) : bool :=
  let w := map lower (strip_sign s) in
  bytes_eqb w [105; 110; 102] || bytes_eqb w [105; 110; 102; 105; 110; 105; 116; 121]
  || bytes_eqb w [110; 97; 110].
Definition alnum_us (c : N) : bool := (c =? cUnd) || (digit_val c <? 63).
Definition bad_denominator (s : bytes) : bool :=
  match split_slash s with
  | Some (_, d) => Nat.eqb (length d) 0 || negb (forallb alnum_us d)
  | None => false
  end.
Definition non_number (s : bytes) : bool :=
  Nat.eqb (length s) 0
  || negb (forallb in_alphabet s)
  || (negb (existsb is_dec s) && negb (is_special_word s))
  || bad_denominator s.

(* what ParseFloat may accept at all (checked on every case; contract S4) *)
Definition pf_domain_ok (s : bytes) : bool :=
  forallb in_alphabet s && negb (has_byte cSlash s) && (existsb is_dec s || is_special_word s).

(* ------------------------------------------------------------------ *)
(* cases *)
Definition pftab := list (bytes * option N).
Fixpoint tab_pf (t : pftab) (s : bytes) : option N :=
  match t with
  | [] => None
  | (k, v) :: r => if bytes_eqb k s then v else tab_pf r s
  end.

Inductive case :=
(* a typed number x; Go's FormatFloat 'f' and 'e' texts for it (empty for exact
   numbers); Go's ParseFloat results for the texts the model asks about; the
   observed string form and the observed result of parsing that string back *)
| CNum (x : num) (ff fe : bytes) (tab : pftab) (s_obs : bytes) (y_obs : pres)
(* a documented literal as data, the text given to the implementation, result *)
| CLit (l : lit) (s : bytes) (tab : pftab) (obs : pres)
(* any other string *)
| CStr (s : bytes) (tab : pftab) (obs : pres).

(* contract S evaluated on one sampled float: output shapes, ParseFloat inverts
   FormatFloat, both texts denote decimals whose correct rounding is the float,
   and appending ".0" to an integer-shaped text does not change ParseFloat *)
Definition rne_of_text (s : bytes) : option N :=
  match dec_parse s with
  | Some (neg, m, e) => Some (rne_bits neg m e)
  | None => None
  end.
Definition contract_ok (b : N) (ff fe : bytes) (t : pftab) : bool :=
  (b <? 2 ^ 64) &&
  if is_nan b then
    bytes_eqb ff sNaN && match tab_pf t ff with Some b' => is_nan b' | None => false end
  else if is_inf b then
    bytes_eqb ff (if b <? 2 ^ 63 then sPInf else sNInf)
    && option_eqb N.eqb (tab_pf t ff) (Some b)
  else
    shape_f ff && shape_e fe
    && option_eqb N.eqb (tab_pf t ff) (Some b) && option_eqb N.eqb (tab_pf t fe) (Some b)
    && option_eqb N.eqb (rne_of_text ff) (Some b) && option_eqb N.eqb (rne_of_text fe) (Some b)
    && (has_byte cDot ff || option_eqb N.eqb (tab_pf t (ff ++ sPoint0)) (Some b)).

(* ParseFloat's answer for a documented float literal, as Go defines it:
   the correctly rounded value, an error when that is an infinity *)
Definition go_pf_of_float (f : floatlit) : option N :=
  if overflows (float_mant f) (float_exp10 f) then None
  else Some (rne_bits (fl_neg f) (float_mant f) (float_exp10 f)).

Definition judge1 (c : case) : N :=
  match c with
  | CNum x ff fe t s_obs y_obs =>
    let pf := tab_pf t in
    let ms := to_string (fun _ => ff) (fun _ => fe) x in
    let my := parse_num pf ms in
    code (check_roundtrip x y_obs)
         (canonical x && bytes_eqb ms s_obs && pres_eqb my y_obs
          && match x with NFloat b => contract_ok b ff fe t | _ => true end
          && match tab_pf t s_obs with Some _ => pf_domain_ok s_obs | None => true end)
  | CLit l s t obs =>
    let pf := tab_pf t in
    code (negb (wf_lit l) || out_of_range l || check_literal l obs)
         (wf_lit l && bytes_eqb (render l) s && pres_eqb (parse_num pf s) obs
          && match l with
             | LFloat f => option_eqb N.eqb (pf s) (go_pf_of_float f)
             | _ => true
             end
          && match pf s with Some _ => pf_domain_ok s | None => true end)
  | CStr s t obs =>
    let pf := tab_pf t in
    code (if non_number s then pres_eqb obs PNil else true)
         (pres_eqb (parse_num pf s) obs
          && match pf s with Some _ => pf_domain_ok s | None => true end)
  end.

Definition judge := judge_with judge1.
