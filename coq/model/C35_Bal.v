(* C35/C36 shared: generic open/close token sequences and the stack-based
   balance checker used for HTML tags, emphasis operations and container
   block operations (executable, no proofs). *)
From verif Require Import lib.Base.

Inductive tok (K : Type) :=
| TO (k : K)      (* open *)
| TC (k : K)      (* close *)
| TL.             (* leaf *)
Arguments TO {K} k.
Arguments TC {K} k.
Arguments TL {K}.

(* stack discipline: every close matches the innermost open; nothing stays open *)
Fixpoint bal_check {K} (eqb : K -> K -> bool) (st : list K) (ts : list (tok K)) : bool :=
  match ts with
  | [] => match st with [] => true | _ => false end
  | TL :: r => bal_check eqb st r
  | TO k :: r => bal_check eqb (k :: st) r
  | TC k :: r =>
    match st with
    | k' :: st' => eqb k' k && bal_check eqb st' r
    | [] => false
    end
  end.
