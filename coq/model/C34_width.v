(* C34 (shared with C33) — model of pkg/wcwidth: OfRune from the generated literal
   table, Of, Trim, Force.  Executable definitions only, no proofs.

   Strings are byte lists; a Go "for i, r := range s" loop is modelled by
   [chunks]: the list of (rune, the bytes it was decoded from), using the
   shared model of utf8.DecodeRune (lib/Utf8.v).  Everything about widths is
   then structural recursion over chunk lists, generic in the width function. *)
From verif Require Import lib.Base lib.Utf8 gen.Tables.
Open Scope Z_scope.

(* ---- sort.Search(n, f): i, j := 0, n; for i < j { h := (i+j)/2;
        if !f(h) { i = h+1 } else { j = h } }; return i ---- *)
Fixpoint search_fuel (fuel : nat) (f : Z -> bool) (i j : Z) : Z :=
  match fuel with
  | O => i     (* out of fuel: excluded by the theorems (fuel >= j - i suffices) *)
  | S k =>
    if i <? j then
      let h := (i + j) / 2 in
      if f h then search_fuel k f i h else search_fuel k f (h + 1) j
    else i
  end.

Definition range_at (ranges : list (Z * Z)) (i : Z) : Z * Z :=
  nth (Z.to_nat i) ranges (0, 0).

(* wcwidth.inRange: binary search on the upper bounds *)
Definition in_range (r : Z) (ranges : list (Z * Z)) : bool :=
  let n := Z.of_nat (length ranges) in
  let i := search_fuel (S (length ranges)) (fun i => r <=? snd (range_at ranges i)) 0 n in
  (i <? n) && (fst (range_at ranges i) <=? r).

(* what the binary search is meant to compute *)
Definition in_range_lin (r : Z) (ranges : list (Z * Z)) : bool :=
  existsb (fun p => (fst p <=? r) && (r <=? snd p)) ranges.

(* strictly increasing, non-overlapping, well-formed ranges *)
Fixpoint ranges_sorted_from (lo : Z) (ranges : list (Z * Z)) : bool :=
  match ranges with
  | [] => true
  | (a, b) :: r => (lo <? a) && (a <=? b) && ranges_sorted_from b r
  end.
Definition ranges_sorted (ranges : list (Z * Z)) : bool := ranges_sorted_from (-1) ranges.

(* the wide-character condition of OfRune (hand-transcribed; tied by the
   correspondence run on every boundary of every interval) *)
Definition is_wide (r : Z) : bool :=
  (0x1100 <=? r) &&
  ((r <=? 0x115f) || (r =? 0x2329) || (r =? 0x232a)
   || ((0x2e80 <=? r) && (r <=? 0xa4cf) && negb (r =? 0x303f))
   || ((0xac00 <=? r) && (r <=? 0xd7a3))
   || ((0xf900 <=? r) && (r <=? 0xfaff))
   || ((0xfe10 <=? r) && (r <=? 0xfe19))
   || ((0xfe30 <=? r) && (r <=? 0xfe6f))
   || ((0xff00 <=? r) && (r <=? 0xff60))
   || ((0xffe0 <=? r) && (r <=? 0xffe6))
   || ((0x20000 <=? r) && (r <=? 0x2fffd))
   || ((0x30000 <=? r) && (r <=? 0x3fffd))
   || ((0x1f300 <=? r) && (r <=? 0x1f6ff))).

(* wcwidth.OfRune without overrides (the harness sets none) *)
Definition of_rune_z (r : Z) : Z :=
  if (r =? 0) || (r <? 32) || ((0x7f <=? r) && (r <? 0xa0))
     || in_range r wcwidth_combiningRanges then 0
  else if is_wide r then 2 else 1.

Definition of_rune (r : N) : Z := of_rune_z (Z.of_N r).

(* ---- strings as chunk lists ---- *)
Definition chunk := (N * bytes)%type.

Fixpoint chunks_fuel (fuel : nat) (s : bytes) : list chunk :=
  match fuel with
  | O => []
  | S f =>
    match s with
    | [] => []
    | _ => let '(r, k) := decode_rune s in (r, firstn k s) :: chunks_fuel f (skipn k s)
    end
  end.
Definition chunks (s : bytes) : list chunk := chunks_fuel (length s) s.

Definition bytes_of (cs : list chunk) : bytes := flat_map snd cs.
Definition runes_of (s : bytes) : list N := map fst (chunks s).

Definition space_chunk : chunk := (32%N, [32%N]).

Section Width.
  Variable w : N -> Z.      (* the width of a rune *)

  Fixpoint width_chunks (cs : list chunk) : Z :=
    match cs with [] => 0 | c :: r => w (fst c) + width_chunks r end.

  Fixpoint width_runes (rs : list N) : Z :=
    match rs with [] => 0 | r :: rest => w r + width_runes rest end.

  (* wcwidth.Trim's loop: [acc] is the width so far *)
  Fixpoint trim_chunks (cs : list chunk) (acc n : Z) : list chunk :=
    match cs with
    | [] => []
    | c :: r =>
      let a := acc + w (fst c) in
      if a >? n then [] else c :: trim_chunks r a n
    end.

  (* wcwidth.Force: trim, then pad with width - w spaces *)
  Definition force_chunks (cs : list chunk) (n : Z) : list chunk :=
    let t := trim_chunks cs 0 n in
    t ++ repeat space_chunk (Z.to_nat (n - width_chunks t)).

  Definition of_bytes_w (s : bytes) : Z := width_chunks (chunks s).
  Definition trim_bytes_w (s : bytes) (n : Z) : bytes := bytes_of (trim_chunks (chunks s) 0 n).
  Definition force_bytes_w (s : bytes) (n : Z) : bytes := bytes_of (force_chunks (chunks s) n).
End Width.

(* the instances that are run against the implementation *)
Definition of_bytes := of_bytes_w of_rune.         (* wcwidth.Of *)
Definition trim_bytes := trim_bytes_w of_rune.     (* wcwidth.Trim *)
Definition force_bytes := force_bytes_w of_rune.   (* wcwidth.Force, width >= 0 *)
