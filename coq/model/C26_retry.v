(* C26 — the client's retry on ErrShutdown (pkg/daemon/client.go:call) on top of
   the server model of model/C26.v (executable, no proofs).

   A call makes up to [retriesOnShutdown] = 3 attempts.  An attempt either
   fails before anything is written (rpc.Client.send finds the codec shut down
   and returns ErrShutdown: the request was never sent; the client drops the
   connection and tries again), or it is sent on a live codec.  A sent request
   is never retried: the client waits for the reply, and if the connection is
   lost meanwhile it returns that error (not ErrShutdown) to the caller.  After
   three failed attempts the call returns ErrDaemonUnreachable.  A call that
   ends with a transport error stays pending in the history (no result of the
   specification is claimed for it; it may or may not have been executed).

   Contract of pkg/rpc used here (modelled, not verified): ErrShutdown from
   Call means the request was not written to the connection — provided the
   application does not reset the connection (ResetConn/Close) while a call is
   in flight, which the daemon client's Close waits for. *)
From verif Require Import lib.Base model.C24_F64 model.C24_StoreSpec model.C26.
From Coq Require Import Floats.SpecFloat.
Open Scope N_scope.

Definition max_attempts : nat := 3.    (* retriesOnShutdown *)

Inductive raction :=
| RInvoke (cl : N) (o : op)   (* a client starts a call *)
| RSendFail (i : nat)         (* an attempt of call i finds the codec shut down: ErrShutdown, nothing sent *)
| RSend (i : nat)             (* an attempt of call i is written to a live connection *)
| RExec (i : nat)             (* the service executes request i *)
| RRespond (i : nat).         (* the reply reaches the client *)

Record rsv := mkRsv {
  r_sv : sv;                  (* server, history, execution order *)
  r_sent : list nat;          (* calls whose request was written to a connection *)
  r_failed : list nat }.      (* one entry per failed attempt *)

Definition mem_nat (i : nat) (l : list nat) : bool := existsb (Nat.eqb i) l.
Definition attempts_failed (i : nat) (s : rsv) : nat := count_occ Nat.eq_dec (r_failed s) i.

(* a call can make another attempt: invoked, not yet sent, fewer than three failures *)
Definition can_attempt (s : rsv) (i : nat) : bool :=
  match nth_error (v_hist (r_sv s)) i with
  | Some _ => negb (mem_nat i (r_sent s)) && Nat.ltb (attempts_failed i s) max_attempts
  | None => false
  end.

Section Retry.
  Variable sortf : list dir -> list dir.

  Definition rstep (s : rsv) (a : raction) : rsv :=
    match a with
    | RInvoke cl o => mkRsv (sv_step sortf (r_sv s) (AInvoke cl o)) (r_sent s) (r_failed s)
    | RSendFail i =>
      if can_attempt s i then mkRsv (r_sv s) (r_sent s) (i :: r_failed s) else s
    | RSend i =>
      if can_attempt s i then mkRsv (r_sv s) (i :: r_sent s) (r_failed s) else s
    | RExec i =>
      if mem_nat i (r_sent s) then mkRsv (sv_step sortf (r_sv s) (AExec i)) (r_sent s) (r_failed s) else s
    | RRespond i => mkRsv (sv_step sortf (r_sv s) (ARespond i)) (r_sent s) (r_failed s)
    end.

  Definition rinit (st0 : sstate) : rsv := mkRsv (sv_init st0) [] [].
  Definition rrun (st0 : sstate) (acts : list raction) : rsv := fold_left rstep acts (rinit st0).
End Retry.

(* the executed requests that are AddCmd calls *)
Definition is_add (h : history) (i : nat) : bool :=
  match nth_error h i with
  | Some c => match k_op c with OAddCmd _ => true | _ => false end
  | None => false
  end.
Definition adds_executed (s : sv) : list nat := filter (is_add (v_hist s)) (v_lin s).
