(* C15 — core-language AST, values and interpreter state of the reference
   interpreter (executable, no proofs).  Written from website/ref/language.md.
   Names are numbers: the Go runner prints id k as v<k> (k < 1000), f<k-1000>~
   (1000 <= k < 2000) and option/parameter o<k-2000>. *)
From verif Require Import lib.Base.
Open Scope N_scope.

Inductive builtin :=
| BPut | BNop | BFail | BBreak | BContinue | BReturn
| BAdd | BSub | BMul | BMod
| BLt | BLe | BEq | BNe | BGt | BGe
| BValEq | BNotEq | BNot
| BEach | BTake | BDrop | BCount | BAll | BRange | BKeys
| BDefer.

(* chunk = list of pipelines; pipeline = non-empty list of commands *)
Inductive expr :=
| EStr (s : bytes)                         (* bareword / quoted string *)
| EVar (x : N)                             (* $x *)
| EExplode (x : N)                         (* $@x *)
| EList (es : list expr)                   (* [a b] *)
| EMap (kvs : list (expr * expr))          (* [&k=v] *)
| ELam (args : list N) (rest : option nat) (opts : list (N * expr))
       (body : list (list cmd))            (* {|a @b &o=d| body } *)
| ECapture (c : list (list cmd))           (* ( chunk ) *)
| EExcCapture (c : list (list cmd))        (* ?( chunk ) *)
| EBraced (es : list expr)                 (* {a b} *)
| EIndex (e : expr) (idx : list expr)      (* e[i j] *)
| ECompound (es : list expr)               (* juxtaposition *)
with cmd :=
| CCall (head : expr) (args : list expr) (opts : list (N * expr))   (* dynamic head *)
| CCmd (f : N) (args : list expr) (opts : list (N * expr))          (* f args: variable f~ *)
| CBuiltin (b : builtin) (args : list expr) (opts : list (N * expr))
| CVar (lvs : list (bool * N)) (rhs : option (list expr))
| CSet (lvs : list ((bool * N) * list expr)) (rhs : list expr)
| CTmp (lvs : list ((bool * N) * list expr)) (rhs : list expr)
| CWith (assigns : list (list ((bool * N) * list expr) * list expr)) (body : list (list cmd))
| CDel (targets : list (N * list expr))
| CIf (branches : list (expr * list (list cmd))) (els : option (list (list cmd)))
| CWhile (cond : expr) (body : list (list cmd)) (els : option (list (list cmd)))
| CFor (decl : bool) (x : N) (e : expr) (body : list (list cmd)) (els : option (list (list cmd)))
| CTry (body : list (list cmd))
       (catch : option (option (bool * N) * list (list cmd)))
       (els : option (list (list cmd))) (fin : option (list (list cmd)))
| CFn (f : N) (args : list N) (rest : option nat) (opts : list (N * expr)) (body : list (list cmd))
| CAnd (es : list expr) | COr (es : list expr) | CCoalesce (es : list expr).

Definition pipeline := list cmd.
Definition chunk := list pipeline.
Definition lvalue := ((bool * N) * list expr)%type.   (* (rest?, variable), indices *)

(* exception causes, as a small enum *)
Inductive exkind :=
| KFail        (* fail v: payload [v] *)
| KBreak | KContinue | KReturn
| KArity       (* errs.ArityMismatch *)
| KRange       (* errs.OutOfRange *)
| KNoKey       (* no such key *)
| KBadValue    (* errs.BadValue *)
| KConcat      (* cannot concatenate *)
| KBadOpt      (* unsupported option *)
| KArgType     (* wrong type for a builtin's argument *)
| KPipe        (* several pipeline stages failed: payload = their exceptions *)
| KOther.      (* everything else (index must be integer, not indexable, ...) *)

Definition env := list (N * nat).    (* name -> cell address *)

Inductive value :=
| VStr (s : bytes)
| VNum (z : Z)            (* exact integer (Go int or *big.Int) *)
| VBool (b : bool)
| VNil
| VOk
| VList (l : list value)
| VMap (m : list (value * value))      (* unique keys; order irrelevant *)
| VExc (k : exkind) (payload : list value)
| VClos (args : list N) (rest : option nat) (opts : list (N * value))
        (body : chunk) (cenv : env) (isfn : bool)
| VOpaque.                (* observed side only: a closure or any unmodelled value *)

Inductive deferred :=
| DRestore (a : nat) (v : value)     (* registered by tmp *)
| DCall (f : value).                 (* registered by defer *)

(* Ghost events (no influence on evaluation): the trace the C21 theorems speak
   about.  Closure-call frames and `with` instances get fresh ids from one counter. *)
Inductive gev :=
| GEnter (f : nat)                    (* closure call f begins *)
| GExit (f : nat)                     (* closure call f returns *)
| GReg (f : nat) (d : deferred)       (* frame f registers a tmp restore / a defer callback *)
| GRun (f : nat) (d : deferred)       (* frame f performs it *)
| GWAssign (w : nat) (d : deferred)   (* `with` w assigned a variable; d restores it *)
| GWRestore (w : nat) (d : deferred). (* `with` w restores *)

Record ghost := mkGhost {
  g_log : list gev;      (* most recent first *)
  g_frame : nat;         (* id of the running closure frame *)
  g_wid : nat;           (* id of the `with` whose assignments are being made *)
  g_next : nat           (* next fresh id *)
}.

Record state := mkState {
  st_env : env;
  st_store : list value;
  st_out : list value;          (* value output, most recent first *)
  st_defers : list deferred;    (* current closure frame, most recent first *)
  st_infn : bool;               (* inside a closure call? *)
  st_wrest : list deferred;     (* restores collected by the `with` being set up, most recent first *)
  st_ghost : ghost;             (* trace only *)
  st_stale : bool               (* faithful mode (follows the Go code): element lvalues keep
                                   the container read when the left-hand side was evaluated
                                   (vars.MakeElement) *)
}.

Inductive outcome :=
| Done (vs : list value)
| Exc (k : exkind) (payload : list value)
| OutOfFuel
| Unsupported.     (* program left the modelled subset; not judged *)

Definition res := (state * outcome)%type.

Definition set_env (s : state) (e : env) : state :=
  mkState e (st_store s) (st_out s) (st_defers s) (st_infn s) (st_wrest s) (st_ghost s) (st_stale s).
Definition set_store (s : state) (m : list value) : state :=
  mkState (st_env s) m (st_out s) (st_defers s) (st_infn s) (st_wrest s) (st_ghost s) (st_stale s).
Definition set_out (s : state) (o : list value) : state :=
  mkState (st_env s) (st_store s) o (st_defers s) (st_infn s) (st_wrest s) (st_ghost s) (st_stale s).
Definition set_defers (s : state) (d : list deferred) : state :=
  mkState (st_env s) (st_store s) (st_out s) d (st_infn s) (st_wrest s) (st_ghost s) (st_stale s).
Definition set_frame (s : state) (e : env) (d : list deferred) (f : bool) : state :=
  mkState e (st_store s) (st_out s) d f (st_wrest s) (st_ghost s) (st_stale s).
Definition set_wrest (s : state) (w : list deferred) : state :=
  mkState (st_env s) (st_store s) (st_out s) (st_defers s) (st_infn s) w (st_ghost s) (st_stale s).

Definition set_ghost (s : state) (g : ghost) : state :=
  mkState (st_env s) (st_store s) (st_out s) (st_defers s) (st_infn s) (st_wrest s) g (st_stale s).

Definition ghost0 : ghost := mkGhost [] 0 1 2.
Definition init_state (stale : bool) : state := mkState [] [] [] [] false [] ghost0 stale.

Definition emit (s : state) (es : list gev) : state :=
  let g := st_ghost s in set_ghost s (mkGhost (es ++ g_log g) (g_frame g) (g_wid g) (g_next g)).
(* a new closure frame: its id is the next fresh id *)
Definition enter_frame (s : state) : state :=
  let g := st_ghost s in
  set_ghost s (mkGhost (GEnter (g_next g) :: g_log g) (g_next g) (g_wid g) (S (g_next g))).
Definition leave_frame (s : state) (fid caller : nat) : state :=
  let g := st_ghost s in set_ghost s (mkGhost (GExit fid :: g_log g) caller (g_wid g) (g_next g)).
Definition enter_with (s : state) : state :=
  let g := st_ghost s in set_ghost s (mkGhost (g_log g) (g_frame g) (g_next g) (S (g_next g))).
Definition leave_with (s : state) (outer : nat) : state :=
  let g := st_ghost s in set_ghost s (mkGhost (g_log g) (g_frame g) outer (g_next g)).

Fixpoint lookup (e : env) (x : N) : option nat :=
  match e with
  | [] => None
  | (y, a) :: r => if N.eqb x y then Some a else lookup r x
  end.

Fixpoint remove_first (e : env) (x : N) : env :=
  match e with
  | [] => []
  | (y, a) :: r => if N.eqb x y then r else (y, a) :: remove_first r x
  end.

Fixpoint upd_nth {A} (l : list A) (n : nat) (v : A) : list A :=
  match l, n with
  | [], _ => []
  | _ :: r, O => v :: r
  | x :: r, S n' => x :: upd_nth r n' v
  end.

Definition alloc (s : state) (v : value) : state * nat :=
  (set_store s (st_store s ++ [v]), length (st_store s)).

Definition put_out (s : state) (vs : list value) : state := set_out s (rev vs ++ st_out s).
