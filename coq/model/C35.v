(* C35 — Markdown rendering (pkg/md): the case type and judge for the
   observations of the implementation, the HTML well-formedness checker, the
   line splitter; the inline kernels live in model/C35_Inline.v (shared with
   C36).  Executable, no proofs. *)
From verif Require Import lib.Base lib.Utf8 model.C35_Bal model.C35_Inline.
Open Scope N_scope.

(* ---------------- HTML output: lexer and well-formedness ----------------
   Tags are everything between an opening and the next closing angle bracket.
   Outside tags the text must not contain raw angle brackets or double quotes;
   every ampersand (anywhere) must start one of the four references written by
   escapeHTML. *)
Definition amp_ok (r : bytes) : bool :=
  has_prefix [97;109;112;59] r || has_prefix [113;117;111;116;59] r ||
  has_prefix [108;116;59] r || has_prefix [103;116;59] r.

Fixpoint take_name (s : bytes) : bytes :=
  match s with
  | c :: r => if (c =? 32) || (c =? 47) || (c =? 10) then [] else c :: take_name r
  | [] => []
  end.

(* the token of a complete tag body (between the angle brackets) *)
Definition tag_tok (body : bytes) : tok bytes :=
  match body with
  | 47 :: name => TC name
  | _ => match rev body with
         | 47 :: _ => TL                      (* <img ... />, <br />, <hr /> *)
         | _ => TO (take_name body)
         end
  end.

(* [intag] = Some acc while inside a tag (acc reversed) *)
Fixpoint lex_html (intag : option bytes) (s : bytes) : option (list (tok bytes)) :=
  match s with
  | [] => match intag with None => Some [] | Some _ => None end
  | c :: r =>
    if (c =? 38) && negb (amp_ok r) then None else
    match intag with
    | Some acc =>
      if c =? 62 then
        match lex_html None r with
        | Some ts => Some (tag_tok (rev acc) :: ts)
        | None => None
        end
      else if c =? 60 then None
      else lex_html (Some (c :: acc)) r
    | None =>
      if c =? 60 then lex_html (Some []) r
      else if (c =? 62) || (c =? 34) then None
      else lex_html None r
    end
  end.

Definition html_wf (out : bytes) : bool :=
  match lex_html None out with
  | Some ts => bal_check bytes_eqb [] ts
  | None => false
  end.

(* ---------------- lineSplitter ---------------- *)
Definition NL : N := 10.
(* lines of the text; a final newline does not start another line *)
Fixpoint split_lines (s : bytes) : list bytes :=
  match s with
  | [] => []
  | c :: r =>
    if c =? NL then [] :: split_lines r
    else match split_lines r with
         | l :: ls => (c :: l) :: ls
         | [] => [[c]]
         end
  end.

Fixpoint join_lines (ls : list bytes) : bytes :=
  match ls with
  | [] => []
  | [l] => l
  | l :: r => l ++ NL :: join_lines r
  end.

Definition ends_nl (s : bytes) : bool :=
  match rev s with c :: _ => c =? NL | [] => false end.

(* the property of the observed lines: newline-free and lossless *)
Definition check_lines (s : bytes) (ls : list bytes) : bool :=
  forallb (fun l => negb (existsb (fun c => c =? NL) l)) ls
  && bytes_eqb (join_lines ls ++ (if ends_nl s then [NL] else [])) s.

(* ---------------- container block operations ----------------
   token kinds: 0 blockquote, 1 list item, 2 bullet list, 3 ordered list *)
Definition blocks_ok (ops : list (tok N)) : bool := bal_check N.eqb [] ops.

(* ---------------- the inline main loop (inlineParser.render) ----------------
   Covered constructs: text, backslash escapes, character references, code
   spans, emphasis runs, soft and hard line breaks, ASCII input.  Brackets and
   angle brackets (links, images, raw HTML, autolinks) are NOT covered: the model
   treats those bytes as ordinary text, and the correspondence check uses texts
   without them. *)
Inductive piece :=
| PText (b : bytes) | PCode (b : bytes) | PNewline | PHard
| PDelim (typ : N) (n : nat) (o c : bool).

Definition slice (s : bytes) (a b : nat) : bytes := firstn (b - a) (skipn a s).
Definition ascii_space (c : N) : bool := (c =? 32) || ((9 <=? c) && (c <=? 13)).
(* (is space, is punctuation) of the runes around a delimiter run; the ends of
   the text count as a newline *)
Definition cls_at (text : bytes) (i : option nat) : bool * bool :=
  match i with
  | None => (true, false)
  | Some q => match nth_error text q with
              | Some c => (ascii_space c, is_ascii_punct c)
              | None => (true, false)
              end
  end.

Fixpoint trim_right_sp (s : bytes) : bytes :=
  match s with
  | [] => []
  | c :: r => match trim_right_sp r with
              | [] => if c =? 32 then [] else [c]
              | t => c :: t
              end
  end.
Definition ends_2sp (s : bytes) : bool :=
  match rev s with 32 :: 32 :: _ => true | _ => false end.

(* parseText: the text from [begin] on, extended from [pos] over non-meta bytes *)
Definition parse_text (text : bytes) (begin pos : nat) : list piece * nat :=
  let pos' := (pos + span (fun c => negb (is_meta c)) (skipn pos text))%nat in
  let txt := slice text begin pos' in
  if nth_is pos' text 10 then
    (PText (trim_right_sp txt) :: (if ends_2sp txt then [PHard] else []), pos')
  else ([PText txt], pos').

Definition inline_step (text : bytes) (pos : nat) : list piece * nat :=
  match nth_error text pos with
  | None => ([], S pos)
  | Some b =>
    if (b =? 42) || (b =? 95) then
      let k := span (fun c => c =? b) (skipn pos text) in
      let p' := (pos + k)%nat in
      let '(sp, pp) := cls_at text (match pos with O => None | S q => Some q end) in
      let '(sn, pn) := cls_at text (Some p') in
      let '(o, c) := can_open_close (b =? 95) sp pp sn pn in
      ([PDelim b k o c], Nat.max (S pos) p')
    else if b =? 96 then
      let k := span is_bt (skipn pos text) in
      let p1 := (pos + k)%nat in
      match findBacktickRun text k p1 with
      | Some j => ([PCode (normalize_code_span (slice text p1 j))], Nat.max (S pos) (j + k)%nat)
      | None => parse_text text pos (Nat.max (S pos) p1)
      end
    else if b =? 38 then
      let l := char_ref_len (skipn pos text) in
      if Nat.eqb l 0 then parse_text text pos (S pos)
      else ([PText (unescape_entity (slice text pos (pos + l)))], (pos + l)%nat)
    else if b =? 92 then
      match nth_error text (S pos) with
      | Some d =>
        if d =? 10 then ([PHard], S pos)
        else if is_ascii_punct d then parse_text text (S pos) (S (S pos))
        else parse_text text pos (S pos)
      | None => parse_text text pos (S pos)
      end
    else if b =? 10 then
      ([PNewline], (S pos + span (fun c => N.eqb c 32) (skipn (S pos) text))%nat)
    else parse_text text pos (S pos)
  end.

Fixpoint inline_loop (fuel : nat) (text : bytes) (pos : nat) (acc : list piece) : option (list piece) :=
  match fuel with
  | O => None
  | S f =>
    if Nat.leb (length text) pos then Some acc
    else let '(ps, p') := inline_step text pos in inline_loop f text p' (acc ++ ps)
  end.

(* rendered inline operations *)
Inductive iop :=
| IOText (b : bytes) | IOCode (b : bytes) | IONewline | IOHard
| IOEm (start strong : bool).

Definition piece_entries (ps : list piece) : list entry :=
  (fix go (i : nat) (l : list piece) : list entry :=
     match l with
     | [] => []
     | PDelim t n o c :: r => EDelim (mkDelim i t n n o c) :: go (S i) r
     | _ :: r => EItem (IText i 1) :: go (S i) r
     end) 0%nat ps.

(* buffer.ops: adjacent texts merge, empty texts vanish, newlines inside a text
   (from character references) become newline operations *)
Fixpoint split_nl (s cur : bytes) : list bytes :=
  match s with
  | [] => [rev cur]
  | c :: r => if c =? 10 then rev cur :: split_nl r [] else split_nl r (c :: cur)
  end.

Definition push_text (ops : list iop) (b : bytes) : list iop :=   (* ops reversed *)
  match b with
  | [] => ops
  | _ =>
    match split_nl b [] with
    | [] => ops
    | l0 :: ls =>
      let ops1 :=
        match ops with
        | IOText t :: o' => IOText (t ++ l0) :: o'
        | _ => match l0 with [] => ops | _ => IOText l0 :: ops end
        end in
      fold_left (fun o l => match l with [] => IONewline :: o | _ => IOText l :: IONewline :: o end) ls ops1
    end
  end.

Definition tok_ops (ps : list piece) (ops : list iop) (t : otok) : list iop :=
  match t with
  | OStart s => IOEm true s :: ops
  | OEnd s => IOEm false s :: ops
  | OText id len =>
    match nth_error ps id with
    | Some (PText b) => push_text ops b
    | Some (PCode b) => IOCode b :: ops
    | Some PNewline => IONewline :: ops
    | Some PHard => IOHard :: ops
    | Some (PDelim t _ _ _) => push_text ops (repeat t len)
    | None => ops
    end
  end.

Definition render_inline (text : bytes) : option (list iop) :=
  match inline_loop (S (length text)) text 0 [] with
  | None => None
  | Some ps =>
    match process_emphasis (piece_entries ps) with
    | None => None
    | Some l => Some (rev (fold_left (tok_ops ps) (flatten l) []))
    end
  end.

Definition iop_eqb (a b : iop) : bool :=
  match a, b with
  | IOText x, IOText y | IOCode x, IOCode y => bytes_eqb x y
  | IONewline, IONewline | IOHard, IOHard => true
  | IOEm s t, IOEm s' t' => Bool.eqb s s' && Bool.eqb t t'
  | _, _ => false
  end.

(* ---------------- cases ---------------- *)
Inductive din := Din (typ : N) (n : nat) (op cl : bool).   (* typ 120 = plain text piece *)

Definition build_entries (ds : list din) : list entry :=
  (fix go (i : nat) (l : list din) : list entry :=
     match l with
     | [] => []
     | Din t n o c :: r =>
       (if t =? 120 then EItem (IText i 1) else EDelim (mkDelim i t n n o c)) :: go (S i) r
     end) 0%nat ds.

Inductive case :=
| KAgree (wfapp : bool) (got ref : bytes)   (* normalised HTML of pkg/md and of the reference *)
| KWf (out : bytes)                         (* HTML of a document without raw HTML *)
| KEscape (s obs : bytes)
| KFlank (us sp pp sn pn : bool) (o c : bool)
| KEmph (ds : list din) (obs : list otok)
| KBacktick (s : bytes) (k i : nat) (obs : option nat)
| KCodeNorm (s obs : bytes)
| KLinkTail (s : bytes) (obs : option (nat * bytes * bytes))
| KCharRef (s : bytes) (len : nat) (unesc : bytes)
| KLines (s : bytes) (ls : list bytes)
| KBlocks (ops : list (tok N))
| KCandidate (got ref : bytes)
| KInline (text : bytes) (obs : list iop).   (* unconfirmed disagreement with the reference proxy: recorded, not judged *)

Definition opt_nat_eqb (a b : option nat) : bool :=
  match a, b with Some x, Some y => Nat.eqb x y | None, None => true | _, _ => false end.

Definition tail_eqb (m : tail_result) (o : option (nat * bytes * bytes)) : bool :=
  match m, o with
  | TailNone, None => true
  | TailOk n d t, Some (n', d', t') => Nat.eqb n n' && bytes_eqb d d' && bytes_eqb t t'
  | _, _ => false
  end.

(* escapeHTML leaves no raw special byte and decodes back to its input *)
Definition escape_safe (s obs : bytes) : bool :=
  negb (existsb (fun c => (c =? 60) || (c =? 62) || (c =? 34)) obs)
  && bytes_eqb (unescape4 0 obs) s.

(* code-span rule on an observed result: the closer is a maximal backtick run of
   exactly k (callers start the search at a byte that is not a backtick) *)
Definition check_backtick (s : bytes) (k i : nat) (obs : option nat) : bool :=
  match obs with
  | None => true
  | Some j =>
    Nat.leb i j && Nat.eqb (span is_bt (skipn j s)) k
    && match j with O => true | S j' => negb (nth_is j' s BT) end
  end.

Definition judge1 (c : case) : N :=
  match c with
  | KAgree wfapp got ref => code (bytes_eqb got ref && (negb wfapp || html_wf got)) true
  | KWf out => code (html_wf out) true
  | KEscape s obs => code (escape_safe s obs) (bytes_eqb (escape_html s) obs)
  | KFlank us sp pp sn pn o c =>
    let '(mo, mc) := can_open_close us sp pp sn pn in
    code (Bool.eqb o (table_open us (cat sp pp) (cat sn pn))
          && Bool.eqb c (table_close us (cat sp pp) (cat sn pn)))
         (Bool.eqb mo o && Bool.eqb mc c)
  | KEmph ds obs =>
    code (bal_check Bool.eqb [] (map otok_tok obs))
         (match process_emphasis (build_entries ds) with
          | Some l => list_eqb otok_eqb (flatten l) obs
          | None => false
          end)
  | KBacktick s k i obs => code (check_backtick s k i obs) (opt_nat_eqb (findBacktickRun s k i) obs)
  | KCodeNorm s obs => code true (bytes_eqb (normalize_code_span s) obs)
  | KLinkTail s obs => code true (tail_eqb (parse_link_tail s) obs)
  | KCharRef s len unesc =>
    code true (Nat.eqb (char_ref_len s) len
               && (Nat.eqb len 0 || bytes_eqb (unescape_entity (firstn len s)) unesc))
  | KLines s ls => code (check_lines s ls) (list_eqb bytes_eqb (split_lines s) ls)
  | KBlocks ops => code (blocks_ok ops) true
  | KCandidate _ _ => 0
  | KInline text obs =>
    code true (match render_inline text with Some ops => list_eqb iop_eqb ops obs | None => false end)
  end.

Definition judge := judge_with judge1.
