(* C35 — Markdown rendering (pkg/md): the case type and judge for the
   observations of the implementation, the HTML well-formedness checker, the
   line splitter; the inline kernels live in model/C35_Inline.v (shared with
   C36).  Executable, no proofs. *)
From verif Require Import lib.Base lib.Utf8 model.C35_Bal model.C35_Inline.
Open Scope N_scope.

(* ---------------- HTML output: lexer and well-formedness ----------------
   Tags are everything between an opening and the next closing angle bracket.
   Outside tags the text must not contain raw angle brackets or double quotes;
   every ampersand (anywhere) must start one of the four references written by
   escapeHTML. *)
Definition amp_ok (r : bytes) : bool :=
  has_prefix [97;109;112;59] r || has_prefix [113;117;111;116;59] r ||
  has_prefix [108;116;59] r || has_prefix [103;116;59] r.

Fixpoint take_name (s : bytes) : bytes :=
  match s with
  | c :: r => if (c =? 32) || (c =? 47) || (c =? 10) then [] else c :: take_name r
  | [] => []
  end.

(* the token of a complete tag body (between the angle brackets) *)
Definition tag_tok (body : bytes) : tok bytes :=
  match body with
  | 47 :: name => TC name
  | _ => match rev body with
         | 47 :: _ => TL                      (* <img ... />, <br />, <hr /> *)
         | _ => TO (take_name body)
         end
  end.

(* [intag] = Some acc while inside a tag (acc reversed) *)
Fixpoint lex_html (intag : option bytes) (s : bytes) : option (list (tok bytes)) :=
  match s with
  | [] => match intag with None => Some [] | Some _ => None end
  | c :: r =>
    if (c =? 38) && negb (amp_ok r) then None else
    match intag with
    | Some acc =>
      if c =? 62 then
        match lex_html None r with
        | Some ts => Some (tag_tok (rev acc) :: ts)
        | None => None
        end
      else if c =? 60 then None
      else lex_html (Some (c :: acc)) r
    | None =>
      if c =? 60 then lex_html (Some []) r
      else if (c =? 62) || (c =? 34) then None
      else lex_html None r
    end
  end.

Definition html_wf (out : bytes) : bool :=
  match lex_html None out with
  | Some ts => bal_check bytes_eqb [] ts
  | None => false
  end.

(* ---------------- lineSplitter ---------------- *)
Definition NL : N := 10.
(* lines of the text; a final newline does not start another line *)
Fixpoint split_lines (s : bytes) : list bytes :=
  match s with
  | [] => []
  | c :: r =>
    if c =? NL then [] :: split_lines r
    else match split_lines r with
         | l :: ls => (c :: l) :: ls
         | [] => [[c]]
         end
  end.

Fixpoint join_lines (ls : list bytes) : bytes :=
  match ls with
  | [] => []
  | [l] => l
  | l :: r => l ++ NL :: join_lines r
  end.

Definition ends_nl (s : bytes) : bool :=
  match rev s with c :: _ => c =? NL | [] => false end.

(* the property of the observed lines: newline-free and lossless *)
Definition check_lines (s : bytes) (ls : list bytes) : bool :=
  forallb (fun l => negb (existsb (fun c => c =? NL) l)) ls
  && bytes_eqb (join_lines ls ++ (if ends_nl s then [NL] else [])) s.

(* ---------------- container block operations ----------------
   token kinds: 0 blockquote, 1 list item, 2 bullet list, 3 ordered list *)
Definition blocks_ok (ops : list (tok N)) : bool := bal_check N.eqb [] ops.

(* ---------------- cases ---------------- *)
Inductive din := Din (typ : N) (n : nat) (op cl : bool).   (* typ 120 = plain text piece *)

Definition build_entries (ds : list din) : list entry :=
  (fix go (i : nat) (l : list din) : list entry :=
     match l with
     | [] => []
     | Din t n o c :: r =>
       (if t =? 120 then EItem (IText i 1) else EDelim (mkDelim i t n n o c)) :: go (S i) r
     end) 0%nat ds.

Inductive case :=
| KAgree (wfapp : bool) (got ref : bytes)   (* normalised HTML of pkg/md and of the reference *)
| KWf (out : bytes)                         (* HTML of a document without raw HTML *)
| KEscape (s obs : bytes)
| KFlank (us sp pp sn pn : bool) (o c : bool)
| KEmph (ds : list din) (obs : list otok)
| KBacktick (s : bytes) (k i : nat) (obs : option nat)
| KCodeNorm (s obs : bytes)
| KLinkTail (s : bytes) (obs : option (nat * bytes * bytes))
| KCharRef (s : bytes) (len : nat) (unesc : bytes)
| KLines (s : bytes) (ls : list bytes)
| KBlocks (ops : list (tok N))
| KCandidate (got ref : bytes).   (* unconfirmed disagreement with the reference proxy: recorded, not judged *)

Definition opt_nat_eqb (a b : option nat) : bool :=
  match a, b with Some x, Some y => Nat.eqb x y | None, None => true | _, _ => false end.

Definition tail_eqb (m : tail_result) (o : option (nat * bytes * bytes)) : bool :=
  match m, o with
  | TailNone, None => true
  | TailOk n d t, Some (n', d', t') => Nat.eqb n n' && bytes_eqb d d' && bytes_eqb t t'
  | _, _ => false
  end.

(* escapeHTML leaves no raw special byte and decodes back to its input *)
Definition escape_safe (s obs : bytes) : bool :=
  negb (existsb (fun c => (c =? 60) || (c =? 62) || (c =? 34)) obs)
  && bytes_eqb (unescape4 0 obs) s.

(* code-span rule on an observed result: the closer is a maximal backtick run of
   exactly k (callers start the search at a byte that is not a backtick) *)
Definition check_backtick (s : bytes) (k i : nat) (obs : option nat) : bool :=
  match obs with
  | None => true
  | Some j =>
    Nat.leb i j && Nat.eqb (span is_bt (skipn j s)) k
    && match j with O => true | S j' => negb (nth_is j' s BT) end
  end.

Definition judge1 (c : case) : N :=
  match c with
  | KAgree wfapp got ref => code (bytes_eqb got ref && (negb wfapp || html_wf got)) true
  | KWf out => code (html_wf out) true
  | KEscape s obs => code (escape_safe s obs) (bytes_eqb (escape_html s) obs)
  | KFlank us sp pp sn pn o c =>
    let '(mo, mc) := can_open_close us sp pp sn pn in
    code (Bool.eqb o (table_open us (cat sp pp) (cat sn pn))
          && Bool.eqb c (table_close us (cat sp pp) (cat sn pn)))
         (Bool.eqb mo o && Bool.eqb mc c)
  | KEmph ds obs =>
    code (bal_check Bool.eqb [] (map otok_tok obs))
         (match process_emphasis (build_entries ds) with
          | Some l => list_eqb otok_eqb (flatten l) obs
          | None => false
          end)
  | KBacktick s k i obs => code (check_backtick s k i obs) (opt_nat_eqb (findBacktickRun s k i) obs)
  | KCodeNorm s obs => code true (bytes_eqb (normalize_code_span s) obs)
  | KLinkTail s obs => code true (tail_eqb (parse_link_tail s) obs)
  | KCharRef s len unesc =>
    code true (Nat.eqb (char_ref_len s) len
               && (Nat.eqb len 0 || bytes_eqb (unescape_entity (firstn len s)) unesc))
  | KLines s ls => code (check_lines s ls) (list_eqb bytes_eqb (split_lines s) ls)
  | KBlocks ops => code (blocks_ok ops) true
  | KCandidate _ _ => 0
  end.

Definition judge := judge_with judge1.
