(* C24 / C29 — the sequential specification of the history store (executable,
   no proofs).  Shared by model/C24.v (which refines it with a model of the
   bbolt buckets and the cursor loops of pkg/store/cmd.go, dir.go) and by
   model/C29.v (whose database is this specification).

   State: the bucket sequence (last allocated number), the command log as a
   list of (sequence number, text) in insertion order, and the directory
   scores as a finite map path -> binary64 (a key-sorted association list is
   the canonical representation of the finite map).

   Arguments of the Go API are [int]; the store converts them with uint64(x),
   so an argument denotes the sequence number x mod 2^64 (documented use:
   "-1 for upto = no upper bound", pkg/mods/store).  Results are converted back
   with int(x). *)
From verif Require Import lib.Base model.C24_F64.
From Coq Require Import Floats.SpecFloat.
Open Scope N_scope.

Definition two64 : N := 18446744073709551616.
Definition two63 : N := 9223372036854775808.

(* uint64(x) for x : int *)
Definition u64 (z : Z) : N := Z.to_N (z mod Z.of_N two64).
(* int(x) for x : uint64 *)
Definition to_int (n : N) : Z :=
  if n <? two63 then Z.of_N n else (Z.of_N n - Z.of_N two64)%Z.
(* uint64 arithmetic wraps *)
Definition wrap64 (n : N) : N := n mod two64.

(* bytes.HasPrefix / strings.HasPrefix *)
Fixpoint has_prefix (p s : bytes) : bool :=
  match p, s with
  | [], _ => true
  | a :: p', b :: s' => (a =? b) && has_prefix p' s'
  | _ :: _, [] => false
  end.

(* bytes.Compare(a, b) < 0 *)
Fixpoint bytes_ltb (a b : bytes) : bool :=
  match a, b with
  | _, [] => false
  | [], _ :: _ => true
  | x :: a', y :: b' => if x <? y then true else if x =? y then bytes_ltb a' b' else false
  end.

(* ---- finite maps with byte-string keys as key-sorted association lists ---- *)
Fixpoint m_put {V} (k : bytes) (v : V) (m : list (bytes * V)) : list (bytes * V) :=
  match m with
  | [] => [(k, v)]
  | (k', v') :: r =>
    if bytes_ltb k k' then (k, v) :: m
    else if bytes_eqb k k' then (k, v) :: r
    else (k', v') :: m_put k v r
  end.

Definition m_del {V} (k : bytes) (m : list (bytes * V)) : list (bytes * V) :=
  filter (fun e => negb (bytes_eqb k (fst e))) m.

Fixpoint m_get {V} (k : bytes) (m : list (bytes * V)) : option V :=
  match m with
  | [] => None
  | (k', v') :: r => if bytes_eqb k k' then Some v' else m_get k r
  end.

Definition mem_bytes (k : bytes) (l : list bytes) : bool := existsb (bytes_eqb k) l.

(* ---- state, operations, results ---- *)
Definition cmd := (N * bytes)%type.          (* sequence number, text *)
Definition dir := (bytes * f64)%type.        (* path, score *)

Record sstate := mkS { s_seq : N; s_log : list cmd; s_dirs : list dir }.

Inductive op :=
| OAddCmd (t : bytes)
| ODelCmd (seq : Z)
| OCmd (seq : Z)
| OCmds (from upto : Z)                (* CmdsWithSeq / IterateCmds *)
| ONextCmd (from : Z) (p : bytes)
| OPrevCmd (upto : Z) (p : bytes)
| ONextCmdSeq
| OAddDir (d : bytes) (factor : f64)
| ODelDir (d : bytes)
| ODirs (blacklist : list bytes).

Inductive res :=
| RInt (z : Z)                          (* AddCmd, NextCmdSeq *)
| ROk                                   (* nil error, no value *)
| RText (t : bytes)                     (* Cmd *)
| RCmd (t : bytes) (seq : Z)            (* NextCmd, PrevCmd *)
| RCmds (l : list (bytes * Z))          (* CmdsWithSeq *)
| RDirs (l : list dir)                  (* Dirs *)
| RNoMatch                              (* ErrNoMatchingCmd *)
| RErr.                                 (* any other error *)

Definition out_cmd (c : cmd) : bytes * Z := (snd c, to_int (fst c)).
Definition matches (p : bytes) (c : cmd) : bool := has_prefix p (snd c).

(* AddCmd: the next sequence number is allocated and the command appended *)
Definition sp_add (st : sstate) (t : bytes) : sstate * res :=
  let n := wrap64 (s_seq st + 1) in
  (mkS n (s_log st ++ [(n, t)]) (s_dirs st), RInt (to_int n)).

Definition sp_del (st : sstate) (seq : Z) : sstate * res :=
  (mkS (s_seq st) (filter (fun c => negb (fst c =? u64 seq)) (s_log st)) (s_dirs st), ROk).

Definition sp_get (st : sstate) (seq : Z) : res :=
  match find (fun c => fst c =? u64 seq) (s_log st) with
  | Some c => RText (snd c)
  | None => RNoMatch
  end.

(* all commands with from <= seq < upto, in log order *)
Definition sp_range (st : sstate) (from upto : Z) : res :=
  RCmds (map out_cmd
    (filter (fun c => (u64 from <=? fst c) && (fst c <? u64 upto)) (s_log st))).

(* the first command at or after [from] with the prefix *)
Definition sp_next (st : sstate) (from : Z) (p : bytes) : res :=
  match find (matches p) (filter (fun c => u64 from <=? fst c) (s_log st)) with
  | Some c => RCmd (snd c) (to_int (fst c))
  | None => RNoMatch
  end.

(* the last command strictly before [upto] with the prefix *)
Definition sp_prev (st : sstate) (upto : Z) (p : bytes) : res :=
  match find (matches p) (rev (filter (fun c => fst c <? u64 upto) (s_log st))) with
  | Some c => RCmd (snd c) (to_int (fst c))
  | None => RNoMatch
  end.

Definition sp_next_seq (st : sstate) : res := RInt (to_int (wrap64 (s_seq st + 1))).

(* AddDir: every stored score s becomes quant (s * decay); then the visited
   directory's (decayed) score, 0 if absent, becomes quant (s + increment * factor).
   The empty path is rejected by the database (bbolt ErrKeyRequired) and the
   transaction rolled back. *)
Definition decay_all (m : list dir) : list dir := map (fun e => (fst e, q_decay (snd e))) m.

Definition sp_add_dir (st : sstate) (d : bytes) (factor : f64) : sstate * res :=
  match d with
  | [] => (st, RErr)
  | _ =>
    let m := decay_all (s_dirs st) in
    let s0 := match m_get d m with Some s => s | None => S754_zero false end in
    (mkS (s_seq st) (s_log st) (m_put d (q_inc s0 factor) m), ROk)
  end.

Definition sp_del_dir (st : sstate) (d : bytes) : sstate * res :=
  (mkS (s_seq st) (s_log st) (m_del d (s_dirs st)), ROk).

Section WithSort.
  (* sort.Sort(sort.Reverse(dirList(dirs))): contract = a permutation of the
     input in which no element has a smaller score than a later one; not stable. *)
  Variable sortf : list dir -> list dir.

  Definition sp_dirs (st : sstate) (bl : list bytes) : res :=
    RDirs (sortf (filter (fun e => negb (mem_bytes (fst e) bl)) (s_dirs st))).

  Definition spec_step (st : sstate) (o : op) : sstate * res :=
    match o with
    | OAddCmd t => sp_add st t
    | ODelCmd z => sp_del st z
    | OCmd z => (st, sp_get st z)
    | OCmds a b => (st, sp_range st a b)
    | ONextCmd a p => (st, sp_next st a p)
    | OPrevCmd b p => (st, sp_prev st b p)
    | ONextCmdSeq => (st, sp_next_seq st)
    | OAddDir d f => sp_add_dir st d f
    | ODelDir d => sp_del_dir st d
    | ODirs bl => (st, sp_dirs st bl)
    end.

  Fixpoint spec_run (st : sstate) (h : list op) : list res :=
    match h with
    | [] => []
    | o :: h' => let '(st', r) := spec_step st o in r :: spec_run st' h'
    end.

  Fixpoint spec_exec (st : sstate) (h : list op) : sstate :=
    match h with
    | [] => st
    | o :: h' => spec_exec (fst (spec_step st o)) h'
    end.
End WithSort.

(* a fresh database whose bucket sequence is [seq0] (0 for a new file) *)
Definition spec_init (seq0 : N) : sstate := mkS seq0 [] [].

(* ---- comparing results: equal, except that a Dirs listing is determined only
   up to the order among equal scores ---- *)
Fixpoint desc_sortedb (l : list dir) : bool :=
  match l with
  | [] => true
  | a :: r => forallb (fun b => negb (fltb (snd a) (snd b))) r && desc_sortedb r
  end.

Definition dir_eqb (a b : dir) : bool := bytes_eqb (fst a) (fst b) && f64_eqb (snd a) (snd b).

(* remove one occurrence *)
Fixpoint remove1 (x : dir) (l : list dir) : option (list dir) :=
  match l with
  | [] => None
  | y :: r => if dir_eqb x y then Some r
              else match remove1 x r with Some r' => Some (y :: r') | None => None end
  end.

Fixpoint permb (a b : list dir) : bool :=
  match a with
  | [] => match b with [] => true | _ => false end
  | x :: a' => match remove1 x b with Some b' => permb a' b' | None => false end
  end.

Definition cmdout_eqb (a b : bytes * Z) : bool := bytes_eqb (fst a) (fst b) && Z.eqb (snd a) (snd b).

(* [res_match expected observed] *)
Definition res_match (e o : res) : bool :=
  match e, o with
  | RInt a, RInt b => Z.eqb a b
  | ROk, ROk => true
  | RText a, RText b => bytes_eqb a b
  | RCmd t s, RCmd t' s' => bytes_eqb t t' && Z.eqb s s'
  | RCmds a, RCmds b => list_eqb cmdout_eqb a b
  | RDirs a, RDirs b => permb a b && desc_sortedb b
  | RNoMatch, RNoMatch => true
  | RErr, RErr => true
  | _, _ => false
  end.

(* insertion sort by descending score, used to execute the model *)
Fixpoint ins_desc (x : dir) (l : list dir) : list dir :=
  match l with
  | [] => [x]
  | y :: r => if fltb (snd x) (snd y) then y :: ins_desc x r else x :: l
  end.
Definition isort_desc (l : list dir) : list dir := fold_right ins_desc [] l.
