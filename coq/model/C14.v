(* C14 — element assignment never mutates values seen elsewhere.
   Model: the C15 interpreter in faithful mode (assign_target / nested_assoc /
   nested_dissoc over an immutable-value store).  The oracle works on the event
   log of a generated history (executable, no proofs):

     [I x]                         the variable's value before the first step
     [In i x]                      inside a tmp / with step: the variable's value there
     [P i x [a c o b] [a c o b] ...]   after step i: the variable, then for every alias
                                   taken so far (before step 0, 1, ...) the value of the
                                   other variable, of the closure capture, of the captured
                                   output and of the outer container's element
     [C i [n r r ...] [n r r ...] ...]  after step i, per alias: count of the alias, then the
                                   alias re-built from its own iteration (maps: a fresh map
                                   from `keys` and indexing every key; lists: `all` / `each`)
                                   for the variable, closure and container aliases *)
From verif Require Import lib.Base model.C15_Syntax model.C15_Values model.C15_Interp.
Open Scope N_scope.

Inductive step :=
| SSet (path : list value) (v : value)          (* set x[p1]...[pn] = v *)
| SDel (path : list value)                      (* del x[p1]...[pn] *)
| STmp (path : list value) (v : value)          (* { tmp x[..] = v; put [In i $x] } *)
| SWith (path : list value) (v : value)         (* with [x[..] = v] { put [In i $x] } *)
| SMulti (p1 : list value) (v1 : value) (p2 : list value) (v2 : value).  (* set x[p1] x[p2] = v1 v2 *)

Definition tag_I : bytes := [73].
Definition tag_In : bytes := [73; 110].
Definition tag_P : bytes := [80].
Definition tag_C : bytes := [67].

(* what the property allows for the variable after the step, given its old value:
   the nested assoc / dissoc; a step that raises leaves the variable alone;
   tmp / with steps change it only inside.  None = outside the modelled subset.
   For a step with two element lvalues of the same variable, "its old value" may be
   read as the value just before each assignment (sequential result) or as the value
   before the command (the second assoc starts from the command's initial container,
   which is what vars.MakeElement implements): both comply.  If the second lvalue
   fails, the variable may be untouched or hold the first assignment. *)
Definition after_assoc (old : value) (p : list value) (v : value) (onerr : value) : option value :=
  match nested_assoc old p v with POk nv => Some nv | PErr _ => Some onerr | PUnsup => None end.

Definition spec_after (st : step) (old : value) : option (list value) :=
  match st with
  | SSet p v => option_map (fun x => [x]) (after_assoc old p v old)
  | SDel p => match nested_dissoc old p with
              | POk nv => Some [nv] | PErr _ => Some [old] | PUnsup => None end
  | STmp _ _ | SWith _ _ => Some [old]
  | SMulti p1 v1 p2 v2 =>
    match nested_assoc old p1 v1 with
    | POk mid =>
      match nested_assoc mid p2 v2, nested_assoc old p2 v2 with
      | PUnsup, _ | _, PUnsup => None
      | r_seq, r_start =>
        let ok (r : pres value) := match r with POk nv => [nv] | _ => [] end in
        let failed (r : pres value) := match r with PErr _ => true | _ => false end in
        (* the second element assignment (or the evaluation of its lvalue) raises:
           the reference does not say whether the first one has happened by then;
           the implementation evaluates both lvalues before either store, so it may
           leave the variable untouched (failure found while reading the path) or
           with the first assignment done (failure at the store): both comply *)
        Some (ok r_seq ++ ok r_start
              ++ (if failed r_seq || failed r_start then [old; mid] else []))
      end
    | PErr _ => Some [old]
    | PUnsup => None
    end
  end.

Definition spec_inside (st : step) (old : value) : option (option value) :=
  match st with
  | STmp p v | SWith p v =>
    match nested_assoc old p v with
    | POk nv => Some (Some nv)
    | PErr _ => Some None          (* the assignment raises: the body is not run *)
    | PUnsup => None
    end
  | _ => Some None
  end.

(* find [In i x] *)
Fixpoint find_inside (i : value) (log : list value) : option value :=
  match log with
  | [] => None
  | VList [VStr t; j; x] :: r =>
    if bytes_eqb t tag_In && value_eqb i j then Some x else find_inside i r
  | _ :: r => find_inside i r
  end.

Fixpoint find_P (i : value) (log : list value) : option (value * list value) :=
  match log with
  | [] => None
  | VList (VStr t :: j :: x :: aliases) :: r =>
    if bytes_eqb t tag_P && value_eqb i j then Some (x, aliases) else find_P i r
  | _ :: r => find_P i r
  end.

Fixpoint find_C (i : value) (log : list value) : option (list value) :=
  match log with
  | [] => None
  | VList (VStr t :: j :: groups) :: r =>
    if bytes_eqb t tag_C && value_eqb i j then Some groups else find_C i r
  | _ :: r => find_C i r
  end.

Definition size_of (v : value) : option Z :=
  match v with
  | VList l => Some (Z.of_nat (length l))
  | VMap m => Some (Z.of_nat (length m))
  | _ => None
  end.

(* count and iteration of alias j must be those of its snapshot *)
Fixpoint counts_ok (snaps : list value) (groups : list value) : bool :=
  match snaps, groups with
  | [], [] => true
  | sn :: snaps', VList (VNum n :: rebuilt) :: groups' =>
    match size_of sn with Some k => Z.eqb n k | None => false end
    && forallb (value_eqb sn) rebuilt && counts_ok snaps' groups'
  | _, _ => false
  end.

(* alias group j must show the snapshot in every position *)
Fixpoint aliases_ok (snaps : list value) (groups : list value) : bool :=
  match snaps, groups with
  | [], [] => true
  | sn :: snaps', VList g :: groups' => forallb (value_eqb sn) g && aliases_ok snaps' groups'
  | _, _ => false
  end.

(* walk the steps; [snaps] = the variable's observed value before step 0, 1, ... (so far) *)
Fixpoint check_steps (steps : list step) (i : nat) (old : value) (snaps : list value)
         (log : list value) : bool :=
  match steps with
  | [] => true
  | st :: rest =>
    let iv := VStr (Z_to_dec (Z.of_nat i)) in
    match find_P iv log with
    | None => false
    | Some (x, groups) =>
      let snaps' := snaps ++ [old] in
      aliases_ok snaps' groups
      && match find_C iv log with Some cg => counts_ok snaps' cg | None => false end
      && match spec_after st old with Some allowed => existsb (value_eqb x) allowed | None => true end
      && match spec_inside st old with
         | Some (Some nv) => match find_inside iv log with Some y => value_eqb y nv | None => false end
         | Some None => match find_inside iv log with Some _ => false | None => true end
         | None => true
         end
      && check_steps rest (S i) x snaps' log
    end
  end.

Definition check_C14 (steps : list step) (out : list value) : bool :=
  match out with
  | VList [VStr t; x0] :: log => bytes_eqb t tag_I && check_steps steps 0 x0 [] log
  | _ => false
  end.

Record case := mkCase {
  c_prog : chunk;
  c_steps : list step;
  c_out : list value;
  c_exc : value
}.

Definition judge1 (c : case) : N :=
  let r := run_program default_fuel true (c_prog c) in
  code (check_C14 (c_steps c) (c_out c))
       (negb (finished r) || (vals_match (outputs r) (c_out c) && val_match (final_exc r) (c_exc c))).

Definition judge := judge_with judge1.
