(* C10 — model of pkg/eval/builtin_fn_stream.go:order (executable, no proofs):
   key pre-computation with a callback that may fail, comparator selection
   (&total, &less-than, default = vals.Cmp), &reverse as swapped arguments
   (sort.Reverse), the error latch of slice.Less, and sort.Stable — once as a
   Section variable (any stable sort, for the theorems), once as the verified
   insertion sort [isort], once as a faithful transcription of Go's
   sort.Stable (insertion-sorted blocks of 20 + symMerge) [gostable] that
   reproduces the exact sequence of Less calls.  Plus the oracle check_C10 on
   the implementation's observations.  The value model is local to C10. *)
From verif Require Import lib.Base.
Open Scope nat_scope.

(* ------------------------------------------------------------------ *)
(* Values (only what order/compare can distinguish)                     *)
Inductive value :=
| VNum (z : Z)             (* exact integer: int or *big.Int *)
| VFlt (h : Z)             (* float64 with value h/2 (|h| < 2^53: exactly representable) *)
| VStr (s : bytes)
| VBool (b : bool)
| VList (l : list value)
| VMap (id : N).           (* the map [&k=id]: an unordered type; Equal iff same id *)

Arguments VNum z%Z.
Arguments VFlt h%Z.
Arguments VMap id%N.

(* compact forms the harness uses for the payloads [key tag] and [tag key] *)
Definition PK (k : value) (t : Z) : value := VList [k; VNum t].
Definition TK (t : Z) (k : value) : value := VList [VNum t; k].
Arguments PK k t%Z.
Arguments TK t%Z k.

Fixpoint value_eqb (a b : value) : bool :=
  match a, b with
  | VNum x, VNum y => Z.eqb x y
  | VFlt x, VFlt y => Z.eqb x y
  | VStr x, VStr y => bytes_eqb x y
  | VBool x, VBool y => Bool.eqb x y
  | VList x, VList y =>
    (fix go (x y : list value) : bool :=
       match x, y with
       | [], [] => true
       | p :: x', q :: y' => value_eqb p q && go x' y'
       | _, _ => false
       end) x y
  | VMap i, VMap j => N.eqb i j
  | _, _ => false
  end.

Inductive ordering := OLt | OEq | OGt | OUnc.

Definition ordering_eqb (a b : ordering) : bool :=
  match a, b with
  | OLt, OLt | OEq, OEq | OGt, OGt | OUnc, OUnc => true
  | _, _ => false
  end.

Definition of_cmp (c : comparison) : ordering :=
  match c with Lt => OLt | Eq => OEq | Gt => OGt end.

(* Go's string < : bytewise lexicographic, a proper prefix is smaller *)
Fixpoint bytes_cmp (a b : bytes) : comparison :=
  match a, b with
  | [], [] => Eq
  | [], _ :: _ => Lt
  | _ :: _, [] => Gt
  | x :: a', y :: b' =>
    match N.compare x y with Eq => bytes_cmp a' b' | c => c end
  end.

(* cmpInner on two non-list values.  Numbers: UnifyNums2 then compare; with
   integers and half-integers below 2^53 that is the mathematical order of
   2*value. *)
Definition cmp_flat (a b : value) : ordering :=
  match a, b with
  | VNum x, VNum y => of_cmp (Z.compare x y)
  | VNum x, VFlt y => of_cmp (Z.compare (2 * x) y)
  | VFlt x, VNum y => of_cmp (Z.compare x (2 * y))
  | VFlt x, VFlt y => of_cmp (Z.compare x y)
  | VStr x, VStr y => of_cmp (bytes_cmp x y)
  | VBool x, VBool y =>
    if Bool.eqb x y then OEq else if x then OGt else OLt
  | VMap i, VMap j => if N.eqb i j then OEq else OUnc   (* default branch: Equal or uncomparable *)
  | _, _ => OUnc
  end.

(* vals.Cmp *)
Fixpoint cmp (a b : value) : ordering :=
  match a, b with
  | VList x, VList y =>
    (fix go (x y : list value) : ordering :=
       match x, y with
       | [], [] => OEq
       | [], _ :: _ => OLt
       | _ :: _, [] => OGt
       | p :: x', q :: y' =>
         match cmp p q with OEq => go x' y' | o => o end
       end) x y
  | _, _ => cmp_flat a b
  end.

(* typeOf: all number representations share one type; the order of the type
   descriptors is "consistent during one session but otherwise undefined", so
   the ranks are an input (observed by the harness on representatives). *)
Definition kind_idx (v : value) : nat :=
  match v with
  | VNum _ | VFlt _ => 0 | VStr _ => 1 | VBool _ => 2 | VList _ => 3 | VMap _ => 4
  end.
Definition rank (rk : list N) (v : value) : N := nth (kind_idx v) rk 0%N.

(* vals.CmpTotal *)
Fixpoint cmp_total (rk : list N) (a b : value) : ordering :=
  match N.compare (rank rk a) (rank rk b) with
  | Lt => OLt
  | Gt => OGt
  | Eq =>
    match a, b with
    | VList x, VList y =>
      (fix go (x y : list value) : ordering :=
         match x, y with
         | [], [] => OEq
         | [], _ :: _ => OLt
         | _ :: _, [] => OGt
         | p :: x', q :: y' =>
           match cmp_total rk p q with OEq => go x' y' | o => o end
         end) x y
    | _, _ => match cmp_flat a b with OUnc => OEq | o => o end
    end
  end.

(* ------------------------------------------------------------------ *)
(* Errors (kinds only) and callbacks                                    *)
Inductive errkind :=
| EUncomparable            (* eval.ErrUncomparable *)
| EThrow (call : N)        (* the callback executed `fail` during its call number [call] *)
| EArity                   (* errs.ArityMismatch: callback output count <> 1 *)
| EBadValue                (* errs.BadValue: &less-than output is not a boolean *)
| EBoth                    (* ErrBothTotalAndLessThan *)
| EOther.                  (* any other exception raised inside a callback (bad index, ...) *)

Definition errkind_eqb (a b : errkind) : bool :=
  match a, b with
  | EUncomparable, EUncomparable | EArity, EArity | EBadValue, EBadValue
  | EBoth, EBoth | EOther, EOther => true
  | EThrow x, EThrow y => N.eqb x y
  | _, _ => false
  end.

(* how a test callback misbehaves when told to *)
Inductive failkind := FThrow | FArity0 | FArity2 | FNonBool.

Definition fail_err (fk : failkind) (call : nat) : errkind :=
  match fk with
  | FThrow => EThrow (N.of_nat call)
  | FArity0 | FArity2 => EArity
  | FNonBool => EBadValue
  end.

(* &key callbacks used by the runner:
     KId      {|x| put $x}            KFirst  {|x| put $x[0]}
     KSecond  {|x| put $x[1]}         KConst  {|x| put (num 0)}
   each optionally failing during its k-th call (1-based). *)
Inductive keybase := KId | KFirst | KSecond | KConst.
Record keyspec := mkKey { k_base : keybase; k_fail : option (nat * failkind) }.

Definition key_base (kb : keybase) (v : value) : errkind + value :=
  match kb with
  | KId => inr v
  | KFirst => match v with VList (k :: _) => inr k | _ => inl EOther end
  | KSecond => match v with VList (_ :: k :: _) => inr k | _ => inl EOther end
  | KConst => inr (VNum 0)
  end.

(* the callback at its call number [i] *)
Definition key_call (ks : keyspec) (i : nat) (v : value) : errkind + value :=
  match k_fail ks with
  | Some (k, fk) => if Nat.eqb i k then inl (fail_err fk i) else key_base (k_base ks) v
  | None => key_base (k_base ks) v
  end.

(* &less-than callbacks used by the runner:
     LCmp       {|a b| == -1 (compare $a $b)}
     LCmpTotal  {|a b| == -1 (compare &total $a $b)}
     LGt        {|a b| == 1 (compare $a $b)}
     LFirst     {|a b| == -1 (compare $a[0] $b[0])}
   optionally failing during the k-th call or whenever an argument is a given value *)
Inductive ltbase := LCmp | LCmpTotal | LGt | LFirst.
Inductive ltfail := LNoFail | LFailAt (k : nat) (fk : failkind) | LFailOn (v : value) (fk : failkind).
Record ltspec := mkLt { l_base : ltbase; l_fail : ltfail }.

Definition lt_of_ordering (want : ordering) (o : ordering) : errkind + bool :=
  match o with OUnc => inl EUncomparable | _ => inr (ordering_eqb o want) end.

Definition lt_base (rk : list N) (lb : ltbase) (a b : value) : errkind + bool :=
  match lb with
  | LCmp => lt_of_ordering OLt (cmp a b)
  | LCmpTotal => inr (ordering_eqb (cmp_total rk a b) OLt)
  | LGt => lt_of_ordering OGt (cmp a b)
  | LFirst =>
    match a, b with
    | VList (x :: _), VList (y :: _) => lt_of_ordering OLt (cmp x y)
    | _, _ => inl EOther
    end
  end.

(* the comparator of slice.Less after option processing *)
Inductive comparator := CDefault | CTotal | CLt (l : ltspec).

(* the boolean Less returns (true whenever the comparison fails, as slice.Less does) *)
Definition okless (rk : list N) (c : comparator) (a b : value) : bool :=
  match c with
  | CDefault => match cmp a b with OUnc => true | o => ordering_eqb o OLt end
  | CTotal => ordering_eqb (cmp_total rk a b) OLt
  | CLt l => match lt_base rk (l_base l) a b with inr r => r | inl _ => true end
  end.

(* failures that depend on the arguments only *)
Definition fails_static (rk : list N) (c : comparator) (a b : value) : option errkind :=
  match c with
  | CDefault => match cmp a b with OUnc => Some EUncomparable | _ => None end
  | CTotal => None
  | CLt l => match lt_base rk (l_base l) a b with inl e => Some e | inr _ => None end
  end.

(* does the comparison of (a, b), made as comparator call number [i], fail? *)
Definition fails (rk : list N) (c : comparator) (i : nat) (a b : value) : option errkind :=
  match c with
  | CLt l =>
    match l_fail l with
    | LFailAt k fk => if Nat.eqb i k then Some (fail_err fk i) else fails_static rk c a b
    | LFailOn v fk =>
      if value_eqb a v || value_eqb b v then Some (fail_err fk i) else fails_static rk c a b
    | LNoFail => fails_static rk c a b
    end
  | _ => fails_static rk c a b
  end.

(* ------------------------------------------------------------------ *)
(* Stable sorts                                                         *)

(* Go's insertionSort on a list: the sorted prefix is kept rightmost-first,
   the new element x moves left while Less(x, left neighbour) *)
Section ISort.
  Context {X : Type} (less : X -> X -> bool).
  Fixpoint ins (x : X) (acc : list X) : list X :=
    match acc with
    | [] => [x]
    | y :: r => if less x y then y :: ins x r else x :: acc
    end.
  Fixpoint ins_trace (x : X) (acc : list X) : list (X * X) :=
    match acc with
    | [] => []
    | y :: r => (x, y) :: (if less x y then ins_trace x r else [])
    end.
  Fixpoint isort_acc (acc l : list X) : list X :=
    match l with
    | [] => rev acc
    | x :: r => isort_acc (ins x acc) r
    end.
  Fixpoint isort_trace_acc (acc l : list X) : list (X * X) :=
    match l with
    | [] => []
    | x :: r => ins_trace x acc ++ isort_trace_acc (ins x acc) r
    end.
End ISort.
Definition isort (X : Type) (less : X -> X -> bool) (l : list X) : list X := isort_acc less [] l.
Definition isort_trace (X : Type) (less : X -> X -> bool) (l : list X) : list (X * X) :=
  isort_trace_acc less [] l.

(* The same insertion sort with the latch written as in slice.Less: the state
   is the latched error and the number of comparator calls made; once an error
   is latched Less answers true without calling anything. *)
Section Latched.
  Context {X : Type} (ok : X -> X -> bool) (fl : nat -> X -> X -> option errkind).
  Definition lstate := (option errkind * nat)%type.
  Definition less_latched (st : lstate) (a b : X) : bool * lstate :=
    match fst st with
    | Some _ => (true, st)
    | None =>
      let i := S (snd st) in
      match fl i a b with
      | Some e => (true, (Some e, i))
      | None => (ok a b, (None, i))
      end
    end.
  Fixpoint ins_l (st : lstate) (x : X) (acc : list X) : list X * lstate :=
    match acc with
    | [] => ([x], st)
    | y :: r =>
      let '(b, st1) := less_latched st x y in
      if b then let '(r', st2) := ins_l st1 x r in (y :: r', st2) else (x :: acc, st1)
    end.
  Fixpoint isort_l (st : lstate) (acc l : list X) : list X * lstate :=
    match l with
    | [] => (rev acc, st)
    | x :: r => let '(acc', st1) := ins_l st x acc in isort_l st1 acc' r
    end.
End Latched.

(* Go's sort.Stable (sort/zsortinterface.go: stable, insertionSort, symMerge,
   rotate) on a functional array.  Only the sequence of Less calls and the
   final arrangement matter, so rotate and the swap loops are their net effect.  The state is the
   array and the reversed list of Less calls (i, j) made so far. *)
Section GoStable.
  Context {X : Type} (less : X -> X -> bool) (d : X).
  Definition gst := (list X * list (X * X))%type.
  Definition g_less (s : gst) (i j : nat) : bool * gst :=
    let a := nth i (fst s) d in let b := nth j (fst s) d in
    (less a b, (fst s, (a, b) :: snd s)).
  (* data[a:m] and data[m:b] exchanged *)
  Definition g_rotate (s : gst) (a m b : nat) : gst :=
    let l := fst s in
    (firstn a l ++ firstn (b - m) (skipn m l) ++ firstn (m - a) (skipn a l) ++ skipn b l, snd s).
  (* move data[i] to position k (k <= i), shifting data[k:i] right; and the converse *)
  Definition g_move_left (s : gst) (i k : nat) : gst := g_rotate s k i (S i).
  Definition g_move_right (s : gst) (i k : nat) : gst := g_rotate s i (S i) (S k).   (* to position k >= i *)

  (* insertionSort(data, a, b): the list form above on the block data[a:b]
     (same Less calls in the same order) *)
  Definition g_insertion_sort (s : gst) (a b : nat) : gst :=
    let l := fst s in
    let blk := firstn (b - a) (skipn a l) in
    (firstn a l ++ isort_acc less [] blk ++ skipn b l,
     rev_append (isort_trace_acc less [] blk) (snd s)).

  (* binary searches of symMerge; [neg] selects the `!Less` form *)
  Fixpoint g_bsearch (fuel : nat) (s : gst) (i j : nat)
           (probe : nat -> nat * nat) (neg : bool) : nat * gst :=
    match fuel with
    | 0 => (i, s)
    | S f =>
      if Nat.ltb i j then
        let h := Nat.div2 (i + j) in
        let '(b, s1) := g_less s (fst (probe h)) (snd (probe h)) in
        if xorb b neg then g_bsearch f s1 (S h) j probe neg else g_bsearch f s1 i h probe neg
      else (i, s)
    end.

  Fixpoint g_symmerge (fuel : nat) (s : gst) (a m b : nat) : gst :=
    match fuel with
    | 0 => s
    | S f =>
      if Nat.eqb (m - a) 1 then
        (* i := lowest index in [m,b) with !Less(i, a); insert data[a] before it *)
        let '(i, s1) := g_bsearch (S b) s m b (fun h => (h, a)) false in
        g_move_right s1 a (i - 1)
      else if Nat.eqb (b - m) 1 then
        (* i := lowest index in [a,m) with Less(m, i); insert data[m] there *)
        let '(i, s1) := g_bsearch (S b) s a m (fun h => (m, h)) true in
        g_move_left s1 m i
      else
        let mid := Nat.div2 (a + b) in
        let n := mid + m in
        let '(start0, r0) := if Nat.ltb mid m then (n - b, mid) else (a, m) in
        let p := n - 1 in
        let '(start, s1) := g_bsearch (S b) s start0 r0 (fun c => (p - c, c)) true in
        let e := n - start in
        let s2 := if Nat.ltb start m && Nat.ltb m e then g_rotate s1 start m e else s1 in
        let s3 := if Nat.ltb a start && Nat.ltb start mid then g_symmerge f s2 a start mid else s2 in
        if Nat.ltb mid e && Nat.ltb e b then g_symmerge f s3 mid e b else s3
    end.

  (* first loop of stable: insertion-sort blocks [a, a+bs) while they fit, then the rest *)
  Fixpoint g_blocks (fuel : nat) (s : gst) (a bs n : nat) : gst :=
    match fuel with
    | 0 => s
    | S f =>
      if Nat.leb (a + bs) n then g_blocks f (g_insertion_sort s a (a + bs)) (a + bs) bs n
      else g_insertion_sort s a n
    end.
  (* one pass of merges with block size bs *)
  Fixpoint g_pass (fuel : nat) (s : gst) (a bs n : nat) : gst :=
    match fuel with
    | 0 => s
    | S f =>
      if Nat.leb (a + 2 * bs) n then
        g_pass f (g_symmerge (S n) s a (a + bs) (a + 2 * bs)) (a + 2 * bs) bs n
      else if Nat.ltb (a + bs) n then g_symmerge (S n) s a (a + bs) n else s
    end.
  Fixpoint g_passes (fuel : nat) (s : gst) (bs n : nat) : gst :=
    match fuel with
    | 0 => s
    | S f => if Nat.ltb bs n then g_passes f (g_pass (S n) s 0 bs n) (2 * bs) n else s
    end.
  Definition g_stable (l : list X) : gst :=
    let n := length l in
    g_passes (S n) (g_blocks (S n) (l, []) 0 20 n) 20 n.
End GoStable.
(* a sort as order sees it: the final arrangement and the Less calls (a, b) made, in order *)
Definition sorter := forall X : Type, (X -> X -> bool) -> list X -> list X * list (X * X).
Definition isortT : sorter := fun X less l => (isort X less l, isort_trace X less l).
Definition gostableT : sorter := fun X less l =>
  match l with
  | [] => ([], [])
  | d :: _ => let s := g_stable less d l in (fst s, rev (snd s))
  end.

(* ------------------------------------------------------------------ *)
(* order                                                                *)
Record result := mkRes {
  r_out : list value;            (* values written to the output, in order *)
  r_err : option errkind;        (* the exception thrown, if any *)
  r_kcalls : nat;                (* calls of the &key callback made *)
  r_lcalls : nat }.              (* comparator calls made (up to and including the failing one) *)

Section Order.
  (* sort.Stable: the final arrangement and the Less calls (a, b) it makes, in order *)
  Variable sortT : sorter.
  (* &key callback at its call number i, or None when the option is absent *)
  Variable kf : option (nat -> value -> errkind + value).
  (* comparator: answer when nothing fails; failure at comparator call number i *)
  Variable okl : value -> value -> bool.
  Variable fl : nat -> value -> value -> option errkind.
  Variable reverse : bool.

  (* keys[i] = the single output of Key(values[i]); stop at the first failure.
     Result: the keys, or the error and the number of calls made. *)
  Fixpoint keys_from (f : nat -> value -> errkind + value) (i : nat) (vs : list value)
    : (errkind * nat) + list value :=
    match vs with
    | [] => inr []
    | v :: r =>
      match f i v with
      | inl e => inl (e, i)
      | inr k =>
        match keys_from f (S i) r with
        | inl e => inl e
        | inr ks => inr (k :: ks)
        end
      end
    end.

  (* Less(i, j) of slice (or of sort.Reverse(slice)) on items (key, value) *)
  Definition item := (value * value)%type.
  Definition cmp_args (p q : item) : value * value :=
    if reverse then (fst q, fst p) else (fst p, fst q).
  Definition item_less (p q : item) : bool :=
    okl (fst (cmp_args p q)) (snd (cmp_args p q)).

  (* the first failing comparator call in a trace: the latched error *)
  Fixpoint first_fail (i : nat) (tr : list (item * item)) : option (errkind * nat) :=
    match tr with
    | [] => None
    | (p, q) :: r =>
      match fl i (fst (cmp_args p q)) (snd (cmp_args p q)) with
      | Some e => Some (e, i)
      | None => first_fail (S i) r
      end
    end.

  Definition order_gen (vals : list value) : result :=
    let keyed :=
      match kf with
      | None => inr (vals, 0)
      | Some f =>
        match keys_from f 1 vals with
        | inl (e, n) => inl (e, n)
        | inr ks => inr (ks, length vals)
        end
      end in
    match keyed with
    | inl (e, n) => mkRes [] (Some e) n 0
    | inr (ks, kc) =>
      let items := combine ks vals in
      let st := sortT item item_less items in
      match first_fail 1 (snd st) with
      | Some (e, n) => mkRes [] (Some e) kc n
      | None => mkRes (map snd (fst st)) None kc (length (snd st))
      end
    end.
End Order.

Record opts := mkOpts {
  o_reverse : bool; o_total : bool; o_key : option keyspec; o_lt : option ltspec }.

Definition comparator_of (o : opts) : comparator :=
  match o_lt o with
  | Some l => CLt l
  | None => if o_total o then CTotal else CDefault
  end.

Definition both_total_lt (o : opts) : bool :=
  o_total o && match o_lt o with Some _ => true | None => false end.

Definition order_with (sortT : sorter) (rk : list N) (o : opts) (vals : list value) : result :=
  if both_total_lt o then mkRes [] (Some EBoth) 0 0
  else
    let c := comparator_of o in
    order_gen sortT (option_map key_call (o_key o)) (okless rk c) (fails rk c)
              (o_reverse o) vals.

(* the model with the verified insertion sort, and with Go's sort.Stable *)
Definition order := order_with isortT.
Definition order_go := order_with gostableT.

(* ------------------------------------------------------------------ *)
(* Oracle on observations                                               *)

(* keys as the (pure part of the) &key callback computes them *)
Definition static_key (o : opts) (v : value) : errkind + value :=
  match o_key o with
  | None => inr v
  | Some ks => key_base (k_base ks) v
  end.
Fixpoint static_keys (o : opts) (vs : list value) : option (list value) :=
  match vs with
  | [] => Some []
  | v :: r =>
    match static_key o v, static_keys o r with
    | inr k, Some ks => Some (k :: ks)
    | _, _ => None
    end
  end.

(* Less on keys with &reverse applied, and whether that comparison can be made *)
Definition key_less (rk : list N) (o : opts) (a b : value) : bool :=
  let c := comparator_of o in
  if o_reverse o then okless rk c b a else okless rk c a b.
Definition key_fails (rk : list N) (o : opts) (a b : value) : bool :=
  let c := comparator_of o in
  let f x y := match fails rk c 0 x y with Some _ => true | None => false end in
  if o_reverse o then f b a else f a b.

(* input elements carry their input index: (index, (key, value)) *)
Definition titem := (nat * (value * value))%type.
Definition tagged {A} (l : list A) : list (nat * A) := combine (seq 0 (length l)) l.

(* remove the first remaining input element whose value is identical to v *)
Fixpoint take_first (v : value) (rem : list titem) : option (titem * list titem) :=
  match rem with
  | [] => None
  | t :: r =>
    if value_eqb (snd (snd t)) v then Some (t, r)
    else match take_first v r with
         | Some (t', r') => Some (t', t :: r')
         | None => None
         end
  end.
(* match the outputs against the input: Some tagged-outputs iff outs is a
   rearrangement of the input values *)
Fixpoint assign (outs : list value) (rem : list titem) : option (list titem) :=
  match outs with
  | [] => match rem with [] => Some [] | _ => None end
  | v :: r =>
    match take_first v rem with
    | Some (t, rem') =>
      match assign r rem' with Some ts => Some (t :: ts) | None => None end
    | None => None
    end
  end.

(* a (earlier in the output) and b (later): b does not compare smaller than a;
   if neither compares smaller, a came first in the input.  Pairs whose
   comparison fails (uncomparable) are not constrained. *)
Definition pair_ok (rk : list N) (o : opts) (a b : titem) : bool :=
  let ka := fst (snd a) in let kb := fst (snd b) in
  key_fails rk o kb ka || key_fails rk o ka kb ||
  (negb (key_less rk o kb ka) && (key_less rk o ka kb || Nat.ltb (fst a) (fst b))).

Fixpoint all_pairs_ok (rk : list N) (o : opts) (l : list titem) : bool :=
  match l with
  | [] => true
  | a :: r => forallb (pair_ok rk o a) r && all_pairs_ok rk o r
  end.

(* no comparison among the input keys can fail: "mutually comparable" *)
Definition comparable_keys (rk : list N) (o : opts) (ks : list value) : bool :=
  forallb (fun a => forallb (fun b => negb (key_fails rk o a b)) ks) ks.

Definition is_nil {A} (l : list A) : bool := match l with [] => true | _ => false end.
Definition is_some {A} (x : option A) : bool := match x with Some _ => true | None => false end.

(* The property on what was observed: [outs] the values order wrote, [err] the
   exception it threw, [cb_failed] whether a callback failed (threw, or
   produced a wrong number/type of outputs) during the run. *)
Definition check_C10 (rk : list N) (o : opts) (vals outs : list value)
           (err : option errkind) (cb_failed : bool) : bool :=
  (* failure is atomic *)
  (negb (is_some err) || is_nil outs)
  (* a failing callback makes order throw *)
  && (negb cb_failed || is_some err)
  && (both_total_lt o ||
      match static_keys o vals with
      | None => is_some err       (* the &key callback cannot succeed on every value *)
      | Some ks =>
        if is_some err
        then (* mutually comparable inputs and well-behaved callbacks: no exception *)
          cb_failed || negb (comparable_keys rk o ks)
        else
          match assign outs (tagged (combine ks vals)) with
          | None => false         (* not a permutation of the input *)
          | Some touts => all_pairs_ok rk o touts
          end
      end).

(* ------------------------------------------------------------------ *)
(* Correspondence case                                                  *)
Record case := mkCase {
  c_rk : list N;                 (* observed rank of the five kinds under compare &total *)
  c_opts : opts;
  c_in : list value;
  c_out : list value;            (* values order wrote before returning *)
  c_err : option errkind;        (* kind of the exception *)
  c_kcalls : nat;                (* observed number of &key callback calls *)
  c_lcalls : nat;                (* observed number of &less-than callback calls *)
  c_cbfailed : bool }.           (* a callback failed *)

Definition list_value_eqb := list_eqb value_eqb.

Definition model_cb_failed (o : opts) (m : result) : bool :=
  match r_err m with
  | None => false
  | Some EUncomparable =>
    (* raised by the builtin comparator, or by `compare` inside a callback *)
    match o_lt o with Some _ => true | None => false end
  | Some EBoth => false
  | Some _ => true
  end.

Definition corr_C10 (c : case) : bool :=
  let o := c_opts c in
  let m := order_go (c_rk c) o (c_in c) in
  list_value_eqb (r_out m) (c_out c)
  && option_eqb errkind_eqb (r_err m) (c_err c)
  && Nat.eqb (r_kcalls m) (c_kcalls c)
  && (match o_lt o with Some _ => Nat.eqb (r_lcalls m) (c_lcalls c) | None => true end)
  && Bool.eqb (model_cb_failed o m) (c_cbfailed c)
  (* Go's sort.Stable and the verified insertion sort arrange alike whenever no
     comparison fails (evidence for the stable-sort contract) *)
  && (let m' := order (c_rk c) o (c_in c) in
      match r_err m, r_err m' with
      | None, None => list_value_eqb (r_out m) (r_out m')
      | Some _, Some _ => true
      | _, _ => match o_lt o with Some (mkLt _ (LFailAt _ _)) => true | _ => false end
      end).

Definition judge1 (c : case) : N :=
  code (check_C10 (c_rk c) (c_opts c) (c_in c) (c_out c) (c_err c) (c_cbfailed c))
       (corr_C10 c).

Definition judge := judge_with judge1.
