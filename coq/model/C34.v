(* C34 — width handling: model of term.BufferBuilder (buffer_builder.go), of
   tk.renderView / truncateToHeight (codearea_render.go), and the oracles for
   wcwidth.Trim / Force and for rendered widgets.  Executable definitions only.

   The buffer builder works on runes: its inputs are Go strings iterated with
   range, so the harness hands over the decoded runes; a cell is (the runes of
   its text, its SGR style string).  The width of a cell is the sum of the
   widths of its runes (wcwidth.Of of its text). *)
From verif Require Import lib.Base lib.Utf8 model.C34_width.
Open Scope Z_scope.

Definition cell := (list N * bytes)%type.
Definition line := list cell.

Section Builder.
  Variable w : N -> Z.

  Definition cell_width (c : cell) : Z := width_runes w (fst c).
  Fixpoint line_width (l : line) : Z :=
    match l with [] => 0 | c :: r => cell_width c + line_width r end.

  (* Lines are kept newest first, and the cells of a line newest first;
     [bb_lines] puts them in reading order. *)
  Record bb := mkBB {
    bWidth : Z; bCol : Z; bIndent : Z; bEager : bool;
    bLines : list line;        (* reversed; never empty *)
    bDot : Z * Z }.

  Definition new_bb (width : Z) : bb := mkBB width 0 0 false [[]] (0, 0).

  Definition bb_lines (b : bb) : list line := rev (map (@rev cell) (bLines b)).

  Definition cursor (b : bb) : Z * Z := (Z.of_nat (length (bLines b)) - 1, bCol b).
  Definition set_dot_here (b : bb) : bb :=
    mkBB (bWidth b) (bCol b) (bIndent b) (bEager b) (bLines b) (cursor b).
  Definition set_indent (b : bb) (i : Z) : bb :=
    mkBB (bWidth b) (bCol b) i (bEager b) (bLines b) (bDot b).
  Definition set_eager (b : bb) (e : bool) : bb :=
    mkBB (bWidth b) (bCol b) (bIndent b) e (bLines b) (bDot b).

  Definition append_line (b : bb) : bb :=
    mkBB (bWidth b) 0 (bIndent b) (bEager b) ([] :: bLines b) (bDot b).

  Definition append_cell (b : bb) (c : cell) : bb :=
    let ls := match bLines b with [] => [[c]] | l :: r => (c :: l) :: r end in
    mkBB (bWidth b) (bCol b + cell_width c) (bIndent b) (bEager b) ls (bDot b).

  Definition space_cell : cell := ([32%N], []).

  Fixpoint append_spaces (b : bb) (n : nat) : bb :=
    match n with O => b | S k => append_spaces (append_cell b space_cell) k end.

  (* BufferBuilder.Newline *)
  Definition newline (b : bb) : bb :=
    let b1 := append_line b in
    if bIndent b1 >? 0 then append_spaces b1 (Z.to_nat (bIndent b1)) else b1.

  Definition is_control (r : N) : bool := (r <? 32)%N || (r =? 127)%N.

  (* the cell WriteRuneSGR makes for a rune other than newline *)
  Definition make_cell (r : N) (style : bytes) : cell :=
    if is_control r then
      ([94%N; N.lxor r 64%N],                         (* "^" + string(r ^ 0x40) *)
       match style with [] => [55%N] | _ => style ++ [59%N; 55%N] end)   (* "7" / style+";7" *)
    else ([r], style).

  (* BufferBuilder.WriteRuneSGR *)
  Definition write_rune (b : bb) (r : N) (style : bytes) : bb :=
    if (r =? 10)%N then newline b
    else
      let c := make_cell r style in
      if bCol b + cell_width c >? bWidth b then append_cell (newline b) c
      else
        let b1 := append_cell b c in
        if (bCol b1 =? bWidth b1) && bEager b1 then newline b1 else b1.

  (* WriteStringSGR / WriteStyled; a styled text is a list of (SGR string, text);
     the text is iterated with range, i.e. decoded rune by rune *)
  Definition stext := list (bytes * bytes).
  Definition write_string (b : bb) (rs : list N) (style : bytes) : bb :=
    fold_left (fun b r => write_rune b r style) rs b.
  Definition write_styled (b : bb) (t : stext) : bb :=
    fold_left (fun b sg => write_string b (runes_of (snd sg)) (fst sg)) t b.

  (* styledWcswidth *)
  Definition stext_width (t : stext) : Z :=
    fold_right (fun sg a => width_runes w (runes_of (snd sg)) + a) 0 t.

  (* ---- tk.renderView ---- *)
  Record view := mkView {
    v_prompt : stext; v_before : stext (* code before the dot *);
    v_after : stext (* code from the dot on *); v_rprompt : stext; v_tips : list stext }.

  Definition render_view (v : view) (b0 : bb) : bb :=
    let b1 := write_styled (set_eager b0 true) (v_prompt v) in
    let b2 := if Nat.eqb (length (bLines b1)) 1 && (bCol b1 * 2 <? bWidth b1)
              then set_indent b1 (bCol b1) else b1 in
    let b3 := write_styled (set_dot_here (write_styled b2 (v_before v))) (v_after v) in
    let b4 := set_indent (set_eager b3 false) 0 in
    let rw := stext_width (v_rprompt v) in
    let b5 :=
      if rw >? 0 then
        let padding := bWidth b4 - bCol b4 - rw in
        if padding >=? 1 then
          write_styled (write_string b4 (repeat 32%N (Z.to_nat padding)) []) (v_rprompt v)
        else b4
      else b4 in
    fold_left (fun b tip => write_styled (newline b) tip) (v_tips v) b5.

  (* ---- term.Buffer, Buffer.TrimToLines, tk.truncateToHeight ---- *)
  Record buffer := mkBuf { fWidth : Z; fLines : list line; fDot : Z * Z }.
  Definition to_buffer (b : bb) : buffer := mkBuf (bWidth b) (bb_lines b) (bDot b).

  Definition trim_to_lines (f : buffer) (low high : Z) : buffer :=
    let n := Z.of_nat (length (fLines f)) in
    let low := if low <? 0 then 0 else low in
    let high := if high >? n then n else high in
    let dl := fst (fDot f) - low in
    mkBuf (fWidth f)
          (firstn (Z.to_nat (high - low)) (skipn (Z.to_nat low) (fLines f)))
          (if dl <? 0 then 0 else dl, snd (fDot f)).

  Definition truncate_to_height (f : buffer) (h : Z) : buffer :=
    let n := Z.of_nat (length (fLines f)) in
    if n <=? h then f
    else if fst (fDot f) <? h then trim_to_lines f 0 h
    else trim_to_lines f (fst (fDot f) - h + 1) (fst (fDot f) + 1).

  (* codeArea.Render at the level of its view *)
  Definition render_codearea (v : view) (width height : Z) : buffer :=
    truncate_to_height (to_buffer (render_view v (new_bb width))) height.

  (* ---- oracle for rendered buffers: every line fits, no more than height lines ---- *)
  Definition lines_fit (ls : list line) (width : Z) : bool :=
    forallb (fun l => line_width l <=? width) ls.
  Definition height_ok (ls : list line) (height : Z) : bool :=
    Z.of_nat (length ls) <=? height.
End Builder.

(* ------------------------------------------------------------------ *)
(* Oracles for wcwidth.Trim / Force on byte strings, by re-decoding what the
   implementation returned. *)

(* p is a prefix of s that ends at a character boundary of s: some number of
   leading chunks of s *)
Definition is_prefix_b (a b : bytes) : bool := bytes_eqb a (firstn (length a) b).
Fixpoint chunk_prefix (cs : list chunk) (p : bytes) : option (list chunk) :=
  (* returns the remaining chunks when p = bytes of a chunk prefix *)
  match p with
  | [] => Some cs
  | _ =>
    match cs with
    | [] => None
    | c :: r =>
      if is_prefix_b (snd c) p then chunk_prefix r (skipn (length (snd c)) p) else None
    end
  end.

(* Trim: longest character-boundary prefix of width <= n: it is such a prefix,
   it fits, and the prefix with one more character does not *)
Definition check_trim (s : bytes) (n : Z) (out : bytes) : bool :=
  match chunk_prefix (chunks s) out with
  | None => false
  | Some rest =>
    (of_bytes out <=? n)
    && match rest with
       | [] => true
       | c :: _ => of_bytes (out ++ snd c) >? n
       end
  end.

(* Force: exactly the requested width *)
Definition check_force (n : Z) (out : bytes) : bool := of_bytes out =? n.

(* ------------------------------------------------------------------ *)
(* Observed buffers are written compactly: a line is (the cells' texts, each
   followed by a NUL byte; the cells' styles, each followed by a NUL byte).
   Cell texts never contain NUL (WriteRuneSGR shows U+0000 as "^@"). *)
Definition eline := (bytes * bytes)%type.
Definition enc_line (l : line) : eline :=
  (flat_map (fun c : cell => encode_all (fst c) ++ [0%N]) l,
   flat_map (fun c : cell => snd c ++ [0%N]) l).
Definition strip0 (x : bytes) : bytes := filter (fun b => negb (b =? 0)%N) x.
(* the width of an observed line: wcwidth.Of of its text *)
Definition eline_width (l : eline) : Z := of_bytes (strip0 (fst l)).
Definition elines_fit (ls : list eline) (width : Z) : bool :=
  forallb (fun l => eline_width l <=? width) ls.
Definition eheight_ok (ls : list eline) (height : Z) : bool := Z.of_nat (length ls) <=? height.

Record ebuffer := mkEBuf { eWidth : Z; eLines : list eline; eDot : Z * Z }.
Definition enc_buffer (f : buffer) : ebuffer := mkEBuf (fWidth f) (map enc_line (fLines f)) (fDot f).

(* Cases *)
Inductive widget_kind := WCodeArea | WListBox | WTextView | WLabel.
Inductive aspect := AWidth | AHeight.

Inductive case :=
| COfRune (r : N) (obs : Z)
| CTrim (s : bytes) (n : Z) (obs : bytes)
| CForce (s : bytes) (n : Z) (obs : bytes)
| CView (v : view) (width height : Z) (obs : ebuffer)    (* renderView + truncateToHeight *)
| CWidget (k : widget_kind) (a : aspect) (width height : Z) (obs : list bytes).  (* line texts *)

Definition eline_eqb (a b : eline) : bool := bytes_eqb (fst a) (fst b) && bytes_eqb (snd a) (snd b).
Definition ebuffer_eqb (a b : ebuffer) : bool :=
  Z.eqb (eWidth a) (eWidth b) && list_eqb eline_eqb (eLines a) (eLines b)
  && Z.eqb (fst (eDot a)) (fst (eDot b)) && Z.eqb (snd (eDot a)) (snd (eDot b)).

Definition judge1 (c : case) : N :=
  match c with
  | COfRune r obs => code true (Z.eqb (of_rune r) obs)
  | CTrim s n obs =>
    code (if 0 <=? n then check_trim s n obs else true) (bytes_eqb (trim_bytes s n) obs)
  | CForce s n obs => code (check_force n obs) (bytes_eqb (force_bytes s n) obs)
  | CView v width height obs =>
    code (elines_fit (eLines obs) width && eheight_ok (eLines obs) height)
         (ebuffer_eqb (enc_buffer (render_codearea of_rune v width height)) obs)
  | CWidget _ AWidth width _ obs => code (forallb (fun t => of_bytes t <=? width) obs) true
  | CWidget _ AHeight _ height obs => code (Z.of_nat (length obs) <=? height) true
  end.

Definition judge := judge_with judge1.
