(* C39 -- one Evaler used from many goroutines.
   Executable Gallina only (no proofs).

   Part 1: the scenario language shared with the Go runner (statements, jobs).
   Part 2: the transition system that follows pkg/eval/eval.go (Eval / Call /
           CheckTree), builtin_special.go (use / useFromFile / evalModule) and
           vars/ptr.go (PtrVar.Get/Set): threads execute micro-operations; every
           access to shared state is recorded as an event (thread, location,
           read or write, locks held at that moment).
   Part 3: the independent sequential specification (names to values, one job
           after the other) and the acceptor serial_outcome_ok used on the
           observations of the implementation.
   Part 4: the case record and the judge. *)
From verif Require Import lib.Base.
Open Scope N_scope.

(* ------------------------------------------------------------------ *)
(* Part 1: scenario language *)

Inductive stmt :=
| SDecl (x v : N)      (* var nX = V   *)
| SSet (x v : N)       (* set nX = V   *)
| SGet (x : N)         (* put $nX      *)
| SUse (m : N).        (* use <module m> *)

Inductive job :=
| JEval (p : list stmt)    (* Evaler.Eval of the program, default global *)
| JCheck (p : list stmt)   (* Evaler.Check *)
| JCall (p : list stmt).   (* Evaler.Call of a closure with this body, compiled during setup *)

Record result := mkRes { r_err : bool; r_outs : list N }.
Record obs := mkObs { o_final : list (N * N); o_res : list result }.

Definition vnil : N := 0.

Fixpoint memN (x : N) (l : list N) : bool :=
  match l with [] => false | y :: r => if x =? y then true else memN x r end.

(* ------------------------------------------------------------------ *)
(* Part 2: the transition system *)

Definition slot := (N * N)%type.             (* (declaring thread, index) *)
Definition slot_eqb (a b : slot) : bool := (fst a =? fst b) && (snd a =? snd b).
Definition ns := list (N * slot).            (* visible names, newest first *)

Fixpoint ns_lookup (x : N) (g : ns) : option slot :=
  match g with [] => None | (y, s) :: r => if x =? y then Some s else ns_lookup x r end.
Fixpoint ns_remove (x : N) (g : ns) : ns :=
  match g with [] => [] | (y, s) :: r => if x =? y then ns_remove x r else (y, s) :: ns_remove x r end.
(* staticNs.add: shadow any existing binding, append the new one *)
Definition ns_bind (x : N) (s : slot) (g : ns) : ns := (x, s) :: ns_remove x g.

Inductive loc := LGlobal | LBuiltin | LModules | LSlot (s : slot).
Inductive lockid := KMu | KVar (s : slot).
(* a held lock: identity and mode (true = exclusive) *)
Record event := mkEv { e_tid : N; e_loc : loc; e_wr : bool; e_locks : list (lockid * bool) }.

Definition loc_eqb (a b : loc) : bool :=
  match a, b with
  | LGlobal, LGlobal | LBuiltin, LBuiltin | LModules, LModules => true
  | LSlot s, LSlot s' => slot_eqb s s'
  | _, _ => false
  end.
Definition lock_eqb (a b : lockid) : bool :=
  match a, b with
  | KMu, KMu => true
  | KVar s, KVar s' => slot_eqb s s'
  | _, _ => false
  end.

Inductive op :=
| OLockW | OUnlockW | OLockR | OUnlockR        (* ev.mu *)
| ORdBuiltin | ORdGlobal                       (* b := ev.builtin ; g := ev.global *)
| OCompile (p : list stmt)                     (* compile against the snapshot; decides the continuation *)
| OWrGlobal (g : ns) (fresh : list slot)       (* op.prepare; ev.global = newLocal *)
| OCheck (p : list stmt)                       (* compile only, result recorded *)
| ORdModKeys                                   (* mapKeys(ev.modules) in CheckTree *)
| OSet (s : slot) (v : N) | OGet (s : slot)    (* PtrVar.Set / PtrVar.Get *)
| OUseLookup (m : N)                           (* ev.modules[key] *)
| OUseInstall (m : N)                          (* ev.modules[key] = ns, then the module body runs *)
| ORdGlobalC.                                  (* g := ev.global in CheckTree and in Evaler.Global() called by Call:
                                                  the snapshot at which a Check / Call linearizes *)

(* compile: resolves names against g; declarations get the slots (t, k), (t, k+1), ...
   Returns the new namespace, the fresh slots and the exec micro-operations;
   None = compilation error (a name that is not visible). *)
Fixpoint compile (t k : N) (g : ns) (p : list stmt) : option (ns * list slot * list op) :=
  match p with
  | [] => Some (g, [], [])
  | SDecl x v :: r =>
    match compile t (k + 1) (ns_bind x (t, k) g) r with
    | Some (g', fr, xs) => Some (g', (t, k) :: fr, OSet (t, k) v :: xs)
    | None => None
    end
  | SSet x v :: r =>
    match ns_lookup x g with
    | Some s => match compile t k g r with
                | Some (g', fr, xs) => Some (g', fr, OSet s v :: xs)
                | None => None end
    | None => None
    end
  | SGet x :: r =>
    match ns_lookup x g with
    | Some s => match compile t k g r with
                | Some (g', fr, xs) => Some (g', fr, OGet s :: xs)
                | None => None end
    | None => None
    end
  | SUse m :: r =>
    match compile t k g r with
    | Some (g', fr, xs) => Some (g', fr, OUseLookup m :: xs)
    | None => None
    end
  end.

(* the body of a closure compiled during setup: names resolved against the
   setup namespace (statements over unknown names are not generated) *)
Fixpoint call_ops (g : ns) (p : list stmt) : list op :=
  match p with
  | [] => []
  | SSet x v :: r => match ns_lookup x g with Some s => OSet s v :: call_ops g r | None => call_ops g r end
  | SGet x :: r => match ns_lookup x g with Some s => OGet s :: call_ops g r | None => call_ops g r end
  | _ :: r => call_ops g r
  end.

Definition job_ops (g0 : ns) (j : job) : list op :=
  match j with
  | JEval p => [OLockW; ORdBuiltin; ORdGlobal; OCompile p]
  | JCheck p => [OLockR; ORdBuiltin; ORdGlobalC; OUnlockR; ORdModKeys; OCheck p]
  | JCall p => [OLockR; ORdGlobalC; OUnlockR] ++ call_ops g0 p
  end.

Record thread := mkThread {
  t_ops : list op;          (* what is left to do *)
  t_snap : ns;              (* the namespace read by ORdGlobal *)
  t_err : bool;             (* compilation error *)
  t_outs : list N }.        (* value outputs, newest first *)

Definition idle : thread := mkThread [] [] false [].

Record config := mkConfig {
  c_thr : N -> thread;
  c_w : option N;               (* ev.mu held exclusively by *)
  c_r : list N;                 (* ev.mu held shared by *)
  c_global : ns;                (* ev.global *)
  c_store : list (slot * N);    (* values of the variables *)
  c_mods : list N;              (* keys of ev.modules *)
  c_trace : list event;         (* newest first *)
  c_commits : list N;           (* ghost: threads in the order they replaced ev.global, newest first *)
  c_lin : list N }.             (* ghost: linearization order, newest first: an Eval when it replaces
                                   ev.global, a Check or a Call when it reads its snapshot *)

Definition upd (f : N -> thread) (t : N) (x : thread) : N -> thread :=
  fun u => if u =? t then x else f u.

Fixpoint store_get (s : slot) (st : list (slot * N)) : N :=
  match st with [] => vnil | (s', v) :: r => if slot_eqb s s' then v else store_get s r end.
Definition store_set (s : slot) (v : N) (st : list (slot * N)) : list (slot * N) := (s, v) :: st.

Fixpoint removeN (x : N) (l : list N) : list N :=
  match l with [] => [] | y :: r => if x =? y then removeN x r else y :: removeN x r end.

(* how thread t holds ev.mu *)
Definition mode_of (c : config) (t : N) : option bool :=
  match c_w c with
  | Some u => if u =? t then Some true else if memN t (c_r c) then Some false else None
  | None => if memN t (c_r c) then Some false else None
  end.
Definition mu_locks (c : config) (t : N) : list (lockid * bool) :=
  match mode_of c t with Some b => [(KMu, b)] | None => [] end.

Definition with_thread (c : config) (t : N) (th : thread) : config :=
  mkConfig (upd (c_thr c) t th) (c_w c) (c_r c) (c_global c) (c_store c) (c_mods c) (c_trace c) (c_commits c) (c_lin c).
Definition with_mu (c : config) (w : option N) (r : list N) : config :=
  mkConfig (c_thr c) w r (c_global c) (c_store c) (c_mods c) (c_trace c) (c_commits c) (c_lin c).
Definition with_event (c : config) (e : event) : config :=
  mkConfig (c_thr c) (c_w c) (c_r c) (c_global c) (c_store c) (c_mods c) (e :: c_trace c) (c_commits c) (c_lin c).
Definition with_global (c : config) (g : ns) (t : N) : config :=
  mkConfig (c_thr c) (c_w c) (c_r c) g (c_store c) (c_mods c) (c_trace c) (t :: c_commits c) (t :: c_lin c).
Definition with_store (c : config) (st : list (slot * N)) : config :=
  mkConfig (c_thr c) (c_w c) (c_r c) (c_global c) st (c_mods c) (c_trace c) (c_commits c) (c_lin c).
Definition with_lin (c : config) (t : N) : config :=
  mkConfig (c_thr c) (c_w c) (c_r c) (c_global c) (c_store c) (c_mods c) (c_trace c) (c_commits c) (t :: c_lin c).
Definition with_mods (c : config) (m : list N) : config :=
  mkConfig (c_thr c) (c_w c) (c_r c) (c_global c) (c_store c) m (c_trace c) (c_commits c) (c_lin c).

Definition set_ops (th : thread) (o : list op) : thread := mkThread o (t_snap th) (t_err th) (t_outs th).

(* the event of thread t touching [l]; the locks are the ones it really holds *)
Definition ev_of (c : config) (t : N) (l : loc) (wr : bool) (extra : list (lockid * bool)) : event :=
  mkEv t l wr (extra ++ mu_locks c t).

(* one step of thread t; None = finished or blocked *)
Definition step_opt (c : config) (t : N) : option config :=
  let th := c_thr c t in
  match t_ops th with
  | [] => None
  | o :: r =>
    let th' := set_ops th r in
    match o with
    | OLockW =>
      match c_w c, c_r c with
      | None, [] => Some (with_thread (with_mu c (Some t) []) t th')
      | _, _ => None
      end
    | OUnlockW =>
      match c_w c with
      | Some u => if u =? t then Some (with_thread (with_mu c None (c_r c)) t th') else None
      | None => None
      end
    | OLockR =>
      match c_w c with
      | None => Some (with_thread (with_mu c None (t :: c_r c)) t th')
      | Some _ => None
      end
    | OUnlockR => Some (with_thread (with_mu c (c_w c) (removeN t (c_r c))) t th')
    | ORdBuiltin => Some (with_thread (with_event c (ev_of c t LBuiltin false [])) t th')
    | ORdGlobal =>
      Some (with_thread (with_event c (ev_of c t LGlobal false [])) t
              (mkThread r (c_global c) (t_err th) (t_outs th)))
    | OCompile p =>
      match compile t 0 (t_snap th) p with
      | Some (g', fr, xs) => Some (with_thread c t (set_ops th (OWrGlobal g' fr :: OUnlockW :: xs)))
      | None => Some (with_thread c t (mkThread [OUnlockW] (t_snap th) true (t_outs th)))
      end
    | OWrGlobal g' fr =>
      (* fresh variables are created holding $nil; they are assigned when the
         declaration is executed *)
      let c1 := with_event c (ev_of c t LGlobal true []) in
      Some (with_thread (with_global c1 g' t) t th')
    | OCheck p =>
      match compile t 0 (t_snap th) p with
      | Some _ => Some (with_thread c t th')
      | None => Some (with_thread c t (mkThread r (t_snap th) true (t_outs th)))
      end
    | ORdModKeys => Some (with_thread (with_event c (ev_of c t LModules false [])) t th')
    | OSet s v =>
      let c1 := with_event c (ev_of c t (LSlot s) true [(KVar s, true)]) in
      Some (with_thread (with_store c1 (store_set s v (c_store c))) t th')
    | OGet s =>
      let c1 := with_event c (ev_of c t (LSlot s) false [(KVar s, false)]) in
      Some (with_thread c1 t (mkThread r (t_snap th) (t_err th) (store_get s (c_store c) :: t_outs th)))
    | OUseLookup m =>
      let c1 := with_event c (ev_of c t LModules false []) in
      if memN m (c_mods c) then Some (with_thread c1 t th')
      else Some (with_thread c1 t (set_ops th (OUseInstall m :: r)))
    | OUseInstall m =>
      let c1 := with_event c (ev_of c t LModules true []) in
      Some (with_thread (with_mods c1 (m :: c_mods c)) t th')
    | ORdGlobalC =>
      let c1 := with_lin (with_event c (ev_of c t LGlobal false [])) t in
      Some (with_thread c1 t (mkThread r (c_global c) (t_err th) (t_outs th)))
    end
  end.

Definition step (c : config) (t : N) : config :=
  match step_opt c t with Some c' => c' | None => c end.

(* a schedule is any list of thread ids; a thread that cannot move is skipped *)
Definition run (sched : list N) (c : config) : config := fold_left step sched c.

Fixpoint threads_of (g0 : ns) (i : N) (js : list job) : N -> thread :=
  match js with
  | [] => fun _ => idle
  | j :: r => upd (threads_of g0 (i + 1) r) i (mkThread (job_ops g0 j) [] false [])
  end.

Definition init (g0 : ns) (st0 : list (slot * N)) (mods0 : list N) (js : list job) : config :=
  mkConfig (threads_of g0 0 js) None [] g0 st0 mods0 [] [] [].

(* ---- races: two accesses of different threads to one location, one of them
   a write, with no common lock held exclusively by at least one of them ---- *)
Fixpoint anyb {A} (f : A -> bool) (l : list A) : bool :=
  match l with [] => false | x :: r => if f x then true else anyb f r end.

Definition protects (a b : event) : bool :=
  anyb (fun ka => anyb (fun kb => lock_eqb (fst ka) (fst kb) && (snd ka || snd kb)) (e_locks b)) (e_locks a).
Definition conflict (a b : event) : bool :=
  negb (e_tid a =? e_tid b) && loc_eqb (e_loc a) (e_loc b) && (e_wr a || e_wr b).
Definition race (a b : event) : bool := conflict a b && negb (protects a b).
Definition has_race (tr : list event) : bool := anyb (fun a => anyb (race a) tr) tr.

(* ---- observation of a configuration ---- *)
Definition final_of (c : config) : list (N * N) :=
  map (fun xs => (fst xs, store_get (snd xs) (c_store c))) (c_global c).
Fixpoint results_of (c : config) (i : N) (n : nat) : list result :=
  match n with
  | O => []
  | S n' => mkRes (t_err (c_thr c i)) (rev (t_outs (c_thr c i))) :: results_of c (i + 1) n'
  end.
Definition obs_of (c : config) (n : nat) : obs := mkObs (final_of c) (results_of c 0 n).

(* the schedule that runs the threads one after the other *)
Fixpoint repeatN (t : N) (k : nat) : list N := match k with O => [] | S k' => t :: repeatN t k' end.
Definition job_fuel (j : job) : nat :=
  match j with JEval p | JCheck p | JCall p => 8 + 2 * length p end.
Fixpoint serial_sched (i : N) (js : list job) : list N :=
  match js with [] => [] | j :: r => repeatN i (job_fuel j) ++ serial_sched (i + 1) r end.

Definition SETUP_TID : N := 1000000.

(* the configuration after the setup program (run alone before any job) *)
Definition setup_state (setup : list stmt) : ns * list (slot * N) :=
  match compile SETUP_TID 0 [] setup with
  | Some (g, _, xs) =>
    (g, fold_left (fun st o => match o with OSet s v => store_set s v st | _ => st end) xs [])
  | None => ([], [])
  end.

Definition model_serial_obs (setup : list stmt) (loaded : list N) (js : list job) : obs :=
  let '(g0, st0) := setup_state setup in
  obs_of (run (serial_sched 0 js) (init g0 st0 loaded js)) (length js).

(* ------------------------------------------------------------------ *)
(* Part 3: sequential specification and acceptor *)

Definition senv := list (N * N).     (* name -> value, no duplicates *)

Fixpoint env_get (x : N) (e : senv) : option N :=
  match e with [] => None | (y, v) :: r => if x =? y then Some v else env_get x r end.
Fixpoint env_remove (x : N) (e : senv) : senv :=
  match e with [] => [] | (y, v) :: r => if x =? y then env_remove x r else (y, v) :: env_remove x r end.
Definition env_bind (x v : N) (e : senv) : senv := (x, v) :: env_remove x e.

(* static check: every name read or assigned is visible at that point *)
Fixpoint static_ok (dom : list N) (p : list stmt) : bool :=
  match p with
  | [] => true
  | SDecl x _ :: r => static_ok (x :: dom) r
  | SSet x _ :: r | SGet x :: r => if memN x dom then static_ok dom r else false
  | SUse _ :: r => static_ok dom r
  end.

Fixpoint seq_exec (e : senv) (p : list stmt) (outs : list N) : senv * list N :=
  match p with
  | [] => (e, rev outs)
  | SDecl x v :: r => seq_exec (env_bind x v e) r outs
  | SSet x v :: r =>
    match env_get x e with
    | Some _ => seq_exec (env_bind x v e) r outs
    | None => seq_exec e r outs
    end
  | SGet x :: r =>
    match env_get x e with
    | Some v => seq_exec e r (v :: outs)
    | None => seq_exec e r outs
    end
  | SUse _ :: r => seq_exec e r outs
  end.

Definition seq_job (e : senv) (j : job) : senv * result :=
  match j with
  | JEval p =>
    if static_ok (map fst e) p then let '(e', o) := seq_exec e p [] in (e', mkRes false o)
    else (e, mkRes true [])
  | JCheck p => (e, mkRes (negb (static_ok (map fst e) p)) [])
  | JCall p => let '(e', o) := seq_exec e p [] in (e', mkRes false o)
  end.

Definition listN_eqb : list N -> list N -> bool := list_eqb N.eqb.
Definition result_eqb (a b : result) : bool :=
  Bool.eqb (r_err a) (r_err b) && listN_eqb (r_outs a) (r_outs b).

Definition env_sub (a b : senv) : bool :=
  forallb (fun xv => match env_get (fst xv) b with Some v => v =? snd xv | None => false end) a.
Definition env_equiv (a b : senv) : bool := env_sub a b && env_sub b a.

Definition dummy_res : result := mkRes true [].

(* all ways of taking one element out of a list *)
Fixpoint selects {A} (pre l : list A) : list (A * list A) :=
  match l with
  | [] => []
  | x :: r => (x, rev_append pre r) :: selects (x :: pre) r
  end.

(* depth-first search for a serial order of the remaining jobs that explains
   every result and the final variables *)
Fixpoint search (fuel : nat) (e : senv) (rest : list (nat * job)) (o : obs) : bool :=
  match fuel with
  | O => false
  | S f =>
    match rest with
    | [] => env_equiv e (o_final o)
    | _ =>
      anyb (fun pick =>
              let '((i, j), rest') := pick in
              let '(e', r) := seq_job e j in
              if result_eqb r (nth i (o_res o) dummy_res) then search f e' rest' o else false)
           (selects [] rest)
    end
  end.

Fixpoint index_from {A} (i : nat) (l : list A) : list (nat * A) :=
  match l with [] => [] | x :: r => (i, x) :: index_from (S i) r end.

Definition setup_env (setup : list stmt) : senv := fst (seq_exec [] setup []).

(* THE ORACLE: the observed results and final variables are those of some
   serial order of the jobs, and nothing else was observed *)
Definition serial_outcome_ok (setup : list stmt) (js : list job) (o : obs) : bool :=
  Nat.eqb (length (o_res o)) (length js)
  && search (S (length js)) (setup_env setup) (index_from 0 js) o.

(* the sequential specification run in index order *)
Fixpoint seq_run (e : senv) (js : list job) : senv * list result :=
  match js with
  | [] => (e, [])
  | j :: r => let '(e', x) := seq_job e j in let '(e'', xs) := seq_run e' r in (e'', x :: xs)
  end.

Definition obs_eqb (a b : obs) : bool :=
  env_equiv (o_final a) (o_final b) && list_eqb result_eqb (o_res a) (o_res b).

(* ------------------------------------------------------------------ *)
(* Part 4: case and judge *)

Record case := mkCase {
  k_setup : list stmt;     (* run alone first: declares the shared variables *)
  k_loaded : list N;       (* modules loaded before the concurrent phase *)
  k_jobs : list job;
  k_conc : obs;            (* implementation, jobs run concurrently on one Evaler *)
  k_serial : obs }.        (* implementation, jobs run one after the other in index order *)

Definition judge1 (c : case) : N :=
  let spec := let '(e, rs) := seq_run (setup_env (k_setup c)) (k_jobs c) in mkObs e rs in
  code (serial_outcome_ok (k_setup c) (k_jobs c) (k_conc c))
       (obs_eqb (model_serial_obs (k_setup c) (k_loaded c) (k_jobs c)) (k_serial c)
        && obs_eqb spec (k_serial c)).

Definition judge := judge_with judge1.
