(* C24 — binary64 arithmetic used by pkg/store/dir.go, executable (no proofs).

   Scores are IEEE binary64 values ([spec_float], Coq's axiom-free SpecFloat with
   prec = 53, emax = 1024; [SFmul]/[SFadd] round to nearest even like the
   hardware).  What is stored in the "dir" bucket is the text produced by
   strconv.FormatFloat(score, 'E', DirScorePrecision, 64); here the text is
   abstracted to its decimal value [dec] (sign, DirScorePrecision+1 significant
   digits, power of ten): [format_score] is the exact decimal value of the binary
   float rounded half-to-even to that many digits, [parse_score] is the nearest
   binary64 of a decimal (strconv.ParseFloat is correctly rounded).  Only the ASCII
   rendering is abstracted; the numeric round trip is exact. *)
From Coq Require Import ZArith List Bool.
From Coq Require Import Floats.SpecFloat.
From verif Require Import lib.Base gen.Consts.
Open Scope Z_scope.

Definition f64 := spec_float.
Definition f64_prec : Z := 53.
Definition f64_emax : Z := 1024.

Definition fmul (a b : f64) : f64 := SFmul f64_prec f64_emax a b.
Definition fadd (a b : f64) : f64 := SFadd f64_prec f64_emax a b.
Definition fltb (a b : f64) : bool := SFltb a b.

(* nearest binary64, ties to even, of the rational (-1)^neg * num / den
   (num >= 0, den > 0): 66 quotient bits plus a sticky bit, then the library's
   rounding. *)
Definition round_q (neg : bool) (num den : Z) : f64 :=
  if num =? 0 then S754_zero neg else
  let t := Z.max 0 (66 + Z.log2 den - Z.log2 num) in
  let n2 := Z.shiftl num t in
  let q := n2 / den in
  let r := n2 mod den in
  let m := 2 * q + (if r =? 0 then 0 else 1) in
  binary_normalize f64_prec f64_emax (if neg then - m else m) (- t - 1) neg.

(* decimal value: d * 10^k *)
Inductive dec :=
| DZero (s : bool)
| DInf (s : bool)
| DNaN
| DFin (s : bool) (d : Z) (k : Z).

Definition parse_score (x : dec) : f64 :=
  match x with
  | DZero s => S754_zero s
  | DInf s => S754_infinity s
  | DNaN => S754_nan
  | DFin s d k => if 0 <=? k then round_q s (d * 10 ^ k) 1 else round_q s d (10 ^ (- k))
  end.

(* number of significant digits of the stored text: one before the point plus
   DirScorePrecision after it *)
Definition sig_digits : Z := pkg_store.DirScorePrecision + 1.

(* num/den divided by 10^k *)
Definition scale10 (num den k : Z) : Z * Z :=
  if 0 <=? k then (num, den * 10 ^ k) else (num * 10 ^ (- k), den).

(* adjust k until 10^(sig-1) <= num/den/10^k < 10^sig; the estimate is within 2 *)
Fixpoint fix_k (fuel : nat) (num den k : Z) : Z :=
  match fuel with
  | O => k
  | S f =>
    let '(n', d') := scale10 num den k in
    if n' <? 10 ^ (sig_digits - 1) * d' then fix_k f num den (k - 1)
    else if 10 ^ sig_digits * d' <=? n' then fix_k f num den (k + 1)
    else k
  end.

Definition format_score (x : f64) : dec :=
  match x with
  | S754_zero s => DZero s
  | S754_infinity s => DInf s
  | S754_nan => DNaN
  | S754_finite s m e =>
    let num := if 0 <=? e then Zpos m * 2 ^ e else Zpos m in
    let den := if 0 <=? e then 1 else 2 ^ (- e) in
    let est := ((Z.log2 num - Z.log2 den) * 30103) / 100000 - (sig_digits - 1) in
    let k := fix_k 8 num den est in
    let '(n', d') := scale10 num den k in
    let q := n' / d' in
    let r := n' mod d' in
    let q' := match 2 * r ?= d' with
              | Lt => q
              | Gt => q + 1
              | Eq => if Z.even q then q else q + 1
              end in
    if q' =? 10 ^ sig_digits then DFin s (10 ^ (sig_digits - 1)) (k + 1) else DFin s q' k
  end.

(* constants of dir.go as binary64 values *)
Definition decay64 : f64 :=
  round_q false (fst pkg_store.DirScoreDecay) (snd pkg_store.DirScoreDecay).
Definition inc64 : f64 := round_q false pkg_store.DirScoreIncrement 1.

(* the store/load round trip *)
Definition quant (x : f64) : f64 := parse_score (format_score x).

(* score := unmarshalScore(v) * DirScoreDecay, stored and read back *)
Definition q_decay (s : f64) : f64 := quant (fmul s decay64).
(* score += DirScoreIncrement * incFactor, stored and read back *)
Definition q_inc (s : f64) (factor : f64) : f64 := quant (fadd s (fmul inc64 factor)).

Definition f64_eqb (a b : f64) : bool :=
  match a, b with
  | S754_zero s, S754_zero s' => Bool.eqb s s'
  | S754_infinity s, S754_infinity s' => Bool.eqb s s'
  | S754_nan, S754_nan => true
  | S754_finite s m e, S754_finite s' m' e' => Bool.eqb s s' && Pos.eqb m m' && Z.eqb e e'
  | _, _ => false
  end.
