(* C24 — concrete model of pkg/store/cmd.go and dir.go over a model of the bbolt
   buckets (executable, no proofs), the oracle on observed histories, and the
   judge.  The sequential specification is model/C24_StoreSpec.v.

   bbolt bucket = association list sorted by bytes.Compare on the keys, with a
   sequence counter; cursor = zipper over that list ([cur_before] reversed,
   [cur_after] starting with the current element): Seek positions at the first
   key >= the sought one, Next/Prev move one element, First/Last go to the ends,
   a cursor past the end returns nil.  Keys of the "cmd" bucket are the 8-byte
   big-endian encodings of the sequence numbers. *)
From verif Require Import lib.Base model.C24_F64 model.C24_StoreSpec.
From Coq Require Import Floats.SpecFloat Sorting.Sorted Sorting.Permutation.
Open Scope N_scope.

(* binary.BigEndian.PutUint64: b[i] = byte(v >> (8*(7-i))) *)
Fixpoint be_bytes (k : nat) (n : N) : bytes :=
  match k with
  | O => []
  | S k' => ((n / 256 ^ N.of_nat k') mod 256) :: be_bytes k' n
  end.
Definition marshalSeq (n : N) : bytes := be_bytes 8 n.
(* binary.BigEndian.Uint64 *)
Definition unmarshalSeq (b : bytes) : N := fold_left (fun a x => a * 256 + x) b 0.

Definition bucket (V : Type) := list (bytes * V).

Record cursor (V : Type) := mkCur { cur_before : list (bytes * V); cur_after : list (bytes * V) }.
Arguments mkCur {V}. Arguments cur_before {V}. Arguments cur_after {V}.

(* c.Seek(k) *)
Fixpoint seek_from {V} (k : bytes) (acc : list (bytes * V)) (l : list (bytes * V)) : cursor V :=
  match l with
  | [] => mkCur acc []
  | e :: r => if bytes_ltb (fst e) k then seek_from k (e :: acc) r else mkCur acc l
  end.
Definition c_seek {V} (k : bytes) (b : bucket V) : cursor V := seek_from k [] b.
(* c.First() *)
Definition c_first {V} (b : bucket V) : cursor V := mkCur [] b.
(* c.Last() *)
Definition c_last {V} (b : bucket V) : cursor V :=
  match rev b with
  | [] => mkCur [] []
  | e :: r => mkCur r [e]
  end.

Record cstate := mkC { c_seq : N; c_cmd : bucket bytes; c_dir : bucket dec }.

(* AddCmd: seq, _ = b.NextSequence(); b.Put(marshalSeq(seq), cmd); return int(seq) *)
Definition c_add (st : cstate) (t : bytes) : cstate * res :=
  let n := wrap64 (c_seq st + 1) in
  (mkC n (m_put (marshalSeq n) t (c_cmd st)) (c_dir st), RInt (to_int n)).

(* DelCmd: b.Delete(marshalSeq(uint64(seq))) — deleting an absent key is no error *)
Definition c_delcmd (st : cstate) (seq : Z) : cstate * res :=
  (mkC (c_seq st) (m_del (marshalSeq (u64 seq)) (c_cmd st)) (c_dir st), ROk).

(* Cmd *)
Definition c_getcmd (st : cstate) (seq : Z) : res :=
  match m_get (marshalSeq (u64 seq)) (c_cmd st) with
  | Some v => RText v
  | None => RNoMatch
  end.

(* IterateCmds: for k, v := c.Seek(from); k != nil && unmarshalSeq(k) < uint64(upto); k, v = c.Next() *)
Fixpoint iter_loop (upto : N) (after : list (bytes * bytes)) : list (bytes * Z) :=
  match after with
  | [] => []
  | (k, v) :: r =>
    if unmarshalSeq k <? upto then (v, to_int (unmarshalSeq k)) :: iter_loop upto r else []
  end.
Definition c_range (st : cstate) (from upto : Z) : res :=
  RCmds (iter_loop (u64 upto) (cur_after (c_seek (marshalSeq (u64 from)) (c_cmd st)))).

(* the scanning loops of NextCmd (k, v = c.Next()) and PrevCmd (k, v = c.Prev()):
   [l] is the current element followed by what the cursor will return *)
Fixpoint scan_loop (p : bytes) (l : list (bytes * bytes)) : res :=
  match l with
  | [] => RNoMatch
  | (k, v) :: r => if has_prefix p v then RCmd v (to_int (unmarshalSeq k)) else scan_loop p r
  end.

Definition c_nextcmd (st : cstate) (from : Z) (p : bytes) : res :=
  scan_loop p (cur_after (c_seek (marshalSeq (u64 from)) (c_cmd st))).

Definition c_prevcmd (st : cstate) (upto : Z) (p : bytes) : res :=
  let c := c_seek (marshalSeq (u64 upto)) (c_cmd st) in
  match cur_after c with
  | [] =>                                   (* k == nil: upto > LAST *)
    let c' := c_last (c_cmd st) in
    match cur_after c' with
    | [] => RNoMatch                        (* empty bucket *)
    | e :: _ => scan_loop p (e :: cur_before c')
    end
  | _ :: _ => scan_loop p (cur_before c)    (* k, v = c.Prev() *)
  end.

Definition c_nextseq (st : cstate) : res := RInt (to_int (wrap64 (c_seq st + 1))).

(* AddDir's first loop: for k, v := c.First(); k != nil; k, v = c.Next() { b.Put(k, ...) }.
   [ents] is what the cursor still has to return (the bucket's content at the
   time of First: Put of an existing key replaces the value in the transaction's
   in-memory node and does not move the cursor, which reads the unmodified page) *)
Fixpoint decay_loop (ents : list (bytes * dec)) (b : bucket dec) : bucket dec :=
  match ents with
  | [] => b
  | (k, v) :: r => decay_loop r (m_put k (format_score (fmul (parse_score v) decay64)) b)
  end.

Definition c_adddir (st : cstate) (d : bytes) (factor : f64) : cstate * res :=
  match d with
  | [] => (st, RErr)    (* b.Put with an empty key: ErrKeyRequired, transaction rolled back *)
  | _ =>
    let b1 := decay_loop (cur_after (c_first (c_dir st))) (c_dir st) in
    let score := match m_get d b1 with Some v => parse_score v | None => S754_zero false end in
    (mkC (c_seq st) (c_cmd st) (m_put d (format_score (fadd score (fmul inc64 factor))) b1), ROk)
  end.

Definition c_deldir (st : cstate) (d : bytes) : cstate * res :=
  (mkC (c_seq st) (c_cmd st) (m_del d (c_dir st)), ROk).

(* Dirs: the First/Next loop skipping blacklisted paths *)
Fixpoint dirs_loop (bl : list bytes) (ents : list (bytes * dec)) : list dir :=
  match ents with
  | [] => []
  | (k, v) :: r => if mem_bytes k bl then dirs_loop bl r else (k, parse_score v) :: dirs_loop bl r
  end.

Section WithSort.
  Variable sortf : list dir -> list dir.

  Definition c_dirs (st : cstate) (bl : list bytes) : res :=
    RDirs (sortf (dirs_loop bl (cur_after (c_first (c_dir st))))).

  Definition conc_step (st : cstate) (o : op) : cstate * res :=
    match o with
    | OAddCmd t => c_add st t
    | ODelCmd z => c_delcmd st z
    | OCmd z => (st, c_getcmd st z)
    | OCmds a b => (st, c_range st a b)
    | ONextCmd a p => (st, c_nextcmd st a p)
    | OPrevCmd b p => (st, c_prevcmd st b p)
    | ONextCmdSeq => (st, c_nextseq st)
    | OAddDir d f => c_adddir st d f
    | ODelDir d => c_deldir st d
    | ODirs bl => (st, c_dirs st bl)
    end.

  Fixpoint conc_run (st : cstate) (h : list op) : list res :=
    match h with
    | [] => []
    | o :: h' => let '(st', r) := conc_step st o in r :: conc_run st' h'
    end.
End WithSort.

Definition conc_init (seq0 : N) : cstate := mkC seq0 [] [].

(* ------------------------------------------------------------------ *)
(* Oracle on an observed history: every observed result matches the
   specification's (its state is advanced by the specification alone); in
   addition, stated directly on the observations: sequence numbers returned by
   AddCmd strictly increase, and every listing is in sequence order. *)
Fixpoint check_hist (st : sstate) (h : list (op * res)) : bool :=
  match h with
  | [] => true
  | (o, r) :: h' =>
    let '(st', e) := spec_step isort_desc st o in
    res_match e r && check_hist st' h'
  end.

Fixpoint add_results (h : list (op * res)) : list Z :=
  match h with
  | [] => []
  | (OAddCmd _, RInt z) :: h' => z :: add_results h'
  | _ :: h' => add_results h'
  end.

Fixpoint increasingZ (l : list Z) : bool :=
  match l with
  | a :: ((b :: _) as r) => Z.ltb a b && increasingZ r
  | _ => true
  end.

Fixpoint listings_sorted (h : list (op * res)) : bool :=
  match h with
  | [] => true
  | (_, RCmds l) :: h' => increasingZ (map snd l) && listings_sorted h'
  | _ :: h' => listings_sorted h'
  end.

(* [wraps]: the history starts so close to 2^63 that int(seq) turns negative;
   then "increasing" is meant on the unsigned numbers and only the comparison with
   the specification applies *)
Definition check_C24 (seq0 : N) (h : list (op * res)) : bool :=
  check_hist (spec_init seq0) h
  && (if seq0 + N.of_nat (length h) <? two63
      then increasingZ (add_results h) && listings_sorted h else true).

(* correspondence: the concrete model's results against the observed ones *)
Fixpoint corr_hist (st : cstate) (h : list (op * res)) : bool :=
  match h with
  | [] => true
  | (o, r) :: h' =>
    let '(st', m) := conc_step isort_desc st o in
    res_match m r && corr_hist st' h'
  end.

Record case := mkCase { c_seq0 : N; c_hist : list (op * res) }.

Definition judge1 (c : case) : N :=
  code (check_C24 (c_seq0 c) (c_hist c)) (corr_hist (conc_init (c_seq0 c)) (c_hist c)).

Definition judge := judge_with judge1.

(* ------------------------------------------------------------------ *)
(* vocabulary of the theorem statements *)

(* the numbers returned by the AddCmd operations of a run *)
Fixpoint adds (h : list op) (rs : list res) : list Z :=
  match h, rs with
  | OAddCmd _ :: h', RInt z :: rs' => z :: adds h' rs'
  | _ :: h', _ :: rs' => adds h' rs'
  | _, _ => []
  end.

(* a listing is in strictly increasing sequence order *)
Definition res_sorted (r : res) : Prop :=
  match r with
  | RCmds l => StronglySorted Z.lt (map snd l)
  | _ => True
  end.

Definition DescSorted (l : list dir) : Prop :=
  StronglySorted (fun a b => fltb (snd a) (snd b) = false) l.

(* contract of sort.Sort(sort.Reverse(dirList)) *)
Definition sort_contract (sortf : list dir -> list dir) : Prop :=
  forall l, Permutation (sortf l) l /\ DescSorted (sortf l).

(* an observed result is acceptable for an expected one: equal, a Dirs listing
   up to the order among equal scores *)
Definition res_ok (e o : res) : Prop :=
  match e, o with
  | RDirs a, RDirs b => Permutation a b /\ DescSorted b
  | _, _ => e = o
  end.
