(* C01 — Parsing is total and lossless for every source text.
   The oracle [check_C01] on what parse.Parse returned (tree + errors), the
   case record and the judge.  The parser model is model/C01_Parse.v. *)
From verif Require Import lib.Base lib.Utf8 model.C01_Parse.
Open Scope nat_scope.

(* children tile [a, b]: the first starts at a, consecutive ones abut, the
   last ends at b *)
Fixpoint chainb (a b : nat) (l : list tree) : bool :=
  match l with
  | [] => Nat.eqb a b
  | t :: r => Nat.eqb (t_from t) a && chainb (t_to t) b r
  end.

(* every node: range inside the source, text = slice, children tile it *)
Fixpoint wfb (src : bytes) (t : tree) : bool :=
  match t with
  | T k a f e x ch =>
    Nat.leb f e && Nat.leb e (length src)
    && bytes_eqb x (slice src f e)
    && match ch with [] => true | _ => chainb f e ch end
    && forallb (wfb src) ch
  end.

(* concatenation of the leaves' texts *)
Fixpoint leaves (t : tree) : bytes :=
  match t with
  | T _ _ _ _ x [] => x
  | T _ _ _ _ _ ch => flat_map leaves ch
  end.

Definition err_in_range (src : bytes) (e : perr) : bool :=
  Nat.leb (e_from e) (e_to e) && Nat.leb (e_to e) (length src).

(* The leaves give back the source: the root starts at 0 and its leaves are
   the source up to the root's end; the root ends at the end of the source,
   or else the text after it is reported by an error starting there
   (parser.done). *)
Definition lossless (src : bytes) (t : tree) (errs : list perr) : bool :=
  Nat.eqb (t_from t) 0
  && bytes_eqb (leaves t) (firstn (t_to t) src)
  && (Nat.eqb (t_to t) (length src)
      || existsb (fun e => Nat.eqb (e_from e) (t_to t)) errs).

Definition check_C01 (src : bytes) (t : tree) (errs : list perr) : bool :=
  wfb src t && lossless src t errs && forallb (err_in_range src) errs.

(* ---- the case: what parse.Parse returned for [c_src] ---- *)
Record case := mkCase {
  c_src : bytes;
  c_etree : etree;     (* encoded observation, see C01_Parse.decode_tree *)
  c_eerrs : list eperr;
  c_print : list N;    (* the runes >= 0x80 of the input that unicode.IsPrint accepts *)
  c_cmp : bool         (* compare with the model *)
}.

Definition c_tree (c : case) : tree := decode_tree (c_src c) (c_etree c).
Definition c_errs (c : case) : list perr := map decode_err (c_eerrs c).

Definition errs_eqb : list perr -> list perr -> bool := list_eqb perr_eqb.

Definition judge1 (c : case) : N :=
  code (check_C01 (c_src c) (c_tree c) (c_errs c))
       (negb (c_cmp c)
        || match parse_model (print_table (c_print c)) (c_src c) with
           | Some (t, es) => tree_eqb t (c_tree c) && errs_eqb es (c_errs c)
           | None => false
           end).

Definition judge := judge_with judge1.
