(* C19 -- interrupting evaluation at any moment is handled cleanly.
   Executable Gallina only.

   1. A small evaluation model with a cancellation oracle: programs are chunks of
      one-form pipelines over ticks, a synchronous cancel, fail, lambda calls,
      try/catch/finally, each-loops, while-loops with a pure condition and
      closures with defer; any chunk may be EMPTY.  The Go code checks
      the context in exactly two places (pkg/eval/compile_effect.go):
        pipelineOp.exec   on entry  -> [CCons] below
        chunkOp.exec      on exit   -> [CNil] below
      Cancellation is either synchronous ([FCancel], the harness builtin
      verif:cancel) or asynchronous (oracle [ko = Some k]: the context is done
      from check number k on).
   2. peach under cancellation: model/C20_Peach.v (Acquire fails on a done
      context; the dispatcher then stops dispatching).
   3. the case record / oracle / judge for the observations of the Go runner. *)
From verif Require Import lib.Base model.C20_Peach.
Open Scope nat_scope.

Inductive chunk :=
| CNil
| CCons (f : form) (r : chunk)
with form :=
| FTick (id : N)                         (* verif:tick id *)
| FCancel                                (* verif:cancel *)
| FFail (id : N)                         (* fail f<id> *)
| FCall (b : chunk)                      (* { b }  -- lambda call *)
| FTry (b : chunk) (hc : bool) (c : chunk) (hf : bool) (f : chunk)
                                         (* try { b } [catch { c }] [finally { f }] *)
| FEach (k : nat) (b : chunk)            (* each {|_| b } [(range k)] *)
| FDefer (d : chunk) (r : chunk)         (* { defer { d }; r } *)
| FWhile (k : nat) (b : chunk).          (* while <pure value condition, true k times> { b }
                                            -- the loop itself has no cancellation check: the
                                            only checks are those of the body chunk, which
                                            may be EMPTY (then: the check after the chunk) *)

Inductive exn := XInt | XFail (id : N).

Inductive event :=
| EStart (t : nat)     (* a pipeline body starts; t = number of the context check it passed *)
| ETick (id : N)
| ECancel.

(* evaluation state; the trace is newest-first *)
Record es := mkEs { cz : bool; clk : nat; tr : list event }.

Definition is_cancelled (ko : option nat) (s : es) : bool :=
  cz s || match ko with Some k => k <=? clk s | None => false end.

Definition tickclk (s : es) : es := mkEs (cz s) (S (clk s)) (tr s).
Definition add_ev (s : es) (e : event) : es := mkEs (cz s) (clk s) (e :: tr s).
Definition do_cancel (s : es) : es := mkEs true (clk s) (ECancel :: tr s).

Definition first_exn (a b : option exn) : option exn :=
  match a with Some x => Some x | None => b end.

Fixpoint eval_chunk (ko : option nat) (c : chunk) (s : es) : es * option exn :=
  match c with
  | CNil =>
      (* chunkOp.exec: check for interrupts after the chunk *)
      let s1 := tickclk s in
      if is_cancelled ko s1 then (s1, Some XInt) else (s1, None)
  | CCons f r =>
      (* pipelineOp.exec: if fm.Canceled() { return ErrInterrupted } *)
      let s1 := tickclk s in
      if is_cancelled ko s1 then (s1, Some XInt)
      else
        let '(s2, e) := eval_form ko f (add_ev s1 (EStart (clk s1))) in
        match e with
        | Some x => (s2, Some x)
        | None => eval_chunk ko r s2
        end
  end
with eval_form (ko : option nat) (f : form) (s : es) : es * option exn :=
  match f with
  | FTick id => (add_ev s (ETick id), None)
  | FCancel => (do_cancel s, None)
  | FFail id => (s, Some (XFail id))
  | FCall b => eval_chunk ko b s
  | FTry b hc c hf f =>
      let '(s1, e1) := eval_chunk ko b s in
      let '(s2, e2) :=
        match e1 with
        | Some _ => if hc then eval_chunk ko c s1 else (s1, e1)
        | None => (s1, e1)
        end in
      if hf then
        let '(s3, e3) := eval_chunk ko f s2 in
        (s3, first_exn e3 e2)
      else (s2, e2)
  | FEach k b =>
      (fix loop (k : nat) (s : es) : es * option exn :=
         match k with
         | 0 => (s, None)
         | S k' =>
             let '(s1, e) := eval_chunk ko b s in
             match e with
             | Some x => (s1, Some x)
             | None => loop k' s1
             end
         end) k s
  | FWhile k b =>
      (* whileOp.exec: evaluate the condition (a value expression starts no
         pipeline), call the body, repeat; an exception of the body ends the loop *)
      (fix loop (k : nat) (s : es) : es * option exn :=
         match k with
         | 0 => (s, None)
         | S k' =>
             let '(s1, e) := eval_chunk ko b s in
             match e with
             | Some x => (s1, Some x)
             | None => loop k' s1
             end
         end) k s
  | FDefer d r =>
      (* the closure body is the chunk [defer { d }; r]; the deferred call runs
         after the body (Closure.Call: exc wins over excDefer) *)
      let s0 := tickclk s in
      if is_cancelled ko s0 then (s0, Some XInt)
      else
        let '(s1, e1) := eval_chunk ko r (add_ev s0 (EStart (clk s0))) in
        let '(s2, e2) := eval_chunk ko d s1 in
        (s2, first_exn e1 e2)
  end.

Definition init_es : es := mkEs false 0 [].

(* the whole evaluation: Evaler.Eval runs the top-level chunk *)
Definition run_prog (ko : option nat) (c : chunk) : es * option exn := eval_chunk ko c init_es.

(* ---- the property on traces (newest first) ---- *)
Fixpoint has_cancel (rt : list event) : bool :=
  match rt with
  | [] => false
  | ECancel :: _ => true
  | _ :: r => has_cancel r
  end.

(* nothing starts or ticks once the cancel has been delivered *)
Fixpoint good (rt : list event) : bool :=
  match rt with
  | [] => true
  | ECancel :: old => good old
  | _ :: old => negb (has_cancel old) && good old
  end.

(* every start passed a check before the asynchronous cancel *)
Fixpoint starts_before (k : nat) (rt : list event) : bool :=
  match rt with
  | [] => true
  | EStart t :: old => (t <? k) && starts_before k old
  | _ :: old => starts_before k old
  end.


Fixpoint defer_free (c : chunk) : bool :=
  match c with
  | CNil => true
  | CCons f r => defer_free_f f && defer_free r
  end
with defer_free_f (f : form) : bool :=
  match f with
  | FCall b => defer_free b
  | FTry b _ c _ f => defer_free b && defer_free c && defer_free f
  | FEach _ b => defer_free b
  | FWhile _ b => defer_free b
  | FDefer _ _ => false
  | _ => true
  end.

(* syntactic shape of the one kept finding: a closure [{ defer { d }; r }] whose
   deferred call can cancel while its body can fail (Closure.Call then keeps the
   body's exception and drops the interrupt).  [defer_ok] = no such closure
   anywhere in the program; the runner computes the same predicate for the class
   sync-cancel-in-defer-of-failing-closure. *)
Fixpoint cancels (c : chunk) : bool :=
  match c with
  | CNil => false
  | CCons f r => cancels_f f || cancels r
  end
with cancels_f (f : form) : bool :=
  match f with
  | FCancel => true
  | FCall b => cancels b
  | FTry b _ c _ f => cancels b || cancels c || cancels f
  | FEach _ b => cancels b
  | FWhile _ b => cancels b
  | FDefer d r => cancels d || cancels r
  | _ => false
  end.

Fixpoint fails (c : chunk) : bool :=
  match c with
  | CNil => false
  | CCons f r => fails_f f || fails r
  end
with fails_f (f : form) : bool :=
  match f with
  | FFail _ => true
  | FCall b => fails b
  | FTry b _ c _ f => fails b || fails c || fails f
  | FEach _ b => fails b
  | FWhile _ b => fails b
  | FDefer d r => fails d || fails r
  | _ => false
  end.

Fixpoint defer_ok (c : chunk) : bool :=
  match c with
  | CNil => true
  | CCons f r => defer_ok_f f && defer_ok r
  end
with defer_ok_f (f : form) : bool :=
  match f with
  | FCall b => defer_ok b
  | FTry b _ c _ f => defer_ok b && defer_ok c && defer_ok f
  | FEach _ b => defer_ok b
  | FWhile _ b => defer_ok b
  | FDefer d r => (negb (cancels d) || negb (fails r)) && defer_ok d && defer_ok r
  | _ => true
  end.

(* ---- observations ---- *)
Inductive res := ROk | RInt | RFail (id : N) | ROther.
Definition res_eqb (a b : res) : bool :=
  match a, b with
  | ROk, ROk | RInt, RInt | ROther, ROther => true
  | RFail x, RFail y => N.eqb x y
  | _, _ => false
  end.
Definition res_of (e : option exn) : res :=
  match e with None => ROk | Some XInt => RInt | Some (XFail i) => RFail i end.

Definition event_eqb (a b : event) : bool :=
  match a, b with
  | EStart x, EStart y => Nat.eqb x y
  | ETick x, ETick y => N.eqb x y
  | ECancel, ECancel => true
  | _, _ => false
  end.

(* the runner sees ticks and the cancel, not the pipeline starts *)
Definition visible (rt : list event) : list event :=
  filter (fun e => match e with EStart _ => false | _ => true end) rt.

(* the property on what was observed (oldest first, as recorded):
   no tick after the cancel; interrupted unless the program never cancelled *)
Definition check_sync (otrace : list event) (r : res) : bool :=
  good (rev otrace)
  && (if has_cancel otrace then res_eqb r RInt else true).

Inductive case :=
(* a generated program with a synchronous cancel, its recorded trace and result *)
| CSync (p : chunk) (otrace : list event) (r : res)
(* a hand-written program (not in the mini-language): trace and result only *)
| CFree (otrace : list event) (r : res)
(* bounded peach with Go callbacks, cancelled from inside callback number [at]:
   bound, inputs, max callbacks running at once, did the process crash *)
| CPeachCancel (b n at_ : nat) (maxrun : nat) (crashed : bool).

Definition judge1 (c : case) : N :=
  match c with
  | CSync p ot r =>
      let '(s, e) := run_prog None p in
      code (check_sync ot r)
           (list_eqb event_eqb (rev (visible (tr s))) ot && res_eqb (res_of e) r)
  | CFree ot r => code (check_sync ot r) true
  | CPeachCancel b n a m cr => code ((m <=? b) && negb cr) true
  end.

Definition judge := judge_with judge1.
