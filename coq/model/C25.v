(* C25 — history survives a crash at any point (executable, no proofs).

   A process using the history store runs a list of operations one after the
   other; each operation is one bbolt transaction (db.Update, or db.View for
   the queries) executed by the store layer modelled in model/C24.v, and its
   result is then written to an acknowledgement log.  The process can be
   killed after any prefix of its event trace (TxStart / TxReturn / Ack): that
   covers kills between transactions, inside a transaction, and between the
   return of db.Update and the acknowledgement.

   Contract B (bbolt + the kernel; a Section hypothesis in proofs/C25_proofs.v,
   an explicit premise of the theorems): reopening the database of a killed
   process shows the effects of exactly the first [recovered tr] transactions,
   where [returned tr <= recovered tr <= started tr]  — a transaction is atomic,
   durable once db.Update has returned, and nothing is visible of a
   transaction that was not started.

   The acceptor [crash_ok] judges what the real store showed after a real kill:
   the reopened state must be the specification's state (model/C24_StoreSpec.v)
   after some prefix of the attempted operations that contains every
   acknowledged one. *)
From verif Require Import lib.Base model.C24_F64 model.C24_StoreSpec model.C24.
From Coq Require Import Floats.SpecFloat.
Open Scope N_scope.

(* monomorphic constructors for the generated case files (terms without
   implicit arguments elaborate much faster) *)
Definition pz (t : bytes) (z : Z) : bytes * Z := (t, z).
Definition pd (p : bytes) (s : f64) : dir := (p, s).
Definition orr (o : op) (r : res) : op * res := (o, r).

(* ------------------------------------------------------------------ *)
(* the process model *)
Inductive pevent :=
| TxStart                (* the next operation entered its bbolt transaction *)
| TxReturn               (* db.Update / db.View returned *)
| Ack (r : res).         (* the result was written to the acknowledgement log *)

(* state of the bucket model after a history *)
Fixpoint conc_exec (st : cstate) (h : list op) : cstate :=
  match h with
  | [] => st
  | o :: h' => conc_exec (fst (conc_step isort_desc st o)) h'
  end.

(* the events of an unkilled run of [h] *)
Fixpoint ptrace (st : cstate) (h : list op) : list pevent :=
  match h with
  | [] => []
  | o :: h' =>
    let '(st', r) := conc_step isort_desc st o in
    TxStart :: TxReturn :: Ack r :: ptrace st' h'
  end.

Fixpoint started (tr : list pevent) : nat :=
  match tr with [] => O | TxStart :: r => S (started r) | _ :: r => started r end.
Fixpoint returned (tr : list pevent) : nat :=
  match tr with [] => O | TxReturn :: r => S (returned r) | _ :: r => returned r end.
Fixpoint acks (tr : list pevent) : list res :=
  match tr with [] => [] | Ack r :: t => r :: acks t | _ :: t => acks t end.

(* what is on disk after the process was killed having emitted [tr]:
   [recovered] is bbolt's and the kernel's choice (contract B) *)
Definition reopen (recovered : list pevent -> nat) (st : cstate) (h : list op) (tr : list pevent) : cstate :=
  conc_exec st (firstn (recovered tr) h).

(* ------------------------------------------------------------------ *)
(* what the parent reads from a reopened database: NextCmdSeq, CmdsWithSeq(0,-1), Dirs({}) *)
Definition dump_ops : list op := [ONextCmdSeq; OCmds 0 (-1); ODirs []].
Definition dump_c (st : cstate) : list res := conc_run isort_desc st dump_ops.
Definition dump_s (st : sstate) : list res := spec_run isort_desc st dump_ops.

Record dump := mkDump { d_seq : res; d_cmds : res; d_dirs : res }.

Definition dump_matches (st : sstate) (d : dump) : bool :=
  res_match (sp_next_seq st) (d_seq d)
  && res_match (sp_range st 0 (-1)) (d_cmds d)
  && res_match (sp_dirs isort_desc st []) (d_dirs d).

(* the three results of a dump as a record *)
Definition dump_of (l : list res) : dump :=
  match l with
  | [a; b; c] => mkDump a b c
  | _ => mkDump RErr RErr RErr
  end.

(* ------------------------------------------------------------------ *)
(* the acceptor: [find_prefix st h skip obs] = the first k >= skip (counted from
   the start of h, offset by [base]) such that the state after k operations
   shows the observed dump, with that state *)
Fixpoint find_prefix (st : sstate) (h : list op) (skip base : nat) (obs : dump) : option (nat * sstate) :=
  match skip with
  | S s =>
    match h with
    | [] => None
    | o :: h' => find_prefix (fst (spec_step isort_desc st o)) h' s (S base) obs
    end
  | O =>
    if dump_matches st obs then Some (base, st)
    else match h with
         | [] => None
         | o :: h' => find_prefix (fst (spec_step isort_desc st o)) h' O (S base) obs
         end
  end.

(* [crash_ok st history acked observed]: the reopened state is the state after
   a prefix of the history that contains every acknowledged operation *)
Definition crash_state (st : sstate) (h : list op) (acked : list res) (obs : dump) : option (nat * sstate) :=
  find_prefix st h (length acked) O obs.

Definition crash_ok (st : sstate) (h : list op) (acked : list res) (obs : dump) : bool :=
  match crash_state st h acked obs with Some _ => true | None => false end.

(* ------------------------------------------------------------------ *)
(* a whole case: crash rounds (each: the operations the child was given, the
   results it acknowledged before it was killed, the dump after reopening), then
   operations run to completion after the last reopening *)
Record round := mkRound { r_ops : list op; r_acked : list res; r_obs : dump }.
Record case := mkCase { c_seq0 : N; c_rounds : list round; c_tail : list (op * res) }.

(* numbers returned by acknowledged AddCmd operations *)
Definition acked_adds (r : round) : list Z := add_results (combine (r_ops r) (r_acked r)).

Definition all_gt (hi : option Z) (l : list Z) : bool :=
  match hi with None => true | Some m => forallb (fun z => Z.ltb m z) l end.

Definition max_opt (hi : option Z) (l : list Z) : option Z :=
  fold_left (fun a z => match a with None => Some z | Some m => Some (Z.max m z) end) l hi.

(* The oracle, exactly the property: every reopened state is the state after a
   prefix containing the acknowledged operations (the next round starts from
   that state), and every number handed out after a reopening is larger than
   every number acknowledged before it. *)
Fixpoint check_rounds (st : sstate) (hi : option Z) (rs : list round) (tail : list (op * res)) : bool :=
  match rs with
  | [] => all_gt hi (add_results tail)
  | r :: rs' =>
    match crash_state st (r_ops r) (r_acked r) (r_obs r) with
    | None => false
    | Some (_, st') =>
      all_gt hi (acked_adds r) && check_rounds st' (max_opt hi (acked_adds r)) rs' tail
    end
  end.

Definition check_C25 (c : case) : bool :=
  check_rounds (spec_init (c_seq0 c)) None (c_rounds c) (c_tail c).

(* Correspondence with the model: the acknowledged results are the model's
   results; a sequential process has at most one transaction in flight, so the
   recovered prefix is the acknowledged operations plus at most one; after the
   last reopening every result is the model's. *)
Fixpoint results_match (es os : list res) : bool :=
  match os with
  | [] => true
  | o :: os' => match es with e :: es' => res_match e o && results_match es' os' | [] => false end
  end.

Fixpoint corr_rounds (st : sstate) (rs : list round) (tail : list (op * res)) : bool :=
  match rs with
  | [] => check_hist st tail
  | r :: rs' =>
    results_match (spec_run isort_desc st (r_ops r)) (r_acked r)
    && match crash_state st (r_ops r) (r_acked r) (r_obs r) with
       | None => true     (* reported by the oracle *)
       | Some (k, st') => Nat.leb k (S (length (r_acked r))) && corr_rounds st' rs' tail
       end
  end.

Definition judge1 (c : case) : N :=
  code (check_C25 c) (corr_rounds (spec_init (c_seq0 c)) (c_rounds c) (c_tail c)).

Definition judge := judge_with judge1.
