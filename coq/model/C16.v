(* C16 — code with static errors never runs, and the static check agrees.

   Executable model (no proofs) of the phase structure of
     pkg/eval/eval.go : Evaler.Eval, Evaler.Check, Evaler.CheckTree
     pkg/shell/script.go : the -compileonly branch of script
   The parser, the compiler and the execution of a compiled op are Section
   functions: the model is about WHEN they are called, under which lock, against
   which namespaces, and what happens to ev.global.  Everything the executed code
   does is an opaque list of effects returned by [exec]; the model records them
   in an event trace together with the lock events and the replacement of the
   global namespace.

   Second half of the file: the concrete observation type used by the harness,
   the independent oracle [check_C16] on observations of the implementation, and
   the judge. *)
From verif Require Import lib.Base.

(* ------------------------------------------------------------------ *)
Section EvalPhases.
  Variables source tree sns op modname perr cerr eff : Type.

  (* parse.Parse: always returns a tree, plus an error or nil *)
  Variable parse : source -> tree * option perr.
  (* eval.compile b g modules tree: (nsOp = op + template static ns), error or nil.
     [g] is cloned inside compile, so the caller's namespace is not an output. *)
  Variable compile : sns -> sns -> list modname -> tree -> (op * sns) * option cerr.
  (* running a compiled op in the frame whose local namespace has identity [N]:
     the effects of the code (outputs, variable writes, files ...) and whether it
     ended with an exception *)
  Variable exec : op -> N -> list eff * bool.

  (* The part of the Evaler that Eval/Check touch.  A runtime namespace ( *Ns ) is
     represented by its identity and its static view (ns.static()).  [ev_next] is
     the allocator for fresh *Ns identities (op.prepare always builds a new Ns). *)
  Record evaler := mkEv {
    ev_global : N; ev_gstatic : sns;
    ev_builtin : sns;
    ev_modules : list modname;
    ev_next : N }.

  Inductive event :=
  | EvLock | EvUnlock          (* ev.mu.Lock / ev.mu.Unlock *)
  | EvRLock | EvRUnlock        (* ev.mu.RLock / RUnlock *)
  | EvSetGlobal (id : N)       (* ev.global = newLocal *)
  | EvEff (e : eff).           (* something the executed code did *)

  Inductive result :=
  | RParseErr (e : perr)
  | RCompileErr (e : cerr)
  | RRan (exception : bool).

  Record eval_out := mkOut { eo_result : result; eo_trace : list event; eo_ev : evaler }.

  (* Evaler.Eval.  [cfgGlobal] = EvalCfg.Global (None = nil). *)
  Definition Eval (ev : evaler) (src : source) (cfgGlobal : option (N * sns)) : eval_out :=
    let '(t, pe) := parse src in
    match pe with
    | Some e => mkOut (RParseErr e) [] ev                       (* return err *)
    | None =>
      (* ev.mu.Lock(); b := ev.builtin *)
      let b := ev_builtin ev in
      let defaultGlobal := match cfgGlobal with None => true | Some _ => false end in
      let g := match cfgGlobal with None => ev_gstatic ev | Some (_, gs) => gs end in
      (* else-branch: ev.mu.Unlock() at once *)
      let pre := if defaultGlobal then [EvLock] else [EvLock; EvUnlock] in
      (* compile(b.static(), cfg.Global.static(), nil, tree, errFile) *)
      let '((o, tmpl), ce) := compile b g [] t in
      match ce with
      | Some e =>
        mkOut (RCompileErr e) (pre ++ (if defaultGlobal then [EvUnlock] else [])) ev
      | None =>
        (* op.prepare(fm): a new *Ns *)
        let newLocal := ev_next ev in
        let ev' :=
          if defaultGlobal
          then mkEv newLocal tmpl (ev_builtin ev) (ev_modules ev) (N.succ (ev_next ev))
          else mkEv (ev_global ev) (ev_gstatic ev) (ev_builtin ev) (ev_modules ev) (N.succ (ev_next ev)) in
        let mid := if defaultGlobal then [EvSetGlobal newLocal; EvUnlock] else [] in
        let '(effs, exc) := exec o newLocal in
        mkOut (RRan exc) (pre ++ mid ++ map EvEff effs) ev'
      end
    end.

  (* Evaler.CheckTree *)
  Definition CheckTree (ev : evaler) (t : tree) : option cerr * list event :=
    (snd (compile (ev_builtin ev) (ev_gstatic ev) (ev_modules ev) t), [EvRLock; EvRUnlock]).

  (* Evaler.Check: always compiles, even after a parse error *)
  Definition Check (ev : evaler) (src : source) : option perr * option cerr * list event :=
    let '(t, pe) := parse src in
    let '(ce, tr) := CheckTree ev t in
    (pe, ce, tr).

  Definition is_some {A} (o : option A) : bool := match o with Some _ => true | None => false end.

  Definition check_reports_error (r : option perr * option cerr * list event) : bool :=
    let '(pe, ce, _) := r in is_some pe || is_some ce.

  (* script(..., CompileOnly): exit status *)
  Definition compileonly_exit (ev : evaler) (src : source) : Z :=
    if check_reports_error (Check ev src) then 2%Z else 0%Z.

  Definition is_static (r : result) : bool :=
    match r with RParseErr _ | RCompileErr _ => true | RRan _ => false end.

  (* projections of a trace *)
  Fixpoint effects_of (tr : list event) : list eff :=
    match tr with
    | [] => []
    | EvEff e :: r => e :: effects_of r
    | _ :: r => effects_of r
    end.

  Fixpoint set_globals_of (tr : list event) : list N :=
    match tr with
    | [] => []
    | EvSetGlobal i :: r => i :: set_globals_of r
    | _ :: r => set_globals_of r
    end.

  Fixpoint count_ev (p : event -> bool) (tr : list event) : nat :=
    match tr with [] => 0%nat | e :: r => ((if p e then 1 else 0) + count_ev p r)%nat end.
  Definition is_lock (e : event) := match e with EvLock => true | _ => false end.
  Definition is_unlock (e : event) := match e with EvUnlock => true | _ => false end.

  (* The discipline of ev.mu (a sync.RWMutex) as an acceptor over traces:
     Lock needs a free mutex, Unlock needs the write lock, RUnlock a read lock;
     ev.global may only be assigned under the write lock; code runs only while the
     mutex is free (the code itself takes it, e.g. for $num-bg-jobs). *)
  Inductive lstate := LFree | LWrite | LRead (n : nat).

  Definition lock_step (s : lstate) (e : event) : option lstate :=
    match e, s with
    | EvLock, LFree => Some LWrite
    | EvUnlock, LWrite => Some LFree
    | EvRLock, LFree => Some (LRead 1)
    | EvRLock, LRead n => Some (LRead (S n))
    | EvRUnlock, LRead 1 => Some LFree
    | EvRUnlock, LRead (S (S n)) => Some (LRead (S n))
    | EvSetGlobal _, LWrite => Some LWrite
    | EvEff _, LFree => Some LFree
    | _, _ => None
    end.

  Fixpoint lock_run (s : lstate) (tr : list event) : option lstate :=
    match tr with
    | [] => Some s
    | e :: r => match lock_step s e with Some s' => lock_run s' r | None => None end
    end.

  (* a read-eval loop: evaluate the sources one after the other with the default
     global; collect results and the final evaler *)
  Fixpoint run_seq (ev : evaler) (srcs : list source) : list result * list event * evaler :=
    match srcs with
    | [] => ([], [], ev)
    | s :: r =>
      let o := Eval ev s None in
      let '(rs, tr, ev') := run_seq (eo_ev o) r in
      (eo_result o :: rs, eo_trace o ++ tr, ev')
    end.
End EvalPhases.

Arguments mkEv {sns modname}.
Arguments ev_global {sns modname}.
Arguments ev_gstatic {sns modname}.
Arguments ev_builtin {sns modname}.
Arguments ev_modules {sns modname}.
Arguments ev_next {sns modname}.
Arguments EvLock {eff}.
Arguments EvUnlock {eff}.
Arguments EvRLock {eff}.
Arguments EvRUnlock {eff}.
Arguments EvSetGlobal {eff}.
Arguments EvEff {eff}.
Arguments RParseErr {perr cerr}.
Arguments RCompileErr {perr cerr}.
Arguments RRan {perr cerr}.
Arguments eo_result {sns modname perr cerr eff}.
Arguments eo_trace {sns modname perr cerr eff}.
Arguments eo_ev {sns modname perr cerr eff}.
Arguments is_static {perr cerr}.
Arguments effects_of {eff}.
Arguments set_globals_of {eff}.
Arguments count_ev {eff}.
Arguments is_lock {eff}.
Arguments is_unlock {eff}.
Arguments lock_step {eff}.
Arguments lock_run {eff}.
Arguments check_reports_error {perr cerr eff}.

(* ------------------------------------------------------------------ *)
(* Concrete observations.  An error is observed as the list of the ranges
   (From, To) of its constituent errors; nil = no error. *)
Definition range := (N * N)%type.
Definition ranges := list range.

Definition range_eqb (a b : range) : bool := N.eqb (fst a) (fst b) && N.eqb (snd a) (snd b).
Definition ranges_eqb : ranges -> ranges -> bool := list_eqb range_eqb.

(* One observed effect of running code: a difference between the state before
   and after, or an output.  kind: 0 bytes on stdout, 1 bytes on stderr, 2 value
   outputs, 3 global variable (added / removed / changed / rebound), 4 file in the
   scratch directory, 5 environment variable, 6 builtin variable. *)
Record effect := mkEff { e_kind : N; e_name : bytes; e_old : option bytes; e_new : option bytes }.

Definition effect_eqb (a b : effect) : bool :=
  N.eqb (e_kind a) (e_kind b) && bytes_eqb (e_name a) (e_name b)
  && option_eqb bytes_eqb (e_old a) (e_old b) && option_eqb bytes_eqb (e_new a) (e_new b).
Definition effects_eqb : list effect -> list effect -> bool := list_eqb effect_eqb.

Inductive kind := KParse | KCompile | KOk | KExc.
Definition kind_eqb (a b : kind) : bool :=
  match a, b with
  | KParse, KParse | KCompile, KCompile | KOk, KOk | KExc, KExc => true
  | _, _ => false
  end.
Definition kind_static (k : kind) : bool :=
  match k with KParse | KCompile => true | _ => false end.

(* What is observed of one evaluation and of the static checks in the same context *)
Record obs := mkObs {
  o_kind : kind;                (* what Evaler.Eval returned *)
  o_ranges : ranges;            (* ranges of its parse/compilation errors ([] when it ran) *)
  o_effects : list effect;      (* every observed difference/output caused by Eval *)
  o_global_same : bool;         (* ev.Global() is the same *Ns as before *)
  o_check_parse : ranges;       (* Evaler.Check: parse error *)
  o_check_compile : ranges;     (* Evaler.Check: compilation error *)
  o_check_effects : list effect;(* differences caused by Check (none expected) *)
  o_compileonly : option (Z * ranges) (* elvish -compileonly -json: exit status, error ranges *)
}.

(* ---- the oracle: exactly the property, on observations only ---- *)
Definition nonempty {A} (l : list A) : bool := match l with [] => false | _ => true end.

Definition check_C16 (o : obs) : bool :=
  (* static error => nothing ran: no output, no change, same global namespace *)
  (if kind_static (o_kind o)
   then match o_effects o with [] => true | _ => false end && o_global_same o
   else true)
  (* the static check reports an error exactly when evaluation reports a static one *)
  && Bool.eqb (nonempty (o_check_parse o) || nonempty (o_check_compile o)) (kind_static (o_kind o))
  (* ... and it is the same error: kind and ranges *)
  && match o_kind o with
     | KParse => ranges_eqb (o_check_parse o) (o_ranges o)
     | KCompile => negb (nonempty (o_check_parse o)) && ranges_eqb (o_check_compile o) (o_ranges o)
     | _ => true
     end
  && (if kind_static (o_kind o) then nonempty (o_ranges o) else true)
  (* elvish -compileonly: status 2 and a non-empty report exactly on a static error *)
  && match o_compileonly o with
     | None => true
     | Some (ex, rs) =>
       Bool.eqb (Z.eqb ex 2) (kind_static (o_kind o))
       && Bool.eqb (nonempty rs) (kind_static (o_kind o))
       && (Z.eqb ex 2 || Z.eqb ex 0)
     end.

(* ---- the model run on the reference inputs of a case ---- *)
Definition opt_of (r : ranges) : option ranges := match r with [] => None | _ => Some r end.
Definition ranges_of (o : option ranges) : ranges := match o with Some r => r | None => [] end.

(* how Eval was called: 0 = cfg.Global nil (default), 1 = cfg.Global = ev.Global() *)
Record case := mkCase {
  c_mode : N;
  c_ref_parse : ranges;          (* parse.Parse called directly *)
  c_ref_compile : ranges;        (* CheckTree of the twin evaler (other module set) *)
  c_ref_effects : list effect;   (* what the error-free variant of the code does in the twin *)
  c_ref_exc : bool;              (* ... and whether it ends with an exception *)
  c_with_co : bool;              (* -compileonly was run (fresh-context cases) *)
  c_obs : obs }.

Definition m_parse (c : case) (_ : unit) : unit * option ranges := (tt, opt_of (c_ref_parse c)).
Definition m_compile (c : case) (_ _ : unit) (_ : list unit) (_ : unit) : (unit * unit) * option ranges :=
  ((tt, tt), opt_of (c_ref_compile c)).
Definition m_exec (c : case) (_ : unit) (_ : N) : list effect * bool := (c_ref_effects c, c_ref_exc c).

Definition ev0 : evaler unit unit := mkEv 0 tt tt [tt] 1.

Definition predict (c : case) : obs :=
  let cfg := if N.eqb (c_mode c) 0 then None else Some (ev_global ev0, ev_gstatic ev0) in
  let o := Eval unit unit unit unit unit ranges ranges effect (m_parse c) (m_compile c) (m_exec c) ev0 tt cfg in
  let '(pe, ce, _) := Check unit unit unit unit unit ranges ranges effect (m_parse c) (m_compile c) ev0 tt in
  let '(k, rs) := match eo_result o with
                  | RParseErr e => (KParse, e)
                  | RCompileErr e => (KCompile, e)
                  | RRan false => (KOk, [])
                  | RRan true => (KExc, [])
                  end in
  mkObs k rs (effects_of (eo_trace o))
        (N.eqb (ev_global (eo_ev o)) (ev_global ev0))
        (ranges_of pe) (ranges_of ce) []
        (if c_with_co c
         then Some (compileonly_exit unit unit unit unit unit ranges ranges effect (m_parse c) (m_compile c) ev0 tt,
                    ranges_of pe ++ ranges_of ce)
         else None).

Definition co_eqb (a b : option (Z * ranges)) : bool :=
  match a, b with
  | None, None => true
  | Some (x, r), Some (y, s) => Z.eqb x y && ranges_eqb r s
  | _, _ => false
  end.

Definition obs_eqb (a b : obs) : bool :=
  kind_eqb (o_kind a) (o_kind b) && ranges_eqb (o_ranges a) (o_ranges b)
  && effects_eqb (o_effects a) (o_effects b) && Bool.eqb (o_global_same a) (o_global_same b)
  && ranges_eqb (o_check_parse a) (o_check_parse b) && ranges_eqb (o_check_compile a) (o_check_compile b)
  && effects_eqb (o_check_effects a) (o_check_effects b)
  && co_eqb (o_compileonly a) (o_compileonly b).

(* the lock trace of the model run must be accepted by the mutex discipline *)
Definition model_lock_ok (c : case) : bool :=
  let cfg := if N.eqb (c_mode c) 0 then None else Some (ev_global ev0, ev_gstatic ev0) in
  let o := Eval unit unit unit unit unit ranges ranges effect (m_parse c) (m_compile c) (m_exec c) ev0 tt cfg in
  match lock_run LFree (eo_trace o) with Some LFree => true | _ => false end.

Definition judge1 (c : case) : N :=
  code (check_C16 (c_obs c)) (obs_eqb (predict c) (c_obs c) && model_lock_ok c).

Definition judge := judge_with judge1.
