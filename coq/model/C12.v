(* C12 — inexact arithmetic follows IEEE-754 after the documented conversion.
   The model of the commands is model/C11_Num.v (shared with C11).  This file
   holds the oracle: the property's text written down directly (conversion of
   every argument, then a left fold of the IEEE operation from the stated
   start), a definitional round-to-nearest-even test for the conversion, the
   value-based specification of the rounding functions, and the judge.
   Executable Gallina only. *)
From Coq Require Import QArith Qabs Qround Floats.SpecFloat.
From verif Require Import lib.Base model.C11_Num.
Open Scope Z_scope.

(* ---- the documented conversion ---- *)
(* value of a float for comparing distances; the infinities stand at +-2^1024 *)
Definition two1024 : Z := 2 ^ 1024.
Definition f_value (f : f64) : Q :=
  match f with
  | S754_finite s m e => ((if s then Zneg m else Zpos m) # 1) * Qpower (2#1) e
  | S754_infinity s => (if s then - two1024 else two1024) # 1
  | _ => 0#1
  end%Q.
Definition f_even (f : f64) : bool :=
  match f with S754_finite _ m _ => Z.even (Zpos m) | S754_nan => false | _ => true end.

(* [f] is a double nearest to [q], ties to the even mantissa, overflow to the
   infinity from 2^1024 - 2^970 on, and a zero result carries the sign of q *)
Definition is_nearest (q : Q) (f : f64) : bool :=
  let d := Qabs (q - f_value f) in
  let side (g : f64) :=
    match Qcompare d (Qabs (q - f_value g)) with Lt => true | Eq => f_even f | Gt => false end in
  match f with
  | S754_nan => false
  | S754_infinity false => Qle_bool (f_value f) q || side (SFpred prec emax f)
  | S754_infinity true => Qle_bool q (f_value f) || side (SFsucc prec emax f)
  | S754_zero s => Bool.eqb s (q_lt q (0#1)) && side (SFpred prec emax f) && side (SFsucc prec emax f)
  | S754_finite _ _ _ => fvalid f && side (SFpred prec emax f) && side (SFsucc prec emax f)
  end.

(* the conversion as a function (of_Q for every exact number in range; the
   model uses of_Z for integers) *)
Definition conv (n : num) : f64 :=
  match n with
  | NFloat f => f
  | NInt z | NBig z => if in_int z then of_Q (z # 1) else S754_infinity (z <? 0)
  | NRat q => of_Q q
  end.
(* ... and its validation against the definition, evaluated on every case *)
Definition conv_ok (n : num) : bool :=
  match n with
  | NFloat _ => true
  | NInt z | NBig z => if in_int z then is_nearest (z # 1) (conv n) else true
  | NRat q => is_nearest q (conv n)
  end.

(* ---- the rounding functions and abs, by value ---- *)
Definition round_q (md : rmode) (q : Q) : Z :=
  match md with
  | RFloor => Qfloor q | RCeil => Qceiling q | RTrunc => q_trunc q
  | RRound => q_round q | RRoundEven => q_round_even q
  end.
Definition f_sign (f : f64) : bool :=
  match f with S754_zero s | S754_infinity s | S754_finite s _ _ => s | S754_nan => false end.
(* IEEE roundToIntegral: the integer value as a double, keeping the sign (also of a
   zero result); zeros, infinities and NaN are returned unchanged *)
Definition round_ok (md : rmode) (f r : f64) : bool :=
  match f with
  | S754_finite s _ _ =>
    f_is_finite r && fvalid r && Bool.eqb (f_sign r) s
    && Qeq_bool (f_value r) (round_q md (f_value f) # 1)
  | _ => f_eqb r f
  end.
Definition abs_spec (f : f64) : f64 :=
  match f with
  | S754_zero _ => S754_zero false
  | S754_infinity _ => S754_infinity false
  | S754_nan => S754_nan
  | S754_finite _ m e => S754_finite false m e
  end.

(* ---- what the property demands of one call ---- *)
Inductive expect :=
| YFloat (f : f64)              (* this double, bit for bit (NaN by kind) *)
| YRound (md : rmode) (f : f64) (* a double satisfying round_ok *)
| YExact (q : Q)                (* an exact canonical number of this value *)
| YAny.

Definition has_float (l : list num) : bool := existsb (fun n => negb (is_exact n)) l.

Definition expect_C12 (c : cmd) (args : list num) : expect :=
  let fs := map conv args in
  match c, args with
  | CAdd, _ => if has_float args then YFloat (fold_left fadd fs fzero) else YAny
  | CMul, _ =>
    if negb (has_float args) then YAny
    else if existsb is_int0 args && negb (existsb is_inf args) then YAny  (* exact-zero rule: C11 *)
    else YFloat (fold_left fmul fs fone)
  | CSub, [a] => if has_float args then YFloat (fopp (conv a)) else YAny
  | CSub, a :: r => if has_float args then YFloat (fold_left fsub (map conv r) (conv a)) else YAny
  | CDiv, a :: r =>
    if negb (has_float args) then YAny
    else if existsb is_int0 r || is_int0 a then YAny                       (* exact-zero rules: C11 *)
    else match r with
         | [] => YFloat (fdiv fone (conv a))
         | _ => YFloat (fold_left fdiv (map conv r) (conv a))
         end
  | CFloor, [NFloat f] => YRound RFloor f
  | CCeil, [NFloat f] => YRound RCeil f
  | CTrunc, [NFloat f] => YRound RTrunc f
  | CRound, [NFloat f] => YRound RRound f
  | CRoundEven, [NFloat f] => YRound RRoundEven f
  | CAbs, [NFloat f] => YFloat (abs_spec f)
  | CInexactNum, [a] => YFloat (conv a)
  | CExactNum, [NFloat f] => if f_is_finite f then YExact (f_value f) else YAny
  | _, _ => YAny
  end.

Definition check_C12 (c : cmd) (args : list num) (obs : result) : bool :=
  match expect_C12 c args with
  | YFloat f =>
    forallb conv_ok args
    && match obs with RVals [NFloat g] => f_eqb g f | _ => false end
  | YRound md f => match obs with RVals [NFloat g] => round_ok md f g | _ => false end
  | YExact q => match obs with RVals [v] => canon_ok v && Qeq_bool (qv v) q | _ => false end
  | YAny => true
  end.

Definition judge1 (c : case) : N :=
  code (check_C12 (c_cmd c) (c_args c) (c_obs c))
       (result_eqb (call (c_cmd c) (c_args c) (c_step c)) (c_obs c)).

Definition judge := judge_with judge1.
