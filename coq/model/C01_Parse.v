(* C01/C02 — executable model of pkg/parse (parser.go, parse.go, node.go).
   Executable Gallina only; no proofs.

   What is modelled: the parser state (pos, overEOF, errors) with
   next/backup/peek over bytes using lib/Utf8 (Go's DecodeRune /
   DecodeLastRune incl. width-1 RuneError), the generic [parse] wrapper
   (From/To/sourceText), addSep/parseSep/parseSpacesInner, and every node
   parser reachable from parse.Parse: Chunk, Pipeline, Form, Redir, Compound
   (+tilde), Indexing, Array, Primary (all forms), MapPair, Sep.
   Redir moves [From] to [Left.From]; the wrapper takes the source text from
   the node's final From (the repaired behaviour, checks/C01.fixes).

   Not modelled: Primary.Value (the unquoted string; C03 covers quoting), the
   error message texts (an error carries a code = index in the list of error
   variables of parse.go), Filter (not reachable from parse.Parse), the
   warning writer, parent links (a tree is a value here).

   unicode.IsPrint is a Section variable: the harness passes the printable
   non-ASCII runes of the input; theorems hold for every table. *)
From verif Require Import lib.Base lib.Utf8 gen.Consts.
Open Scope nat_scope.

(* ---------------------------------------------------------------- trees *)
(* kind: 0 Chunk 1 Pipeline 2 Form 3 Redir 4 Compound 5 Indexing 6 Array
         7 Primary 8 MapPair 9 Sep
   attr: Primary: PrimaryType; Redir: Mode + 8*RightIsFd; Pipeline: Background;
         Compound, Indexing: ExprCtx; otherwise 0 *)
Inductive tree := T (kind attr : N) (from to : nat) (text : bytes) (ch : list tree).

Definition t_kind (t : tree) := let 'T k _ _ _ _ _ := t in k.
Definition t_attr (t : tree) := let 'T _ a _ _ _ _ := t in a.
Definition t_from (t : tree) := let 'T _ _ f _ _ _ := t in f.
Definition t_to (t : tree) := let 'T _ _ _ e _ _ := t in e.
Definition t_text (t : tree) := let 'T _ _ _ _ x _ := t in x.
Definition t_ch (t : tree) := let 'T _ _ _ _ _ c := t in c.

Definition KChunk : N := 0.   Definition KPipeline : N := 1.
Definition KForm : N := 2.    Definition KRedir : N := 3.
Definition KCompound : N := 4. Definition KIndexing : N := 5.
Definition KArray : N := 6.   Definition KPrimary : N := 7.
Definition KMapPair : N := 8. Definition KSep : N := 9.

(* a parse error as reported: range, code (which error variable), Partial *)
Inductive perr := E (from to : nat) (code : N) (partial : bool).
Definition e_from (e : perr) := let 'E f _ _ _ := e in f.
Definition e_to (e : perr) := let 'E _ t _ _ := e in t.
Definition e_code (e : perr) := let 'E _ _ c _ := e in c.
Definition e_partial (e : perr) := let 'E _ _ _ p := e in p.

(* s[a:b] *)
Definition slice (s : bytes) (a b : nat) : bytes := firstn (b - a) (skipn a s).

Fixpoint tree_eqb (a b : tree) : bool :=
  let 'T k1 a1 f1 e1 x1 c1 := a in
  let 'T k2 a2 f2 e2 x2 c2 := b in
  N.eqb k1 k2 && N.eqb a1 a2 && Nat.eqb f1 f2 && Nat.eqb e1 e2 && bytes_eqb x1 x2
  && (fix go (l1 l2 : list tree) : bool :=
        match l1, l2 with
        | [], [] => true
        | p :: r1, q :: r2 => tree_eqb p q && go r1 r2
        | _, _ => false
        end) c1 c2.

Definition perr_eqb (a b : perr) : bool :=
  Nat.eqb (e_from a) (e_from b) && Nat.eqb (e_to a) (e_to b)
  && N.eqb (e_code a) (e_code b) && Bool.eqb (e_partial a) (e_partial b).

(* ---- compact encoding used by the generated case files: positions as N, a
   node's observed text given either as the source slice it is equal to
   ([XS a b] = src[a:b], found by the runner by comparing bytes) or raw *)
Inductive etext := XS (a b : N) | XB (b : bytes).
Inductive etree := ET (kind attr from to : N) (tx : etext) (ch : list etree).
Inductive eperr := EE (from to code : N) (partial : bool).

Definition decode_text (src : bytes) (x : etext) : bytes :=
  match x with
  | XS a b => slice src (N.to_nat a) (N.to_nat b)
  | XB b => b
  end.

Fixpoint decode_tree (src : bytes) (t : etree) : tree :=
  match t with
  | ET k a f e x ch =>
    T k a (N.to_nat f) (N.to_nat e) (decode_text src x) (map (decode_tree src) ch)
  end.

Definition decode_err (e : eperr) : perr :=
  let 'EE f t c p := e in E (N.to_nat f) (N.to_nat t) c p.

(* error codes: index of the error variable in parse.go's var block; 21 = the
   "unexpected rune" error of parser.done *)
Definition errShouldBeForm : N := 0.
Definition errBadRedirSign : N := 1.
Definition errShouldBeFD : N := 2.
Definition errShouldBeFilename : N := 3.
Definition errShouldBeArray : N := 4.
Definition errStringUnterminated : N := 5.
Definition errInvalidEscape : N := 6.
Definition errInvalidEscapeOct : N := 7.
Definition errInvalidEscapeOctOverflow : N := 8.
Definition errInvalidEscapeHex : N := 9.
Definition errInvalidEscapeControl : N := 10.
Definition errShouldBePrimary : N := 11.
Definition errShouldBeVariableName : N := 12.
Definition errShouldBeRBracket : N := 13.
Definition errShouldBeRBrace : N := 14.
Definition errShouldBeBraceSepOrRBracket : N := 15.
Definition errShouldBeRParen : N := 16.
Definition errShouldBeCompound : N := 17.
Definition errShouldBePipe : N := 18.
Definition errBothElementsAndPairs : N := 19.
Definition errShouldBeNewline : N := 20.
Definition errUnexpectedRune : N := 21.

(* ------------------------------------------------------- runes, classes *)
Definition rune := Z.
Definition EOF : rune := pkg_parse.eof.   (* -1 *)

Open Scope Z_scope.
Definition isInlineWhitespace (r : rune) : bool := (r =? 32) || (r =? 9).
Definition isWhitespace (r : rune) : bool := isInlineWhitespace r || (r =? 13) || (r =? 10).
Definition isPipelineSep (r : rune) : bool := (r =? 13) || (r =? 10) || (r =? 59).
Definition isRedirSign (r : rune) : bool := (r =? 60) || (r =? 62).

(* ExprCtx values, from the generated constants *)
Definition NormalExpr : N := Z.to_N pkg_parse.NormalExpr.
Definition CmdExpr : N := Z.to_N pkg_parse.CmdExpr.
Definition LHSExpr : N := Z.to_N pkg_parse.LHSExpr.
Definition BracedElemExpr : N := Z.to_N pkg_parse.BracedElemExpr.
Definition strictExpr : N := Z.to_N pkg_parse.strictExpr.

(* PrimaryType values *)
Definition PBad : N := Z.to_N pkg_parse.BadPrimary.
Definition PBareword : N := Z.to_N pkg_parse.Bareword.
Definition PSingleQuoted : N := Z.to_N pkg_parse.SingleQuoted.
Definition PDoubleQuoted : N := Z.to_N pkg_parse.DoubleQuoted.
Definition PVariable : N := Z.to_N pkg_parse.Variable_.
Definition PWildcard : N := Z.to_N pkg_parse.Wildcard.
Definition PTilde : N := Z.to_N pkg_parse.Tilde.
Definition PExceptionCapture : N := Z.to_N pkg_parse.ExceptionCapture.
Definition POutputCapture : N := Z.to_N pkg_parse.OutputCapture.
Definition PList : N := Z.to_N pkg_parse.List.
Definition PLambda : N := Z.to_N pkg_parse.Lambda.
Definition PMap : N := Z.to_N pkg_parse.Map.
Definition PBraced : N := Z.to_N pkg_parse.Braced.

(* RedirMode values *)
Definition MBad : N := Z.to_N pkg_parse.BadRedirMode.
Definition MRead : N := Z.to_N pkg_parse.Read.
Definition MWrite : N := Z.to_N pkg_parse.Write.
Definition MReadWrite : N := Z.to_N pkg_parse.ReadWrite.
Definition MAppend : N := Z.to_N pkg_parse.Append.
Close Scope Z_scope.

Section Parser.
(* unicode.IsPrint on runes >= 0x80 (contract: any predicate) *)
Variable is_print : N -> bool.
(* the source text *)
Variable src : bytes.

Definition n : nat := length src.

Open Scope Z_scope.
Definition allowedInVariableName (r : rune) : bool :=
  ((128 <=? r) && is_print (Z.to_N r))
  || ((48 <=? r) && (r <=? 57))
  || ((97 <=? r) && (r <=? 122))
  || ((65 <=? r) && (r <=? 90))
  || (r =? 45) || (r =? 95) || (r =? 58) || (r =? 126).

Definition allowedInBareword (r : rune) (ctx : N) : bool :=
  allowedInVariableName r || (r =? 46) || (r =? 47) || (r =? 92) || (r =? 64)
  || (r =? 37) || (r =? 43) || (r =? 33)
  || (negb (N.eqb ctx LHSExpr) && negb (N.eqb ctx strictExpr) && (r =? 61))
  || (negb (N.eqb ctx BracedElemExpr) && negb (N.eqb ctx strictExpr) && (r =? 44))
  || (N.eqb ctx CmdExpr && ((r =? 60) || (r =? 62) || (r =? 42) || (r =? 94))).

Definition startsPrimary (r : rune) (ctx : N) : bool :=
  (r =? 39) || (r =? 34) || (r =? 36) || allowedInBareword r ctx
  || (r =? 63) || (r =? 42) || (r =? 40) || (r =? 91) || (r =? 123).
Definition startsIndexing := startsPrimary.
Definition startsCompound := startsIndexing.
Definition startsArray (r : rune) : bool := isWhitespace r || startsIndexing r NormalExpr.
Definition startsForm (r : rune) : bool := isInlineWhitespace r || startsCompound r CmdExpr.
Definition startsPipeline := startsForm.
Definition isBracedSep (r : rune) : bool := (r =? 44) || isWhitespace r.
Definition isHexDigit (r : rune) : bool :=
  ((48 <=? r) && (r <=? 57)) || ((97 <=? r) && (r <=? 102)) || ((65 <=? r) && (r <=? 70)).
(* keys of the doubleEscape table: a b f n r t v backslash dquote e *)
Definition isDoubleEscape (r : rune) : bool :=
  (r =? 97) || (r =? 98) || (r =? 102) || (r =? 110) || (r =? 114) || (r =? 116)
  || (r =? 118) || (r =? 92) || (r =? 34) || (r =? 101).
Close Scope Z_scope.

(* ------------------------------------------------------------ the state *)
(* errors are kept newest first as (from, to, code); Partial is computed from
   [from] when the list is reported (errorp: Partial = (From == len(src))) *)
Record pst := mkPst { pos : nat; overEOF : nat; errs : list (nat * nat * N) }.

Definition peek (ps : pst) : rune :=
  if Nat.eqb (pos ps) n then EOF
  else Z.of_N (fst (decode_rune (skipn (pos ps) src))).

Definition next (ps : pst) : rune * pst :=
  if Nat.eqb (pos ps) n then (EOF, mkPst (pos ps) (S (overEOF ps)) (errs ps))
  else let '(r, w) := decode_rune (skipn (pos ps) src) in
       (Z.of_N r, mkPst (pos ps + w) (overEOF ps) (errs ps)).

Definition adv (ps : pst) : pst := snd (next ps).

Definition backup (ps : pst) : pst :=
  match overEOF ps with
  | S k => mkPst (pos ps) k (errs ps)
  | O => let '(_, w) := decode_last_rune (firstn (pos ps) src) in
         mkPst (pos ps - w) 0 (errs ps)
  end.

(* ps.errorp with an explicit range *)
Definition errorp (from to : nat) (code : N) (ps : pst) : pst :=
  mkPst (pos ps) (overEOF ps) ((from, to, code) :: errs ps).

(* ps.error: [pos, pos+1) clipped at the end of the source *)
Definition error (code : N) (ps : pst) : pst :=
  errorp (pos ps) (if Nat.ltb (pos ps) n then S (pos ps) else pos ps) code ps.

Definition hasPrefix2 (ps : pst) (a b : N) : bool :=
  match skipn (pos ps) src with
  | x :: y :: _ => N.eqb x a && N.eqb y b
  | _ => false
  end.

(* ------------------------------------------------------ the node builder *)
(* the node being built: its From and its children, newest first *)
Record nb := mkNb { nb_from : nat; nb_ch : list tree }.

Definition push (t : tree) (b : nb) : nb := mkNb (nb_from b) (t :: nb_ch b).

Definition mkSep (a b : nat) : tree := T KSep 0 a b (slice src a b) [].

(* addSep: a Sep child for the text between the last child and pos *)
Definition addSep (b : nb) (ps : pst) : nb :=
  let begin := match nb_ch b with t :: _ => t_to t | [] => nb_from b end in
  if Nat.ltb begin (pos ps) then push (mkSep begin (pos ps)) b else b.

Definition parseSep (b : nb) (ps : pst) (sep : rune) : bool * nb * pst :=
  if Z.eqb (peek ps) sep then let ps1 := adv ps in (true, addSep b ps1, ps1)
  else (false, b, ps).

(* the generic parse wrapper's epilogue: To = pos, sourceText = src[From:pos]
   with the node's final From *)
Definition finish (k attr : N) (b : nb) (ps : pst) : tree :=
  T k attr (nb_from b) (pos ps) (slice src (nb_from b) (pos ps)) (rev (nb_ch b)).

Notation "'do' x <- e ; f" := (match e with Some x => f | None => None end)
  (at level 200, x pattern, e at level 100, f at level 200, only parsing).

(* fuel for the leaf loops: each iteration consumes at least one byte *)
Definition lfuel : nat := S n.

(* ------------------------------------------------------------ leaf loops *)
Open Scope Z_scope.

(* the comment loop of parseSpacesInner *)
Fixpoint commentLoop (fu : nat) (ps : pst) : option pst :=
  match fu with
  | O => None
  | S fu' =>
    let r := peek ps in
    if (r =? EOF) || (r =? 13) || (r =? 10) then Some ps
    else commentLoop fu' (adv ps)
  end.

Fixpoint spacesLoop (fu : nat) (newlines : bool) (ps : pst) : option pst :=
  match fu with
  | O => None
  | S fu' =>
    let r := peek ps in
    if isInlineWhitespace r then spacesLoop fu' newlines (adv ps)
    else if newlines && isWhitespace r then spacesLoop fu' newlines (adv ps)
    else if r =? 35 then
      do ps1 <- commentLoop lfuel (adv ps); spacesLoop fu' newlines ps1
    else if r =? 94 then
      let ps1 := adv ps in
      let r1 := peek ps1 in
      if r1 =? 13 then
        let ps2 := adv ps1 in
        if peek ps2 =? 10 then spacesLoop fu' newlines (adv ps2)
        else spacesLoop fu' newlines ps2
      else if r1 =? 10 then spacesLoop fu' newlines (adv ps1)
      else if r1 =? EOF then spacesLoop fu' newlines (error errShouldBeNewline ps1)
      else Some (backup ps1)
    else Some ps
  end.

Definition parseSpacesInner (b : nb) (ps : pst) (newlines : bool) : option (nb * pst) :=
  do ps1 <- spacesLoop lfuel newlines ps; Some (addSep b ps1, ps1).
Definition parseSpaces b ps := parseSpacesInner b ps false.
Definition parseSpacesAndNewlines b ps := parseSpacesInner b ps true.

(* Chunk.parseSeps; returns whether any pipeline separator was parsed *)
Fixpoint parseSepsLoop (fu : nat) (b : nb) (ps : pst) (any : bool) : option (nb * pst * bool) :=
  match fu with
  | O => None
  | S fu' =>
    let r := peek ps in
    if isPipelineSep r then
      let '(_, b1, ps1) := parseSep b ps r in parseSepsLoop fu' b1 ps1 true
    else if isInlineWhitespace r || (r =? 35) then
      do (b1, ps1) <- parseSpaces b ps; parseSepsLoop fu' b1 ps1 any
    else Some (b, ps, any)
  end.
Definition parseSeps (b : nb) (ps : pst) := parseSepsLoop lfuel b ps false.

Fixpoint redirSignLoop (fu : nat) (ps : pst) : option pst :=
  match fu with
  | O => None
  | S fu' => if isRedirSign (peek ps) then redirSignLoop fu' (adv ps) else Some ps
  end.

Fixpoint barewordLoop (fu : nat) (ctx : N) (ps : pst) : option pst :=
  match fu with
  | O => None
  | S fu' => if allowedInBareword (peek ps) ctx then barewordLoop fu' ctx (adv ps) else Some ps
  end.

Fixpoint varNameLoop (fu : nat) (ps : pst) : option pst :=
  match fu with
  | O => None
  | S fu' => if allowedInVariableName (peek ps) then varNameLoop fu' (adv ps) else Some ps
  end.

Fixpoint starLoop (fu : nat) (ps : pst) : option pst :=
  match fu with
  | O => None
  | S fu' => if peek ps =? 42 then starLoop fu' (adv ps) else Some ps
  end.

Fixpoint singleQuotedInner (fu : nat) (ps : pst) : option pst :=
  match fu with
  | O => None
  | S fu' =>
    let '(r, ps1) := next ps in
    if r =? EOF then Some (error errStringUnterminated ps1)
    else if r =? 39 then
      if peek ps1 =? 39 then singleQuotedInner fu' (adv ps1) else Some ps1
    else singleQuotedInner fu' ps1
  end.

(* up to k hex digits; stops with an error at the first non-digit *)
Fixpoint hexLoop (k : nat) (ps : pst) : pst :=
  match k with
  | O => ps
  | S k' =>
    let '(r, ps1) := next ps in
    if isHexDigit r then hexLoop k' ps1
    else error errInvalidEscapeHex (backup ps1)
  end.

Fixpoint octLoop (k : nat) (rr : Z) (ps : pst) : Z * pst :=
  match k with
  | O => (rr, ps)
  | S k' =>
    let '(r, ps1) := next ps in
    if (r <? 48) || (55 <? r) then (rr, error errInvalidEscapeOct (backup ps1))
    else octLoop k' (rr * 8 + (r - 48)) ps1
  end.

Fixpoint doubleQuotedInner (fu : nat) (ps : pst) : option pst :=
  match fu with
  | O => None
  | S fu' =>
    let '(r, ps1) := next ps in
    if r =? EOF then Some (error errStringUnterminated ps1)
    else if r =? 34 then Some ps1
    else if r =? 92 then
      let '(r2, ps2) := next ps1 in
      if (r2 =? 99) || (r2 =? 94) then
        let '(r3, ps3) := next ps2 in
        let ps4 := if (r3 <? 63) || (95 <? r3)
                   then adv (error errInvalidEscapeControl (backup ps3)) else ps3 in
        doubleQuotedInner fu' ps4
      else if (r2 =? 120) || (r2 =? 117) || (r2 =? 85) then
        let k := if r2 =? 120 then 2%nat else if r2 =? 117 then 4%nat else 8%nat in
        doubleQuotedInner fu' (hexLoop k ps2)
      else if (48 <=? r2) && (r2 <=? 55) then
        let '(rr, ps3) := octLoop 2 (r2 - 48) ps2 in
        let ps4 := if rr <=? 255 then ps3
                   else errorp (pos ps3 - 4) (pos ps3) errInvalidEscapeOctOverflow ps3 in
        doubleQuotedInner fu' ps4
      else if isDoubleEscape r2 then doubleQuotedInner fu' ps2
      else doubleQuotedInner fu' (adv (error errInvalidEscape (backup ps2)))
    else doubleQuotedInner fu' ps1
  end.

(* Primary.variable, after peek = '$' *)
Definition variable (ps : pst) : option pst :=
  let ps1 := adv ps in
  let '(r, ps2) := next ps1 in
  if r =? EOF then Some (adv (error errShouldBeVariableName (backup ps2)))
  else if r =? 39 then singleQuotedInner lfuel ps2
  else if r =? 34 then doubleQuotedInner lfuel ps2
  else
    let ps3 := if negb (allowedInVariableName r) && negb (r =? 64)
               then error errShouldBeVariableName (backup ps2) else ps2 in
    varNameLoop lfuel ps3.
Close Scope Z_scope.

(* --------------------------------------------- the recursive node parsers *)
(* One fuel-indexed Fixpoint [parsers] returns, for a fuel level, the record
   of all mutually recursive parse functions; each body below is written
   against the record of the previous level (its callees). *)
Record callees := mkC {
  cChunk : pst -> option (tree * pst);
  cChunkLoop : nb -> pst -> option (nb * pst);
  cPipeline : pst -> option (tree * pst);
  cPipelineLoop : nb -> pst -> option (nb * pst * bool);
  cForm : pst -> option (tree * pst);
  cFormLoop : nb -> pst -> option (nb * pst);
  cRedir : option tree -> pst -> option (tree * pst);
  cCompound : N -> pst -> option (tree * pst);
  cCompoundLoop : N -> nb -> pst -> option (nb * pst);
  cIndexing : N -> pst -> option (tree * pst);
  cIndexingLoop : nb -> pst -> option (nb * pst);
  cArray : pst -> option (tree * pst);
  cArrayLoop : nb -> pst -> option (nb * pst);
  cPrimary : N -> pst -> option (tree * pst);
  cLbracketLoop : nb -> bool -> bool -> pst -> option (nb * pst * (bool * bool * bool));
  cLambdaLoop : nb -> pst -> option (nb * pst);
  cBracedLoop : nb -> pst -> option (nb * pst);
  cMapPair : pst -> option (tree * pst)
}.

Section Bodies.
Variable c : callees.
Open Scope Z_scope.

(* Chunk = { PipelineSep | Space } { Pipeline { PipelineSep | Space } } *)
Definition chunk_body (ps : pst) : option (tree * pst) :=
  let begin := pos ps in
  do (b1, ps1, _) <- parseSeps (mkNb begin []) ps;
  do (b2, ps2) <- cChunkLoop c b1 ps1;
  Some (finish KChunk 0 b2 ps2, ps2).

Definition chunkLoop_body (b : nb) (ps : pst) : option (nb * pst) :=
  if startsPipeline (peek ps) then
    do (t, ps1) <- cPipeline c ps;
    do (b2, ps2, any) <- parseSeps (push t b) ps1;
    if any : bool then cChunkLoop c b2 ps2 else Some (b2, ps2)
  else Some (b, ps).

(* Pipeline = Form { '|' Form } *)
Definition pipeline_body (ps : pst) : option (tree * pst) :=
  let begin := pos ps in
  do (t, ps1) <- cForm c ps;
  do (b2, ps2, ok) <- cPipelineLoop c (push t (mkNb begin [])) ps1;
  if negb ok then Some (finish KPipeline 0 b2 ps2, ps2) else
  do (b3, ps3) <- parseSpaces b2 ps2;
  if peek ps3 =? 38 then
    let ps4 := adv ps3 in
    let b4 := addSep b3 ps4 in
    do (b5, ps5) <- parseSpaces b4 ps4;
    Some (finish KPipeline 1 b5 ps5, ps5)
  else Some (finish KPipeline 0 b3 ps3, ps3).

(* the bool is false when the loop returned from Pipeline.parse early *)
Definition pipelineLoop_body (b : nb) (ps : pst) : option (nb * pst * bool) :=
  let '(ok, b1, ps1) := parseSep b ps 124 in
  if negb ok then Some (b, ps, true) else
  do (b2, ps2) <- parseSpacesAndNewlines b1 ps1;
  if negb (startsForm (peek ps2)) then Some (b2, error errShouldBeForm ps2, false)
  else do (t, ps3) <- cForm c ps2; cPipelineLoop c (push t b2) ps3.

(* Form = Compound-CmdExpr { Space } { ( Compound | MapPair | Redir ) { Space } } *)
Definition form_body (ps : pst) : option (tree * pst) :=
  let begin := pos ps in
  do (t, ps1) <- cCompound c CmdExpr ps;
  do (b2, ps2) <- parseSpaces (push t (mkNb begin [])) ps1;
  do (b3, ps3) <- cFormLoop c b2 ps2;
  Some (finish KForm 0 b3 ps3, ps3).

Definition formLoop_body (b : nb) (ps : pst) : option (nb * pst) :=
  let r := peek ps in
  if r =? 38 then
    let ps1 := adv ps in
    let hasMapPair := startsCompound (peek ps1) LHSExpr in
    let ps2 := backup ps1 in
    if negb hasMapPair then Some (b, ps2)    (* background indicator *)
    else
      do (t, ps3) <- cMapPair c ps2;
      do (b4, ps4) <- parseSpaces (push t b) ps3;
      cFormLoop c b4 ps4
  else if startsCompound r NormalExpr then
    do (cn, ps1) <- cCompound c NormalExpr ps;
    if isRedirSign (peek ps1) then
      do (t, ps2) <- cRedir c (Some cn) ps1;
      do (b3, ps3) <- parseSpaces (push t b) ps2;
      cFormLoop c b3 ps3
    else
      do (b3, ps3) <- parseSpaces (push cn b) ps1;
      cFormLoop c b3 ps3
  else if isRedirSign r then
    do (t, ps1) <- cRedir c None ps;
    do (b2, ps2) <- parseSpaces (push t b) ps1;
    cFormLoop c b2 ps2
  else Some (b, ps).

(* Redir = { Compound } { '<'|'>'|'<>'|'>>' } { Space } ( '&'? Compound ).
   [begin] is the position after Left (the wrapper ran after Left was parsed);
   From is moved to Left.From. *)
Definition redir_body (left : option tree) (ps : pst) : option (tree * pst) :=
  let begin := pos ps in
  let b0 := match left with
            | Some l => mkNb (t_from l) [l]
            | None => mkNb begin []
            end in
  do ps1 <- redirSignLoop lfuel ps;
  let sign := slice src begin (pos ps1) in
  let '(mode, ps2) :=
    if bytes_eqb sign [60%N] then (MRead, ps1)
    else if bytes_eqb sign [62%N] then (MWrite, ps1)
    else if bytes_eqb sign [62%N; 62%N] then (MAppend, ps1)
    else if bytes_eqb sign [60%N; 62%N] then (MReadWrite, ps1)
    else (MBad, error errBadRedirSign ps1) in
  let b1 := addSep b0 ps2 in
  do (b2, ps3) <- parseSpaces b1 ps2;
  let '(isfd, b3, ps4) := parseSep b2 ps3 38 in
  do (t, ps5) <- cCompound c NormalExpr ps4;
  let b4 := push t b3 in
  let ps6 := match t_ch t with
             | [] => error (if isfd then errShouldBeFD else errShouldBeFilename) ps5
             | _ => ps5
             end in
  Some (finish KRedir (mode + (if isfd then 8 else 0))%N b4 ps6, ps6).

(* Compound = { Indexing }, with the tilde special case *)
Definition compound_body (ctx : N) (ps : pst) : option (tree * pst) :=
  let begin := pos ps in
  let b0 := mkNb begin [] in
  let '(b1, ps1) :=
    if peek ps =? 126 then
      let ps1 := adv ps in
      let p := T KPrimary PTilde (pos ps1 - 1) (pos ps1) [126%N] [] in
      let i := T KIndexing NormalExpr (pos ps1 - 1) (pos ps1) [126%N] [p] in
      (push i b0, ps1)
    else (b0, ps) in
  do (b2, ps2) <- cCompoundLoop c ctx b1 ps1;
  Some (finish KCompound ctx b2 ps2, ps2).

Definition compoundLoop_body (ctx : N) (b : nb) (ps : pst) : option (nb * pst) :=
  if startsIndexing (peek ps) ctx then
    do (t, ps1) <- cIndexing c ctx ps;
    cCompoundLoop c ctx (push t b) ps1
  else Some (b, ps).

(* Indexing = Primary { '[' Array ']' } *)
Definition indexing_body (ctx : N) (ps : pst) : option (tree * pst) :=
  let begin := pos ps in
  do (t, ps1) <- cPrimary c ctx ps;
  do (b2, ps2) <- cIndexingLoop c (push t (mkNb begin [])) ps1;
  Some (finish KIndexing ctx b2 ps2, ps2).

Definition indexingLoop_body (b : nb) (ps : pst) : option (nb * pst) :=
  let '(ok, b1, ps1) := parseSep b ps 91 in
  if negb ok then Some (b, ps) else
  let ps2 := if negb (startsArray (peek ps1)) && negb (peek ps1 =? 93)
             then error errShouldBeArray ps1 else ps1 in
  do (t, ps3) <- cArray c ps2;
  let '(ok2, b4, ps4) := parseSep (push t b1) ps3 93 in
  if negb ok2 then Some (b4, error errShouldBeRBracket ps4)
  else cIndexingLoop c b4 ps4.

(* Array = { Space | '\n' } { Compound { Space | '\n' } } *)
Definition array_body (ps : pst) : option (tree * pst) :=
  let begin := pos ps in
  do (b1, ps1) <- parseSpacesAndNewlines (mkNb begin []) ps;
  do (b2, ps2) <- cArrayLoop c b1 ps1;
  Some (finish KArray 0 b2 ps2, ps2).

Definition arrayLoop_body (b : nb) (ps : pst) : option (nb * pst) :=
  if startsCompound (peek ps) NormalExpr then
    do (t, ps1) <- cCompound c NormalExpr ps;
    do (b2, ps2) <- parseSpacesAndNewlines (push t b) ps1;
    cArrayLoop c b2 ps2
  else Some (b, ps).

(* the item loop of lbracket; the flags are (loneAmpersand, hasPairs, hasElems) *)
Definition lbracketLoop_body (b : nb) (hasP hasE : bool) (ps : pst)
  : option (nb * pst * (bool * bool * bool)) :=
  let r := peek ps in
  if r =? 38 then
    let ps1 := adv ps in
    let hasMapPair := startsCompound (peek ps1) LHSExpr in
    if negb hasMapPair then
      let b1 := addSep b ps1 in
      do (b2, ps2) <- parseSpacesAndNewlines b1 ps1;
      Some (b2, ps2, (true, hasP, hasE))
    else
      let ps2 := backup ps1 in
      do (t, ps3) <- cMapPair c ps2;
      do (b4, ps4) <- parseSpacesAndNewlines (push t b) ps3;
      cLbracketLoop c b4 true hasE ps4
  else if startsCompound r NormalExpr then
    do (t, ps1) <- cCompound c NormalExpr ps;
    do (b2, ps2) <- parseSpacesAndNewlines (push t b) ps1;
    cLbracketLoop c b2 hasP true ps2
  else Some (b, ps, (false, hasP, hasE)).

Definition lambdaLoop_body (b : nb) (ps : pst) : option (nb * pst) :=
  let r := peek ps in
  if r =? 38 then
    do (t, ps1) <- cMapPair c ps;
    do (b2, ps2) <- parseSpacesAndNewlines (push t b) ps1;
    cLambdaLoop c b2 ps2
  else if startsCompound r NormalExpr then
    do (t, ps1) <- cCompound c NormalExpr ps;
    do (b2, ps2) <- parseSpacesAndNewlines (push t b) ps1;
    cLambdaLoop c b2 ps2
  else Some (b, ps).

Definition bracedLoop_body (b : nb) (ps : pst) : option (nb * pst) :=
  if isBracedSep (peek ps) then
    do (b1, ps1) <- parseSpacesAndNewlines b ps;
    let '(_, b2, ps2) := parseSep b1 ps1 44 in
    do (b3, ps3) <- parseSpacesAndNewlines b2 ps2;
    do (t, ps4) <- cCompound c BracedElemExpr ps3;
    cBracedLoop c (push t b3) ps4
  else Some (b, ps).

(* parseSep that reports [code] when the separator is missing *)
Definition expectSep (b : nb) (ps : pst) (sep : rune) (code : N) : nb * pst :=
  let '(ok, b1, ps1) := parseSep b ps sep in
  if ok : bool then (b1, ps1) else (b1, error code ps1).

Definition primary_body (ctx : N) (ps : pst) : option (tree * pst) :=
  let begin := pos ps in
  let b0 := mkNb begin [] in
  let leaf (ty : N) (ps' : pst) := Some (finish KPrimary ty b0 ps', ps') in
  let r := peek ps in
  if negb (startsPrimary r ctx) then leaf PBad (error errShouldBePrimary ps)
  else if allowedInBareword r ctx then
    do ps1 <- barewordLoop lfuel ctx ps; leaf PBareword ps1
  else if r =? 39 then
    do ps1 <- singleQuotedInner lfuel (adv ps); leaf PSingleQuoted ps1
  else if r =? 34 then
    do ps1 <- doubleQuotedInner lfuel (adv ps); leaf PDoubleQuoted ps1
  else if r =? 36 then
    do ps1 <- variable ps; leaf PVariable ps1
  else if r =? 42 then
    do ps1 <- starLoop lfuel ps; leaf PWildcard ps1
  else if r =? 63 then
    if hasPrefix2 ps 63 40 then
      (* exitusCapture *)
      let ps1 := adv (adv ps) in
      let b1 := addSep b0 ps1 in
      do (t, ps2) <- cChunk c ps1;
      let '(b3, ps3) := expectSep (push t b1) ps2 41 errShouldBeRParen in
      Some (finish KPrimary PExceptionCapture b3 ps3, ps3)
    else
      (* questionWildcard *)
      let ps1 := if peek ps =? 63 then adv ps else ps in leaf PWildcard ps1
  else if r =? 40 then
    (* outputCapture *)
    let '(_, b1, ps1) := parseSep b0 ps 40 in
    do (t, ps2) <- cChunk c ps1;
    let '(b3, ps3) := expectSep (push t b1) ps2 41 errShouldBeRParen in
    Some (finish KPrimary POutputCapture b3 ps3, ps3)
  else if r =? 91 then
    (* lbracket *)
    let '(_, b1, ps1) := parseSep b0 ps 91 in
    do (b2, ps2) <- parseSpacesAndNewlines b1 ps1;
    do (b3, ps3, fl) <- cLbracketLoop c b2 false false ps2;
    let '(lone, hasP, hasE) := fl in
    let '(b4, ps4) := expectSep b3 ps3 93 errShouldBeRBracket in
    if lone || hasP then
      let ps5 := if hasE : bool then error errBothElementsAndPairs ps4 else ps4 in
      Some (finish KPrimary PMap b4 ps5, ps5)
    else Some (finish KPrimary PList b4 ps4, ps4)
  else if r =? 123 then
    (* lbrace *)
    let '(_, b1, ps1) := parseSep b0 ps 123 in
    let r1 := peek ps1 in
    if (r1 =? 59) || (r1 =? 13) || (r1 =? 10) || (r1 =? 124) || isInlineWhitespace r1 then
      (* lambda *)
      do (b2, ps2) <- parseSpacesAndNewlines b1 ps1;
      let '(bar, b3, ps3) := parseSep b2 ps2 124 in
      do (b6, ps6) <-
        (if bar : bool then
           do (b4, ps4) <- parseSpacesAndNewlines b3 ps3;
           do (b5, ps5) <- cLambdaLoop c b4 ps4;
           Some (expectSep b5 ps5 124 errShouldBePipe)
         else Some (b3, ps3));
      do (t, ps7) <- cChunk c ps6;
      let '(b8, ps8) := expectSep (push t b6) ps7 125 errShouldBeRBrace in
      Some (finish KPrimary PLambda b8 ps8, ps8)
    else
      (* braced *)
      do (t, ps2) <- cCompound c BracedElemExpr ps1;
      do (b3, ps3) <- cBracedLoop c (push t b1) ps2;
      let '(b4, ps4) := expectSep b3 ps3 125 errShouldBeBraceSepOrRBracket in
      Some (finish KPrimary PBraced b4 ps4, ps4)
  else leaf PBareword ps.   (* "Parse an empty bareword" *)

(* MapPair = '&' { Space } Compound { Space } Compound *)
Definition mapPair_body (ps : pst) : option (tree * pst) :=
  let begin := pos ps in
  let '(_, b1, ps1) := parseSep (mkNb begin []) ps 38 in
  do (k, ps2) <- cCompound c LHSExpr ps1;
  let b2 := push k b1 in
  let ps3 := match t_ch k with [] => error errShouldBeCompound ps2 | _ => ps2 end in
  let '(eq, b4, ps4) := parseSep b2 ps3 61 in
  if eq : bool then
    do (b5, ps5) <- parseSpacesAndNewlines b4 ps4;
    do (v, ps6) <- cCompound c NormalExpr ps5;
    Some (finish KMapPair 0 (push v b5) ps6, ps6)
  else Some (finish KMapPair 0 b4 ps4, ps4).

Close Scope Z_scope.
End Bodies.

Definition callees0 : callees :=
  mkC (fun _ => None) (fun _ _ => None) (fun _ => None) (fun _ _ => None)
      (fun _ => None) (fun _ _ => None) (fun _ _ => None) (fun _ _ => None)
      (fun _ _ _ => None) (fun _ _ => None) (fun _ _ => None) (fun _ => None)
      (fun _ _ => None) (fun _ _ => None) (fun _ _ _ _ => None) (fun _ _ => None)
      (fun _ _ => None) (fun _ => None).

Definition step (c : callees) : callees :=
  mkC (chunk_body c) (chunkLoop_body c) (pipeline_body c) (pipelineLoop_body c)
      (form_body c) (formLoop_body c) (redir_body c) (compound_body c)
      (compoundLoop_body c) (indexing_body c) (indexingLoop_body c) (array_body c)
      (arrayLoop_body c) (primary_body c) (lbracketLoop_body c) (lambdaLoop_body c)
      (bracedLoop_body c) (mapPair_body c).

Fixpoint parsers (fuel : nat) : callees :=
  match fuel with
  | O => callees0
  | S f => step (parsers f)
  end.

(* ------------------------------------------------------------ parse.Parse *)
Definition ps0 : pst := mkPst 0 0 [].

(* parser.done *)
Definition done (ps : pst) : pst :=
  if Nat.eqb (pos ps) n then ps else error errUnexpectedRune ps.

Definition mk_err (e : nat * nat * N) : perr :=
  let '(f, t, cd) := e in E f t cd (Nat.eqb f n).

Definition report (ps : pst) : list perr := map mk_err (rev (errs ps)).

(* None = out of fuel *)
Definition parse_fuel (fuel : nat) : option (tree * list perr) :=
  do (t, ps) <- cChunk (parsers fuel) ps0;
  Some (t, report (done ps)).

(* every call chain consumes a byte within FUELK calls *)
Definition FUELK : nat := 24.
Definition parse_model : option (tree * list perr) := parse_fuel (FUELK * n + FUELK).

End Parser.

(* pkg/edit isSyntaxComplete: no parse error starts at the end of the code *)
Definition isSyntaxComplete (code : bytes) (errors : list perr) : bool :=
  forallb (fun e => negb (Nat.eqb (e_from e) (length code))) errors.

(* membership table used to instantiate unicode.IsPrint from the harness *)
Definition print_table (l : list N) (r : N) : bool := existsb (N.eqb r) l.
